(* ContourIntProofs.v — lemmas about the contour-integral model ContourInt.v (real-number reading RA). *)
From Coq Require Import ZArith List Bool Arith Lia Reals Lra Psatz.
From Coquelicot Require Import Coquelicot.
From XF Require Import Arith Locate ContourInt IntegralsEProofs IntegralsRevolProofs.
Import ListNotations.
Local Open Scope R_scope.

Local Notation C := (R * R)%type.

(* ------------------------------------------------------------------------------------------------ *)
(* lists of consecutive pairs                                                                       *)
(* ------------------------------------------------------------------------------------------------ *)
Lemma pairs_app {P : Type} (c1 c2 : list P) (j : P) :
  pairs (c1 ++ j :: c2) = pairs (c1 ++ [j]) ++ pairs (j :: c2).
Proof.
  induction c1 as [|a c1 IH]; [reflexivity|].
  destruct c1 as [|b c1]; [reflexivity|].
  change (pairs ((a :: b :: c1) ++ j :: c2)) with ((a, b) :: pairs ((b :: c1) ++ j :: c2)).
  rewrite IH. reflexivity.
Qed.

Lemma pairs_length {P : Type} (c : list P) : length (pairs c) = (length c - 1)%nat.
Proof.
  induction c as [|a c IH]; [reflexivity|].
  destruct c as [|b c]; [reflexivity|].
  change (pairs (a :: b :: c)) with ((a, b) :: pairs (b :: c)). cbn [length] in *. lia.
Qed.

Definition swap {P : Type} (p : P * P) : P * P := (snd p, fst p).

Lemma pairs_rev {P : Type} (c : list P) : pairs (rev c) = map swap (rev (pairs c)).
Proof.
  induction c as [|a c IH]; [reflexivity|].
  destruct c as [|b c]; [reflexivity|].
  change (pairs (a :: b :: c)) with ((a, b) :: pairs (b :: c)).
  change (rev (a :: b :: c)) with ((rev c ++ [b]) ++ [a]).
  rewrite <- app_assoc. cbn [app]. rewrite pairs_app.
  change (rev c ++ [b]) with (rev (b :: c)). rewrite IH.
  cbn [rev]. rewrite map_app. reflexivity.
Qed.

Lemma fold_left_ext_in {X Y : Type} (f g : X -> Y -> X) (l : list Y) (a : X) :
  (forall a y, In y l -> f a y = g a y) -> fold_left f l a = fold_left g l a.
Proof.
  revert a. induction l as [|y l IH]; intros a H; [reflexivity|].
  cbn [fold_left]. rewrite (H a y (or_introl eq_refl)). apply IH. intros; apply H; right; assumption.
Qed.

(* ------------------------------------------------------------------------------------------------ *)
(* the sums over samples, in a monoid                                                               *)
(* ------------------------------------------------------------------------------------------------ *)
Section Monoid.
  Context {P T V : Type} (add : T -> T -> T) (zero : T).
  Hypothesis add_assoc : forall x y z, add (add x y) z = add x (add y z).
  Hypothesis add_0_r : forall x, add x zero = x.
  Hypothesis add_0_l : forall x, add zero x = x.

  Lemma seg_fold_shift (g : nat -> option T) (l : list nat) (acc : T) :
    fold_left (fun acc i => match g i with None => acc | Some t => add acc t end) l acc
    = add acc (fold_left (fun acc i => match g i with None => acc | Some t => add acc t end) l zero).
  Proof.
    revert acc. induction l as [|i l IH]; intros acc; cbn [fold_left].
    - symmetry. apply add_0_r.
    - rewrite IH. rewrite (IH (match g i with None => zero | Some t => add zero t end)).
      destruct (g i); [rewrite add_0_l, add_assoc; reflexivity|rewrite add_0_l; reflexivity].
  Qed.

  Lemma seg_sum_as_fold (N : nat) (term : nat -> V -> T) (vs : list (option V)) (acc : T) :
    seg_sum add N term vs acc
    = fold_left (fun acc i => match option_map (term i) (nth i vs None) with None => acc | Some t => add acc t end) (seq 0 N) acc.
  Proof.
    unfold seg_sum. apply fold_left_ext_in. intros a i _. destruct (nth i vs None); reflexivity.
  Qed.

  Lemma seg_sum_shift (N : nat) (term : nat -> V -> T) (vs : list (option V)) (acc : T) :
    seg_sum add N term vs acc = add acc (seg_sum add N term vs zero).
  Proof. rewrite !seg_sum_as_fold. apply (seg_fold_shift (fun i => option_map (term i) (nth i vs None))). Qed.

  Lemma cont_sum_shift (N : nat) (term : P -> P -> nat -> V -> T) (ps : list (P * P)) (tab : list (list (option V))) (acc : T) :
    cont_sum add N term ps tab acc = add acc (cont_sum add N term ps tab zero).
  Proof.
    revert tab acc. induction ps as [|[a b] ps IH]; intros tab acc; cbn [cont_sum].
    - symmetry. apply add_0_r.
    - rewrite IH. rewrite (IH (tl tab) (seg_sum add N (term a b) (hd [] tab) zero)).
      rewrite (seg_sum_shift N (term a b) (hd [] tab) acc). apply add_assoc.
  Qed.

  Lemma cont_sum_app (N : nat) (term : P -> P -> nat -> V -> T) (p1 p2 : list (P * P)) (t1 t2 : list (list (option V))) (acc : T) :
    length t1 = length p1 ->
    cont_sum add N term (p1 ++ p2) (t1 ++ t2) acc = cont_sum add N term p2 t2 (cont_sum add N term p1 t1 acc).
  Proof.
    revert t1 acc. induction p1 as [|[a b] p1 IH]; intros t1 acc Hl.
    - destruct t1; [reflexivity|discriminate].
    - destruct t1 as [|r t1]; [discriminate|]. cbn [app cont_sum hd tl]. apply IH. cbn in Hl. lia.
  Qed.

  (* additivity over concatenation: the contour c1 ++ j :: c2 is c1 ++ [j] followed by j :: c2 *)
  Lemma cont_sum_concat (N : nat) (term : P -> P -> nat -> V -> T) (c1 c2 : list P) (j : P) (t1 t2 : list (list (option V))) :
    length t1 = length (pairs (c1 ++ [j])) ->
    cont_sum add N term (pairs (c1 ++ j :: c2)) (t1 ++ t2) zero
    = add (cont_sum add N term (pairs (c1 ++ [j])) t1 zero) (cont_sum add N term (pairs (j :: c2)) t2 zero).
  Proof.
    intros Hl. rewrite pairs_app, cont_sum_app by exact Hl. apply cont_sum_shift.
  Qed.
End Monoid.

Fixpoint Rsum (l : list R) : R := match l with [] => 0 | x :: r => x + Rsum r end.

Lemma Rsum_app l1 l2 : Rsum (l1 ++ l2) = Rsum l1 + Rsum l2.
Proof. induction l1; cbn; lra. Qed.
Lemma Rsum_rev l : Rsum (rev l) = Rsum l.
Proof. induction l; cbn; [reflexivity|]. rewrite Rsum_app. cbn. lra. Qed.
Lemma Rsum_const {X : Type} (f : X -> R) (k : R) (l : list X) :
  (forall x, In x l -> f x = k) -> Rsum (map f l) = INR (length l) * k.
Proof.
  induction l as [|x l IH]; intros H.
  - cbn. lra.
  - cbn [map Rsum length]. rewrite S_INR, (H x (or_introl eq_refl)), IH by (intros; apply H; right; assumption). lra.
Qed.
Lemma fold_left_Rplus_Rsum {X : Type} (f : X -> R) (l : list X) (acc : R) :
  fold_left (fun s x => s + f x) l acc = acc + Rsum (map f l).
Proof. revert acc. induction l; intros; cbn; [lra|rewrite IHl; lra]. Qed.

(* the i-loop as a sum: samples with flag false contribute nothing *)
Lemma seg_sum_Rsum (N : nat) {V : Type} (term : nat -> V -> R) (vs : list (option V)) :
  seg_sum Rplus N term vs 0
  = Rsum (map (fun i => match nth i vs None with None => 0 | Some v => term i v end) (seq 0 N)).
Proof.
  unfold seg_sum.
  rewrite (fold_left_ext_in _ (fun s i => s + match nth i vs None with None => 0 | Some v => term i v end)).
  - rewrite fold_left_Rplus_Rsum. lra.
  - intros a i _. destruct (nth i vs None); lra.
Qed.

Lemma cont_sum_Rsum (N : nat) {V : Type} (term : C -> C -> nat -> V -> R) (ps : list (C * C)) (tab : list (list (option V))) :
  cont_sum Rplus N term ps tab 0
  = Rsum (map (fun pr => seg_sum Rplus N (term (fst (fst pr)) (snd (fst pr))) (snd pr) 0)
              (combine ps (tab ++ repeat [] (length ps - length tab)))).
Proof.
  revert tab. induction ps as [|[a b] ps IH]; intros tab; [reflexivity|].
  cbn [cont_sum]. rewrite (cont_sum_shift Rplus 0 Rplus_assoc Rplus_0_r Rplus_0_l). rewrite IH.
  destruct tab as [|r tab]; cbn [hd tl length Nat.sub app repeat combine map Rsum fst snd].
  - replace (length ps - 0)%nat with (length ps) by lia. reflexivity.
  - reflexivity.
Qed.

(* complex addition of the real reading is a monoid *)
Lemma cadd_assoc (x y z : C) : cadd RA (cadd RA x y) z = cadd RA x (cadd RA y z).
Proof. destruct x, y, z. unfold cadd. cbn [fst snd]. ra_simpl. f_equal; ring. Qed.
Lemma cadd_0_r (x : C) : cadd RA x (czero RA) = x.
Proof. destruct x. unfold cadd, czero. cbn [fst snd]. ra_simpl. f_equal; ring. Qed.
Lemma cadd_0_l (x : C) : cadd RA (czero RA) x = x.
Proof. destruct x. unfold cadd, czero. cbn [fst snd]. ra_simpl. f_equal; ring. Qed.

(* ------------------------------------------------------------------------------------------------ *)
(* abs, tangent, normal                                                                             *)
(* ------------------------------------------------------------------------------------------------ *)
Definition seglen (a b : C) : R := sqrt ((fst b - fst a) * (fst b - fst a) + (snd b - snd a) * (snd b - snd a)).

Lemma cabsf_nonneg (z : C) : 0 <= cabsf RA z.
Proof.
  destruct z as [a b]. unfold cabsf. cbn [fst snd]. ra_simpl.
  destruct (Reqb a 0 && Reqb b 0); [lra|].
  destruct (Rltb (Rabs b) (Rabs a)); apply Rmult_le_pos; try apply Rabs_pos; apply sqrt_pos.
Qed.

Lemma cabsf_sqrt (z : C) : cabsf RA z = sqrt (fst z * fst z + snd z * snd z).
Proof.
  rewrite <- cabsf_sq. rewrite sqrt_square; [reflexivity|apply cabsf_nonneg].
Qed.

Lemma cabsf_seglen (a b : C) : cabsf RA (csub RA b a) = seglen a b.
Proof. rewrite cabsf_sqrt. unfold csub, seglen. cbn [fst snd]. ra_simpl. reflexivity. Qed.

Lemma seglen_sym (a b : C) : seglen a b = seglen b a.
Proof. unfold seglen. f_equal. ring. Qed.

Lemma seglen_pos (a b : C) : a <> b -> 0 < seglen a b.
Proof.
  intros H. unfold seglen. apply sqrt_lt_R0.
  destruct a as [ax ay], b as [bx by_]. cbn [fst snd].
  destruct (Req_dec bx ax) as [E1|E1]; destruct (Req_dec by_ ay) as [E2|E2]; try nra.
  subst. contradiction H. reflexivity.
Qed.

Lemma seglen_scaled (a b : C) (s : R) : 0 <= s ->
  seglen a (fst a + s * (fst b - fst a), snd a + s * (snd b - snd a)) = s * seglen a b.
Proof.
  intros Hs. unfold seglen. cbn [fst snd].
  replace ((fst a + s * (fst b - fst a) - fst a) * (fst a + s * (fst b - fst a) - fst a)
           + (snd a + s * (snd b - snd a) - snd a) * (snd a + s * (snd b - snd a) - snd a))
    with ((s * s) * ((fst b - fst a) * (fst b - fst a) + (snd b - snd a) * (snd b - snd a))) by ring.
  rewrite sqrt_mult; [|apply Rmult_le_pos; exact Hs|apply Rplus_le_le_0_compat; apply Rle_0_sqr].
  rewrite sqrt_square by exact Hs. reflexivity.
Qed.

(* a point of the segment splits its length *)
Lemma seglen_split (a b : C) (s : R) : 0 <= s <= 1 ->
  let p := (fst a + s * (fst b - fst a), snd a + s * (snd b - snd a)) in
  seglen a p + seglen p b = seglen a b.
Proof.
  intros Hs p. unfold p. rewrite seglen_scaled by lra.
  rewrite (seglen_sym (fst a + s * (fst b - fst a), snd a + s * (snd b - snd a)) b).
  replace (fst a + s * (fst b - fst a)) with (fst b + (1 - s) * (fst a - fst b)) by ring.
  replace (snd a + s * (snd b - snd a)) with (snd b + (1 - s) * (snd a - snd b)) by ring.
  rewrite seglen_scaled by lra. rewrite (seglen_sym b a). ring.
Qed.

(* t = (b-a)/|b-a| ; n = I*t = the unit LEFT normal of the direction of travel *)
Lemma seg_t_real (a b : C) :
  seg_t RA a b = ((fst b - fst a) / seglen a b, (snd b - snd a) / seglen a b).
Proof. unfold seg_t, cdivr. cbv zeta. rewrite cabsf_seglen. unfold csub. cbn [fst snd]. ra_simpl. reflexivity. Qed.

Lemma seg_n_real (a b : C) :
  seg_n RA a b = (- ((snd b - snd a) / seglen a b), (fst b - fst a) / seglen a b).
Proof. unfold seg_n. rewrite seg_t_real. unfold cmul, cI. cbn [fst snd]. ra_simpl. f_equal; ring. Qed.

Lemma seg_n_unit (a b : C) : a <> b ->
  fst (seg_n RA a b) * fst (seg_n RA a b) + snd (seg_n RA a b) * snd (seg_n RA a b) = 1.
Proof.
  intros H. rewrite seg_n_real. cbn [fst snd]. pose proof (seglen_pos a b H) as Hp.
  assert (Hs : seglen a b * seglen a b = (fst b - fst a) * (fst b - fst a) + (snd b - snd a) * (snd b - snd a)).
  { unfold seglen. apply sqrt_sqrt. apply Rplus_le_le_0_compat; apply Rle_0_sqr. }
  replace (- ((snd b - snd a) / seglen a b) * - ((snd b - snd a) / seglen a b) +
           (fst b - fst a) / seglen a b * ((fst b - fst a) / seglen a b))
    with (((fst b - fst a) * (fst b - fst a) + (snd b - snd a) * (snd b - snd a)) / (seglen a b * seglen a b))
    by (field; lra).
  rewrite <- Hs. field. lra.
Qed.


(* ------------------------------------------------------------------------------------------------ *)
(* contour length and swept area (inttype 2 of the three classes)                                   *)
(* ------------------------------------------------------------------------------------------------ *)
Definition seg_lens (c : list C) : list R := map (fun p => seglen (fst p) (snd p)) (pairs c).
(* lateral area of the cone frustum swept by the segment a -> b revolved about r = 0 *)
Definition frustum (a b : C) : R := PI * (fst a + fst b) * seglen a b.
Definition seg_areas (c : list C) : list R := map (fun p => frustum (fst p) (snd p)) (pairs c).

Lemma len_sum_Rsum (c : list C) : len_sum RA c = Rsum (seg_lens c).
Proof.
  unfold len_sum, seg_lens. ra_simpl.
  rewrite (fold_left_ext_in _ (fun s p => s + seglen (fst p) (snd p))).
  - rewrite fold_left_Rplus_Rsum. lra.
  - intros s p _. rewrite cabsf_seglen. reflexivity.
Qed.

Lemma area_sum_Rsum (c : list C) : area_sum RA c = Rsum (seg_areas c).
Proof.
  unfold area_sum, seg_areas, frustum. ra_simpl.
  rewrite (fold_left_ext_in _ (fun s p => s + PI * (fst (fst p) + fst (snd p)) * seglen (fst p) (snd p))).
  - rewrite fold_left_Rplus_Rsum. lra.
  - intros s p _. rewrite cabsf_seglen. reflexivity.
Qed.

(* inttype 2, first result: LengthConv times the sum of the Euclidean segment lengths *)
Lemma line_length_fst (axi : bool) (lc depth : R) (c : list C) :
  fst (line_length RA axi lc depth c) = Rsum (seg_lens c) * lc.
Proof. unfold line_length. cbv zeta. cbn [fst]. ra_simpl. rewrite len_sum_Rsum. reflexivity. Qed.

(* second result: planar = length * Depth; axisymmetric = LengthConv^2 times the sum of the frustum areas *)
Lemma line_length_snd_planar (lc depth : R) (c : list C) :
  snd (line_length RA false lc depth c) = Rsum (seg_lens c) * lc * depth.
Proof. unfold line_length. cbv zeta. cbn [snd]. ra_simpl. rewrite len_sum_Rsum. reflexivity. Qed.
Lemma line_length_snd_axi (lc depth : R) (c : list C) :
  snd (line_length RA true lc depth c) = Rsum (seg_areas c) * (lc * lc).
Proof. unfold line_length. cbv zeta. cbn [snd]. ra_simpl. rewrite area_sum_Rsum. reflexivity. Qed.

(* the frustum term is the integral of 2 pi r ds along the segment *)
Lemma frustum_is_integral (a b : C) :
  frustum a b = RInt (fun t => 2 * PI * (fst a + t * (fst b - fst a)) * seglen a b) 0 1.
Proof.
  rewrite (RInt_poly_ext _ (2 * PI * fst a * seglen a b) (2 * PI * (fst b - fst a) * seglen a b) 0 0 1).
  - unfold frustum. as_R. field.
  - intros t. as_R. ring.
Qed.

(* additivity over concatenation *)
Lemma seg_lens_concat (c1 c2 : list C) (j : C) : seg_lens (c1 ++ j :: c2) = seg_lens (c1 ++ [j]) ++ seg_lens (j :: c2).
Proof. unfold seg_lens. rewrite pairs_app, map_app. reflexivity. Qed.
Lemma seg_areas_concat (c1 c2 : list C) (j : C) : seg_areas (c1 ++ j :: c2) = seg_areas (c1 ++ [j]) ++ seg_areas (j :: c2).
Proof. unfold seg_areas. rewrite pairs_app, map_app. reflexivity. Qed.

Lemma line_length_concat (axi : bool) (lc depth : R) (c1 c2 : list C) (j : C) :
  line_length RA axi lc depth (c1 ++ j :: c2)
  = (fst (line_length RA axi lc depth (c1 ++ [j])) + fst (line_length RA axi lc depth (j :: c2)),
     snd (line_length RA axi lc depth (c1 ++ [j])) + snd (line_length RA axi lc depth (j :: c2))).
Proof.
  rewrite (surjective_pairing (line_length RA axi lc depth (c1 ++ j :: c2))).
  rewrite !line_length_fst. destruct axi.
  - rewrite !line_length_snd_axi, seg_lens_concat, seg_areas_concat, !Rsum_app. f_equal; ring.
  - rewrite !line_length_snd_planar, seg_lens_concat, !Rsum_app. f_equal; ring.
Qed.

(* reversal *)
Lemma seg_lens_rev (c : list C) : Rsum (seg_lens (rev c)) = Rsum (seg_lens c).
Proof.
  unfold seg_lens. rewrite pairs_rev, map_map.
  rewrite (map_ext _ (fun p => seglen (fst p) (snd p))) by (intros [a b]; apply seglen_sym).
  rewrite map_rev. apply Rsum_rev.
Qed.
Lemma seg_areas_rev (c : list C) : Rsum (seg_areas (rev c)) = Rsum (seg_areas c).
Proof.
  unfold seg_areas. rewrite pairs_rev, map_map.
  rewrite (map_ext _ (fun p => frustum (fst p) (snd p))).
  - rewrite map_rev. apply Rsum_rev.
  - intros [a b]. unfold frustum, swap. cbn [fst snd]. rewrite (seglen_sym b a). ring.
Qed.
Lemma line_length_rev (axi : bool) (lc depth : R) (c : list C) :
  line_length RA axi lc depth (rev c) = line_length RA axi lc depth c.
Proof.
  rewrite (surjective_pairing (line_length RA axi lc depth (rev c))), (surjective_pairing (line_length RA axi lc depth c)).
  rewrite !line_length_fst, seg_lens_rev. destruct axi.
  - rewrite !line_length_snd_axi, seg_areas_rev. reflexivity.
  - rewrite !line_length_snd_planar, seg_lens_rev. reflexivity.
Qed.

(* a contour point inserted ON a segment changes neither result *)
Lemma seg_lens_insert (c1 c2 : list C) (a b : C) (s : R) : 0 <= s <= 1 ->
  let p := (fst a + s * (fst b - fst a), snd a + s * (snd b - snd a)) in
  Rsum (seg_lens (c1 ++ a :: p :: b :: c2)) = Rsum (seg_lens (c1 ++ a :: b :: c2)).
Proof.
  intros Hs p.
  rewrite (seg_lens_concat c1 (p :: b :: c2) a), (seg_lens_concat c1 (b :: c2) a), !Rsum_app.
  f_equal. unfold seg_lens.
  change (pairs (a :: p :: b :: c2)) with ((a, p) :: (p, b) :: pairs (b :: c2)).
  change (pairs (a :: b :: c2)) with ((a, b) :: pairs (b :: c2)).
  cbn [map Rsum fst snd]. pose proof (seglen_split a b s Hs) as H. cbv zeta in H. fold p in H. lra.
Qed.

Lemma frustum_split (a b : C) (s : R) : 0 <= s <= 1 ->
  let p := (fst a + s * (fst b - fst a), snd a + s * (snd b - snd a)) in
  frustum a p + frustum p b = frustum a b.
Proof.
  intros Hs p. unfold frustum.
  assert (H1 : seglen a p = s * seglen a b) by (apply seglen_scaled; lra).
  assert (H2 : seglen p b = (1 - s) * seglen a b).
  { rewrite (seglen_sym p b). unfold p.
    replace (fst a + s * (fst b - fst a)) with (fst b + (1 - s) * (fst a - fst b)) by ring.
    replace (snd a + s * (snd b - snd a)) with (snd b + (1 - s) * (snd a - snd b)) by ring.
    rewrite seglen_scaled by lra. rewrite (seglen_sym b a). reflexivity. }
  rewrite H1, H2. unfold p. cbn [fst]. ring.
Qed.

Lemma seg_areas_insert (c1 c2 : list C) (a b : C) (s : R) : 0 <= s <= 1 ->
  let p := (fst a + s * (fst b - fst a), snd a + s * (snd b - snd a)) in
  Rsum (seg_areas (c1 ++ a :: p :: b :: c2)) = Rsum (seg_areas (c1 ++ a :: b :: c2)).
Proof.
  intros Hs p.
  rewrite (seg_areas_concat c1 (p :: b :: c2) a), (seg_areas_concat c1 (b :: c2) a), !Rsum_app.
  f_equal. unfold seg_areas.
  change (pairs (a :: p :: b :: c2)) with ((a, p) :: (p, b) :: pairs (b :: c2)).
  change (pairs (a :: b :: c2)) with ((a, b) :: pairs (b :: c2)).
  cbn [map Rsum fst snd]. pose proof (frustum_split a b s Hs) as H. cbv zeta in H. fold p in H. lra.
Qed.

(* ------------------------------------------------------------------------------------------------ *)
(* addContourPoint                                                                                  *)
(* ------------------------------------------------------------------------------------------------ *)
Lemma ceqb_real (x y : C) : ceqb RA x y = true <-> x = y.
Proof.
  destruct x as [a b], y as [c d]. unfold ceqb. cbn [fst snd]. ra_simpl.
  rewrite andb_true_iff, !Reqb_true. split; [intros [-> ->]; reflexivity|intros H; inversion H; auto].
Qed.

Lemma add_contour_point_snoc (c : list C) (l p : C) : p <> l ->
  add_contour_point RA (c ++ [l]) p = c ++ [l; p].
Proof.
  intros H. unfold add_contour_point. rewrite rev_app_distr. cbn [rev app].
  destruct (ceqb RA p l) eqn:E; [apply ceqb_real in E; contradiction|].
  rewrite <- app_assoc. reflexivity.
Qed.
Lemma add_contour_point_dup (c : list C) (l : C) : add_contour_point RA (c ++ [l]) l = c ++ [l].
Proof.
  unfold add_contour_point. rewrite rev_app_distr. cbn [rev app].
  destruct (ceqb RA l l) eqn:E; [reflexivity|]. assert (ceqb RA l l = true) by (apply ceqb_real; reflexivity). congruence.
Qed.

(* no two consecutive points are equal *)
Fixpoint no_repeat (c : list C) : Prop :=
  match c with
  | a :: ((b :: _) as r) => a <> b /\ no_repeat r
  | _ => True
  end.

(* adding the points of a polyline without repeated points one by one gives that polyline *)
Lemma add_contour_points_polyline (pts : list C) : no_repeat pts ->
  fold_left (add_contour_point RA) pts [] = pts.
Proof.
  intros H. destruct pts as [|a pts]; [reflexivity|]. cbn [fold_left]. change (add_contour_point RA [] a) with [a].
  assert (G : forall pre l rest, no_repeat (l :: rest) -> fold_left (add_contour_point RA) rest (pre ++ [l]) = pre ++ l :: rest).
  { intros pre l rest. revert pre l. induction rest as [|p rest IH]; intros pre l Hn; [reflexivity|].
    cbn [fold_left]. destruct Hn as [Hne Hn]. rewrite add_contour_point_snoc by (intro E; apply Hne; symmetry; exact E).
    change (pre ++ [l; p]) with (pre ++ [l] ++ [p]). rewrite app_assoc. rewrite IH by exact Hn.
    rewrite <- app_assoc. reflexivity. }
  apply (G [] a pts H).
Qed.

(* every contour built by addContourPoint alone has no zero-length segment *)
Lemma add_contour_point_no_repeat (c : list C) (p : C) : no_repeat c -> no_repeat (add_contour_point RA c p).
Proof.
  intros H. unfold add_contour_point. destruct (rev c) as [|l r] eqn:E.
  - exact I.
  - destruct (ceqb RA p l) eqn:Ep; [exact H|].
    assert (Hc : c = rev r ++ [l]) by (rewrite <- (rev_involutive c), E; reflexivity).
    assert (Hne : l <> p) by (intro Q; subst p; assert (ceqb RA l l = true) by (apply ceqb_real; reflexivity); congruence).
    rewrite Hc in *. clear Hc E. generalize dependent (rev r). intros pre. induction pre as [|x pre IH]; intros Hn.
    + cbn. auto.
    + destruct pre as [|y pre].
      * cbn in *. tauto.
      * cbn [app] in *. destruct Hn as [Hxy Hn]. split; [exact Hxy|]. apply IH. exact Hn.
Qed.

(* ------------------------------------------------------------------------------------------------ *)
(* additivity of the sampled integrals                                                              *)
(* ------------------------------------------------------------------------------------------------ *)
Lemma rsum_concat (N : nat) {V : Type} (term : C -> C -> nat -> V -> R) (c1 c2 : list C) (j : C)
      (t1 t2 : list (list (option V))) :
  length t1 = length (pairs (c1 ++ [j])) ->
  rsum RA N term (c1 ++ j :: c2) (t1 ++ t2) = rsum RA N term (c1 ++ [j]) t1 + rsum RA N term (j :: c2) t2.
Proof. intros H. unfold rsum. ra_simpl. apply (cont_sum_concat Rplus 0 Rplus_assoc Rplus_0_r Rplus_0_l). exact H. Qed.

Lemma csum_concat (N : nat) {V : Type} (term : C -> C -> nat -> V -> C) (c1 c2 : list C) (j : C)
      (t1 t2 : list (list (option V))) :
  length t1 = length (pairs (c1 ++ [j])) ->
  csum RA N term (c1 ++ j :: c2) (t1 ++ t2) = cadd RA (csum RA N term (c1 ++ [j]) t1) (csum RA N term (j :: c2) t2).
Proof. intros H. unfold csum. apply (cont_sum_concat (cadd RA) (czero RA) cadd_assoc cadd_0_r cadd_0_l). exact H. Qed.

(* ---- per class ---- *)
Lemma e_line_concat_fst (N : nat) (axi : bool) (lc depth : R) (t : nat) (c1 c2 : list C) (j : C)
      (t1 t2 : list (list (option (C * C)))) (V0 Vj V1 : R) :
  length t1 = length (pairs (c1 ++ [j])) ->
  fst (e_line RA N axi lc depth t (c1 ++ j :: c2) (t1 ++ t2) V0 V1)
  = fst (e_line RA N axi lc depth t (c1 ++ [j]) t1 V0 Vj) + fst (e_line RA N axi lc depth t (j :: c2) t2 Vj V1).
Proof.
  intros H. destruct t as [|[|[|[|[|t]]]]]; cbn [e_line fst].
  - ra_simpl. ring.
  - apply rsum_concat; exact H.
  - rewrite line_length_concat. reflexivity.
  - apply rsum_concat; exact H.
  - apply rsum_concat; exact H.
  - ra_simpl. ring.
Qed.

Lemma e_line_concat_snd (N : nat) (axi : bool) (lc depth : R) (t : nat) (c1 c2 : list C) (j : C)
      (t1 t2 : list (list (option (C * C)))) (V0 Vj V1 : R) :
  length t1 = length (pairs (c1 ++ [j])) -> (t = 2 \/ t = 3)%nat ->
  snd (e_line RA N axi lc depth t (c1 ++ j :: c2) (t1 ++ t2) V0 V1)
  = snd (e_line RA N axi lc depth t (c1 ++ [j]) t1 V0 Vj) + snd (e_line RA N axi lc depth t (j :: c2) t2 Vj V1).
Proof.
  intros H [-> | ->]; cbn [e_line snd].
  - rewrite line_length_concat. reflexivity.
  - apply rsum_concat; exact H.
Qed.

Lemma h_line_concat_fst (N : nat) (axi : bool) (lc depth : R) (t : nat) (c1 c2 : list C) (j : C)
      (t1 t2 : list (list (option (C * R)))) (T0 Tj T1 : R) :
  length t1 = length (pairs (c1 ++ [j])) -> (t <> 3)%nat ->
  fst (h_line RA N axi lc depth t (c1 ++ j :: c2) (t1 ++ t2) T0 T1)
  = fst (h_line RA N axi lc depth t (c1 ++ [j]) t1 T0 Tj) + fst (h_line RA N axi lc depth t (j :: c2) t2 Tj T1).
Proof.
  intros H Ht. destruct t as [|[|[|[|t]]]]; cbn [h_line fst]; try congruence.
  - ra_simpl. ring.
  - apply rsum_concat; exact H.
  - rewrite line_length_concat. reflexivity.
  - ra_simpl. ring.
Qed.

(* inttype 3 (average temperature): the weight is additive and the average times the weight is additive *)
Lemma h_line3_concat (N : nat) (axi : bool) (lc depth : R) (c1 c2 : list C) (j : C)
      (t1 t2 : list (list (option (C * R)))) (T0 Tj T1 : R) :
  length t1 = length (pairs (c1 ++ [j])) ->
  let whole := h_line RA N axi lc depth 3 (c1 ++ j :: c2) (t1 ++ t2) T0 T1 in
  let p1 := h_line RA N axi lc depth 3 (c1 ++ [j]) t1 T0 Tj in
  let p2 := h_line RA N axi lc depth 3 (j :: c2) t2 Tj T1 in
  snd whole = snd p1 + snd p2 /\
  (snd whole <> 0 -> snd p1 <> 0 -> snd p2 <> 0 -> fst whole * snd whole = fst p1 * snd p1 + fst p2 * snd p2).
Proof.
  intros H. cbv zeta. cbn [h_line fst snd]. ra_simpl. split.
  - apply rsum_concat; exact H.
  - intros Hw H1 H2. rewrite (rsum_concat N (h_t_term RA N axi lc depth) c1 c2 j t1 t2 H). field. auto.
Qed.

Definition m_z0 (r : C * C * C * C) : C := fst (fst (fst r)).
Definition m_z1 (r : C * C * C * C) : C := snd (fst (fst r)).
Definition m_z2 (r : C * C * C * C) : C := snd (fst r).
Definition m_z3 (r : C * C * C * C) : C := snd r.

Lemma m_line_concat_z0 (N : nat) (axi : bool) (lc depth : R) (harm : bool) (t : nat) (c1 c2 : list C) (j : C)
      (t1 t2 : list (list (option ((C * C) * (C * C))))) (A0 Aj A1 : C) (zin : C * C * C * C) :
  length t1 = length (pairs (c1 ++ [j])) -> (t <= 5)%nat ->
  m_z0 (m_line RA N axi lc depth harm t (c1 ++ j :: c2) (t1 ++ t2) A0 A1 zin)
  = cadd RA (m_z0 (m_line RA N axi lc depth harm t (c1 ++ [j]) t1 A0 Aj zin))
            (m_z0 (m_line RA N axi lc depth harm t (j :: c2) t2 Aj A1 zin)).
Proof.
  intros H Ht. destruct zin as [[[z0i z1i] z2i] z3i].
  destruct t as [|[|[|[|[|[|t]]]]]]; [| | | | | |lia]; unfold m_z0; cbn [m_line].
  - destruct axi; cbn [fst]; unfold cadd, csub, cmuld; destruct A0, Aj, A1; cbn [fst snd]; ra_simpl; f_equal; ring.
  - cbn [fst]. apply csum_concat; exact H.
  - cbn [fst]. rewrite line_length_concat. reflexivity.
  - destruct harm; cbn [fst]; apply csum_concat; exact H.
  - destruct harm; cbn [fst]; apply csum_concat; exact H.
  - cbn [fst]. apply csum_concat; exact H.
Qed.

Lemma m_line_concat_force (N : nat) (axi : bool) (lc depth : R) (harm : bool) (c1 c2 : list C) (j : C)
      (t1 t2 : list (list (option ((C * C) * (C * C))))) (A0 Aj A1 : C) (zin : C * C * C * C) :
  length t1 = length (pairs (c1 ++ [j])) ->
  let whole := m_line RA N axi lc depth harm 3 (c1 ++ j :: c2) (t1 ++ t2) A0 A1 zin in
  let p1 := m_line RA N axi lc depth harm 3 (c1 ++ [j]) t1 A0 Aj zin in
  let p2 := m_line RA N axi lc depth harm 3 (j :: c2) t2 Aj A1 zin in
  m_z1 whole = cadd RA (m_z1 p1) (m_z1 p2) /\ m_z2 whole = cadd RA (m_z2 p1) (m_z2 p2) /\ m_z3 whole = cadd RA (m_z3 p1) (m_z3 p2).
Proof.
  intros H. cbv zeta. destruct zin as [[[z0i z1i] z2i] z3i]. unfold m_z1, m_z2, m_z3. cbn [m_line].
  destruct harm; cbn [fst snd].
  - repeat split; apply csum_concat; exact H.
  - repeat split; try (apply csum_concat; exact H); rewrite cadd_0_r; reflexivity.
Qed.

(* ------------------------------------------------------------------------------------------------ *)
(* the sampling: count, parameters, mid-point exactness                                             *)
(* ------------------------------------------------------------------------------------------------ *)
Lemma NF_real (N : nat) : NF RA N = INR N.
Proof. unfold NF. ra_simpl. symmetry. apply INR_IZR_INZ. Qed.

Lemma adec_half : adec RA 5 (-1) = / 2.
Proof. unfold adec. cbn. lra. Qed.

(* the sample parameters are the mid-points of N equal sub-intervals of [0,1] *)
Lemma samp_u_real (N i : nat) : samp_u RA N i = (INR i + / 2) / INR N.
Proof. unfold samp_u. rewrite NF_real, adec_half. ra_simpl. rewrite <- INR_IZR_INZ. reflexivity. Qed.

Lemma samp_u_in_unit (N i : nat) : (i < N)%nat -> 0 < samp_u RA N i < 1.
Proof.
  intros H. rewrite samp_u_real.
  assert (HN : 0 < INR N) by (apply lt_0_INR; lia).
  assert (Hi : INR i + 1 <= INR N) by (rewrite <- S_INR; apply le_INR; lia).
  pose proof (pos_INR i). split.
  - apply Rdiv_lt_0_compat; lra.
  - apply (Rmult_lt_reg_r (INR N)); [exact HN|]. unfold Rdiv. rewrite Rmult_assoc, Rinv_l by lra. lra.
Qed.

Lemma samp_base_real (N : nat) (a b : C) (i : nat) :
  samp_base RA N a b i = (fst a + samp_u RA N i * (fst b - fst a), snd a + samp_u RA N i * (snd b - snd a)).
Proof. unfold samp_base, cadd, dmulc, csub. cbn [fst snd]. ra_simpl. reflexivity. Qed.

Lemma samp_pt_real (N : nat) (a b : C) (i : nat) :
  samp_pt RA N a b i = (fst (samp_base RA N a b i) + fst (seg_n RA a b) * adec RA 1 (-6),
                        snd (samp_base RA N a b i) + snd (seg_n RA a b) * adec RA 1 (-6)).
Proof. unfold samp_pt, cadd, cmuld. cbn [fst snd]. ra_simpl. reflexivity. Qed.

(* exactly N samples per segment, whatever its length; one row per segment *)
Lemma fold_left_cons_length {X Y S : Type} (f : S -> Y -> X) (g : S -> Y -> S) (l : list Y) (acc : list X) (s : S) :
  length (fst (fold_left (fun (st : list X * S) y => (f (snd st) y :: fst st, g (snd st) y)) l (acc, s))) = (length l + length acc)%nat.
Proof.
  revert acc s. induction l as [|y l IH]; intros acc s; [reflexivity|].
  cbn [fold_left fst snd]. rewrite IH. cbn [length]. lia.
Qed.

Lemma seg_run_length {F : Type} (A : Arith F) (N : nat) (M : mesh F) (test : mesh F -> F -> F -> Z -> bool) (con : list (list Z))
      (shift : bool) (a b : F * F) (k : Z) :
  length (fst (seg_run A N M test con shift a b k)) = N.
Proof.
  unfold seg_run. cbn [fst]. rewrite rev_length.
  set (f := fun (st : Z * Z) (i : nat) => ((if shift then samp_pt A N a b i else samp_base A N a b i),
                                           fst (lookup A M test con st (if shift then samp_pt A N a b i else samp_base A N a b i)))).
  set (g := fun (st : Z * Z) (i : nat) => lookup A M test con st (if shift then samp_pt A N a b i else samp_base A N a b i)).
  rewrite (fold_left_ext_in _ (fun (st : list ((F * F) * Z) * (Z * Z)) i => (f (snd st) i :: fst st, g (snd st) i))) by reflexivity.
  rewrite fold_left_cons_length, seq_length. cbn. lia.
Qed.

Lemma contour_run_shape {F : Type} (A : Arith F) (N : nat) (M : mesh F) (test : mesh F -> F -> F -> Z -> bool) (con : list (list Z))
      (shift : bool) (ps : list ((F * F) * (F * F))) (k : Z) :
  length (contour_run A N M test con shift ps k) = length ps /\
  List.Forall (fun row => length row = N) (contour_run A N M test con shift ps k).
Proof.
  revert k. induction ps as [|[a b] ps IH]; intros k; [split; [reflexivity|constructor]|].
  cbn [contour_run]. pose proof (seg_run_length A N M test con shift a b k) as Hl.
  destruct (seg_run A N M test con shift a b k) as [row k']. cbn [fst] in Hl.
  destruct (IH k') as [I1 I2]. split; [cbn [length]; lia|constructor; assumption].
Qed.

Lemma nth_repeat_lt {X : Type} (x d : X) (N i : nat) : (i < N)%nat -> nth i (repeat x N) d = x.
Proof. revert i. induction N; intros i H; [lia|]. destruct i; [reflexivity|]. cbn. apply IHN. lia. Qed.

(* all N samples valid and carrying the same value *)
Lemma seg_sum_const (N : nat) {V : Type} (term : nat -> V -> R) (v : V) (k : R) :
  (forall i, (i < N)%nat -> term i v = k) ->
  seg_sum Rplus N term (repeat (Some v) N) 0 = INR N * k.
Proof.
  intros H. rewrite seg_sum_Rsum.
  rewrite (Rsum_const _ k); [rewrite seq_length; reflexivity|].
  intros i Hi. apply in_seq in Hi. rewrite nth_repeat_lt by lia. apply H. lia.
Qed.

Lemma Rsum_affine (N : nat) (p q : R) :
  Rsum (map (fun i => p + q * INR i) (seq 0 N)) = INR N * p + q * (INR N * (INR N - 1) / 2).
Proof.
  induction N as [|N IH]; [cbn; lra|].
  rewrite seq_S, map_app, Rsum_app, IH. cbn [map Rsum Nat.add]. rewrite S_INR. field.
Qed.

Lemma seg_sum_affine (N : nat) {V : Type} (term : nat -> V -> R) (v : V) (p q : R) :
  (forall i, (i < N)%nat -> term i v = p + q * INR i) ->
  seg_sum Rplus N term (repeat (Some v) N) 0 = INR N * p + q * (INR N * (INR N - 1) / 2).
Proof.
  intros H. rewrite seg_sum_Rsum, <- Rsum_affine. f_equal. apply map_ext_in.
  intros i Hi. apply in_seq in Hi. rewrite nth_repeat_lt by lia. apply H. lia.
Qed.

(* Re(D/n) is the component of D along n when n is a unit vector *)
Lemma re_cdiv_unit (D n : C) : fst n * fst n + snd n * snd n = 1 ->
  fst (cdiv RA D n) = fst D * fst n + snd D * snd n.
Proof.
  intros Hn. destruct D as [dr di], n as [nr ni]. unfold cdiv, cmul, cinv. cbn [fst snd] in *. ra_simpl.
  destruct (Rltb (Rabs ni) (Rabs nr)) eqn:E; cbn [fst snd].
  - apply Rltb_true in E. assert (nr <> 0) by (intro Q; subst nr; rewrite Rabs_R0 in E; pose proof (Rabs_pos ni); lra).
    assert (Hd : nr * (1 + ni / nr * (ni / nr)) = / nr).
    { replace (nr * (1 + ni / nr * (ni / nr))) with ((nr * nr + ni * ni) / nr) by (field; assumption). rewrite Hn. unfold Rdiv. ring. }
    rewrite Hd. unfold Rdiv. rewrite Rinv_inv, Rmult_1_l.
    replace (dr * nr - di * (- (ni * / nr) * nr)) with (dr * nr + di * ni) by (field; assumption). reflexivity.
  - apply Rltb_false in E.
    assert (ni <> 0).
    { intro Q; subst ni. rewrite Rabs_R0 in E. apply E. apply Rabs_pos_lt. intro Q; subst nr. lra. }
    assert (Hd : ni * (1 + nr / ni * (nr / ni)) = / ni).
    { replace (ni * (1 + nr / ni * (nr / ni))) with ((nr * nr + ni * ni) / ni) by (field; assumption). rewrite Hn. unfold Rdiv. ring. }
    rewrite Hd. unfold Rdiv. rewrite Rinv_inv.
    replace (dr * (- (nr * / ni) * (- (1) * ni)) - di * (- (1) * ni)) with (dr * nr + di * ni) by (field; assumption). reflexivity.
Qed.

(* (D . n) |b-a| for the left normal n of a -> b *)
Lemma dot_n_len (a b D : C) : a <> b ->
  (fst D * fst (seg_n RA a b) + snd D * snd (seg_n RA a b)) * seglen a b
  = snd D * (fst b - fst a) - fst D * (snd b - snd a).
Proof.
  intros H. rewrite seg_n_real. cbn [fst snd]. pose proof (seglen_pos a b H). field. lra.
Qed.

(* electrostatics inttype 1, planar: for a flux density that is the same at all N samples of a segment the mid-point
   sum is exact: (D . n) |b-a| Depth LengthConv = (D x (b-a)) Depth LengthConv *)
Lemma e_dn_segment_exact (N : nat) (lc depth : R) (a b : C) (v : C * C) : N <> 0%nat -> a <> b ->
  seg_sum Rplus N (e_dn_term RA N false lc depth a b) (repeat (Some v) N) 0
  = (snd (fst v) * (fst b - fst a) - fst (fst v) * (snd b - snd a)) * (depth * lc).
Proof.
  intros HN Hab.
  rewrite (seg_sum_const N _ v (fst (cdiv RA (fst v) (seg_n RA a b)) * (seglen a b / INR N) * (depth * lc))).
  - rewrite re_cdiv_unit by (apply seg_n_unit; exact Hab). rewrite <- (dot_n_len a b (fst v) Hab).
    field. apply not_0_INR. exact HN.
  - intros i _. unfold e_dn_term, seg_dz, surf_d. rewrite NF_real, cabsf_seglen. ra_simpl. reflexivity.
Qed.

(* ... hence the integral over the reversed segment is the negative (planar) *)
Lemma e_dn_segment_reversed (N : nat) (lc depth : R) (a b : C) (v : C * C) : N <> 0%nat -> a <> b ->
  seg_sum Rplus N (e_dn_term RA N false lc depth b a) (repeat (Some v) N) 0
  = - seg_sum Rplus N (e_dn_term RA N false lc depth a b) (repeat (Some v) N) 0.
Proof.
  intros HN Hab. rewrite !e_dn_segment_exact by auto. ring.
Qed.

(* axisymmetric: the weight 2 pi r is linear along the segment, the mid-point rule is exact for it; the radius is
   that of the SHIFTED sample points: (r_a + r_b)/2 + 1e-6 n_r *)
Lemma e_dn_segment_exact_axi (N : nat) (lc depth : R) (a b : C) (v : C * C) : N <> 0%nat -> a <> b ->
  seg_sum Rplus N (e_dn_term RA N true lc depth a b) (repeat (Some v) N) 0
  = (snd (fst v) * (fst b - fst a) - fst (fst v) * (snd b - snd a))
    * (2 * PI * ((fst a + fst b) / 2 + fst (seg_n RA a b) * adec RA 1 (-6)) * (lc * lc)).
Proof.
  intros HN Hab. set (Dn := fst (cdiv RA (fst v) (seg_n RA a b))).
  assert (HNr : INR N <> 0) by (apply not_0_INR; exact HN).
  rewrite (seg_sum_affine N _ v
             (Dn * (seglen a b / INR N) * (2 * PI * (fst a + / 2 / INR N * (fst b - fst a) + fst (seg_n RA a b) * adec RA 1 (-6)) * (lc * lc)))
             (Dn * (seglen a b / INR N) * (2 * PI * (/ INR N * (fst b - fst a)) * (lc * lc)))).
  - unfold Dn. rewrite re_cdiv_unit by (apply seg_n_unit; exact Hab).
    rewrite <- (dot_n_len a b (fst v) Hab). field. exact HNr.
  - intros i _. unfold e_dn_term, seg_dz, surf_d. rewrite NF_real, cabsf_seglen, samp_pt_real, samp_base_real, samp_u_real.
    cbn [fst snd]. ra_simpl. fold Dn. field. exact HNr.
Qed.

(* ------------------------------------------------------------------------------------------------ *)
(* magnetics: B.n and the vector potential                                                          *)
(* ------------------------------------------------------------------------------------------------ *)
(* what FPProc::LineIntegral(0) returns in a planar problem: (A(first) - A(last)) * Depth — no sampling *)
Lemma m_line0_planar (N : nat) (lc depth : R) (harm : bool) (c : list C) tab (A0 A1 : C) zin :
  m_z0 (m_line RA N false lc depth harm 0 c tab A0 A1 zin) = ((fst A0 - fst A1) * depth, (snd A0 - snd A1) * depth).
Proof. destruct zin as [[[z0i z1i] z2i] z3i]. unfold m_z0. cbn [m_line fst]. unfold cmuld, csub. cbn [fst snd]. ra_simpl. reflexivity. Qed.
(* axisymmetric (A holds 2 pi r A_phi): A(last) - A(first) *)
Lemma m_line0_axi (N : nat) (lc depth : R) (harm : bool) (c : list C) tab (A0 A1 : C) zin :
  m_z0 (m_line RA N true lc depth harm 0 c tab A0 A1 zin) = (fst A1 - fst A0, snd A1 - snd A0).
Proof. destruct zin as [[[z0i z1i] z2i] z3i]. unfold m_z0. cbn [m_line fst]. unfold csub. cbn [fst snd]. ra_simpl. reflexivity. Qed.

(* the mid-point sum of (B.n) dl Depth over the samples of the contour, with the code's n, dz and sample table *)
Definition bn_flux_term (N : nat) (lc depth : R) (a b : C) (i : nat) (v : (C * C) * (C * C)) : R :=
  fst (m_bn RA a b v) * seg_dz RA N a b * lc * depth.
(* B = curl of a potential with gradient (beta, gamma) per drawing unit: B1 = gamma/lc, B2 = -beta/lc (real parts) *)
Definition B_of_grad (lc : R) (g : R * R) : (C * C) * (C * C) :=
  (((snd g / lc, 0), (- fst g / lc, 0)), ((0, 0), (0, 0))).

Lemma m_bn_segment_exact (N : nat) (lc depth : R) (a b : C) (g : R * R) : N <> 0%nat -> a <> b -> lc <> 0 ->
  seg_sum Rplus N (bn_flux_term N lc depth a b) (repeat (Some (B_of_grad lc g)) N) 0
  = depth * - (fst g * (fst b - fst a) + snd g * (snd b - snd a)).
Proof.
  intros HN Hab Hlc. assert (HNr : INR N <> 0) by (apply not_0_INR; exact HN).
  rewrite (seg_sum_const N _ _ ((fst (seg_n RA a b) * snd g - snd (seg_n RA a b) * fst g) / lc * (seglen a b / INR N) * lc * depth)).
  - pose proof (dot_n_len a b (snd g, - fst g) Hab) as H. cbn [fst snd] in H.
    replace (INR N * ((fst (seg_n RA a b) * snd g - snd (seg_n RA a b) * fst g) / lc * (seglen a b / INR N) * lc * depth))
      with (depth * ((snd g * fst (seg_n RA a b) + - fst g * snd (seg_n RA a b)) * seglen a b)) by (field; auto).
    rewrite H. ring.
  - intros i _. unfold bn_flux_term, m_bn, B_of_grad, seg_dz, cadd, dmulc. rewrite NF_real, cabsf_seglen.
    cbn [fst snd]. ra_simpl. field. auto.
Qed.

(* telescoping: a potential Af that is affine along every segment of the contour (each segment inside one element
   of a piecewise-linear, continuous A) with B = curl A at all samples: the mid-point B.n sum over the whole contour
   is Depth * (A(first) - A(last)) *)
Lemma m_bn_contour_telescopes (N : nat) (lc depth : R) (Af : C -> R) (d : C) (c : list C) (grads : list (R * R)) :
  N <> 0%nat -> lc <> 0 ->
  Forall2 (fun (p : C * C) (g : R * R) =>
             fst p <> snd p /\ Af (snd p) - Af (fst p) = fst g * (fst (snd p) - fst (fst p)) + snd g * (snd (snd p) - snd (fst p)))
          (pairs c) grads ->
  cont_sum Rplus N (bn_flux_term N lc depth) (pairs c) (map (fun g => repeat (Some (B_of_grad lc g)) N) grads) 0
  = depth * (Af (hd d c) - Af (last c d)).
Proof.
  intros HN Hlc. revert grads. induction c as [|a c IH]; intros grads H.
  - cbn. ring.
  - destruct c as [|b c].
    + cbn. ring.
    + change (pairs (a :: b :: c)) with ((a, b) :: pairs (b :: c)) in *.
      inversion H as [|p g ps gs [Hab Hg] Hrest]; subst. cbn [fst snd] in Hab, Hg.
      cbn [map cont_sum hd tl]. rewrite (cont_sum_shift Rplus 0 Rplus_assoc Rplus_0_r Rplus_0_l).
      rewrite (IH gs Hrest). rewrite m_bn_segment_exact by assumption.
      change (last (a :: b :: c) d) with (last (b :: c) d). cbn [hd]. rewrite <- Hg. ring.
Qed.

(* ------------------------------------------------------------------------------------------------ *)
(* bendContour                                                                                      *)
(* ------------------------------------------------------------------------------------------------ *)
Definition bend_centre (a0 a1 : C) (sn : R) (e0 : C) : C :=
  let d := cabsf RA (csub RA a1 a0) in
  let R := d / (2 * sn) in
  cadd RA a0 (cmul RA (dmulc RA (R / d) (csub RA a1 a0)) e0).

(* the last point is replaced by one point per libm value exp(k I dtta) *)
Lemma bend_contour_shape (pre : list C) (a0 a1 : C) (angle sn : R) (e0 : C) (es : list C) :
  angle <> 0 -> -180 <= angle <= 180 ->
  bend_contour RA (pre ++ [a0; a1]) angle sn e0 es
  = pre ++ a0 :: map (fun e => cadd RA (bend_centre a0 a1 sn e0) (cmul RA (csub RA a0 (bend_centre a0 a1 sn e0)) e)) es.
Proof.
  intros Ha Hr. unfold bend_contour. ra_simpl.
  destruct (Reqb angle 0) eqn:E0; [apply Reqb_true in E0; contradiction|].
  rewrite rev_app_distr. cbn [rev app].
  destruct (Rltb angle (- IZR 180)) eqn:E1; [apply Rltb_true in E1; lra|].
  destruct (Rltb (IZR 180) angle) eqn:E2; [apply Rltb_true in E2; lra|].
  cbn [orb]. rewrite rev_involutive. rewrite <- app_assoc. cbn [app]. unfold bend_centre. ra_simpl. reflexivity.
Qed.

(* every inserted point is at the distance |a0 - centre| from the centre whenever the libm value has modulus 1 *)
Lemma bend_point_on_circle (ctr a0 e : C) : fst e * fst e + snd e * snd e = 1 ->
  let p := cadd RA ctr (cmul RA (csub RA a0 ctr) e) in
  (fst p - fst ctr) * (fst p - fst ctr) + (snd p - snd ctr) * (snd p - snd ctr)
  = (fst a0 - fst ctr) * (fst a0 - fst ctr) + (snd a0 - snd ctr) * (snd a0 - snd ctr).
Proof.
  intros He. cbv zeta. destruct ctr as [cx cy], a0 as [x y], e as [er ei]. unfold cadd, cmul, csub. cbn [fst snd] in *. ra_simpl.
  replace ((cx + ((x - cx) * er - (y - cy) * ei) - cx) * (cx + ((x - cx) * er - (y - cy) * ei) - cx)
           + (cy + ((x - cx) * ei + (y - cy) * er) - cy) * (cy + ((x - cx) * ei + (y - cy) * er) - cy))
    with (((x - cx) * (x - cx) + (y - cy) * (y - cy)) * (er * er + ei * ei)) by ring.
  rewrite He. ring.
Qed.

(* ------------------------------------------------------------------------------------------------ *)
(* E.t / G.t / type-0: difference of the potential at the ends; sign under reversal                 *)
(* ------------------------------------------------------------------------------------------------ *)
Lemma e_line0 (N : nat) (axi : bool) (lc depth : R) c tab (V0 V1 : R) :
  fst (e_line RA N axi lc depth 0 c tab V0 V1) = V0 - V1.
Proof. reflexivity. Qed.
Lemma h_line0 (N : nat) (axi : bool) (lc depth : R) c tab (T0 T1 : R) :
  fst (h_line RA N axi lc depth 0 c tab T0 T1) = T0 - T1.
Proof. reflexivity. Qed.
