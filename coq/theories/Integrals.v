(* Integrals.v — model of the post-processors' block selection and extensive block integrals
   (PostProcessor::selectBlocklabel toggles the label's IsSelected flag; blockIntegral sums a
   per-element term over the elements whose label is selected: epproc.cpp / hpproc.cpp /
   fpproc.cpp blockIntegral).  Model file. *)
From Coq Require Import List Bool Arith.
From XF Require Import Arith.
Import ListNotations.

Section Integrals.
  Context {F : Type} (A : Arith F).

  (* selection state: one flag per block label *)
  Definition toggle (sel : list bool) (l : nat) : list bool :=
    (fix go (s : list bool) (i : nat) := match s, i with
       | [], _ => [] | b :: t, O => negb b :: t | b :: t, S i' => b :: go t i' end) sel l.
  Definition toggles (sel : list bool) (ls : list nat) : list bool := fold_left toggle ls sel.
  Definition selected (sel : list bool) (l : nat) : bool := nth l sel false.

  (* elements as (label, term) pairs; the integral adds the terms of selected labels, in order *)
  Definition block_integral (sel : list bool) (els : list (nat * F)) : F :=
    fold_left (fun acc e => if selected sel (fst e) then aadd A acc (snd e) else acc) els (azero A).
End Integrals.
