(* DiscretizeProofs.v — theorems about fmesher's subdivision of lines and arcs (Discretize.v),
   real-number reading: part counts are ceilings, every part of a line is no longer than the
   requested spacing, the emitted sub-segments of one entity form a chain from its first to its
   last point with exactly that many links, and all points generated on an arc lie on its circle. *)
From Coq Require Import ZArith List Bool Arith Lia Reals Lra.
From XF Require Import Arith Discretize.
Import ListNotations.
Local Open Scope R_scope.

Lemma is_ceil_spec x n : is_ceil RA x n = true -> (1 <= n)%Z /\ IZR (n - 1) < x <= IZR n.
Proof.
  unfold is_ceil. intros H. apply andb_true_iff in H. destruct H as [H H3].
  apply andb_true_iff in H. destruct H as [H1 H2].
  apply Z.leb_le in H1. ra_simpl. apply Rltb_true in H2. apply Rleb_true in H3. auto.
Qed.

(* n = ceil(x): the unique integer with n-1 < x <= n *)
Lemma ceil_unique x n m : IZR (n - 1) < x <= IZR n -> IZR (m - 1) < x <= IZR m -> n = m.
Proof.
  intros [A1 A2] [B1 B2].
  assert (IZR (n - 1) < IZR m) by lra. assert (IZR (m - 1) < IZR n) by lra.
  apply lt_IZR in H. apply lt_IZR in H0. lia.
Qed.

(* a line with spacing s > 0 and length len, cut into n = ceil(len/s) equal parts: each part <= s *)
Theorem parts_respect_spacing len s n : 0 < s -> is_ceil RA (len / s) n = true -> len / IZR n <= s.
Proof.
  intros Hs H. apply is_ceil_spec in H. destruct H as [Hn [_ H]].
  assert (0 < IZR n) by (apply IZR_lt; lia).
  apply (Rmult_le_reg_r (IZR n)); [assumption|].
  unfold Rdiv. rewrite Rmult_assoc, Rinv_l by lra. rewrite Rmult_1_r.
  apply (Rmult_le_compat_r s) in H; [|lra]. unfold Rdiv in H. rewrite Rmult_assoc, Rinv_l in H by lra. lra.
Qed.

(* ---- chains ---- *)
Fixpoint is_chain (a b : nat) (l : list (nat * nat * nat)) : Prop :=
  match l with
  | [] => a = b
  | (u, v, _) :: t => u = a /\ is_chain v b t
  end.

Lemma is_chain_app a b c l1 l2 : is_chain a b l1 -> is_chain b c l2 -> is_chain a c (l1 ++ l2).
Proof.
  revert a. induction l1 as [|[[u v] k] t IH]; intros a H1 H2; simpl in *.
  - subst. exact H2.
  - destruct H1 as [-> H1]. split; [reflexivity|]. apply IH; assumption.
Qed.

Lemma is_chain_snoc a b c k l : is_chain a b l -> is_chain a c (l ++ [(b, c, k)]).
Proof. intros H. apply (is_chain_app a b c); [exact H|simpl; auto]. Qed.

Section Loops.
  Local Notation cplx := (R * R)%type.
  Variables (np : nat) (a0 a1 : cplx) (n0 n1 cnt : nat).
  Hypothesis Hnp : (2 <= np)%nat.

  Definition sub_inv (j : nat) (nodes : list cplx) (em : list (nat * nat * nat)) : Prop :=
    (j = 0%nat /\ em = []) \/
    ((1 <= j <= np - 1)%nat /\ is_chain n0 (length nodes - 1) em /\ length em = j /\ (1 <= length nodes)%nat) \/
    (j = np /\ is_chain n0 n1 em /\ length em = np).

  Lemma subdivide_inv : forall fuel j nodes segs em,
    (j <= np)%nat -> (np - j <= fuel)%nat -> sub_inv j nodes em ->
    exists nodes' em',
      subdivide RA fuel j np a0 a1 n0 n1 cnt (nodes, segs ++ em) = (nodes', segs ++ em') /\
      is_chain n0 n1 em' /\ length em' = np.
  Proof.
    induction fuel as [|fuel IH]; intros j nodes segs em Hj Hf Hinv.
    - assert (j = np) by lia. subst j. exists nodes, em. simpl. split; [reflexivity|].
      destruct Hinv as [[E _]|[[E _]|(_ & H1 & H2)]]; try lia. auto.
    - cbn [subdivide]. destruct (Nat.ltb_spec j np) as [Hlt|Hge].
      + set (a2 := cadd RA a0 _).
        destruct (Nat.eqb_spec j 0) as [->|Hj0].
        * destruct Hinv as [[_ ->]|[[E _]|[E _]]]; try lia.
          rewrite app_nil_r.
          destruct (IH 1%nat (nodes ++ [a2]) segs [(n0, length nodes, cnt)]) as (nodes' & em' & E1 & E2 & E3); try lia.
          { right; left. rewrite app_length. simpl. split; [lia|]. split; [|split; [reflexivity|lia]].
            simpl. split; [reflexivity|lia]. }
          exists nodes', em'. split; [|auto]. rewrite <- E1. reflexivity.
        * destruct Hinv as [[E _]|[(Hr & Hc & Hl & Hn)|[E _]]]; try lia.
          destruct (Nat.eqb_spec j (np - 1)) as [Hlast|Hmid].
          -- destruct (IH (S j) nodes segs (em ++ [((length nodes - 1)%nat, n1, cnt)])) as (nodes' & em' & E1 & E2 & E3); try lia.
             { right; right. split; [lia|]. split; [apply is_chain_snoc; exact Hc|].
               rewrite app_length. simpl. lia. }
             exists nodes', em'. split; [|auto]. rewrite <- E1, <- app_assoc. reflexivity.
          -- destruct (IH (S j) (nodes ++ [a2]) segs (em ++ [((length nodes - 1)%nat, length nodes, cnt)]))
               as (nodes' & em' & E1 & E2 & E3); try lia.
             { right; left. rewrite !app_length. simpl. split; [lia|]. split; [|split; lia].
               replace (length nodes + 1 - 1)%nat with (length nodes) by lia. apply is_chain_snoc. exact Hc. }
             exists nodes', em'. split; [|auto]. rewrite <- E1, <- app_assoc. reflexivity.
      + assert (j = np) by lia. subst j. exists nodes, em. split; [reflexivity|].
        destruct Hinv as [[E _]|[[E _]|(_ & H1 & H2)]]; try lia. auto.
  Qed.

  (* a line cut into np >= 2 parts: exactly np sub-segments forming a chain n0 -> n1 *)
  Theorem subdivide_chain nodes segs :
    exists nodes' em',
      subdivide RA np 0 np a0 a1 n0 n1 cnt (nodes, segs) = (nodes', segs ++ em') /\
      is_chain n0 n1 em' /\ length em' = np.
  Proof.
    destruct (subdivide_inv np 0%nat nodes segs []) as (nodes' & em' & E & H); try lia.
    - left. auto.
    - exists nodes', em'. rewrite app_nil_r in E. auto.
  Qed.

  (* the same loop for arcs *)
  Variables (c e : cplx).
  Lemma arc_points_inv : forall fuel j nodes segs em a2,
    (j <= np)%nat -> (np - j <= fuel)%nat -> sub_inv j nodes em ->
    exists nodes' em',
      arc_points RA fuel j np c e a2 n0 n1 cnt (nodes, segs ++ em) = (nodes', segs ++ em') /\
      is_chain n0 n1 em' /\ length em' = np.
  Proof.
    induction fuel as [|fuel IH]; intros j nodes segs em a2 Hj Hf Hinv.
    - assert (j = np) by lia. subst j. exists nodes, em. simpl. split; [reflexivity|].
      destruct Hinv as [[E _]|[[E _]|(_ & H1 & H2)]]; try lia. auto.
    - cbn [arc_points]. destruct (Nat.ltb_spec j np) as [Hlt|Hge].
      + set (a2' := cadd RA _ c).
        destruct (Nat.eqb_spec j 0) as [->|Hj0].
        * destruct Hinv as [[_ ->]|[[E _]|[E _]]]; try lia.
          rewrite app_nil_r.
          destruct (IH 1%nat (nodes ++ [a2']) segs [(n0, length nodes, cnt)] a2') as (nodes' & em' & E1 & E2 & E3); try lia.
          { right; left. rewrite app_length. simpl. split; [lia|]. split; [|split; [reflexivity|lia]].
            simpl. split; [reflexivity|lia]. }
          exists nodes', em'. split; [|auto]. rewrite <- E1. reflexivity.
        * destruct Hinv as [[E _]|[(Hr & Hc & Hl & Hn)|[E _]]]; try lia.
          destruct (Nat.eqb_spec j (np - 1)) as [Hlast|Hmid].
          -- destruct (IH (S j) nodes segs (em ++ [((length nodes - 1)%nat, n1, cnt)]) a2') as (nodes' & em' & E1 & E2 & E3); try lia.
             { right; right. split; [lia|]. split; [apply is_chain_snoc; exact Hc|].
               rewrite app_length. simpl. lia. }
             exists nodes', em'. split; [|auto]. rewrite <- E1, <- app_assoc. reflexivity.
          -- destruct (IH (S j) (nodes ++ [a2']) segs (em ++ [((length nodes - 1)%nat, length nodes, cnt)]) a2')
               as (nodes' & em' & E1 & E2 & E3); try lia.
             { right; left. rewrite !app_length. simpl. split; [lia|]. split; [|split; lia].
               replace (length nodes + 1 - 1)%nat with (length nodes) by lia. apply is_chain_snoc. exact Hc. }
             exists nodes', em'. split; [|auto]. rewrite <- E1, <- app_assoc. reflexivity.
      + assert (j = np) by lia. subst j. exists nodes, em. split; [reflexivity|].
        destruct Hinv as [[E _]|[[E _]|(_ & H1 & H2)]]; try lia. auto.
  Qed.

  (* an arc replaced by np >= 2 chords: exactly np chords forming a chain n0 -> n1 *)
  Theorem arc_chain nodes segs a2 :
    exists nodes' em',
      arc_points RA np 0 np c e a2 n0 n1 cnt (nodes, segs) = (nodes', segs ++ em') /\
      is_chain n0 n1 em' /\ length em' = np.
  Proof.
    destruct (arc_points_inv np 0%nat nodes segs [] a2) as (nodes' & em' & E & H); try lia.
    - left. auto.
    - exists nodes', em'. rewrite app_nil_r in E. auto.
  Qed.
End Loops.

(* ---- points generated on an arc lie on its circle ---- *)
Definition dist2 (p q : R * R) : R := (fst p - fst q) * (fst p - fst q) + (snd p - snd q) * (snd p - snd q).

Lemma rotate_keeps_distance (c e a2 : R * R) : fst e * fst e + snd e * snd e = 1 ->
  dist2 (cadd RA (cmul RA (csub RA a2 c) e) c) c = dist2 a2 c.
Proof.
  intros He. unfold dist2, cadd, cmul, csub. ra_simpl. cbn [fst snd].
  set (u := fst a2 - fst c). set (v := snd a2 - snd c).
  replace ((u * fst e - v * snd e + fst c - fst c) * (u * fst e - v * snd e + fst c - fst c) +
           (u * snd e + v * fst e + snd c - snd c) * (u * snd e + v * fst e + snd c - snd c))
    with ((u * u + v * v) * (fst e * fst e + snd e * snd e)) by ring.
  rewrite He. ring.
Qed.

Theorem arc_points_on_circle (c e : R * R) (n0 n1 cnt np : nat) :
  fst e * fst e + snd e * snd e = 1 ->
  forall fuel j nodes segs a2 r2,
    dist2 a2 c = r2 -> Forall (fun p => dist2 p c = r2) nodes ->
    Forall (fun p => dist2 p c = r2) (fst (arc_points RA fuel j np c e a2 n0 n1 cnt (nodes, segs))).
Proof.
  intros He. induction fuel as [|fuel IH]; intros j nodes segs a2 r2 Ha Hn; [exact Hn|].
  cbn [arc_points]. destruct (Nat.ltb j np); [|exact Hn].
  set (a2' := cadd RA _ c).
  assert (Ha' : dist2 a2' c = r2) by (unfold a2'; rewrite rotate_keeps_distance; auto).
  destruct (Nat.eqb j 0); [|destruct (Nat.eqb j (np - 1))]; apply IH; auto;
    apply Forall_app; split; auto.
Qed.
