(* SparseProofs.v — theorems about the model of CBigLinProb in Sparse.v.
   Part 1 is generic in the arithmetic (pure list structure): the sorted linked rows refine
   an abstract symmetric map.  Part 2 is about the real-number reading. *)
From Coq Require Import ZArith List Bool Arith Lia Reals Lra.
From XF Require Import Arith Sparse.
Import ListNotations.

Section Structure.
  Context {F : Type} (A : Arith F).
  Local Notation zero := (azero A).
  Implicit Type M : matrixT F.
  Implicit Type v : F.

  (* columns of the tail strictly increase and exceed [lo] *)
  Fixpoint sorted_from (lo : nat) (r : rowT F) : Prop :=
    match r with
    | [] => True
    | (c, _) :: t => lo < c /\ sorted_from c t
    end.

  Definition row_ok (i : nat) (r : rowT F) : Prop :=
    match r with
    | (c, _) :: t => c = i /\ sorted_from i t
    | [] => False
    end.

  Lemma sorted_from_weaken lo lo' r : lo' <= lo -> sorted_from lo r -> sorted_from lo' r.
  Proof. destruct r as [|[c x] t]; simpl; intros; [auto|]. intuition lia. Qed.

  (* the general walk: whatever the head is *)
  Lemma put_row_sorted_gen v q : forall r lo, lo < q -> sorted_from lo r ->
    sorted_from lo (put_row v q r).
  Proof.
    induction r as [|[c x] t IH]; intros lo Hlo Hs.
    - simpl; auto.
    - simpl in Hs. destruct Hs as [Hc Hs]. cbn [put_row].
      destruct (Nat.eqb_spec c q) as [->|Hne]; [simpl; auto|].
      destruct (Nat.ltb_spec c q) as [Hlt|Hge].
      + destruct t as [|[c' x'] t'].
        * simpl; intuition.
        * split; [exact Hc|]. apply IH; auto.
      + simpl. repeat split; auto; lia.
  Qed.

  Lemma put_row_ok v i q r : i <= q -> row_ok i r -> row_ok i (put_row v q r).
  Proof.
    destruct r as [|[c x] t]; [simpl; tauto|]. intros Hq [-> Hs]. cbn [put_row].
    destruct (Nat.eqb_spec i q) as [->|Hne]; [simpl; auto|].
    destruct (Nat.ltb_spec i q) as [Hlt|Hge]; [|lia].
    destruct t as [|[c' x'] t']; [simpl; intuition|].
    split; [reflexivity|]. apply put_row_sorted_gen; auto.
  Qed.

  Lemma get_row_cons c x t q :
    get_row A q ((c, x) :: t) = if Nat.eqb c q then x else if Nat.ltb c q then get_row A q t else zero.
  Proof. reflexivity. Qed.

  Lemma get_row_below q : forall r lo, q <= lo -> sorted_from lo r -> get_row A q r = zero.
  Proof.
    destruct r as [|[c x] t]; intros lo Hq Hs; simpl; [reflexivity|].
    simpl in Hs. destruct Hs as [Hc _].
    destruct (Nat.eqb_spec c q); [lia|]. destruct (Nat.ltb_spec c q); [lia|reflexivity].
  Qed.

  Lemma get_put_row_same v q : forall r lo, sorted_from lo r -> get_row A q (put_row v q r) = v.
  Proof.
    induction r as [|[c x] t IH]; intros lo Hs.
    - simpl. rewrite Nat.eqb_refl. reflexivity.
    - cbn [put_row]. destruct (Nat.eqb_spec c q) as [->|Hne].
      + simpl. rewrite Nat.eqb_refl. reflexivity.
      + destruct (Nat.ltb_spec c q) as [Hlt|Hge].
        * destruct t as [|[c' x'] t'].
          -- simpl. rewrite (proj2 (Nat.eqb_neq c q) Hne), (proj2 (Nat.ltb_lt c q) Hlt), Nat.eqb_refl. reflexivity.
          -- cbn [get_row]. rewrite (proj2 (Nat.eqb_neq c q) Hne), (proj2 (Nat.ltb_lt c q) Hlt).
             simpl in Hs. apply (IH c). simpl. tauto.
        * simpl. rewrite Nat.eqb_refl. reflexivity.
  Qed.

  Lemma get_put_row_other v q q' : q' <> q -> forall r lo, sorted_from lo r ->
    get_row A q' (put_row v q r) = get_row A q' r.
  Proof.
    intros Hqq. induction r as [|[c x] t IH]; intros lo Hs.
    - simpl. rewrite (proj2 (Nat.eqb_neq q q')) by auto.
      destruct (Nat.ltb q q'); reflexivity.
    - cbn [put_row]. simpl in Hs. destruct Hs as [Hc Hs].
      destruct (Nat.eqb_spec c q) as [->|Hne].
      + simpl. rewrite (proj2 (Nat.eqb_neq q q')) by auto. reflexivity.
      + destruct (Nat.ltb_spec c q) as [Hlt|Hge].
        * destruct t as [|[c' x'] t'].
          -- simpl. destruct (Nat.eqb_spec c q'); [reflexivity|].
             destruct (Nat.ltb_spec c q'); [|reflexivity].
             rewrite (proj2 (Nat.eqb_neq q q')) by auto.
             destruct (Nat.ltb q q'); reflexivity.
          -- cbn [get_row]. destruct (Nat.eqb c q'); [reflexivity|].
             destruct (Nat.ltb c q'); [|reflexivity]. apply (IH c). exact Hs.
        * cbn [get_row]. rewrite (proj2 (Nat.eqb_neq q q')) by auto.
          destruct (Nat.ltb_spec q q') as [Hl|Hg]; [reflexivity|].
          destruct (Nat.eqb_spec c q'); [lia|]. destruct (Nat.ltb_spec c q'); [lia|reflexivity].
  Qed.

  (* ---- matrix level ---- *)
  Definition mat_ok (M : matrixT F) : Prop :=
    forall i, i < length M -> row_ok i (nth i M []).

  Lemma upd_nth_length {T} (l : list T) i f : length (upd_nth l i f) = length l.
  Proof. revert i; induction l; destruct i; simpl; auto. Qed.
  Lemma nth_upd_nth_same {T} (l : list T) i f d : i < length l -> nth i (upd_nth l i f) d = f (nth i l d).
  Proof. revert i; induction l; destruct i; simpl; intros; try lia; auto. apply IHl; lia. Qed.
  Lemma nth_upd_nth_other {T} (l : list T) i j f d : i <> j -> nth j (upd_nth l i f) d = nth j l d.
  Proof. revert i j; induction l; destruct i, j; simpl; intros; try lia; auto. Qed.

  Lemma mcreate_length n : length (mcreate A n) = n.
  Proof. unfold mcreate. rewrite map_length, seq_length. reflexivity. Qed.

  Lemma nth_map_seq {T} (f : nat -> T) n i d : i < n -> nth i (map f (seq 0 n)) d = f i.
  Proof.
    intros. rewrite (nth_indep _ d (f 0)) by (rewrite map_length, seq_length; lia).
    rewrite (map_nth f), seq_nth by lia. reflexivity.
  Qed.

  Lemma mcreate_ok n : mat_ok (mcreate A n).
  Proof.
    intros i Hi. rewrite mcreate_length in Hi. unfold mcreate.
    rewrite nth_map_seq by lia. simpl. auto.
  Qed.

  Lemma mput_length M v p q : length (mput M v p q) = length M.
  Proof. unfold mput. destruct (Nat.ltb q p); apply upd_nth_length. Qed.

  Lemma mput_ok M v p q : mat_ok M -> mat_ok (mput M v p q).
  Proof.
    intros HM i Hi. rewrite mput_length in Hi. unfold mput.
    destruct (Nat.ltb_spec q p) as [Hlt|Hge].
    - destruct (Nat.eq_dec q i) as [->|Hne].
      + rewrite nth_upd_nth_same by auto. apply put_row_ok; [lia|auto].
      + rewrite nth_upd_nth_other by auto. auto.
    - destruct (Nat.eq_dec p i) as [->|Hne].
      + rewrite nth_upd_nth_same by auto. apply put_row_ok; [lia|auto].
      + rewrite nth_upd_nth_other by auto. auto.
  Qed.

  Lemma mget_sym M p q : mget A M p q = mget A M q p.
  Proof.
    unfold mget. destruct (Nat.ltb_spec q p), (Nat.ltb_spec p q); try lia; try reflexivity.
    assert (p = q) by lia. subst. reflexivity.
  Qed.

  Lemma row_ok_sorted i r : row_ok i r -> exists lo, sorted_from lo r \/ True.
  Proof. intros; exists 0; auto. Qed.

  (* a row that is ok is "sorted from" something below its head, seen as a whole list *)
  Lemma row_ok_get_put_same v i q r : i <= q -> row_ok i r -> get_row A q (put_row v q r) = v.
  Proof.
    destruct r as [|[c x] t]; [simpl; tauto|]. intros Hq [-> Hs].
    cbn [put_row]. destruct (Nat.eqb_spec i q) as [->|Hne].
    - simpl. rewrite Nat.eqb_refl. reflexivity.
    - destruct (Nat.ltb_spec i q) as [Hlt|Hge]; [|lia].
      destruct t as [|[c' x'] t'].
      + simpl. rewrite (proj2 (Nat.eqb_neq i q) Hne), (proj2 (Nat.ltb_lt i q) Hlt), Nat.eqb_refl. reflexivity.
      + cbn [get_row]. rewrite (proj2 (Nat.eqb_neq i q) Hne), (proj2 (Nat.ltb_lt i q) Hlt).
        apply (get_put_row_same v q _ i). exact Hs.
  Qed.

  Lemma row_ok_get_put_other v i q q' r : i <= q -> q' <> q -> row_ok i r ->
    get_row A q' (put_row v q r) = get_row A q' r.
  Proof.
    destruct r as [|[c x] t]; [simpl; tauto|]. intros Hq Hqq [-> Hs].
    cbn [put_row]. destruct (Nat.eqb_spec i q) as [->|Hne].
    - simpl. rewrite (proj2 (Nat.eqb_neq q q')) by auto. reflexivity.
    - destruct (Nat.ltb_spec i q) as [Hlt|Hge]; [|lia].
      destruct t as [|[c' x'] t'].
      + simpl. destruct (Nat.eqb_spec i q'); [reflexivity|].
        destruct (Nat.ltb_spec i q'); [|reflexivity].
        rewrite (proj2 (Nat.eqb_neq q q')) by auto. destruct (Nat.ltb q q'); reflexivity.
      + rewrite !(get_row_cons i x). destruct (Nat.eqb i q'); [reflexivity|].
        destruct (Nat.ltb i q'); [|reflexivity].
        apply (get_put_row_other v q q' Hqq _ i). exact Hs.
  Qed.

  (* exact set/get: reading back the entry just written, at either orientation *)
  Theorem mget_mput_same M v p q : mat_ok M -> p < length M -> q < length M ->
    mget A (mput M v p q) p q = v.
  Proof.
    intros HM Hp Hq. unfold mget, mput.
    destruct (Nat.ltb_spec q p) as [Hlt|Hge].
    - rewrite nth_upd_nth_same by auto. apply (row_ok_get_put_same v q p); [lia|auto].
    - rewrite nth_upd_nth_same by auto. apply (row_ok_get_put_same v p q); [lia|auto].
  Qed.

  (* every other (unordered) position is untouched *)
  Theorem mget_mput_other M v p q p' q' : mat_ok M -> p < length M -> q < length M ->
    ~ ((p' = p /\ q' = q) \/ (p' = q /\ q' = p)) ->
    mget A (mput M v p q) p' q' = mget A M p' q'.
  Proof.
    intros HM Hp Hq Hne. unfold mget, mput.
    destruct (Nat.ltb_spec q p) as [Hlt|Hge]; destruct (Nat.ltb_spec q' p') as [Hlt'|Hge'].
    - destruct (Nat.eq_dec q q') as [<-|Hr].
      + rewrite nth_upd_nth_same by auto. apply (row_ok_get_put_other v q p p'); [lia| |auto].
        intro; subst; apply Hne; auto.
      + rewrite nth_upd_nth_other by auto. reflexivity.
    - destruct (Nat.eq_dec q p') as [<-|Hr].
      + rewrite nth_upd_nth_same by auto. apply (row_ok_get_put_other v q p q'); [lia| |auto].
        intro; subst; apply Hne; auto.
      + rewrite nth_upd_nth_other by auto. reflexivity.
    - destruct (Nat.eq_dec p q') as [<-|Hr].
      + rewrite nth_upd_nth_same by auto. apply (row_ok_get_put_other v p q p'); [lia| |auto].
        intro; subst; apply Hne; auto.
      + rewrite nth_upd_nth_other by auto. reflexivity.
    - destruct (Nat.eq_dec p p') as [<-|Hr].
      + rewrite nth_upd_nth_same by auto. apply (row_ok_get_put_other v p q q'); [lia| |auto].
        intro; subst; apply Hne; auto.
      + rewrite nth_upd_nth_other by auto. reflexivity.
  Qed.

  (* ---- refinement to an abstract symmetric map ---- *)
  Definition amat := nat -> nat -> F.
  Local Notation matrix := (matrixT F).              (* the abstract matrix *)
  Definition abs (M : matrixT F) : amat := fun p q => mget A M p q.
  Definition same_key (p q p' q' : nat) : bool :=
    (Nat.eqb p' p && Nat.eqb q' q) || (Nat.eqb p' q && Nat.eqb q' p).
  Definition aput (a : amat) (v : F) (p q : nat) : amat :=
    fun p' q' => if same_key p q p' q' then v else a p' q'.

  Lemma same_key_spec p q p' q' :
    same_key p q p' q' = true <-> ((p' = p /\ q' = q) \/ (p' = q /\ q' = p)).
  Proof.
    unfold same_key. rewrite orb_true_iff, !andb_true_iff, !Nat.eqb_eq. tauto.
  Qed.

  Theorem abs_mput M v p q : mat_ok M -> p < length M -> q < length M ->
    forall p' q', abs (mput M v p q) p' q' = aput (abs M) v p q p' q'.
  Proof.
    intros HM Hp Hq p' q'. unfold abs, aput.
    destruct (same_key p q p' q') eqn:E.
    - apply same_key_spec in E. destruct E as [[-> ->]|[-> ->]].
      + apply mget_mput_same; auto.
      + rewrite mget_sym. apply mget_mput_same; auto.
    - apply mget_mput_other; auto. intro H. apply same_key_spec in H. congruence.
  Qed.

  (* a history of Put operations *)
  Definition puts (M : matrixT F) (h : list (F * nat * nat)) : matrix :=
    fold_left (fun M '(v, p, q) => mput M v p q) h M.
  Definition aputs (a : amat) (h : list (F * nat * nat)) : amat :=
    fold_left (fun a '(v, p, q) => aput a v p q) h a.
  Definition in_range n (h : list (F * nat * nat)) : Prop :=
    Forall (fun '(v, p, q) => p < n /\ q < n) h.

  Lemma puts_ok_len h : forall M, mat_ok M -> in_range (length M) h ->
    mat_ok (puts M h) /\ length (puts M h) = length M.
  Proof.
    induction h as [|[[v p] q] h IH]; intros M HM Hr; simpl; [auto|].
    unfold in_range in Hr; apply Forall_cons_iff in Hr; destruct Hr as [[Hp Hq] Hr'].
    destruct (IH (mput M v p q)) as [H1 H2].
    - apply mput_ok; auto.
    - rewrite mput_length; auto.
    - split; [auto|]. rewrite H2. apply mput_length.
  Qed.

  Lemma aputs_ext h : forall a a', (forall p q, a p q = a' p q) ->
    forall p q, aputs a h p q = aputs a' h p q.
  Proof.
    induction h as [|[[v p0] q0] h IH]; intros a a' E p q; simpl; [auto|].
    apply IH. intros p' q'. unfold aput. rewrite E. reflexivity.
  Qed.

  Theorem abs_puts h : forall M, mat_ok M -> in_range (length M) h ->
    forall p q, abs (puts M h) p q = aputs (abs M) h p q.
  Proof.
    induction h as [|[[v p0] q0] h IH]; intros M HM Hr p q; simpl; [reflexivity|].
    unfold in_range in Hr; apply Forall_cons_iff in Hr; destruct Hr as [[Hp Hq] Hr'].
    rewrite IH; [|apply mput_ok; auto|rewrite mput_length; auto].
    apply aputs_ext. intros. apply abs_mput; auto.
  Qed.

  (* last writer wins, per unordered key: the abstract result of a history *)
  Fixpoint last_write (h : list (F * nat * nat)) (p q : nat) : option F :=
    match h with
    | [] => None
    | (v, p0, q0) :: h' =>
        match last_write h' p q with
        | Some w => Some w
        | None => if same_key p0 q0 p q then Some v else None
        end
    end.

  Lemma aputs_last_write h : forall a p q,
    aputs a h p q = match last_write h p q with Some w => w | None => a p q end.
  Proof.
    induction h as [|[[v p0] q0] h IH]; intros a p q; simpl; [reflexivity|].
    rewrite IH. destruct (last_write h p q); [reflexivity|].
    unfold aput. destruct (same_key p0 q0 p q); reflexivity.
  Qed.

  Lemma last_write_sym h p q : last_write h p q = last_write h q p.
  Proof.
    induction h as [|[[v p0] q0] h IH]; simpl; [reflexivity|]. rewrite IH.
    destruct (last_write h q p); [reflexivity|].
    replace (same_key p0 q0 q p) with (same_key p0 q0 p q); [reflexivity|].
    unfold same_key. rewrite orb_comm, (andb_comm (q =? p0)), (andb_comm (q =? q0)). reflexivity.
  Qed.

  (* Insertion-order independence: two histories with the same last write per key give
     the same abstract matrix — in particular any permutation of writes to distinct keys. *)
  Theorem puts_order_independent n h1 h2 :
    in_range n h1 -> in_range n h2 ->
    (forall p q, last_write h1 p q = last_write h2 p q) ->
    forall p q, abs (puts (mcreate A n) h1) p q = abs (puts (mcreate A n) h2) p q.
  Proof.
    intros H1 H2 E p q.
    rewrite !abs_puts by (try apply mcreate_ok; rewrite mcreate_length; auto).
    rewrite !aputs_last_write, E. reflexivity.
  Qed.

  Theorem puts_symmetric n h p q : abs (puts (mcreate A n) h) p q = abs (puts (mcreate A n) h) q p.
  Proof. unfold abs. apply mget_sym. Qed.
End Structure.

(* ------------------------------------------------------------------------------------ *)
(* Part 2 — the real-number reading                                                      *)
(* ------------------------------------------------------------------------------------ *)
Section VecGeneric.
  Context {F : Type} (A : Arith F).
  Implicit Type X Y : vecT F.

  Lemma vset_length X i (v : F) : length (vset X i v) = length X.
  Proof. revert i; induction X; destruct i; simpl; auto. Qed.
  Lemma vget_vset_same X i (v : F) : i < length X -> vget A (vset X i v) i = v.
  Proof. unfold vget. revert i; induction X; destruct i; simpl; intros; try lia; auto. apply IHX; lia. Qed.
  Lemma vget_vset_other X i k (v : F) : k <> i -> vget A (vset X i v) k = vget A X k.
  Proof. unfold vget. revert i k; induction X; destruct i, k; simpl; intros; try lia; auto. Qed.
  Lemma vget_vset X i k (v : F) : i < length X ->
    vget A (vset X i v) k = if Nat.eqb k i then v else vget A X k.
  Proof.
    intros. destruct (Nat.eqb_spec k i) as [->|Hn]; [apply vget_vset_same; auto|apply vget_vset_other; auto].
  Qed.
  Lemma vzero_length n : length (vzero A n) = n.
  Proof. unfold vzero. apply repeat_length. Qed.
  Lemma vget_vzero n k : vget A (vzero A n) k = azero A.
  Proof.
    unfold vget, vzero. revert k. induction n; destruct k; simpl; auto.
  Qed.
End VecGeneric.

Local Open Scope R_scope.

Fixpoint rsum (f : nat -> R) (n : nat) : R :=
  match n with O => 0 | S n' => rsum f n' + f n' end.

Lemma rsum_ext f g n : (forall i, (i < n)%nat -> f i = g i) -> rsum f n = rsum g n.
Proof. induction n; simpl; intros H; [reflexivity|]. rewrite IHn, H; auto. Qed.
Lemma rsum_plus f g n : rsum (fun i => f i + g i) n = rsum f n + rsum g n.
Proof. induction n; simpl; [lra|]. rewrite IHn. lra. Qed.
Lemma rsum_minus f g n : rsum (fun i => f i - g i) n = rsum f n - rsum g n.
Proof. induction n; simpl; [lra|]. rewrite IHn. lra. Qed.
Lemma rsum_scal a f n : rsum (fun i => a * f i) n = a * rsum f n.
Proof. induction n; simpl; [lra|]. rewrite IHn. lra. Qed.
Lemma rsum_zero n : rsum (fun _ => 0) n = 0.
Proof. induction n; simpl; lra. Qed.
Lemma rsum_single k a n : (k < n)%nat -> rsum (fun j => if Nat.eqb k j then a j else 0) n = a k.
Proof.
  induction n; intros Hk; [lia|]. simpl.
  destruct (Nat.eqb_spec k n) as [->|Hne].
  - rewrite (rsum_ext _ (fun _ => 0)); [rewrite rsum_zero; lra|].
    intros i Hi. destruct (Nat.eqb_spec n i); [lia|reflexivity].
  - rewrite IHn by lia. lra.
Qed.
Lemma rsum_single_out k a n : (n <= k)%nat -> rsum (fun j => if Nat.eqb k j then a j else 0) n = 0.
Proof.
  intros Hk. rewrite (rsum_ext _ (fun _ => 0)); [apply rsum_zero|].
  intros i Hi. destruct (Nat.eqb_spec k i); [lia|reflexivity].
Qed.

Section RealReading.
  Local Notation vgetR := (vget RA).
  Local Notation mgetR := (mget RA).
  Implicit Type M : matrixT R.
  Implicit Type X Y : vecT R.

  Definition cols_lt (n : nat) (r : rowT R) : Prop := Forall (fun e => (fst e < n)%nat) r.
  Definition mat_wf M : Prop :=
    mat_ok M /\ forall i, (i < length M)%nat -> cols_lt (length M) (nth i M []).

  (* sums over the entries of a (tail of a) row *)
  Fixpoint tsum1 (es : rowT R) X : R :=
    match es with [] => 0 | (c, x) :: t => x * vgetR X c + tsum1 t X end.
  Fixpoint tsumk (es : rowT R) (k : nat) (xi : R) : R :=
    match es with [] => 0 | (c, x) :: t => (if Nat.eqb k c then x * xi else 0) + tsumk t k xi end.

  Lemma multA_tail_spec i xi X : forall es Y, (i < length Y)%nat -> cols_lt (length Y) es ->
    length (multA_tail RA i xi es X Y) = length Y /\
    forall k, vgetR (multA_tail RA i xi es X Y) k =
              vgetR Y k + (if Nat.eqb k i then tsum1 es X else 0) + tsumk es k xi.
  Proof.
    induction es as [|[c x] t IH]; intros Y Hi Hc.
    - simpl. split; [reflexivity|]. intros k. destruct (Nat.eqb k i); lra.
    - apply Forall_cons_iff in Hc. destruct Hc as [Hc Ht]. simpl in Hc.
      cbn [multA_tail].
      set (Y1 := vset Y i _). set (Y2 := vset Y1 c _).
      assert (L1 : length Y1 = length Y) by apply vset_length.
      assert (L2 : length Y2 = length Y) by (unfold Y2; rewrite vset_length; exact L1).
      destruct (IH Y2) as [IL IV]; [lia|rewrite L2; exact Ht|].
      split; [lia|]. intros k. rewrite IV. unfold Y2.
      rewrite (vget_vset RA) by lia. unfold Y1 at 2.
      rewrite (vget_vset RA) by lia. unfold Y1.
      cbn [tsum1 tsumk]. ra_simpl.
      destruct (Nat.eqb_spec k c) as [Hkc|Hkc]; destruct (Nat.eqb_spec k i) as [Hki|Hki]; subst.
      + rewrite (vget_vset_same RA) by lia. lra.
      + rewrite (vget_vset_other RA) by auto. lra.
      + lra.
      + lra.
  Qed.

  Definition contrib (i : nat) (r : rowT R) X (k : nat) : R :=
    match r with
    | [] => 0
    | (_, d) :: es =>
        (if Nat.eqb k i then d * vgetR X i + tsum1 es X else 0) + tsumk es k (vgetR X i)
    end.

  Fixpoint contribs (i : nat) (rows : matrixT R) X (k : nat) : R :=
    match rows with [] => 0 | r :: rows' => contrib i r X k + contribs (S i) rows' X k end.

  Lemma multA_rows_spec X : forall rows i Y,
    (i + length rows <= length Y)%nat ->
    (forall r, In r rows -> cols_lt (length Y) r) ->
    length (multA_rows RA i rows X Y) = length Y /\
    forall k, vgetR (multA_rows RA i rows X Y) k = vgetR Y k + contribs i rows X k.
  Proof.
    induction rows as [|r rows IH]; intros i Y Hlen Hc.
    - simpl. split; [reflexivity|]. intros; lra.
    - cbn [multA_rows contribs]. simpl in Hlen.
      destruct r as [|[c0 d] es].
      + destruct (IH (S i) Y) as [IL IV]; [lia|intros; apply Hc; right; auto|].
        split; [exact IL|]. intros k. rewrite IV. simpl. lra.
      + set (Y0 := vset Y i _).
        assert (L0 : length Y0 = length Y) by apply vset_length.
        assert (Hes : cols_lt (length Y0) es).
        { rewrite L0. specialize (Hc _ (or_introl eq_refl)). apply Forall_cons_iff in Hc. tauto. }
        destruct (multA_tail_spec i (vgetR X i) X es Y0) as [TL TV]; [lia|exact Hes|].
        destruct (IH (S i) (multA_tail RA i (vgetR X i) es X Y0)) as [IL IV].
        * rewrite TL. lia.
        * intros r Hr. rewrite TL, L0. apply Hc. right; auto.
        * split; [rewrite IL, TL; exact L0|].
          intros k. rewrite IV, TV. unfold Y0. rewrite (vget_vset RA) by lia.
          unfold contrib. ra_simpl.
          destruct (Nat.eqb_spec k i) as [->|Hn]; lra.
  Qed.

  (* entries of a sorted tail, seen through get_row *)
  Lemma tsum1_get n X : forall t lo, sorted_from lo t -> cols_lt n t ->
    tsum1 t X = rsum (fun j => get_row RA j t * vgetR X j) n.
  Proof.
    induction t as [|[c x] t IH]; intros lo Hs Hc.
    - simpl. rewrite (rsum_ext _ (fun _ => 0)); [rewrite rsum_zero; reflexivity|]. intros; ra_simpl; lra.
    - simpl in Hs. destruct Hs as [Hlo Hs]. apply Forall_cons_iff in Hc. destruct Hc as [Hc Ht]. simpl in Hc.
      cbn [tsum1]. rewrite (IH c Hs Ht).
      rewrite (rsum_ext (fun j => get_row RA j ((c, x) :: t) * vgetR X j)
                 (fun j => (if Nat.eqb c j then x * vgetR X j else 0) + get_row RA j t * vgetR X j)).
      + rewrite rsum_plus. rewrite (rsum_single c (fun j => x * vgetR X j)) by lia. reflexivity.
      + intros j Hj. rewrite get_row_cons.
        destruct (Nat.eqb_spec c j) as [->|Hne].
        * rewrite (get_row_below RA j t j) by (auto; lia). ra_simpl. lra.
        * destruct (Nat.ltb_spec c j) as [Hl|Hg]; [lra|].
          rewrite (get_row_below RA j t c) by (auto; lia). ra_simpl. lra.
  Qed.

  Lemma tsumk_get k xi : forall t lo, sorted_from lo t -> tsumk t k xi = get_row RA k t * xi.
  Proof.
    induction t as [|[c x] t IH]; intros lo Hs.
    - simpl. lra.
    - simpl in Hs. destruct Hs as [Hlo Hs]. cbn [tsumk]. rewrite (IH c Hs), get_row_cons.
      rewrite (Nat.eqb_sym k c).
      destruct (Nat.eqb_spec c k) as [->|Hne].
      + rewrite (get_row_below RA k t k) by (auto; lia). ra_simpl. lra.
      + destruct (Nat.ltb_spec c k) as [Hl|Hg]; [lra|].
        rewrite (get_row_below RA k t c) by (auto; lia). ra_simpl. lra.
  Qed.

  (* contribution of row i to component k, in terms of the abstract matrix *)
  Lemma contrib_abs M X i k : mat_wf M -> (i < length M)%nat -> (k < length M)%nat ->
    contrib i (nth i M []) X k =
      (if Nat.eqb k i then rsum (fun j => if Nat.leb k j then mgetR M k j * vgetR X j else 0) (length M) else 0)
      + (if Nat.ltb i k then mgetR M k i * vgetR X i else 0).
  Proof.
    intros [Hok Hcols] Hi Hk. specialize (Hok i Hi). specialize (Hcols i Hi).
    destruct (nth i M []) as [|[c0 d] es] eqn:E; [simpl in Hok; tauto|].
    destruct Hok as [-> Hs]. apply Forall_cons_iff in Hcols. destruct Hcols as [_ Hes].
    unfold contrib. f_equal.
    - destruct (Nat.eqb_spec k i) as [->|Hne]; [|reflexivity].
      rewrite (tsum1_get (length M) X es i Hs Hes).
      rewrite <- (rsum_single i (fun j => d * vgetR X j) (length M)) at 1 by lia.
      rewrite <- rsum_plus. apply rsum_ext. intros j Hj.
      unfold mget. destruct (Nat.leb_spec i j) as [Hle|Hgt].
      + destruct (Nat.ltb_spec j i); [lia|]. rewrite E, get_row_cons.
        destruct (Nat.eqb_spec i j) as [->|Hne].
        * rewrite (get_row_below RA j es j) by (auto; lia). ra_simpl. lra.
        * destruct (Nat.ltb_spec i j); [|lia]. lra.
      + destruct (Nat.eqb_spec i j); [lia|]. rewrite (get_row_below RA j es i) by (auto; lia). ra_simpl. lra.
    - rewrite (tsumk_get k (vgetR X i) es i Hs).
      destruct (Nat.ltb_spec i k) as [Hl|Hg].
      + unfold mget. destruct (Nat.ltb_spec i k); [|lia]. rewrite E, get_row_cons.
        destruct (Nat.eqb_spec i k); [lia|]. destruct (Nat.ltb_spec i k); [|lia]. reflexivity.
      + rewrite (get_row_below RA k es i) by (auto; lia). ra_simpl. lra.
  Qed.

  Lemma contribs_nth X k : forall rows i,
    contribs i rows X k = rsum (fun t => contrib (i + t) (nth t rows []) X k) (length rows).
  Proof.
    induction rows as [|r rows IH] using rev_ind; intros i.
    - reflexivity.
    - rewrite app_length. simpl length. rewrite Nat.add_1_r. simpl rsum.
      rewrite app_nth2, Nat.sub_diag by lia. simpl nth.
      assert (G : forall rows' r' i', contribs i' (rows' ++ [r']) X k =
                   contribs i' rows' X k + contrib (i' + length rows') r' X k).
      { induction rows' as [|a rows' IH']; intros r' i'; simpl.
        - rewrite Nat.add_0_r. lra.
        - rewrite IH'. replace (S i' + length rows')%nat with (i' + S (length rows'))%nat by lia. lra. }
      rewrite G, IH. f_equal. apply rsum_ext. intros t Ht. rewrite app_nth1 by lia. reflexivity.
  Qed.

  (* MultA computes the matrix-vector product of the abstract symmetric matrix *)
  Theorem multA_spec M X : mat_wf M ->
    length (multA RA M X) = length M /\
    forall k, (k < length M)%nat ->
      vgetR (multA RA M X) k = rsum (fun j => mgetR M k j * vgetR X j) (length M).
  Proof.
    intros Hwf. unfold multA.
    destruct (multA_rows_spec X M 0 (vzero RA (length M))) as [HL HV].
    - rewrite vzero_length. lia.
    - intros r Hr. rewrite vzero_length. destruct Hwf as [_ Hc].
      apply In_nth with (d := []) in Hr. destruct Hr as [i [Hi <-]]. auto.
    - rewrite vzero_length in HL. split; [exact HL|].
      intros k Hk. rewrite HV, vget_vzero, contribs_nth. ra_simpl.
      rewrite (rsum_ext _ (fun t =>
         (if Nat.eqb k t then rsum (fun j => if Nat.leb k j then mgetR M k j * vgetR X j else 0) (length M) else 0)
         + (if Nat.ltb t k then mgetR M k t * vgetR X t else 0))).
      2:{ intros t Ht. simpl. rewrite contrib_abs by auto. reflexivity. }
      rewrite rsum_plus.
      rewrite (rsum_single k (fun _ => rsum (fun j => if Nat.leb k j then mgetR M k j * vgetR X j else 0) (length M))) by auto.
      rewrite <- rsum_plus. rewrite Rplus_0_l. apply rsum_ext. intros j Hj.
      destruct (Nat.leb_spec k j), (Nat.ltb_spec j k); try lia; lra.
  Qed.
End RealReading.

(* ------------------------------------------------------------------------------------ *)
(* Part 3 — the conjugate-gradient loop keeps R = b - A V (the TRUE residual)           *)
(* ------------------------------------------------------------------------------------ *)
Section Lengths.
  Context {F : Type} (A : Arith F).
  Local Notation matrix := (matrixT F).
  Local Notation vec := (vecT F).
  Local Notation row := (rowT F).

  Lemma pc_lower_tail_length yi lam : forall (es : row) (Y : vec),
    length (pc_lower_tail A yi lam es Y) = length Y.
  Proof. induction es as [|[c x] t IH]; intros Y; simpl; [reflexivity|]. rewrite IH. apply vset_length. Qed.
  Lemma pc_lower_length lam : forall (rows : matrix) i (Y : vec),
    length (pc_lower A i rows lam Y) = length Y.
  Proof.
    induction rows as [|r rows IH]; intros i Y; simpl; [reflexivity|].
    rewrite IH, pc_lower_tail_length. apply vset_length.
  Qed.
  Lemma pc_upper_tail_length i lam : forall (es : row) (Y : vec),
    length (pc_upper_tail A i lam es Y) = length Y.
  Proof. induction es as [|[c x] t IH]; intros Y; simpl; [reflexivity|]. rewrite IH. apply vset_length. Qed.
  Lemma pc_upper_length lam : forall (irows : list (nat * row)) (Y : vec),
    length (pc_upper A irows lam Y) = length Y.
  Proof.
    induction irows as [|[i r] rest IH]; intros Y; simpl; [reflexivity|].
    rewrite IH, vset_length. apply pc_upper_tail_length.
  Qed.
  Lemma multPC_length (M : matrix) lam (X : vec) : length X = length M ->
    length (multPC A M lam X) = length M.
  Proof.
    intros H. unfold multPC. rewrite pc_upper_length, map_length, combine_length, pc_lower_length, map_length.
    lia.
  Qed.
End Lengths.

Section CG.
  Local Notation vgetR := (vget RA).
  Local Notation mgetR := (mget RA).
  Implicit Type M : matrixT R.
  Implicit Type X Y V P b : vecT R.

  Lemma vget_map2 (f : R * R -> R) X Y k : length X = length Y -> f (0, 0) = 0 ->
    vgetR (map f (combine X Y)) k = f (vgetR X k, vgetR Y k).
  Proof.
    intros HL H0. unfold vget. ra_simpl.
    rewrite <- H0 at 1. rewrite (map_nth f (combine X Y) (0, 0) k).
    rewrite combine_nth by auto. reflexivity.
  Qed.

  Definition Ax M V (k : nat) : R := rsum (fun j => mgetR M k j * vgetR V j) (length M).

  (* Rv is the true residual of V for the system (M, b) *)
  Definition is_resid M b V Rv : Prop :=
    length Rv = length M /\ forall k, (k < length M)%nat -> vgetR Rv k = vgetR b k - Ax M V k.

  Definition cg_inv M b (s : cgstate (F:=R)) : Prop :=
    length (cV s) = length M /\ length (cP s) = length M /\ is_resid M b (cV s) (cR s).

  Lemma cg_step_inv M b lam s : mat_wf M -> cg_inv M b s -> cg_inv M b (cg_step RA M lam s).
  Proof.
    intros Hwf (HV & HP & HRl & HR).
    destruct (multA_spec M (cP s) Hwf) as [UL UV].
    unfold cg_step, cg_inv. cbn [cV cP cR cres].
    set (U := multA RA M (cP s)) in *.
    set (del := adiv RA (cres s) (dot RA (cP s) U)).
    assert (LV' : length (vaxpy RA del (cP s) (cV s)) = length M).
    { unfold vaxpy. rewrite map_length, combine_length. lia. }
    assert (LR' : length (vaxmy RA del U (cR s)) = length M).
    { unfold vaxmy. rewrite map_length, combine_length. lia. }
    split; [exact LV'|]. split.
    - rewrite map_length, combine_length, multPC_length by exact LR'. lia.
    - split; [exact LR'|]. intros k Hk.
      unfold vaxmy, vaxpy.
      rewrite (vget_map2 (fun '(y, x) => asub RA y (amul RA del x))) by (ra_simpl; try lia; lra).
      rewrite HR, UV by auto. unfold Ax.
      rewrite (rsum_ext (fun j => mgetR M k j * vgetR (map (fun '(y, x) => aadd RA y (amul RA del x)) (combine (cV s) (cP s))) j)
                        (fun j => mgetR M k j * vgetR (cV s) j + del * (mgetR M k j * vgetR (cP s) j))).
      + rewrite rsum_plus, rsum_scal. ra_simpl. lra.
      + intros j Hj. rewrite (vget_map2 (fun '(y, x) => aadd RA y (amul RA del x))) by (ra_simpl; try lia; lra).
        ra_simpl. lra.
  Qed.

  Lemma cg_loop_inv M b lam prec res_o : mat_wf M -> forall fuel s it s' it' ok,
    cg_inv M b s -> cg_loop RA fuel M lam prec res_o s it = (s', it', ok) ->
    cg_inv M b s' /\
    (ok = true -> cres s' = dot RA (multPC RA M lam (cR s')) (cR s') /\
                  ~ (prec < sqrt (cres s' / res_o))).
  Proof.
    intros Hwf. induction fuel as [|fuel IH]; intros s it s' it' ok Hinv Hrun.
    - simpl in Hrun. inversion Hrun; subst. split; [exact Hinv|discriminate].
    - cbn [cg_loop] in Hrun.
      pose proof (cg_step_inv M b lam s Hwf Hinv) as Hinv'.
      destruct (altb RA prec (asqrt RA (adiv RA (cres (cg_step RA M lam s)) res_o))) eqn:E.
      + eapply IH; eauto.
      + inversion Hrun; subst. split; [exact Hinv'|]. intros _. split.
        * reflexivity.
        * ra_simpl. apply Rltb_false in E. exact E.
  Qed.

  (* PCGSolve: when the solver reports convergence, the vector it leaves in V has a true
     residual R = b - A V whose preconditioned norm ratio passed the exit test. *)
  Theorem pcg_converged (L : lin (F:=R)) flag fuel V it :
    mat_wf (lM L) -> length (lb L) = length (lM L) -> length (lV L) = length (lM L) ->
    ln L = length (lM L) ->
    pcg RA fuel L flag = (V, it, 1%nat) ->
    let res_o := dot RA (multPC RA (lM L) (llam L) (lb L)) (lb L) in
    (res_o = 0 /\ V = lV L) \/
    (res_o <> 0 /\ exists Rv, is_resid (lM L) (lb L) V Rv /\
       ~ (lprec L < sqrt (dot RA (multPC RA (lM L) (llam L) Rv) Rv / res_o))).
  Proof.
    intros Hwf Hb HVl Hn Hrun res_o. unfold pcg in Hrun.
    destruct (has_zero_diag RA (lM L)); [inversion Hrun|].
    fold res_o in Hrun.
    destruct (aeqb RA res_o (azero RA)) eqn:E0.
    - left. ra_simpl. apply Reqb_true in E0. inversion Hrun; subst. auto.
    - right. ra_simpl. apply Reqb_false in E0. split; [exact E0|].
      set (V0 := if flag then lV L else vzero RA (ln L)) in *.
      set (R0 := map _ (combine (lb L) (multA RA (lM L) V0))) in *.
      destruct (cg_loop RA fuel (lM L) (llam L) (lprec L) res_o
                  (mkCG V0 (multPC RA (lM L) (llam L) R0) R0 (dot RA (multPC RA (lM L) (llam L) R0) R0)) 0)
        as [[s it0] ok] eqn:EL.
      assert (LV0 : length V0 = length (lM L)).
      { unfold V0. destruct flag; [exact HVl|]. rewrite vzero_length. exact Hn. }
      destruct (multA_spec (lM L) V0 Hwf) as [AL AV].
      assert (LR0 : length R0 = length (lM L)).
      { unfold R0. rewrite map_length, combine_length. lia. }
      assert (Hinv0 : cg_inv (lM L) (lb L) (mkCG V0 (multPC RA (lM L) (llam L) R0) R0
                                  (dot RA (multPC RA (lM L) (llam L) R0) R0))).
      { unfold cg_inv. cbn [cV cP cR]. split; [exact LV0|]. split; [apply multPC_length; exact LR0|].
        split; [exact LR0|]. intros k Hk. unfold R0.
        rewrite (vget_map2 (fun '(b, r) => asub RA b r)) by (ra_simpl; try lia; lra).
        rewrite AV by auto. reflexivity. }
      destruct (cg_loop_inv (lM L) (lb L) (llam L) (lprec L) res_o Hwf fuel _ 0%nat s it0 ok Hinv0 EL)
        as [(_ & _ & Hres) Hok].
      destruct ok; inversion Hrun; subst.
      exists (cR s). split; [exact Hres|].
      destruct (Hok eq_refl) as [Hc Hn']. rewrite <- Hc. exact Hn'.
  Qed.
End CG.

(* ------------------------------------------------------------------------------------ *)
(* Part 4 — SetValue / Periodicity / AntiPeriodicity: constrained-system equivalence     *)
(* ------------------------------------------------------------------------------------ *)
Lemma rsum_extract i f n : (i < n)%nat ->
  rsum f n = f i + rsum (fun j => if Nat.eqb i j then 0 else f j) n.
Proof.
  intros Hi.
  rewrite (rsum_ext f (fun j => (if Nat.eqb i j then f j else 0) + (if Nat.eqb i j then 0 else f j))).
  - rewrite rsum_plus, (rsum_single i f) by auto. reflexivity.
  - intros j _. destruct (Nat.eqb i j); lra.
Qed.

Ltac eqb_cases :=
  repeat match goal with
         | |- context [Nat.eqb ?a ?b] => destruct (Nat.eqb_spec a b); subst
         end;
  cbn [andb orb negb];
  repeat match goal with
         | H : existsb _ _ = false |- _ => rewrite H
         end;
  cbn [andb orb negb];
  repeat match goal with
         | |- context [existsb ?f ?l] => destruct (existsb f l)
         end;
  cbn [andb orb negb]; try reflexivity; try congruence; try lia; try lra.

Ltac split5 := split; [|split; [|split; [|split]]].

Section Constraints.
  Local Notation vgetR := (vget RA).
  Local Notation mgetR := (mget RA).
  Implicit Type M : matrixT R.
  Implicit Type V b : vecT R.

  Lemma mat_wf_mput M v p q : mat_wf M -> (p < length M)%nat -> (q < length M)%nat -> mat_wf (mput M v p q).
  Proof.
    intros [Hok Hc] Hp Hq. split; [apply mput_ok; auto|].
    intros i Hi. rewrite mput_length in *. unfold mput.
    assert (G : forall r v q, (q < length M)%nat -> cols_lt (length M) r -> cols_lt (length M) (put_row v q r)).
    { clear. intros r v q Hq. induction r as [|[c x] t IH]; intros Hc.
      - simpl. constructor; [simpl; auto|constructor].
      - apply Forall_cons_iff in Hc. destruct Hc as [Hc Ht]. cbn [put_row].
        destruct (Nat.eqb c q); [constructor; auto|].
        destruct (Nat.ltb c q).
        + destruct t as [|e t']; [repeat constructor; auto|]. constructor; [auto|apply IH; auto].
        + constructor; [simpl; auto|]. constructor; auto. }
    destruct (Nat.ltb q p).
    - destruct (Nat.eq_dec q i) as [->|Hn].
      + rewrite nth_upd_nth_same by auto. apply G; auto.
      + rewrite nth_upd_nth_other by auto. auto.
    - destruct (Nat.eq_dec p i) as [->|Hn].
      + rewrite nth_upd_nth_same by auto. apply G; auto.
      + rewrite nth_upd_nth_other by auto. auto.
  Qed.

  Lemma mat_wf_mcreate n : mat_wf (mcreate RA n).
  Proof.
    split; [apply mcreate_ok|]. intros i Hi. rewrite mcreate_length in *. unfold mcreate.
    rewrite nth_map_seq by lia. constructor; [simpl; lia|constructor].
  Qed.

  Lemma mat_wf_puts h : forall M, mat_wf M -> in_range (length M) h ->
    mat_wf (puts M h) /\ length (puts M h) = length M.
  Proof.
    induction h as [|[[v p] q] h IH]; intros M HM Hr; simpl; [auto|].
    unfold in_range in Hr; apply Forall_cons_iff in Hr; destruct Hr as [[Hp Hq] Hr'].
    destruct (IH (mput M v p q)) as [H1 H2].
    - apply mat_wf_mput; auto.
    - rewrite mput_length; auto.
    - split; [auto|]. rewrite H2. apply mput_length.
  Qed.

  (* the loop of SetValue over a duplicate-free list of row indices *)
  Lemma sv_loop_spec i x : forall ks M b M' b',
    mat_wf M -> (i < length M)%nat -> length b = length M -> NoDup ks ->
    Forall (fun k => (k < length M)%nat) ks ->
    sv_loop RA ks i x M b = (M', b') ->
    mat_wf M' /\ length M' = length M /\ length b' = length b /\
    (forall p q, mgetR M' p q =
        if ((Nat.eqb q i && negb (Nat.eqb p i) && existsb (Nat.eqb p) ks)
            || (Nat.eqb p i && negb (Nat.eqb q i) && existsb (Nat.eqb q) ks))%bool
        then 0 else mgetR M p q) /\
    (forall k, vgetR b' k = if existsb (Nat.eqb k) ks then vgetR b k - mgetR M k i * x else vgetR b k).
  Proof.
    induction ks as [|k0 ks IH]; intros M b M' b' Hwf Hi Hb Hnd Hks Hrun.
    - simpl in Hrun. inversion Hrun; subst. split5; auto.
      + intros p q. simpl. rewrite ?andb_false_r. reflexivity.
    - apply NoDup_cons_iff in Hnd. destruct Hnd as [Hnin Hnd].
      apply Forall_cons_iff in Hks. destruct Hks as [Hk0 Hks].
      cbn [sv_loop] in Hrun.
      set (z := mgetR M k0 i) in *.
      assert (Hex : existsb (Nat.eqb k0) ks = false).
      { apply not_true_is_false. intro E. apply existsb_exists in E. destruct E as [y [Hy E]].
        apply Nat.eqb_eq in E. subst. auto. }
      destruct (aeqb RA z (azero RA)) eqn:Ez.
      + (* z = 0 : nothing changes *)
        ra_simpl. apply Reqb_true in Ez.
        destruct (IH M b M' b' Hwf Hi Hb Hnd Hks Hrun) as (W & L1 & L2 & HM & Hbv).
        split5; auto.
        * intros p q. rewrite HM. cbn [existsb].
          destruct (Nat.eqb_spec q i) as [->|Hqi]; destruct (Nat.eqb_spec p i) as [->|Hpi]; cbn [andb orb negb]; try reflexivity.
          -- destruct (Nat.eqb_spec p k0) as [->|Hpk]; cbn [orb]; [|reflexivity].
             rewrite Hex. fold z. rewrite Ez. reflexivity.
          -- destruct (Nat.eqb_spec q k0) as [->|Hqk]; cbn [orb]; [|reflexivity].
             rewrite Hex. rewrite (mget_sym RA M i k0). fold z. rewrite Ez. reflexivity.
        * intros k. rewrite Hbv. cbn [existsb].
          destruct (Nat.eqb_spec k k0) as [->|Hkk]; cbn [orb]; [|reflexivity].
          rewrite Hex. fold z. rewrite Ez. lra.
      + ra_simpl. apply Reqb_false in Ez.
        set (b1 := vset b k0 (vgetR b k0 - z * x)) in *.
        set (M1 := if Nat.eqb i k0 then M else mput M 0 k0 i) in *.
        assert (W1 : mat_wf M1).
        { unfold M1. destruct (Nat.eqb i k0); [auto|apply mat_wf_mput; auto]. }
        assert (LM1 : length M1 = length M).
        { unfold M1. destruct (Nat.eqb i k0); [auto|apply mput_length]. }
        assert (Lb1 : length b1 = length M1).
        { unfold b1. rewrite vset_length. lia. }
        destruct (IH M1 b1 M' b') as (W & L1 & L2 & HM & Hbv); auto; try lia.
        { rewrite LM1. exact Hks. }
        assert (HM1 : forall p q, mgetR M1 p q =
                   if (same_key k0 i p q && negb (Nat.eqb i k0))%bool then 0 else mgetR M p q).
        { intros p q. unfold M1. destruct (Nat.eqb_spec i k0) as [E|E]; [rewrite andb_false_r; reflexivity|].
          rewrite andb_true_r. destruct Hwf as [Hok _].
          pose proof (abs_mput RA M 0 k0 i Hok Hk0 Hi p q) as G. unfold abs, aput in G. exact G. }
        split5; auto; try lia.
        * intros p q. rewrite HM, HM1. cbn [existsb]. unfold same_key.
          clear - Hex. eqb_cases.
        * intros k. rewrite Hbv. cbn [existsb]. unfold b1.
          rewrite (vget_vset RA) by lia. rewrite HM1. unfold same_key. fold z.
          clear - Hex. eqb_cases.
  Qed.

  Lemma existsb_seq k a len : existsb (Nat.eqb k) (seq a len) = ((a <=? k) && (k <? a + len))%bool.
  Proof.
    destruct (existsb (Nat.eqb k) (seq a len)) eqn:E.
    - apply existsb_exists in E. destruct E as [y [Hy E]]. apply Nat.eqb_eq in E. subst y.
      apply in_seq in Hy. symmetry. apply andb_true_iff. split; [apply Nat.leb_le|apply Nat.ltb_lt]; lia.
    - symmetry. apply not_true_is_false. intro H. apply andb_true_iff in H. destruct H as [H1 H2].
      apply Nat.leb_le in H1. apply Nat.ltb_lt in H2.
      assert (In k (seq a len)) by (apply in_seq; lia).
      assert (existsb (Nat.eqb k) (seq a len) = true).
      { apply existsb_exists. exists k. split; [auto|apply Nat.eqb_refl]. }
      congruence.
  Qed.

  (* CBigLinProb::SetValue.  [covered]: every non-zero entry of column i lies inside the
     window [i-bdw, i+bdw) that SetValue scans (true when bdw = 0, and when bdw exceeds the
     matrix bandwidth — Cuthill hands over newwide+1). *)
  Definition sv_covered (L : lin (F:=R)) (i : nat) : Prop :=
    forall k, (k < length (lM L))%nat -> mgetR (lM L) k i <> 0 ->
      (fst (sv_window (ln L) (lbdw L) i) <= k < snd (sv_window (ln L) (lbdw L) i))%nat.

  Theorem setvalue_spec (L : lin (F:=R)) i x :
    mat_wf (lM L) -> ln L = length (lM L) -> length (lb L) = length (lM L) ->
    (i < length (lM L))%nat -> sv_covered L i ->
    let L' := setvalue RA L i x in
    mat_wf (lM L') /\ length (lM L') = length (lM L) /\ length (lb L') = length (lb L) /\
    (forall p q, (p < length (lM L))%nat -> (q < length (lM L))%nat ->
        mgetR (lM L') p q = if xorb (Nat.eqb p i) (Nat.eqb q i) then 0 else mgetR (lM L) p q) /\
    (forall k, (k < length (lM L))%nat ->
        vgetR (lb L') k = if Nat.eqb k i then mgetR (lM L) i i * x
                          else vgetR (lb L) k - mgetR (lM L) k i * x).
  Proof.
    intros Hwf Hn Hb Hi Hcov L'. unfold L', setvalue.
    unfold sv_covered in Hcov.
    destruct (sv_window (ln L) (lbdw L) i) as [fst0 lst0] eqn:EW.
    cbn [fst snd] in Hcov.
    assert (Hlst : (lst0 <= length (lM L))%nat).
    { unfold sv_window in EW. destruct (Nat.eqb (lbdw L) 0); inversion EW; subst; lia. }
    destruct (sv_loop RA (seq fst0 (lst0 - fst0)) i x (lM L) (lb L)) as [M1 b1] eqn:ES.
    assert (Hks : Forall (fun k => (k < length (lM L))%nat) (seq fst0 (lst0 - fst0))).
    { apply Forall_forall. intros k Hk. apply in_seq in Hk. lia. }
    destruct (sv_loop_spec i x _ _ _ _ _ Hwf Hi Hb (seq_NoDup _ _) Hks ES)
      as (W & L1 & L2 & HM & Hbv).
    cbn [lM lb lwithMb].
    split5; auto.
    - rewrite vset_length. exact L2.
    - intros p q Hp Hq. rewrite HM. rewrite !existsb_seq.
      destruct (Nat.eqb_spec p i) as [->|Hpi]; destruct (Nat.eqb_spec q i) as [->|Hqi];
        cbn [andb orb negb xorb]; try reflexivity.
      + destruct ((fst0 <=? q) && (q <? fst0 + (lst0 - fst0)))%bool eqn:E; [reflexivity|].
        destruct (Req_EM_T (mgetR (lM L) i q) 0) as [Z|NZ]; [auto|].
        rewrite (mget_sym RA) in NZ. specialize (Hcov q Hq NZ).
        apply andb_false_iff in E. destruct E as [E|E];
          [apply Nat.leb_gt in E|apply Nat.ltb_ge in E]; lia.
      + destruct ((fst0 <=? p) && (p <? fst0 + (lst0 - fst0)))%bool eqn:E; [reflexivity|].
        destruct (Req_EM_T (mgetR (lM L) p i) 0) as [Z|NZ]; [auto|].
        specialize (Hcov p Hp NZ).
        apply andb_false_iff in E. destruct E as [E|E];
          [apply Nat.leb_gt in E|apply Nat.ltb_ge in E]; lia.
    - intros k Hk. rewrite (vget_vset RA) by lia.
      destruct (Nat.eqb_spec k i) as [->|Hki].
      + ra_simpl. rewrite HM. rewrite Nat.eqb_refl. cbn [andb negb orb]. reflexivity.
      + rewrite Hbv, existsb_seq.
        destruct ((fst0 <=? k) && (k <? fst0 + (lst0 - fst0)))%bool eqn:E; [reflexivity|].
        destruct (Req_EM_T (mgetR (lM L) k i) 0) as [Z|NZ]; [rewrite Z; lra|].
        specialize (Hcov k Hk NZ).
        apply andb_false_iff in E. destruct E as [E|E];
          [apply Nat.leb_gt in E|apply Nat.ltb_ge in E]; lia.
  Qed.

  (* solutions of the modified system = solutions of the original rows k<>i with V_i = x *)
  Theorem setvalue_equiv (L : lin (F:=R)) i x V :
    mat_wf (lM L) -> ln L = length (lM L) -> length (lb L) = length (lM L) ->
    (i < length (lM L))%nat -> sv_covered L i -> mgetR (lM L) i i <> 0 ->
    let L' := setvalue RA L i x in
    (forall k, (k < length (lM L))%nat -> Ax (lM L') V k = vgetR (lb L') k) <->
    (vgetR V i = x /\
     forall k, (k < length (lM L))%nat -> k <> i -> Ax (lM L) V k = vgetR (lb L) k).
  Proof.
    intros Hwf Hn Hb Hi Hcov Hd L'.
    destruct (setvalue_spec L i x Hwf Hn Hb Hi Hcov) as (W & L1 & L2 & HM & Hbv). fold L' in W, L1, L2, HM, Hbv.
    set (n := length (lM L)) in *.
    assert (Hrow_i : Ax (lM L') V i = mgetR (lM L) i i * vgetR V i).
    { unfold Ax. rewrite L1. fold n. rewrite (rsum_extract i) by auto.
      rewrite HM by auto. rewrite Nat.eqb_refl. cbn [xorb].
      rewrite (rsum_ext _ (fun _ => 0)); [rewrite rsum_zero; lra|].
      intros j Hj. destruct (Nat.eqb_spec i j) as [->|Hne]; [reflexivity|].
      rewrite HM by auto. rewrite Nat.eqb_refl. destruct (Nat.eqb_spec j i); [congruence|]. cbn [xorb]. lra. }
    assert (Hrow_k : forall k, (k < n)%nat -> k <> i ->
               Ax (lM L') V k = Ax (lM L) V k - mgetR (lM L) k i * vgetR V i).
    { intros k Hk Hki. unfold Ax. rewrite L1. fold n.
      rewrite (rsum_extract i _ n) by auto. rewrite (rsum_extract i (fun j => mgetR (lM L) k j * vgetR V j) n) by auto.
      rewrite HM by auto. destruct (Nat.eqb_spec k i); [congruence|]. rewrite Nat.eqb_refl. cbn [xorb].
      rewrite (rsum_ext (fun j => if Nat.eqb i j then 0 else mgetR (lM L') k j * vgetR V j)
                        (fun j => if Nat.eqb i j then 0 else mgetR (lM L) k j * vgetR V j)); [lra|].
      intros j Hj. destruct (Nat.eqb_spec i j) as [->|Hne]; [reflexivity|].
      rewrite HM by auto. destruct (Nat.eqb_spec k i); [congruence|]. destruct (Nat.eqb_spec j i); [congruence|].
      cbn [xorb]. reflexivity. }
    split.
    - intros Hall.
      assert (Hvi : vgetR V i = x).
      { specialize (Hall i Hi). rewrite Hrow_i, Hbv in Hall by auto. rewrite Nat.eqb_refl in Hall.
        apply Rmult_eq_reg_l in Hall; auto. }
      split; [exact Hvi|]. intros k Hk Hki. specialize (Hall k Hk).
      rewrite Hrow_k, Hbv in Hall by auto. destruct (Nat.eqb_spec k i); [congruence|]. rewrite Hvi in Hall. lra.
    - intros [Hvi Hrest] k Hk. destruct (Nat.eq_dec k i) as [->|Hki].
      + rewrite Hrow_i, Hbv by auto. rewrite Nat.eqb_refl, Hvi. reflexivity.
      + rewrite Hrow_k, Hbv by auto. destruct (Nat.eqb_spec k i); [congruence|].
        rewrite (Hrest k Hk Hki), Hvi. reflexivity.
  Qed.

  (* ---- Periodicity / AntiPeriodicity ---- *)
  Lemma rsum_extract2 i j f n : (i < n)%nat -> (j < n)%nat -> i <> j ->
    rsum f n = f i + f j + rsum (fun m => if (Nat.eqb i m || Nat.eqb j m)%bool then 0 else f m) n.
  Proof.
    intros Hi Hj Hij. rewrite (rsum_extract i f n Hi).
    rewrite (rsum_extract j (fun m => if Nat.eqb i m then 0 else f m) n Hj).
    destruct (Nat.eqb_spec i j); [congruence|].
    rewrite (rsum_ext (fun j0 => if Nat.eqb j j0 then 0 else if Nat.eqb i j0 then 0 else f j0)
                      (fun m => if (Nat.eqb i m || Nat.eqb j m)%bool then 0 else f m)); [lra|].
    intros m _. destruct (Nat.eqb i m), (Nat.eqb j m); reflexivity.
  Qed.

  (* abstract algebra of tying unknown j to unknown i with sign s (s = 1 periodic, -1 anti) *)
  Section TieAlgebra.
    Variables (a a' : nat -> nat -> R) (b b' V : nat -> R) (n i j : nat) (s : R).
    Hypothesis Hs : s * s = 1.
    Hypothesis Hi : (i < n)%nat.
    Hypothesis Hj : (j < n)%nat.
    Hypothesis Hij : i <> j.
    Hypothesis a_sym : forall p q, a p q = a q p.
    Hypothesis a'_sym : forall p q, a' p q = a' q p.
    Hypothesis Hki : forall k, (k < n)%nat -> k <> i -> k <> j -> a' k i = (a k i + s * a k j) / 2.
    Hypothesis Hkj : forall k, (k < n)%nat -> k <> i -> k <> j -> a' k j = s * ((a k i + s * a k j) / 2).
    Hypothesis Hii : a' i i = (a i i + a j j) / 2.
    Hypothesis Hjj : a' j j = (a i i + a j j) / 2.
    Hypothesis Hij' : a' i j = a i j.
    Hypothesis Hrest : forall p q, (p < n)%nat -> (q < n)%nat -> p <> i -> p <> j -> q <> i -> q <> j -> a' p q = a p q.
    Hypothesis Hbi : b' i = (b i + s * b j) / 2.
    Hypothesis Hbj : b' j = s * ((b i + s * b j) / 2).
    Hypothesis Hbk : forall k, k <> i -> k <> j -> b' k = b k.
    Hypothesis Hnz : (a i i + a j j) / 2 - s * a i j <> 0.

    Let AV (m : nat -> nat -> R) k := rsum (fun t => m k t * V t) n.
    Let rest (m : nat -> nat -> R) k :=
      rsum (fun t => if (Nat.eqb i t || Nat.eqb j t)%bool then 0 else m k t * V t) n.

    Lemma AV_split m k : AV m k = m k i * V i + m k j * V j + rest m k.
    Proof. unfold AV, rest. apply (rsum_extract2 i j (fun t => m k t * V t) n); auto. Qed.

    Lemma rest_k k : (k < n)%nat -> k <> i -> k <> j -> rest a' k = rest a k.
    Proof.
      intros Hk H1 H2. unfold rest. apply rsum_ext. intros t Ht.
      destruct (Nat.eqb_spec i t), (Nat.eqb_spec j t); cbn [orb]; try reflexivity.
      rewrite Hrest; auto.
    Qed.

    Lemma rest_i : rest a' i = (rest a i + s * rest a j) / 2.
    Proof.
      unfold rest. unfold Rdiv. rewrite Rmult_comm, <- rsum_scal, <- rsum_plus, <- rsum_scal.
      apply rsum_ext. intros t Ht.
      destruct (Nat.eqb_spec i t), (Nat.eqb_spec j t); cbn [orb]; try lra.
      rewrite (a'_sym i t), Hki by auto. rewrite (a_sym t i), (a_sym t j). lra.
    Qed.

    Lemma rest_j : rest a' j = s * ((rest a i + s * rest a j) / 2).
    Proof.
      unfold rest. unfold Rdiv. rewrite (Rmult_comm _ (/ 2)), <- Rmult_assoc, <- rsum_scal, <- rsum_plus, <- rsum_scal.
      apply rsum_ext. intros t Ht.
      destruct (Nat.eqb_spec i t), (Nat.eqb_spec j t); cbn [orb]; try lra.
      rewrite (a'_sym j t), Hkj by auto. rewrite (a_sym t i), (a_sym t j). lra.
    Qed.

    Theorem tie_equiv :
      (forall k, (k < n)%nat -> AV a' k = b' k) <->
      (V j = s * V i /\
       (forall k, (k < n)%nat -> k <> i -> k <> j -> AV a k = b k) /\
       AV a i + s * AV a j = b i + s * b j).
    Proof.
      assert (Hs' : forall x, s * (s * x) = x) by (intros x; rewrite <- Rmult_assoc, Hs; lra).
      split.
      - intros Hall.
        pose proof (Hall i Hi) as Ri. pose proof (Hall j Hj) as Rj.
        rewrite AV_split, Hii, Hij', rest_i, Hbi in Ri.
        rewrite AV_split, (a'_sym j i), Hij', Hjj, rest_j, Hbj in Rj.
        set (d := (a i i + a j j) / 2) in *.
        set (r := (rest a i + s * rest a j) / 2) in *.
        set (bb := (b i + s * b j) / 2) in *.
        assert (Hd : (d - s * a i j) * (V i - s * V j) = 0).
        { assert (E : d * V i + a i j * V j + r - s * (a i j * V i + d * V j + s * r) = bb - s * (s * bb)) by (rewrite Ri, Rj; reflexivity).
          rewrite !Hs' in E. rewrite Rmult_plus_distr_l, Rmult_plus_distr_l, Hs' in E.
          replace ((d - s * a i j) * (V i - s * V j)) with
            (d * V i + a i j * (s * (s * V j)) - s * (a i j * V i) - s * (d * V j)) by ring.
          rewrite Hs'. lra. }
        apply Rmult_integral in Hd. destruct Hd as [Hd|Hd]; [contradiction|].
        assert (HV : V j = s * V i).
        { assert (V i = s * V j) by lra. rewrite H, Hs'. reflexivity. }
        split; [exact HV|]. split.
        + intros k Hk H1 H2. specialize (Hall k Hk).
          rewrite AV_split, Hki, Hkj, rest_k, Hbk in Hall by auto.
          rewrite AV_split. rewrite <- Hall. rewrite HV.
          replace (s * ((a k i + s * a k j) / 2) * (s * V i)) with ((s * (s * ((a k i + s * a k j) / 2))) * V i) by ring.
          rewrite Hs'. lra.
        + rewrite !AV_split. rewrite (a_sym j i).
          assert (E : d * V i + a i j * V j + r + s * (a i j * V i + d * V j + s * r) = bb + s * (s * bb)) by (rewrite Ri, Rj; reflexivity).
          rewrite Hs' in E. rewrite HV in *. unfold d, r, bb in E.
          replace (s * (a i j * V i + (a i i + a j j) / 2 * (s * V i) + s * ((rest a i + s * rest a j) / 2)))
            with (s * a i j * V i + (a i i + a j j) / 2 * (s * (s * V i)) + s * (s * ((rest a i + s * rest a j) / 2))) in E by ring.
          rewrite !Hs' in E.
          replace (s * (a i j * V i + a j j * (s * V i) + rest a j))
            with (s * a i j * V i + a j j * (s * (s * V i)) + s * rest a j) by ring.
          rewrite Hs'. lra.
      - intros (HV & Hk & Hsum) k Hkn.
        destruct (Nat.eq_dec k i) as [->|H1]; [|destruct (Nat.eq_dec k j) as [->|H2]].
        + rewrite AV_split, Hii, Hij', rest_i, Hbi.
          rewrite !AV_split, (a_sym j i) in Hsum. rewrite HV in *.
          replace (s * (a i j * V i + a j j * (s * V i) + rest a j))
            with (s * a i j * V i + a j j * (s * (s * V i)) + s * rest a j) in Hsum by ring.
          rewrite Hs' in Hsum. lra.
        + rewrite AV_split, (a'_sym j i), Hij', Hjj, rest_j, Hbj.
          rewrite !AV_split, (a_sym j i) in Hsum. rewrite HV in *.
          replace (s * (a i j * V i + a j j * (s * V i) + rest a j))
            with (s * a i j * V i + a j j * (s * (s * V i)) + s * rest a j) in Hsum by ring.
          rewrite Hs' in Hsum.
          replace ((a i i + a j j) / 2 * (s * V i)) with (s * ((a i i + a j j) / 2 * V i)) by ring.
          assert (E : s * (a i j * V i) + s * (s * ((a i i + a j j) / 2 * V i)) + s * (s * ((rest a i + s * rest a j) / 2))
                      = s * (s * ((b i + s * b j) / 2))).
          { rewrite !Hs'. lra. }
          rewrite Hs' in E at 1.
          assert (E2 : a i j * V i + s * ((a i i + a j j) / 2 * V i) + s * ((rest a i + s * rest a j) / 2)
                       = s * ((b i + s * b j) / 2)).
          { apply (Rmult_eq_reg_l s); [|intro Z; rewrite Z in Hs; lra].
            rewrite !Rmult_plus_distr_l. rewrite !Hs'. rewrite Hs' in E. lra. }
          lra.
        + rewrite AV_split, Hki, Hkj, rest_k, Hbk by auto.
          rewrite <- (Hk k Hkn H1 H2), AV_split, HV.
          replace (s * ((a k i + s * a k j) / 2) * (s * V i)) with ((s * (s * ((a k i + s * a k j) / 2))) * V i) by ring.
          rewrite Hs'. lra.
    Qed.
  End TieAlgebra.

  Definition cval (anti : bool) (v1 v2 : R) : R := if anti then (v1 - v2) / 2 else (v1 + v2) / 2.
  Definition sgn (anti : bool) (c : R) : R := if anti then - c else c.

  Lemma per_step_get M anti k0 i j p q :
    mat_wf M -> (k0 < length M)%nat -> (i < length M)%nat -> (j < length M)%nat ->
    let v1 := mgetR M k0 i in let v2 := mgetR M k0 j in
    let c := cval anti v1 v2 in
    let M2 := if (negb (aeqb RA v1 (azero RA)) || negb (aeqb RA v2 (azero RA)))%bool
              then mput (mput M c k0 i) (sgn anti c) k0 j else M in
    k0 <> i -> k0 <> j -> i <> j ->
    mat_wf M2 /\ length M2 = length M /\
    mgetR M2 p q = if same_key k0 j p q then sgn anti c
                   else if same_key k0 i p q then c else mgetR M p q.
  Proof.
    intros Hwf Hk Hi Hj v1 v2 c M2 H1 H2 H3.
    assert (W1 : mat_wf (mput M c k0 i)) by (apply mat_wf_mput; auto).
    assert (E1 : length (mput M c k0 i) = length M) by apply mput_length.
    unfold M2. ra_simpl.
    destruct (Reqb v1 0) eqn:Z1; destruct (Reqb v2 0) eqn:Z2; cbn [negb orb].
    1:{ apply Reqb_true in Z1. apply Reqb_true in Z2.
        split; [auto|]. split; [auto|].
        assert (c = 0) by (unfold c, cval; rewrite Z1, Z2; destruct anti; lra).
        destruct (same_key k0 j p q) eqn:S1.
        - apply same_key_spec in S1. destruct S1 as [[-> ->]|[-> ->]].
          + fold v2. rewrite Z2, H. destruct anti; simpl; lra.
          + rewrite (mget_sym RA). fold v2. rewrite Z2, H. destruct anti; simpl; lra.
        - destruct (same_key k0 i p q) eqn:S2; [|reflexivity].
          apply same_key_spec in S2. destruct S2 as [[-> ->]|[-> ->]].
          + fold v1. rewrite Z1, H. reflexivity.
          + rewrite (mget_sym RA). fold v1. rewrite Z1, H. reflexivity. }
    all: assert (Hk' : (k0 < length (mput M c k0 i))%nat) by (rewrite E1; auto).
    all: assert (Hj' : (j < length (mput M c k0 i))%nat) by (rewrite E1; auto).
    all: (split; [apply mat_wf_mput; auto|]).
    all: (split; [rewrite mput_length; auto|]).
    all: destruct W1 as [Ok1 _]; destruct Hwf as [Ok _].
    all: pose proof (abs_mput RA (mput M c k0 i) (sgn anti c) k0 j Ok1 Hk' Hj' p q) as G.
    all: unfold abs, aput in G; rewrite G.
    all: pose proof (abs_mput RA M c k0 i Ok Hk Hi p q) as G2; unfold abs, aput in G2; rewrite G2; reflexivity.
  Qed.

  Definition per_step (anti : bool) (k i j : nat) M : matrixT R :=
    let v1 := mgetR M k i in let v2 := mgetR M k j in
    let c := cval anti v1 v2 in
    if (negb (aeqb RA v1 (azero RA)) || negb (aeqb RA v2 (azero RA)))%bool
    then mput (mput M c k i) (sgn anti c) k j else M.

  Lemma per_loop_step anti k ks i j M :
    per_loop RA anti (k :: ks) i j M =
    if (Nat.eqb k i || Nat.eqb k j)%bool then per_loop RA anti ks i j M
    else per_loop RA anti ks i j (per_step anti k i j M).
  Proof.
    cbn [per_loop]. destruct (Nat.eqb k i || Nat.eqb k j)%bool; [reflexivity|].
    unfold per_step, cval, sgn. cbv zeta.
    destruct (negb (aeqb RA (mgetR M k i) (azero RA)) || negb (aeqb RA (mgetR M k j) (azero RA)))%bool;
      destruct anti; reflexivity.
  Qed.

  Lemma per_loop_spec anti i j : forall ks M,
    mat_wf M -> (i < length M)%nat -> (j < length M)%nat -> i <> j -> NoDup ks ->
    Forall (fun k => (k < length M)%nat) ks ->
    let M' := per_loop RA anti ks i j M in
    mat_wf M' /\ length M' = length M /\
    forall p q, mgetR M' p q =
      if (negb (Nat.eqb p i) && negb (Nat.eqb p j) && existsb (Nat.eqb p) ks)%bool then
        if Nat.eqb q i then cval anti (mgetR M p i) (mgetR M p j)
        else if Nat.eqb q j then sgn anti (cval anti (mgetR M p i) (mgetR M p j))
        else mgetR M p q
      else if (negb (Nat.eqb q i) && negb (Nat.eqb q j) && existsb (Nat.eqb q) ks)%bool then
        if Nat.eqb p i then cval anti (mgetR M q i) (mgetR M q j)
        else if Nat.eqb p j then sgn anti (cval anti (mgetR M q i) (mgetR M q j))
        else mgetR M p q
      else mgetR M p q.
  Proof.
    induction ks as [|k0 ks IH]; intros M Hwf Hi Hj Hij Hnd Hks M'.
    - unfold M'. simpl. split; [auto|]. split; [auto|]. intros p q.
      rewrite !andb_false_r. reflexivity.
    - apply NoDup_cons_iff in Hnd. destruct Hnd as [Hnin Hnd].
      apply Forall_cons_iff in Hks. destruct Hks as [Hk0 Hks].
      assert (Hex : existsb (Nat.eqb k0) ks = false).
      { apply not_true_is_false. intro E. apply existsb_exists in E. destruct E as [y [Hy E]].
        apply Nat.eqb_eq in E. subst. auto. }
      unfold M'.
      destruct (Nat.eq_dec k0 i) as [E1|N1]; [|destruct (Nat.eq_dec k0 j) as [E2|N2]].
      + rewrite per_loop_step. subst k0. rewrite Nat.eqb_refl. cbn [orb]. destruct (IH M Hwf Hi Hj Hij Hnd Hks) as (W & L1 & HM).
        split; [auto|]. split; [auto|]. intros p q. rewrite HM. cbn [existsb]. clear - Hex Hij. eqb_cases.
      + rewrite per_loop_step. subst k0. rewrite Nat.eqb_refl, orb_true_r.
        destruct (IH M Hwf Hi Hj Hij Hnd Hks) as (W & L1 & HM).
        split; [auto|]. split; [auto|]. intros p q. rewrite HM. cbn [existsb]. clear - Hex Hij. eqb_cases.
      + rewrite (per_loop_step anti k0 ks i j M).
        destruct (Nat.eqb_spec k0 i); [congruence|]. destruct (Nat.eqb_spec k0 j); [congruence|]. cbn [orb].
        destruct (per_step_get M anti k0 i j 0%nat 0%nat Hwf Hk0 Hi Hj N1 N2 Hij) as (W2 & L2 & _).
        cbv zeta in W2, L2. fold (per_step anti k0 i j M) in W2, L2.
        destruct (IH (per_step anti k0 i j M) W2) as (W & L1 & HM); try rewrite L2; auto.
        split; [auto|]. split; [lia|]. intros p q. rewrite HM.
        assert (HM2 : forall p q, mgetR (per_step anti k0 i j M) p q =
                  if same_key k0 j p q then sgn anti (cval anti (mgetR M k0 i) (mgetR M k0 j))
                  else if same_key k0 i p q then cval anti (mgetR M k0 i) (mgetR M k0 j) else mgetR M p q).
        { intros p' q'. destruct (per_step_get M anti k0 i j p' q' Hwf Hk0 Hi Hj N1 N2 Hij) as (_ & _ & G). exact G. }
        rewrite !HM2.
        cbn [existsb]. unfold same_key.
        clear - Hex Hij N1 N2. eqb_cases.
  Qed.

  Lemma half_RA : half RA = / 2.
  Proof. unfold half, adec. cbn. lra. Qed.

  Definition tie (anti : bool) (L : lin (F:=R)) (i j : nat) : lin :=
    if anti then antiperiodicity RA L i j else periodicity RA L i j.

  Lemma tie_comm anti L i j : tie anti L i j = tie anti L j i.
  Proof.
    unfold tie, antiperiodicity, periodicity.
    destruct anti; destruct (Nat.ltb_spec j i), (Nat.ltb_spec i j); try lia; try reflexivity;
      assert (i = j) by lia; subst; reflexivity.
  Qed.

  Lemma existsb_seq0 k n : existsb (Nat.eqb k) (seq 0 n) = (k <? n)%nat.
  Proof. rewrite existsb_seq. simpl. reflexivity. Qed.

  (* CBigLinProb::Periodicity (anti = false) and ::AntiPeriodicity (anti = true):
     the modified system has exactly the solutions of the original system with unknown j
     tied to unknown i (V_j = s V_i), i.e. the Galerkin-reduced (constrained) system. *)
  Theorem tie_system_equiv (anti : bool) (L : lin (F:=R)) i j V :
    mat_wf (lM L) -> ln L = length (lM L) -> length (lb L) = length (lM L) ->
    (i < j)%nat -> (j < length (lM L))%nat ->
    let s : R := if anti then -1 else 1 in
    (mgetR (lM L) i i + mgetR (lM L) j j) / 2 - s * mgetR (lM L) i j <> 0 ->
    let L' := tie anti L i j in
    length (lM L') = length (lM L) /\ mat_wf (lM L') /\
    ((forall k, (k < length (lM L))%nat -> Ax (lM L') V k = vgetR (lb L') k) <->
     (vgetR V j = s * vgetR V i /\
      (forall k, (k < length (lM L))%nat -> k <> i -> k <> j -> Ax (lM L) V k = vgetR (lb L) k) /\
      Ax (lM L) V i + s * Ax (lM L) V j = vgetR (lb L) i + s * vgetR (lb L) j)).
  Proof.
    intros Hwf Hn Hb Hij Hj s Hnz L'.
    set (n := length (lM L)) in *.
    assert (Hi : (i < n)%nat) by lia.
    assert (Hne : i <> j) by lia.
    set (M := lM L) in *. set (b := lb L) in *.
    destruct (per_loop_spec anti i j (seq 0 n) M Hwf Hi Hj Hne (seq_NoDup _ _))
      as (W1 & L1 & HM1).
    { apply Forall_forall. intros k Hk. apply in_seq in Hk. fold n. lia. }
    set (M1 := per_loop RA anti (seq 0 n) i j M) in *.
    set (c := (mgetR M1 i i + mgetR M1 j j) / 2).
    set (M2 := mput (mput M1 c i i) c j j).
    assert (Wc : mat_wf (mput M1 c i i)) by (apply mat_wf_mput; auto; rewrite L1; auto).
    assert (Lc : length (mput M1 c i i) = n) by (rewrite mput_length; exact L1).
    assert (W2 : mat_wf M2) by (apply mat_wf_mput; auto; rewrite Lc; auto).
    assert (L2 : length M2 = n) by (unfold M2; rewrite mput_length; exact Lc).
    assert (HM2 : forall p q, mgetR M2 p q =
              if same_key j j p q then c else if same_key i i p q then c else mgetR M1 p q).
    { intros p q. unfold M2.
      pose proof (abs_mput RA (mput M1 c i i) c j j (proj1 Wc)) as G. unfold abs, aput in G.
      rewrite G by (rewrite Lc; auto).
      pose proof (abs_mput RA M1 c i i (proj1 W1)) as G1. unfold abs, aput in G1.
      rewrite G1 by (rewrite L1; auto). reflexivity. }
    set (bi := vgetR b i) in *. set (bj := vgetR b j) in *.
    set (cb := (bi + s * bj) / 2).
    assert (HL' : lM L' = M2 /\ lb L' = vset (vset b i cb) j (s * cb)).
    { unfold L', tie, antiperiodicity, periodicity.
      destruct (Nat.ltb_spec j i); [lia|]. rewrite Hn. fold n M b.
      destruct anti; cbn [lM lb lwithMb]; fold M1; (split; [|]).
      - unfold M2, c. rewrite half_RA. ra_simpl. f_equal; [f_equal|]; lra.
      - unfold cb, s, bi, bj. rewrite half_RA. ra_simpl. f_equal; [f_equal|]; lra.
      - unfold M2, c. ra_simpl. reflexivity.
      - unfold cb, s, bi, bj. rewrite half_RA. ra_simpl. f_equal; [f_equal|]; lra. }
    destruct HL' as [EM Eb]. rewrite EM, Eb.
    split; [exact L2|]. split; [exact W2|].
    assert (Hs : s * s = 1) by (unfold s; destruct anti; lra).
    assert (Hcv : forall v1 v2, cval anti v1 v2 = (v1 + s * v2) / 2) by (intros; unfold cval, s; destruct anti; lra).
    assert (Hsg : forall x, sgn anti x = s * x) by (intros; unfold sgn, s; destruct anti; lra).
    assert (Hc : c = (mgetR M i i + mgetR M j j) / 2).
    { unfold c. rewrite !HM1. rewrite !Nat.eqb_refl. cbn [negb andb].
      destruct (Nat.eqb_spec j i); [lia|]. cbn [negb andb]. reflexivity. }
    unfold Ax. rewrite L2. fold n.
    pose proof (tie_equiv (mgetR M) (mgetR M2) (vgetR b) (vgetR (vset (vset b i cb) j (s * cb))) (vgetR V) n i j s
                  Hs Hi Hj Hne (mget_sym RA M) (mget_sym RA M2)) as T.
    apply T; clear T.
    - intros k Hk H1 H2. rewrite HM2. unfold same_key.
      destruct (Nat.eqb_spec k j); [lia|]. destruct (Nat.eqb_spec k i); [lia|]. cbn [andb orb].
      rewrite HM1, existsb_seq0. destruct (Nat.eqb_spec k i); [lia|]. destruct (Nat.eqb_spec k j); [lia|].
      destruct (Nat.ltb_spec k n); [|lia]. cbn [negb andb]. rewrite Nat.eqb_refl. apply Hcv.
    - intros k Hk H1 H2. rewrite HM2. unfold same_key.
      destruct (Nat.eqb_spec k j); [lia|]. destruct (Nat.eqb_spec k i); [lia|]. cbn [andb orb].
      rewrite HM1, existsb_seq0. destruct (Nat.eqb_spec k i); [lia|]. destruct (Nat.eqb_spec k j); [lia|].
      destruct (Nat.ltb_spec k n); [|lia]. cbn [negb andb]. rewrite Nat.eqb_refl.
      destruct (Nat.eqb_spec j i); [lia|]. rewrite Hsg, Hcv. reflexivity.
    - rewrite HM2. unfold same_key. destruct (Nat.eqb_spec i j); [lia|]. cbn [andb orb].
      rewrite Nat.eqb_refl. cbn [andb orb]. exact Hc.
    - rewrite HM2. unfold same_key. rewrite Nat.eqb_refl. cbn [andb orb]. exact Hc.
    - rewrite HM2. unfold same_key. destruct (Nat.eqb_spec i j); [lia|]. cbn [andb orb].
      rewrite Nat.eqb_refl. destruct (Nat.eqb_spec j i); [lia|]. cbn [andb orb].
      rewrite HM1. rewrite !Nat.eqb_refl. cbn [negb andb]. destruct (Nat.eqb j i); cbn [negb andb]; reflexivity.
    - intros p q Hp Hq P1 P2 Q1 Q2. rewrite HM2. unfold same_key.
      destruct (Nat.eqb_spec p j); [lia|]. destruct (Nat.eqb_spec p i); [lia|]. cbn [andb orb].
      rewrite HM1. destruct (Nat.eqb_spec p i); [lia|]. destruct (Nat.eqb_spec p j); [lia|].
      destruct (Nat.eqb_spec q i); [lia|]. destruct (Nat.eqb_spec q j); [lia|].
      cbn [negb andb]. destruct (existsb (Nat.eqb p) (seq 0 n)); destruct (existsb (Nat.eqb q) (seq 0 n)); reflexivity.
    - rewrite (vget_vset_other RA) by lia. rewrite (vget_vset_same RA) by (fold n; lia). reflexivity.
    - rewrite (vget_vset_same RA) by (rewrite vset_length; fold n; lia). reflexivity.
    - intros k K1 K2. rewrite !(vget_vset_other RA) by auto. reflexivity.
    - exact Hnz.
  Qed.
End Constraints.
