(* IntegralsE.v — executable model of the electrostatics post-processor's block integrals:
     ElectrostaticsPostProcessor::OpenDocument   (depth scaling, element centroids, getElementD loop)
     ElectrostaticsPostProcessor::getElementD    (cfemm/epproc/epproc.cpp:735-763)
     ElectrostaticsPostProcessor::E              (epproc.cpp:726-733)
     ElectrostaticsPostProcessor::blockIntegral  (epproc.cpp:268-397, integral types 0..4)
     PostProcessor::Ctr / ElmArea / AECF         (cfemm/libfemm/PostProcessor.cpp:438-460, 866-880)
   statement by statement, every CComplex operator written out as femmcomplex.cpp defines it
   (I = CComplex(0,1); I*d = (0*d, 1*d); d + z = (d + z.re, z.im); ...), same operation order.
   The shape quantities b[], c[] and ElmArea are those of AsmE.geom (gp, gq, ga) in the
   post-processor's coordinates (the length unit of the problem file).
   The block-selection state is Integrals.v's (one flag per block label).
   Integral types 5 and 6 (weighted-stress-tensor force / torque, which need the mask computed by
   makeMask) are not modelled.  No proofs in this file. *)
From Coq Require Import ZArith List Bool Arith.
From XF Require Import Arith Sparse AsmE Integrals.
Import ListNotations.

Section IntegralsE.
  Context {F : Type} (A : Arith F).
  Local Notation "x +. y" := (aadd A x y) (at level 50, left associativity).
  Local Notation "x -. y" := (asub A x y) (at level 50, left associativity).
  Local Notation "x *. y" := (amul A x y) (at level 40, left associativity).
  Local Notation "x /. y" := (adiv A x y) (at level 40, left associativity).
  Local Notation zero := (azero A).
  Local Notation one := (aone A).
  Local Notation "'#' z" := (aofZ A z) (at level 9).
  Local Notation cx := (F * F)%type.

  (* ---- the CComplex operators with a double operand (femmcomplex.cpp) ---- *)
  (* I*d : CComplex(0,1).operator*(double) *)
  Definition ci_times (d : F) : cx := (zero *. d, one *. d).
  (* operator+(double, const CComplex&) *)
  Definition dplusc (d : F) (z : cx) : cx := (d +. fst z, snd z).
  (* operator*(double, const CComplex&) *)
  Definition dmulc (d : F) (z : cx) : cx := (d *. fst z, d *. snd z).
  (* CComplex::operator*(double) *)
  Definition cmuld (z : cx) (d : F) : cx := (fst z *. d, snd z *. d).
  (* CComplex::operator+=(double) *)
  Definition caddd (z : cx) (d : F) : cx := (fst z +. d, snd z).
  Definition czero : cx := (zero, zero).

  (* ---- what the post-processor holds after the file has been read ---- *)
  (* CSMeshNode: x y V Q   (Q: -2 free, -1 fixed value, c>=0 on conductor c) *)
  Record ie_node := mkIENode { ie_x : F; ie_y : F; ie_V : F; ie_Q : Z }.
  (* CHSElement: p[3], lbl, blk (= labellist[lbl]->BlockType) *)
  Record ie_elem := mkIEElem { ie_p : nat * nat * nat; ie_lbl : nat; ie_blk : nat }.
  Record ie_prob := mkIEProb {
    ie_axi : bool;
    ie_lc : F;                       (* LengthConv[problem->LengthUnits] *)
    ie_depth_file : F;               (* [Depth] as read from the file *)
    ie_extZo : F; ie_extRo : F; ie_extRi : F;
    ie_eo : F;                       (* #define eo 8.85418781762e-12 *)
    ie_nodes : list ie_node; ie_elems : list ie_elem;
    ie_label_ext : list bool;        (* labellist[k]->IsExternal *)
    ie_mats : list (F * F) }.        (* blockproplist[k]: ex, ey *)

  (* PostProcessor::PostProcessor (also FPProc): LengthConv[] = {0.0254, 0.001, 0.01, 1., 2.54e-05, 1.e-06}
     metres per inch / mm / cm / m / mil / micrometre; ie_lc must be the entry of the problem's unit *)
  Definition pp_length_conv : list F :=
    [adec A 254 (-4); adec A 1 (-3); adec A 1 (-2); one; adec A 254 (-7); adec A 1 (-6)].

  Definition ie_dnode := mkIENode zero zero zero (-2)%Z.
  Definition ie_nd (P : ie_prob) (el : ie_elem) (j : nat) : ie_node :=
    nth (tri_get (ie_p el) j) (ie_nodes P) ie_dnode.

  (* OpenDocument: if(problem->Depth==-1) problem->Depth=1; else problem->Depth*=LengthConv[..]; *)
  Definition ie_depth (P : ie_prob) : F :=
    if aeqb A (ie_depth_file P) (aneg A one) then one else ie_depth_file P *. ie_lc P.

  (* PostProcessor::Ctr : c=0; for j: c += CComplex(x_j/3., y_j/3.) *)
  Definition pp_ctr (x0 y0 x1 y1 x2 y2 : F) : cx :=
    cadd A (cadd A (cadd A czero (x0 /. #3, y0 /. #3)) (x1 /. #3, y1 /. #3)) (x2 /. #3, y2 /. #3).

  (* PostProcessor::AECF(elem) : r=abs(elem->ctr-I*extZo); return (r*r)/(extRo*extRi) *)
  Definition pp_aecf (axi ext : bool) (extZo extRo extRi : F) (ctr : cx) : F :=
    if negb axi then one
    else if negb ext then one
    else let r := cabsf A (csub A ctr (ci_times extZo)) in (r *. r) /. (extRo *. extRi).

  (* -= V*(b[i]+I*c[i])/(da*LengthConv)  for i=0,1,2, starting from CComplex(0) *)
  Definition pp_grad (lc : F) (g : egeom) (da : F) (v0 v1 v2 : F) : cx :=
    let step := fun (E : cx) (v : F) (i : nat) =>
      csub A E (cdivr A (dmulc v (dplusc (vget A (gp g) i) (ci_times (vget A (gq g) i)))) (da *. lc)) in
    step (step (step czero v0 0) v1 1) v2 2.

  Definition ie_geom (P : ie_prob) (el : ie_elem) : egeom :=
    geom A (ie_x (ie_nd P el 0)) (ie_y (ie_nd P el 0)) (ie_x (ie_nd P el 1)) (ie_y (ie_nd P el 1))
           (ie_x (ie_nd P el 2)) (ie_y (ie_nd P el 2)).

  Definition ie_ctr (P : ie_prob) (el : ie_elem) : cx :=
    pp_ctr (ie_x (ie_nd P el 0)) (ie_y (ie_nd P el 0)) (ie_x (ie_nd P el 1)) (ie_y (ie_nd P el 1))
           (ie_x (ie_nd P el 2)) (ie_y (ie_nd P el 2)).

  Definition ie_aecf (P : ie_prob) (el : ie_elem) : F :=
    pp_aecf (ie_axi P) (nth (ie_lbl el) (ie_label_ext P) false) (ie_extZo P) (ie_extRo P) (ie_extRi P)
            (ie_ctr P el).

  Definition ie_mat (P : ie_prob) (el : ie_elem) : F * F := nth (ie_blk el) (ie_mats P) (zero, zero).

  (* the electric field -grad V of getElementD (its local CComplex E) *)
  Definition ie_gradE (P : ie_prob) (el : ie_elem) : cx :=
    let g := ie_geom P el in
    let da := vget A (gp g) 0 *. vget A (gq g) 1 -. vget A (gp g) 1 *. vget A (gq g) 0 in
    pp_grad (ie_lc P) g da (ie_V (ie_nd P el 0)) (ie_V (ie_nd P el 1)) (ie_V (ie_nd P el 2)).

  (* getElementD : elem->D = eo*(E.re*mat->ex + I*E.im*mat->ey)/AECF(elem) *)
  Definition ie_D (P : ie_prob) (el : ie_elem) : cx :=
    let E := ie_gradE P el in
    let '(ex, ey) := ie_mat P el in
    cdivr A (dmulc (ie_eo P) (dplusc (fst E *. ex) (cmuld (ci_times (snd E)) ey))) (ie_aecf P el).

  (* E(elem) : (elem->D.re/mat->ex + I*elem->D.im/mat->ey)/eo * AECF(elem) *)
  Definition ie_E (P : ie_prob) (el : ie_elem) (D : cx) : cx :=
    let '(ex, ey) := ie_mat P el in
    cmuld (cdivr A (dplusc (fst D /. ex) (cdivr A (ci_times (snd D)) ey)) (ie_eo P)) (ie_aecf P el).

  (* a=ElmArea(i)*sqr(LengthConv) *)
  Definition ie_area (P : ie_prob) (el : ie_elem) : F := ga (ie_geom P el) *. (ie_lc P *. ie_lc P).
  (* r[k]=x_k*LengthConv;  R=(r[0]+r[1]+r[2])/3. *)
  Definition ie_R (P : ie_prob) (el : ie_elem) : F :=
    (ie_x (ie_nd P el 0) *. ie_lc P +. ie_x (ie_nd P el 1) *. ie_lc P +. ie_x (ie_nd P el 2) *. ie_lc P) /. #3.
  (* if(AXISYMMETRIC) a*=(2.*PI*R); else a*=Depth; *)
  Definition ie_vol (P : ie_prob) (el : ie_elem) : F :=
    if ie_axi P then ie_area P el *. (#2 *. api A *. ie_R P el) else ie_area P el *. ie_depth P.

  (* Re(elem->D*conj(E(elem))) *)
  Definition re_mul_conj (D E : cx) : F := fst D *. fst E -. snd D *. aneg A (snd E).

  (* OpenDocument stores D per element; blockIntegral reads it back *)
  Definition ie_Ds (P : ie_prob) : list cx := map (ie_D P) (ie_elems P).

  (* one pass of the element loop of blockIntegral, inttype < 5 *)
  Definition ie_step (P : ie_prob) (sel : list bool) (t : nat) (result : cx) (eD : ie_elem * cx) : cx :=
    let '(el, D) := eD in
    if selected sel (ie_lbl el) then
      match t with
      | 0 => caddd result (ie_vol P el *. re_mul_conj D (ie_E P el D) /. #2)
      | 1 => caddd result (ie_area P el)
      | 2 => caddd result (ie_vol P el)
      | 3 => cadd A result (dmulc (ie_vol P el) D)
      | 4 => cadd A result (dmulc (ie_vol P el) (ie_E P el D))
      | _ => result
      end
    else result.

  Definition ie_loop (P : ie_prob) (Ds : list cx) (sel : list bool) (t : nat) : cx :=
    fold_left (ie_step P sel t) (combine (ie_elems P) Ds) czero.

  (* blockIntegral(inttype):  if((inttype==3)||(inttype==4)) result/=blockIntegral(2); *)
  Definition ie_block_integral (P : ie_prob) (Ds : list cx) (sel : list bool) (t : nat) : cx :=
    let r := ie_loop P Ds sel t in
    if Nat.eqb t 3 || Nat.eqb t 4 then cdiv A r (ie_loop P Ds sel 2) else r.

  (* the per-element terms on their own (what the theorems are about) *)
  Definition ie_energy_term (P : ie_prob) (el : ie_elem) : F :=
    let D := ie_D P el in ie_vol P el *. re_mul_conj D (ie_E P el D) /. #2.
End IntegralsE.
