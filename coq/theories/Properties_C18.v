(* Properties_C18.v — theorem statements for C18 (requested mesh sizes, segment spacings and
   minimum angle are honoured), about the model Discretize.v of fmesher's own subdivision code.
   Triangle's refinement is validated per mesh (tools/props/c18.py), not proved. *)
From Coq Require Import ZArith List Bool Arith Lia Reals Lra.
From XF Require Import Arith Discretize DiscretizeProofs.
Import ListNotations.
Local Open Scope R_scope.

(* the number of parts the model accepts is the ceiling: the unique n >= 1 with n-1 < x <= n *)
Theorem C18_parts_is_ceiling : forall x n, is_ceil RA x n = true -> (1 <= n)%Z /\ IZR (n - 1) < x <= IZR n.
Proof. exact is_ceil_spec. Qed.
Print Assumptions C18_parts_is_ceiling.

Theorem C18_ceiling_unique : forall x n m, IZR (n - 1) < x <= IZR n -> IZR (m - 1) < x <= IZR m -> n = m.
Proof. exact ceil_unique. Qed.
Print Assumptions C18_ceiling_unique.

(* a line of length len with maximum segment length s is cut into equal parts no longer than s *)
Theorem C18_line_parts_respect_spacing : forall len s n,
  0 < s -> is_ceil RA (len / s) n = true -> len / IZR n <= s.
Proof. exact parts_respect_spacing. Qed.
Print Assumptions C18_line_parts_respect_spacing.

(* a line cut into np >= 2 parts becomes exactly np sub-segments forming a chain from its first
   to its last drawn point (all sizes np, any state of the node and segment lists) *)
Theorem C18_line_subdivision_is_chain : forall (np : nat) (a0 a1 : R * R) (n0 n1 cnt : nat),
  (2 <= np)%nat -> forall nodes segs,
  exists nodes' em',
    subdivide RA np 0 np a0 a1 n0 n1 cnt (nodes, segs) = (nodes', segs ++ em') /\
    is_chain n0 n1 em' /\ length em' = np.
Proof. exact subdivide_chain. Qed.
Print Assumptions C18_line_subdivision_is_chain.

(* an arc with np = ceil(span / max angle) >= 2 is replaced by exactly np chords forming a chain *)
Theorem C18_arc_is_chain_of_np_chords : forall (np : nat) (n0 n1 cnt : nat),
  (2 <= np)%nat -> forall (c e : R * R) nodes segs a2,
  exists nodes' em',
    arc_points RA np 0 np c e a2 n0 n1 cnt (nodes, segs) = (nodes', segs ++ em') /\
    is_chain n0 n1 em' /\ length em' = np.
Proof. intros np n0 n1 cnt H c e. exact (arc_chain np n0 n1 cnt H c e). Qed.
Print Assumptions C18_arc_is_chain_of_np_chords.

(* the chord end points generated on an arc lie on the arc's circle (unit step factor) *)
Theorem C18_arc_points_on_circle : forall (c e : R * R) (n0 n1 cnt np : nat),
  fst e * fst e + snd e * snd e = 1 ->
  forall fuel j nodes segs a2 r2,
    dist2 a2 c = r2 -> Forall (fun p => dist2 p c = r2) nodes ->
    Forall (fun p => dist2 p c = r2) (fst (arc_points RA fuel j np c e a2 n0 n1 cnt (nodes, segs))).
Proof. exact arc_points_on_circle. Qed.
Print Assumptions C18_arc_points_on_circle.

Example C18_ceiling_nonvacuous : is_ceil RA (7 / 2) 4 = true.
Proof.
  unfold is_ceil. cbn [Z.leb andb]. ra_simpl.
  assert (H1 : Rltb (IZR (4 - 1)) (7 / 2) = true) by (apply Rltb_true; simpl; lra).
  assert (H2 : Rleb (7 / 2) (IZR 4) = true) by (apply Rleb_true; lra).
  rewrite H1, H2. reflexivity.
Qed.
