(* Properties_C19_nlaxi.v — theorem statements about the NONLINEAR (B-H curve) loop of FSolver::StaticAxisymmetric
   (cfemm/fsolver/staticaxi.cpp:146-778), serving C19's last clause ("a magnetostatic problem whose table is a straight
   line through the origin gives the same solution and energy as the linear material of that permeability, and the
   nonlinear iteration terminates") and C05 (the solution satisfies the discrete field equations, here the axisymmetric
   modified-potential equations with nu = nu(B)).  Model: AsmMAxiNL.v (on AsmMAxi.v, AsmMNL.v, Sparse.v, BH.v); proofs:
   AsmMAxiNLProofs.v.  Real-number reading.  The linear solver is an arbitrary function [solve]; the loop has explicit
   fuel because the C++ loop has no iteration cap (findings/XNLAXI-2.md: a monotone table on which the real fsolver
   never leaves the loop).  The exit test, the relaxation, GetBHProps and the combine statement are the planar loop's
   definitions (same C++ text): Properties_C19_nl.v (c), (e), (a0) and C05_nl_pass_is_newton_step's local identity
   apply verbatim; (c)/(e) are restated below for the axisymmetric state for completeness. *)
From Coq Require Import ZArith List Bool Arith Lia Reals Lra.
From XF Require Import Arith Sparse SparseProofs AsmOps AsmOpsProofs AsmE AsmEProofs AsmM AsmMProofs BH ClosedFormProofs.
Set Warnings "-ambiguous-paths".
From Coquelicot Require Import Coquelicot.
From XF Require Import BHProofs AsmMNL AsmMNLProofs AsmMAxi AsmMAxiProofs AsmMAxiNL AsmMAxiNLProofs.
Import ListNotations.
Local Open Scope R_scope.

(* ---------------------------------------------------------------------------------------------- *)
(* (a) reduction to the linear case                                                                 *)
(* ---------------------------------------------------------------------------------------------- *)
(* (a1) FIRST PASS, every problem (no hypothesis on the tables): Iter = 0 assembles exactly the linear axisymmetric
        problem of AsmMAxi.v whose permeabilities are the blocks' mu_x, mu_y (for a block with a table: the initial slope
        GetSlopes stored; in the exterior region divided by the mapping factor), and stores those permeabilities *)
Theorem C19_nlaxi_first_pass_is_linear_initialisation :
  forall (AP : aprob (F:=R)) (mats : list (mat (F:=R))) (res : list (nat * R * R)) (L0 : lin (F:=R)) (mus : list (R * R)),
  length mus = length (aelas AP) ->
  anl_pass RA AP mats res 0 L0 mus = (aasm_from AP res L0, alin_mus_all AP).
Proof. exact anl_pass_first. Qed.
Print Assumptions C19_nlaxi_first_pass_is_linear_initialisation.

(* aasm_from is the linear assembly of AsmMAxi.v (C05's axisymmetric model) started from a given CBigLinProb state:
   AsmMAxi.asmMAxi is aasm_from the Create'd one *)
Theorem C19_nlaxi_asm_from_is_the_linear_assembly : forall (AP : aprob (F:=R)) (bw : nat) (prec : R),
  asmMAxi RA AP bw prec
    = (aasm_from AP (acirc_results RA (ap AP)) (lcreate RA (length (mnodes (ap AP))) bw prec (adec RA 15 (-1))),
       acirc_results RA (ap AP)).
Proof. exact asmMAxi_is_aasm_from. Qed.
Print Assumptions C19_nlaxi_asm_from_is_the_linear_assembly.

(* (a2) LATER PASSES: if every block with a table is LamType 0 with a straight-line table whose permeability 1/(muo k)
        is the element's effective first-pass permeability [ael_lin_ok], then a pass started from the linear
        permeabilities assembles, for EVERY iterate V (it is in L0) and every pass number, exactly the linear system
        again (tangent term Mn = 0, permeabilities unchanged) *)
Theorem C19_nlaxi_pass_assembles_linear_system :
  forall (AP : aprob (F:=R)) (mats : list (mat (F:=R))) (res : list (nat * R * R)) (iter : nat) (L0 : lin (F:=R)),
  List.Forall (ael_lin_ok AP (xRo AP) (xRi AP) (xZo AP) mats) (aelas AP) ->
  anl_pass RA AP mats res iter L0 (alin_mus_all AP) = (aasm_from AP res L0, alin_mus_all AP).
Proof. exact anl_pass_line. Qed.
Print Assumptions C19_nlaxi_pass_assembles_linear_system.

(* outside the exterior region the element's first-pass permeability is the block's (laminated) permeability
   AsmM.el_mu — the hypothesis of (a2) then reads as in the planar case *)
Theorem C19_nlaxi_first_pass_permeability_outside_exterior_region :
  forall (AP : aprob (F:=R)) (extRo extRi extZo : R) (el : melem (F:=R)),
  nth (mlbl el) (aext AP) false = false ->
  e_mu AP extRo extRi extZo el = el_mu RA (nth (mblk el) (mblocks (ap AP)) (dmblock RA)).
Proof. exact e_mu_not_external. Qed.
Print Assumptions C19_nlaxi_first_pass_permeability_outside_exterior_region.

(* (a3) the whole loop, as an inductive invariant: from the initial state on, whatever the linear solver returns,
        EVERY pass assembles the linear system of the linear material (from the Create'd matrix in the first pass, from
        the Wipe'd one afterwards — C19_nl_wiped_start_poses_the_same_equations covers the Wipe'd start: the scatter is
        the same operation list, see C05_axi_scatter_is_sum_of_contributions), and the invariant is re-established *)
Theorem C19_nlaxi_every_pass_is_the_linear_system :
  forall (AP : aprob (F:=R)) (mats : list (mat (F:=R))) (res : list (nat * R * R)) (st : nlstate (F:=R)),
  List.Forall (ael_lin_ok AP (xRo AP) (xRi AP) (xZo AP) mats) (aelas AP) -> aline_inv AP st ->
  let '(L, mus, c) := st in
  anl_assemble RA AP mats res st
    = (aasm_from AP res (if Nat.eqb (cIter c) 0 then L else wipe RA L), alin_mus_all AP) /\
  forall V, aline_inv AP (nl_after_solve RA st (fst (anl_assemble RA AP mats res st)) (snd (anl_assemble RA AP mats res st)) V).
Proof. exact anl_every_pass_line. Qed.
Print Assumptions C19_nlaxi_every_pass_is_the_linear_system.

Theorem C19_nlaxi_invariant_holds_initially :
  forall (AP : aprob (F:=R)) (mats : list (mat (F:=R))) (bw : nat) (prec : R),
  length (alg AP) = length (melems (ap AP)) -> aline_inv AP (anl_state0 RA AP mats bw prec).
Proof. exact aline_inv_state0. Qed.
Print Assumptions C19_nlaxi_invariant_holds_initially.

Theorem C19_nlaxi_loop_keeps_linear_permeabilities :
  forall (AP : aprob (F:=R)) (mats : list (mat (F:=R))) (res : list (nat * R * R))
         (solve : nat -> lin (F:=R) -> option (list R)) (fuel : nat) (st : nlstate (F:=R)) (b : bool) (st' : nlstate (F:=R)),
  List.Forall (ael_lin_ok AP (xRo AP) (xRi AP) (xZo AP) mats) (aelas AP) -> aline_inv AP st ->
  anl_iterate RA solve AP mats res fuel st = Some (b, st') -> aline_inv AP st'.
Proof. intros AP mats res solve fuel st b st'. apply anl_iterate_line. Qed.
Print Assumptions C19_nlaxi_loop_keeps_linear_permeabilities.

(* the scatter statements of the axisymmetric loop are the planar ones as operations on the matrix *)
Theorem C19_nlaxi_scatter_is_the_planar_scatter :
  forall (n : nat * nat * nat) (Me be : vecT R) (M : matrixT R) (b : vecT R),
  ascatter RA n Me be M b = mscatter RA n Me be M b.
Proof. exact ascatter_is_mscatter. Qed.
Print Assumptions C19_nlaxi_scatter_is_the_planar_scatter.

(* the hypothesis of (a2)/(a3) is satisfiable with a genuinely nonlinear-branch block (an element off the axis) *)
Example C19_nlaxi_line_hypothesis_satisfiable :
  exists (AP : aprob (F:=R)) (mats : list (mat (F:=R))),
    aelas AP <> [] /\ nl_any RA (ap AP) mats = true /\
    List.Forall (ael_lin_ok AP (xRo AP) (xRi AP) (xZo AP) mats) (aelas AP).
Proof.
  exists (mkAProb (mkMProb 2 [mkMNode 1 0 None; mkMNode 2 0 None; mkMNode 1 1 None]
                           [mkMElem (0, 1, 2)%nat (None, None, None) 0 0 1 0]
                           [mkMBlock 2 2 0 0 0 0 0 0 0 0 1] [] [] [] [mkMLabel 0 None 1] [])
                  [mkALogs (0, 0, 0) (0, 0, 0)] [false] 0 0 0),
         [line_mat (1 / 2, 0) [0; 1] 2 1].
  split; [discriminate|]. split; [reflexivity|].
  constructor; [|constructor]. right. split; [reflexivity|].
  exists (1 / 2), [0; 1], 2. cbn. repeat split; try lra; try lia.
  unfold e_mu, ael_mu, el_mu. cbn. ra_simpl. f_equal; field.
Qed.

(* (a4) REFUTED for laminations on edge (LamType 1, 2 with fill < 1): staticaxi.cpp has the statements of static2d.cpp
        (known finding XNL-1): the passes after the first store mu*fill where the first pass and the linear material use
        mu*fill + (1 - fill).  Witness: fill 1/2, straight-line table of relative permeability 2 = the block's mu_x = mu_y:
        LamType 1: first pass (3/2, 4/3), later passes (1, 4/3); LamType 2: (4/3, 3/2) vs (4/3, 1); for every iterate, every
        element.  Replayed on the real fsolver by the check's paired runs (coverage keys xnl1_axi_probe_lam1_rel_dflux, ..lam2..: the written flux differs by 18 % /
        20 %) *)
Theorem C19_nlaxi_reduction_to_linear_lam_on_edge_refuted :
  exists (m : mat (F:=R)) (blk1 blk2 : mblock (F:=R)),
    bLamType blk1 = 1%nat /\ bLamType blk2 = 2%nat /\ incr (mB m) /\ hd 0 (mB m) = 0 /\
    (exists k, m = line_mat (k, 0) (mB m) (mMux m) (mMuo m) /\ 1 / (mMuo m * k) = bmux blk1 /\ 1 / (mMuo m * k) = bmuy blk2) /\
    forall vol Mx My V3,
      fst (anl_update RA m blk1 vol Mx My V3 (el_mu RA blk1)) <> el_mu RA blk1 /\
      fst (anl_update RA m blk2 vol Mx My V3 (el_mu RA blk2)) <> el_mu RA blk2.
Proof.
  exists wit_mat, wit_blk, wit_blk2.
  destruct wit_table_is_the_linear_material as (H1 & H2 & H3 & H4).
  split; [exact H4|]. split; [reflexivity|]. split; [exact H1|]. split; [exact H2|].
  split.
  { exists (1 / 2). split; [reflexivity|]. split; [exact H3|]. cbn. lra. }
  intros vol Mx My V3.
  destruct (alam_on_edge_not_linear vol Mx My V3) as [E1 E2]. destruct (alam_on_edge2_not_linear vol Mx My V3) as [F1 F2].
  rewrite E2, E1, F2, F1. split.
  - intros E. assert (E0 : fst (1, 4 / 3) = fst (3 / 2, 4 / 3) :> R) by (rewrite E; reflexivity). cbn in E0. lra.
  - intros E. assert (E0 : snd (4 / 3, 1) = snd (4 / 3, 3 / 2) :> R) by (rewrite E; reflexivity). cbn in E0. lra.
Qed.
Print Assumptions C19_nlaxi_reduction_to_linear_lam_on_edge_refuted.

(* (a5) REFUTED in the conformally mapped exterior region (only the axisymmetric solver has one): the factor 1/kludge is
        applied "if (IsExternal && Iter==0)" (staticaxi.cpp:613), the update of the later passes overwrites mu1, mu2 with
        the bare table value.  Witness: one element (1,0) (2,0) (1,1) of an external LamType 0 block with mu = 2 and the
        straight-line table of that permeability, extRo = 1, extRi = 1/2, extZo = 0: first pass / linear material 36/17,
        every later pass 2.  Replayed on the real fsolver by the check's paired run (coverage keys xnlaxi1_probe_rel_dflux, _newton), findings/XNLAXI-1.md *)
Theorem C19_nlaxi_reduction_to_linear_exterior_region_refuted :
  exists (AP : aprob (F:=R)) (mats : list (mat (F:=R))) (ela : melem (F:=R) * alogs (F:=R)),
    In ela (aelas AP) /\ nth (mlbl (fst ela)) (aext AP) false = true /\
    bLamType (nth (mblk (fst ela)) (mblocks (ap AP)) (dmblock RA)) = 0%nat /\
    (let m := nth (mblk (fst ela)) mats (dmat RA) in
     incr (mB m) /\ hd 0 (mB m) = 0 /\
     exists k, m = line_mat (k, 0) (mB m) (mMux m) (mMuo m) /\
               el_mu RA (nth (mblk (fst ela)) (mblocks (ap AP)) (dmblock RA)) = (1 / (mMuo m * k), 1 / (mMuo m * k))) /\
    forall iter V parts, iter <> 0%nat ->
      fst (ael_mu_Mn RA AP (xRo AP) (xRi AP) (xZo AP) mats iter V ela parts (e_mu AP (xRo AP) (xRi AP) (xZo AP) (fst ela)))
      <> e_mu AP (xRo AP) (xRi AP) (xZo AP) (fst ela).
Proof.
  exists xwit_AP, [wit_mat], xwit_ela.
  assert (X1 : xRo xwit_AP = 1) by (unfold xRo, aunit, munits; cbn; ra_simpl; lra).
  assert (X2 : xRi xwit_AP = 1 / 2) by (unfold xRi, aunit, munits; cbn; ra_simpl; lra).
  assert (X3 : xZo xwit_AP = 0) by (unfold xZo, aunit, munits; cbn; ra_simpl; lra).
  split; [left; reflexivity|]. split; [reflexivity|]. split; [reflexivity|]. split.
  - cbn. split; [lra|]. split; [reflexivity|]. exists (1 / 2). split; [reflexivity|].
    unfold el_mu. cbn. ra_simpl. f_equal; field.
  - intros iter V parts Hi. rewrite X1, X2, X3. change (fst xwit_ela) with xwit_el.
    rewrite (aexternal_not_linear iter V parts Hi). rewrite xwit_first_pass_mu.
    intros E. assert (E0 : fst (2, 2) = fst (36 / 17, 36 / 17) :> R) by (rewrite E; reflexivity). cbn in E0. lra.
Qed.
Print Assumptions C19_nlaxi_reduction_to_linear_exterior_region_refuted.

(* ---------------------------------------------------------------------------------------------- *)
(* (b) what a Newton pass solves; fixed points satisfy the nonlinear axisymmetric equations (C05)   *)
(* ---------------------------------------------------------------------------------------------- *)
(* (b1) THE NEWTON STEP, every element of every pass: with S, f = the linear axisymmetric element matrix / source vector
        for the permeability the pass computed from the previous iterate V [asecant_matrices], the assembled local
        equation at any U is  (S V - f)_a + ((S + Mn)(U - V))_a *)
Theorem C05_nlaxi_pass_is_newton_step :
  forall (AP : aprob (F:=R)) (extRo extRi extZo : R) (mats : list (mat (F:=R))) (res : list (nat * R * R)) (iter : nat)
         (V U : vecT R) (ela : melem (F:=R) * alogs (F:=R)) (mu_old : R * R) (a : nat),
  (a < 3)%nat ->
  let r := anl_elem_matrices RA AP extRo extRi extZo mats res iter V ela mu_old in
  let Me := fst (fst r) in let be := snd (fst r) in let mu := snd r in
  let S := asecant_matrices AP res ela mu in
  local_resid Me be (mp (fst ela)) U a
    = local_resid (fst S) (snd S) (mp (fst ela)) V a
      + (tangent_row Me (mp (fst ela)) U a - tangent_row Me (mp (fst ela)) V a).
Proof. exact anewton_step_element. Qed.
Print Assumptions C05_nlaxi_pass_is_newton_step.

(* (b2) the secant matrix is the modified-potential matrix of Properties_C05_axi.v (c) with the permeabilities of the
        pass: S[j][k] = -( vol bz_j bz_k / mu2 + vol/(R R_hat) br_j br_k / mu1 ) except on the diagonal of on-axis nodes;
        its source vector is the linear model's *)
Theorem C05_nlaxi_secant_matrix_is_modified_potential_form :
  forall (AP : aprob (F:=R)) (res : list (nat * R * R)) (el : melem (F:=R)) (lg : alogs (F:=R)) (mu : R * R) (j k : nat),
  no_mixed_edge (ap AP) el -> (j < 3)%nat -> (k < 3)%nat -> (j <> k \/ e_axis AP el j = false) ->
  e_ah AP el <> 0 -> e_R AP el <> 0 -> e_Rh AP el lg <> 0 -> fst mu <> 0 -> snd mu <> 0 ->
  m3get RA (fst (asecant_matrices AP res (el, lg) mu)) j k
    = - (e_vol AP el * e_bz AP el j * e_bz AP el k / snd mu
         + e_vol AP el / (e_R AP el * e_Rh AP el lg) * e_br AP el j * e_br AP el k / fst mu).
Proof. exact asecant_is_modified_potential_form. Qed.
Print Assumptions C05_nlaxi_secant_matrix_is_modified_potential_form.

Theorem C05_nlaxi_secant_rhs_is_linear_rhs :
  forall (AP : aprob (F:=R)) (res : list (nat * R * R)) (extRo extRi extZo : R) (ela : melem (F:=R) * alogs (F:=R)) (mu : R * R),
  snd (asecant_matrices AP res ela mu) = snd (fst (amelem_matrices RA AP extRo extRi extZo res ela)).
Proof. exact asecant_rhs. Qed.
Print Assumptions C05_nlaxi_secant_rhs_is_linear_rhs.

(* (b3) the element loop of a pass, all meshes: row i of M U - b is the initial row minus the sum of the elements'
        assembled local equations *)
Theorem C05_nlaxi_element_loop_rows :
  forall (AP : aprob (F:=R)) (extRo extRi extZo : R) (mats : list (mat (F:=R))) (res : list (nat * R * R)) (iter : nat)
         (V U : vecT R) (ems : list ((melem (F:=R) * alogs (F:=R)) * (R * R))) (M : matrixT R) (b : vecT R) (rmus : list (R * R)),
  mat_wf M -> length b = length M -> List.Forall (fun em => elem_okM (length M) (fst (fst em))) ems ->
  let s' := fold_left (anl_elem_step RA AP extRo extRi extZo mats res iter V) ems (M, b, rmus) in
  mat_wf (fst (fst s')) /\ length (fst (fst s')) = length M /\ length (snd (fst s')) = length b /\
  forall i, (i < length M)%nat ->
    Ax (fst (fst s')) U i - vget RA (snd (fst s')) i
      = (Ax M U i - vget RA b i) - lsum (fun em => anl_el_resid AP extRo extRi extZo mats res iter V em U i) ems.
Proof. exact anl_loop_rows. Qed.
Print Assumptions C05_nlaxi_element_loop_rows.

(* (b4) FIXED POINT: if the iterate V a pass was assembled from satisfies row i of that pass's element-loop system
        (started from the all-zero Create'd / Wipe'd matrix), then — and only then — the NONLINEAR axisymmetric equations
        sum_el [ K_el(nu(B_el(V))) V - f_el ]_i = 0 hold at row i, with the permeabilities computed from V.
        (Rows touched by SetValue / periodicity afterwards: C05_axi_setvalue_prescribes, C05_axi_axis_node_zero.) *)
Theorem C05_nlaxi_fixed_point_satisfies_nonlinear_equations :
  forall (AP : aprob (F:=R)) (extRo extRi extZo : R) (mats : list (mat (F:=R))) (res : list (nat * R * R)) (iter : nat)
         (V : vecT R) (ems : list ((melem (F:=R) * alogs (F:=R)) * (R * R))) (M : matrixT R) (b : vecT R) (rmus : list (R * R)) (i : nat),
  mat_wf M -> length b = length M -> List.Forall (fun em => elem_okM (length M) (fst (fst em))) ems ->
  (i < length M)%nat -> Ax M V i = 0 -> vget RA b i = 0 ->
  let s' := fold_left (anl_elem_step RA AP extRo extRi extZo mats res iter V) ems (M, b, rmus) in
  Ax (fst (fst s')) V i = vget RA (snd (fst s')) i
  <-> lsum (fun em => asecant_el_resid AP extRo extRi extZo mats res iter V em i) ems = 0.
Proof. exact anl_fixed_point_row. Qed.
Print Assumptions C05_nlaxi_fixed_point_satisfies_nonlinear_equations.

(* (b5) THE TANGENT TERM (LamType 0): Mn[j][w] = (c/100) * dv * d(Bsq)/dV_w * ((Mx+My) V)_j with dv = d(H/B)/d(B^2) of
        GetBHProps and c/100 = muo: minus the derivative of the secant row -(muo H/B)((Mx+My)V)_j through B^2 *)
Theorem C05_nlaxi_tangent_term_lam0 :
  forall (AP : aprob (F:=R)) (m : mat (F:=R)) (blk : mblock (F:=R)) (el : melem (F:=R)) (lg : alogs (F:=R)) (mu : R * R)
         (v0 v1 v2 : R) (j w : nat),
  bLamType blk = 0%nat -> fst mu = snd mu -> (0 < bhpoints m)%nat -> (j < 3)%nat -> (w < 3)%nat ->
  e_vol AP el <> 0 ->
  let Mx := fst (fst (ael_shape RA (ap AP) el lg)) in let My := snd (fst (ael_shape RA (ap AP) el lg)) in
  let V3 := [v0; v1; v2] in
  let v := mv3 RA (fun j w => m3get RA Mx j w + m3get RA My j w) V3 in
  let B := anl_Bmag RA (ael_vol RA AP el) V3 v in
  let r := anl_update RA m blk (ael_vol RA AP el) Mx My V3 mu in
  fst r = (fst (nl_mu_of RA m B), fst (nl_mu_of RA m B)) /\
  m3get RA (snd r) j w = c4pi RA / 100 * snd (nl_mu_of RA m B) * adBsq AP el lg v0 v1 v2 w * vget RA v j.
Proof. exact atangent_term_lam0. Qed.
Print Assumptions C05_nlaxi_tangent_term_lam0.

(* (b6) adBsq is the gradient of aBsq with respect to the nodal values *)
Theorem C05_nlaxi_dBsq_is_gradient_of_Bsq :
  forall (AP : aprob (F:=R)) (el : melem (F:=R)) (lg : alogs (F:=R)) (v0 v1 v2 : R),
  is_derive (fun x => aBsq AP el lg x v1 v2) v0 (adBsq AP el lg v0 v1 v2 0) /\
  is_derive (fun x => aBsq AP el lg v0 x v2) v1 (adBsq AP el lg v0 v1 v2 1) /\
  is_derive (fun x => aBsq AP el lg v0 v1 x) v2 (adBsq AP el lg v0 v1 v2 2).
Proof. exact aBsq_is_derive. Qed.
Print Assumptions C05_nlaxi_dBsq_is_gradient_of_Bsq.

(* ---------------------------------------------------------------------------------------------- *)
(* (d) the flux density the update uses                                                             *)
(* ---------------------------------------------------------------------------------------------- *)
(* (d1) "B derived directly from energy": B^2 = | -(10000 c^2/vol) V.(Mx+My)V |, vol = 2 R a_hat *)
Theorem C19_nlaxi_update_flux_density_squared :
  forall (AP : aprob (F:=R)) (el : melem (F:=R)) (lg : alogs (F:=R)) (v0 v1 v2 : R),
  let V3 := [v0; v1; v2] in
  let Mx := fst (fst (ael_shape RA (ap AP) el lg)) in let My := snd (fst (ael_shape RA (ap AP) el lg)) in
  let v := mv3 RA (fun j w => m3get RA Mx j w + m3get RA My j w) V3 in
  let B := anl_Bmag RA (ael_vol RA AP el) V3 v in
  B * B = Rabs (aBsq AP el lg v0 v1 v2).
Proof. exact anl_Bmag_sq. Qed.
Print Assumptions C19_nlaxi_update_flux_density_squared.

(* (d2) ... and that is the flux density AsmMAxi's element carries (Properties_C05_axi.v (c): B_z = sum_j bz_j A_j constant,
        r B_r = -sum_j br_j A_j, A = c V, lengths in cm): the rms value over the element weighted with r dr dz,
           B^2 = (100 c)^2 [ (sum_j bz_j V_j)^2 + (sum_j br_j V_j)^2 / (R R_hat) ],
        1/(R R_hat) = (mean of 1/r)/(mean of r) being the lumped weights of the element matrix itself; holds when the iterate
        vanishes at the element's on-axis nodes (C05_axi_axis_node_zero: every solved iterate does) *)
Theorem C19_nlaxi_update_flux_density_is_element_rms :
  forall (AP : aprob (F:=R)) (el : melem (F:=R)) (lg : alogs (F:=R)) (v0 v1 v2 : R),
  e_ah AP el <> 0 -> e_R AP el <> 0 -> e_Rh AP el lg <> 0 ->
  (e_axis AP el 0 = false \/ v0 = 0) -> (e_axis AP el 1 = false \/ v1 = 0) -> (e_axis AP el 2 = false \/ v2 = 0) ->
  let Bz := e_bz AP el 0 * v0 + e_bz AP el 1 * v1 + e_bz AP el 2 * v2 in
  let rBr := e_br AP el 0 * v0 + e_br AP el 1 * v1 + e_br AP el 2 * v2 in
  aBsq AP el lg v0 v1 v2 = (100 * c4pi RA) * (100 * c4pi RA) * (Bz * Bz + rBr * rBr / (e_R AP el * e_Rh AP el lg)).
Proof. exact anl_B_is_rms_flux_density. Qed.
Print Assumptions C19_nlaxi_update_flux_density_is_element_rms.

(* (d3) the updated permeability is B/(muo H(B)): C19_nl_updated_permeability_is_B_over_H (nl_mu_of is shared) *)

(* ---------------------------------------------------------------------------------------------- *)
(* (c), (e) exit test and relaxation: the control statements are the planar ones (AsmMNL.nl_control is what       *)
(* anl_iterate runs through nl_after_solve), so Properties_C19_nl.v (c), (e) hold for this loop; restated for the  *)
(* axisymmetric loop state                                                                                         *)
(* ---------------------------------------------------------------------------------------------- *)
Theorem C19_nlaxi_control_is_the_planar_control :
  forall (st : nlstate (F:=R)) (L1 : lin (F:=R)) (mus1 : list (R * R)) (V : list R),
  let '(L, mus, c) := st in
  nl_after_solve RA st L1 mus1 V
    = (lwithV L1 (snd (nl_control RA (lprec L) (Sparse.lV L1) V c)), mus1, fst (nl_control RA (lprec L) (Sparse.lV L1) V c)).
Proof.
  intros [[L mus] c] L1 mus1 V. unfold nl_after_solve.
  destruct (nl_control RA (lprec L) (Sparse.lV L1) V c) as [c' V']. reflexivity.
Qed.
Print Assumptions C19_nlaxi_control_is_the_planar_control.

Theorem C19_nlaxi_exit_means_last_change_below_tolerance : forall (prec : R) (Vold V : list R) (c : nlctl (F:=R)),
  cLinear c = false ->
  let c' := fst (nl_control RA prec Vold V c) in
  cLinear c' = true ->
  nl_y RA V = 0 \/
  ((0 < cIter c)%nat /\ cRes c' = sqrt (nl_x RA V Vold / nl_y RA V) /\ cRes c' < 100 * prec).
Proof. exact nl_exit_test. Qed.
Print Assumptions C19_nlaxi_exit_means_last_change_below_tolerance.

Theorem C19_nlaxi_relax_stays_in_range : forall (prec : R) (Vold V : list R) (c : nlctl (F:=R)),
  let c' := fst (nl_control RA prec Vold V c) in
  ((cIter c <= 5)%nat -> cRelax c' = cRelax c /\ snd (nl_control RA prec Vold V c) = V) /\
  (1 / 16 < cRelax c <= 1 -> 1 / 16 < cRelax c' <= 1).
Proof. exact nl_control_relax. Qed.
Print Assumptions C19_nlaxi_relax_stays_in_range.
