(* Properties_C02_load.v — extension of C02 (the mesh carries materials, boundary conditions and conductors to
   the right places): the mesh readers FSolver::LoadMesh / ESolver::LoadMesh / HSolver::LoadMesh.
   Model: LoadMesh.v (three variants VM / VE / VH); proofs: LoadMeshProofs.v; constants regenerated from the
   sources: gen/LoadConsts.v, gen/MarkerConsts.v; correspondence with the real solver classes on the same
   files: tools/props/xload.py through harness/h_loadmesh2.cpp.  Statements only.

   VOCABULARY.  Inputs of [load_mesh A v del units labels fmts nodes pbcs ages eles edges]: the variant, the
   deleteFiles flag, LengthUnits, labellist as (IsDefault, BlockType), lineproplist[].BdryFormat, and the
   number tables of .node (x, y, marker), .pbc (x, y, t), the air-gap quad nodes of the .pbc file (fsolver),
   .ele (p0, p1, p2, attribute), .edge (n0, n1, marker).  Result: [Loaded m] | [Failed code removed] | [UB]
   (an index taken from a file used outside its array: the C++ has no check).
   [side_p p k] = end nodes of side k of an element with corners p (k = 0,1,2: p[k] -> p[k+1 mod 3]);
   [smark e k] = e[k]; [same_ends s a b]: s is (a,b) or (b,a); [en0 r], [en1 r] = node columns of an .edge
   row; [wj v r] = the boundary-property index row r writes in variant v, if it writes one:
       fsolver            marker m < 0  ->  -(m+2)        (also for m = -1: the value -1 is WRITTEN)
       esolver / hsolver  Marker.dec_seg m has a property index j >= 0  ->  j;
   [last_mark (wj v) edges s (-1)] = replay of the .edge table on one side s, starting from -1;
   [no_format2 v fmts edges]: in esolver / hsolver no row of the table assigns a property whose BdryFormat is one of
   the solver's "stop" formats [stops_of v] (regenerated from the sources into gen/LoadConsts.v: the test
   BdryFormat==2 in both solvers as shipped; for those rows the search stops at the first element that owns
   the edge, theorem C02_load_format2_...; findings/XLOAD-1 is about hsolver's choice of that format);
   [norm r] = (min, max) of the two node columns; [NoDup (map norm edges)] = every edge listed at most once
   (C01's validator establishes it for the files fmesher writes);
   [label_of labels a] = a - 1, or the default label (last label with IsDefault, -1 if none) when a - 1 < 0;
   [conds_after edges i c0] = replay of the conductor part of the .edge table on node i: every row whose marker
   holds a conductor c >= 0 and that has i as an end node sets the node's conductor to c. *)
From Coq Require Import ZArith List Bool Floats.
From XF Require Import Arith Marker MarkerProofs LoadMesh LoadMeshProofs.
From XF.gen Require Import MarkerConsts LoadConsts.
Import ListNotations.
Local Open Scope Z_scope.

(* ---- element sides ------------------------------------------------------------------------------- *)
(* The search through nmbr[]/mbr[][] puts the value of a row on exactly the element sides whose end nodes are
   the row's two nodes, in both orientations and in EVERY element that owns them, and leaves every other side
   alone; over the whole table the side ends with the value of the LAST such row that writes (all meshes, all
   tables, all three variants; esolver / hsolver under no_format2). *)
Theorem C02_load_side_mark_is_last_row_with_its_end_nodes :
  forall (F : Type) (A : Arith F) v del units labels fmts nodes pbcs ages eles edges m,
    load_mesh A v del units labels fmts nodes pbcs ages eles edges = Loaded m ->
    no_format2 v fmts edges ->
    forall i k, (i < length eles)%nat -> (k < 3)%nat ->
      smark (nth i (m_elems m) d_elem) k = last_mark (wj v) edges (side_p (row_p (nth i eles d_row)) k) (-1).
Proof. exact (@load_side_mark_thm). Qed.
Print Assumptions C02_load_side_mark_is_last_row_with_its_end_nodes.

(* Every edge listed once: an element side carries marker value j iff the row with its end nodes assigns j,
   and a side whose end nodes are not listed stays at -1. *)
Theorem C02_load_side_carries_exactly_the_listed_edge_assignment :
  forall (F : Type) (A : Arith F) v del units labels fmts nodes pbcs ages eles edges m,
    load_mesh A v del units labels fmts nodes pbcs ages eles edges = Loaded m ->
    no_format2 v fmts edges -> NoDup (map norm edges) ->
    forall i k, (i < length eles)%nat -> (k < 3)%nat ->
      let s := side_p (row_p (nth i eles d_row)) k in
      (forall r, In r edges -> same_ends s (en0 r) (en1 r) ->
         smark (nth i (m_elems m) d_elem) k = match wj v r with Some j => j | None => -1 end) /\
      ((forall r, In r edges -> ~ same_ends s (en0 r) (en1 r)) -> smark (nth i (m_elems m) d_elem) k = -1).
Proof. exact (@load_side_iff_thm). Qed.
Print Assumptions C02_load_side_carries_exactly_the_listed_edge_assignment.

(* ... and what a row assigns is the boundary property the mesher encoded (Marker.v round trip) *)
Theorem C02_load_row_assigns_the_encoded_boundary_property :
  forall a b p c, prop_ok p -> cond_ok c -> wj VE (a, b, enc_seg p c) = p /\ wj VH (a, b, enc_seg p c) = p.
Proof. intros a b p c Hp Hc. split; exact (wj_eh_enc a b p c Hp Hc). Qed.
Print Assumptions C02_load_row_assigns_the_encoded_boundary_property.

Theorem C02_load_row_assigns_the_encoded_boundary_property_mag :
  forall a b p, prop_ok_mag p -> wj VM (a, b, enc_seg_mag p) = p.
Proof. exact wj_m_enc. Qed.
Print Assumptions C02_load_row_assigns_the_encoded_boundary_property_mag.

(* No assignment elsewhere — without any hypothesis on the table (repeated rows, format 2, any variant): a
   side that is not at -1 holds the value of some row of the table with its end nodes. *)
Theorem C02_load_marked_side_lies_on_a_listed_edge :
  forall (F : Type) (A : Arith F) v del units labels fmts nodes pbcs ages eles edges m,
    load_mesh A v del units labels fmts nodes pbcs ages eles edges = Loaded m ->
    forall i k, (i < length eles)%nat -> (k < 3)%nat ->
      smark (nth i (m_elems m) d_elem) k = -1 \/
      exists r, In r edges /\ wj v r = Some (smark (nth i (m_elems m) d_elem) k) /\
                same_ends (side_p (row_p (nth i eles d_row)) k) (en0 r) (en1 r).
Proof. exact (@load_marked_side_is_listed_thm). Qed.
Print Assumptions C02_load_marked_side_lies_on_a_listed_edge.

(* esolver / hsolver, a row whose boundary property has a stop format (BdryFormat 2 in the shipped sources): the
   six tests are applied to the FIRST element (lowest index) that owns the edge and to no other ("line charge
   distributions should be applied to at most one element"; hsolver has the same statement, there format 2 is
   convection and the heat flux, format 1, is marked on both neighbours: findings/XLOAD-1) *)
Theorem C02_load_format2_row_marks_the_first_owner_only :
  forall (F : Type) (A : Arith F) v del units labels fmts nodes pbcs ages eles n0 n1 mk0 j m,
    v <> VM -> load_mesh A v del units labels fmts nodes pbcs ages eles [(n0, n1, mk0)] = Loaded m ->
    wj_eh (n0, n1, mk0) = Some j -> stopb (stops_of v) (nth (Z.to_nat j) fmts 0) = true ->
    exists els0, read_elems labels (default_label labels) eles = inl els0 /\
      m_elems m = match first_hit n0 n1 els0 0 with
                  | Some i => lupd els0 i (mk n0 n1 j (nth i els0 d_elem))
                  | None => els0
                  end.
Proof. exact (@load_format2_thm). Qed.
Print Assumptions C02_load_format2_row_marks_the_first_owner_only.

(* ... so "every owning element carries the assignment" fails for format 2 on an interior edge *)
Theorem C02_load_every_owner_carries_the_assignment_refuted :
  forall (F : Type) (A : Arith F), exists v nodes eles edges m,
    side_p (row_p (nth 0 eles d_row)) 0 = (0, 1) /\ side_p (row_p (nth 1 eles d_row)) 0 = (1, 0) /\
    edges = [(0, 1, enc_seg (Some 0) None)] /\
    load_mesh A v false 1 [(false, 0)] [2] nodes [] [] eles edges = Loaded m /\
    smark (nth 0 (m_elems m) d_elem) 0 = 0 /\ smark (nth 1 (m_elems m) d_elem) 0 = -1.
Proof. exact (@format2_second_owner_unmarked_thm). Qed.
Print Assumptions C02_load_every_owner_carries_the_assignment_refuted.

(* fsolver runs the search for marker -1 too and writes -1: with an edge listed twice the hypothesis
   "listed once" of the theorem above cannot be dropped *)
Theorem C02_load_mag_repeated_edge_with_marker_minus_one_erases_refuted :
  forall (F : Type) (A : Arith F), exists nodes eles edges m,
    edges = [(0, 1, enc_seg_mag (Some 1)); (1, 0, -1)] /\
    load_mesh A VM false 1 [(false, 0)] [] nodes [] [] eles edges = Loaded m /\
    side_p (row_p (nth 0 eles d_row)) 0 = (0, 1) /\ smark (nth 0 (m_elems m) d_elem) 0 = -1.
Proof. exact (@mag_minus_one_erases_thm). Qed.
Print Assumptions C02_load_mag_repeated_edge_with_marker_minus_one_erases_refuted.

(* ---- nodes --------------------------------------------------------------------------------------- *)
(* Node table: as many nodes as rows; coordinates = file value times the unit factor of the variant; the
   point property is the decoded marker (Marker.dec_pt / dec_pt_mag); the conductor is the decoded one
   overwritten by the conductor rows of the .edge table that end at the node (esolver / hsolver), -1 in fsolver. *)
Theorem C02_load_node_fields :
  forall (F : Type) (A : Arith F) v del units labels fmts nodes pbcs ages eles edges m,
    load_mesh A v del units labels fmts nodes pbcs ages eles edges = Loaded m ->
    exists cf, unit_factor A v units = Some cf /\
    length (m_nodes m) = length nodes /\
    forall i, (i < length nodes)%nat ->
      let nd := nth i (m_nodes m) (d_node A) in let r := nth i nodes (d_nrow A) in
      nd_x nd = amul A (nrow_x r) cf /\ nd_y nd = amul A (nrow_y r) cf /\
      nd_bm nd = fst (node_marks v (nrow_m r)) /\
      nd_cond nd = match v with
                   | VM => -1
                   | _ => conds_after edges i (snd (dec_pt_z (nrow_m r)))
                   end.
Proof. exact (@load_nodes_thm). Qed.
Print Assumptions C02_load_node_fields.

(* composed with the codec's round trip: the solver's node carries exactly the point property and the
   conductor the mesher encoded, unless a conductor row of the .edge table ends at the node *)
Theorem C02_load_node_carries_the_encoded_point_property_and_conductor :
  forall (F : Type) (A : Arith F) v del units labels fmts nodes pbcs ages eles edges m i p c,
    v <> VM -> load_mesh A v del units labels fmts nodes pbcs ages eles edges = Loaded m ->
    (i < length nodes)%nat -> nrow_m (nth i nodes (d_nrow A)) = enc_pt p c -> prop_ok p -> cond_ok c ->
    nd_bm (nth i (m_nodes m) (d_node A)) = o2z p /\
    nd_cond (nth i (m_nodes m) (d_node A)) = conds_after edges i (o2z c) /\
    ((forall r, In r edges -> snd (dec_seg_z (snd r)) < 0 \/ (en0 r <> Z.of_nat i /\ en1 r <> Z.of_nat i)) ->
     nd_cond (nth i (m_nodes m) (d_node A)) = o2z c).
Proof. exact (@load_node_codec_eh_thm). Qed.
Print Assumptions C02_load_node_carries_the_encoded_point_property_and_conductor.

Theorem C02_load_node_carries_the_encoded_point_property_mag :
  forall (F : Type) (A : Arith F) del units labels fmts nodes pbcs ages eles edges m i p,
    load_mesh A VM del units labels fmts nodes pbcs ages eles edges = Loaded m ->
    (i < length nodes)%nat -> nrow_m (nth i nodes (d_nrow A)) = enc_pt_mag p -> prop_ok_mag p ->
    nd_bm (nth i (m_nodes m) (d_node A)) = o2z p /\ nd_cond (nth i (m_nodes m) (d_node A)) = -1.
Proof. exact (@load_node_codec_m_thm). Qed.
Print Assumptions C02_load_node_carries_the_encoded_point_property_mag.

(* "every vertex at a drawn point carries that point's conductor" at full strength fails: the conductor of a
   line that ends at the point replaces the point's own *)
Theorem C02_load_point_conductor_survives_refuted :
  forall (F : Type) (A : Arith F), exists nodes eles edges m,
    nrow_m (nth 0 nodes (d_nrow A)) = enc_pt None (Some 1) /\
    In (0, 1, enc_seg None (Some 0)) edges /\
    load_mesh A VE false 1 [(false, 0)] [0] nodes [] [] eles edges = Loaded m /\
    nd_cond (nth 0 (m_nodes m) (d_node A)) = 0.
Proof. exact (@segment_conductor_overrides_point_thm). Qed.
Print Assumptions C02_load_point_conductor_survives_refuted.

(* ---- block labels -------------------------------------------------------------------------------- *)
(* corners are copied; label = attribute - 1, or the default label for attributes <= 0; the label index is
   inside labellist; blk is that label's BlockType *)
Theorem C02_load_labels_are_attribute_minus_one :
  forall (F : Type) (A : Arith F) v del units labels fmts nodes pbcs ages eles edges m,
    load_mesh A v del units labels fmts nodes pbcs ages eles edges = Loaded m ->
    length (m_elems m) = length eles /\
    forall i, (i < length eles)%nat ->
      let e := nth i (m_elems m) d_elem in let r := nth i eles d_row in
      el_p e = row_p r /\ el_lbl e = label_of labels (row_a r) /\
      0 <= el_lbl e < Z.of_nat (length labels) /\
      el_blk e = snd (nth (Z.to_nat (el_lbl e)) labels (false, 0)).
Proof. exact (@load_labels_thm). Qed.
Print Assumptions C02_load_labels_are_attribute_minus_one.

(* an attribute that names no label (too big, or <= 0 without default label) is never accepted: the result is
   a LoadMeshErr code (all three variants check elm.lbl < labellist.size()), or UB when LengthUnits is
   outside the unit table *)

(* ---- pbc ------------------------------------------------------------------------------------------- *)
Theorem C02_load_pbc_entries_are_copied :
  forall (F : Type) (A : Arith F) v del units labels fmts nodes pbcs ages eles edges m,
    load_mesh A v del units labels fmts nodes pbcs ages eles edges = Loaded m ->
    m_pbcs m = pbcs /\ m_ages m = (match v with VM => ages | _ => [] end) /\
    (v = VM -> forall a q, In a ages -> In q a -> quad_negative q = false).
Proof. exact (@load_pbc_thm). Qed.
Print Assumptions C02_load_pbc_entries_are_copied.

(* ---- index safety: see Properties_C08_load.v; rejection of attributes without label: Properties_C20_load.v ---------------------------------------------------------------------------- *)
(* a mesh the model loads has every corner index inside the node table ... *)

(* ... because the code itself checks none of the indices it takes from the files: *)



(* ---- the hypotheses are satisfiable ---------------------------------------------------------------- *)
(* a two-element mesh with every edge listed once, one of them with boundary property 1 and conductor 0,
   loads in the heat-flow variant; the shared side (nodes 1,2) carries 1 in both elements *)
Example xload_hypotheses_satisfiable :
  exists m, load_mesh FA VH true 3 [(false, 4); (true, 2)] [0; 0; 1]
              [(1%float, 0%float, enc_pt (Some 0) None); (0%float, 1%float, 0); (0%float, 0%float, 1); (1%float, 1%float, 0)]
              [(0, 3, 0)] [] [(0, 1, 2, 1); (2, 1, 3, 0)]
              [(0, 1, 0); (2, 1, enc_seg (Some 1) (Some 0)); (2, 0, 1); (1, 3, 0); (3, 2, -1)] = Loaded m /\
            no_format2 VH [0; 0; 1] [(0, 1, 0); (2, 1, enc_seg (Some 1) (Some 0)); (2, 0, 1); (1, 3, 0); (3, 2, -1)] /\
            NoDup (map norm [(0, 1, 0); (2, 1, enc_seg (Some 1) (Some 0)); (2, 0, 1); (1, 3, 0); (3, 2, -1)]) /\
            smark (nth 0 (m_elems m) d_elem) 1 = 1 /\ smark (nth 1 (m_elems m) d_elem) 0 = 1 /\
            el_lbl (nth 1 (m_elems m) d_elem) = 1 /\ nd_cond (nth 1 (m_nodes m) (d_node FA)) = 0.
Proof.
  eexists. split; [vm_compute; reflexivity|]. split.
  - intros r Hr j Hj. simpl in Hr.
    destruct Hr as [<-|[<-|[<-|[<-|[<-|[]]]]]]; vm_compute in Hj; try discriminate; inversion Hj; reflexivity.
  - split; [|vm_compute; repeat split; reflexivity].
    vm_compute. repeat constructor; simpl; intuition discriminate.
Qed.
