(* AsmMPrevProofs.v — theorems about the model AsmMPrev.v of the previous-solution (incremental / frozen permeability) branch of
   FSolver::Static2D (real-number reading). *)
From Coq Require Import ZArith List Bool Arith Lia Reals Lra.
From XF Require Import Arith Sparse SparseProofs AsmOps AsmOpsProofs AsmE AsmEProofs AsmM AsmMProofs BH.
Set Warnings "-ambiguous-paths".
From XF Require Import BHProofs AsmMNL AsmMNLProofs AsmMPrev.
Import ListNotations.
Local Open Scope R_scope.

Local Notation vgetR := (vget RA).
Local Notation probR := (mprob (F:=R)).
Local Notation elemR := (melem (F:=R)).
Local Notation matR := (mat (F:=R)).
Local Notation linR := (lin (F:=R)).
Local Notation blockR := (mblock (F:=R)).

Ltac len9 Me H := let m0 := fresh "m" in let m1 := fresh "m" in let m2 := fresh "m" in let m3 := fresh "m" in
  let m4 := fresh "m" in let m5 := fresh "m" in let m6 := fresh "m" in let m7 := fresh "m" in let m8 := fresh "m" in
  destruct (len9_explicit Me H) as (m0 & m1 & m2 & m3 & m4 & m5 & m6 & m7 & m8 & ->).

(* ========================================================================================== *)
(* 1. the combine statement  Me += Mx/mu2 + My/mu1 + Mxy*v12                                   *)
(* ========================================================================================== *)
Section Combine.
  Implicit Type Me Mx My Mxy : vecT R.

  Lemma prev_combine_get Me Mx My Mxy mu1 mu2 v12 j k :
    length Me = 9%nat -> length Mx = 9%nat -> length My = 9%nat -> length Mxy = 9%nat -> (j < 3)%nat -> (k < 3)%nat ->
    m3get RA (prev_combine RA Me Mx My Mxy mu1 mu2 v12) j k
      = m3get RA Me j k + (m3get RA Mx j k / mu2 + m3get RA My j k / mu1 + m3get RA Mxy j k * v12).
  Proof.
    intros H1 H2 H3 H4 Hj Hk. len9 Me H1. len9 Mx H2. len9 My H3. len9 Mxy H4.
    destruct j as [|[|[|j]]]; try lia; destruct k as [|[|[|k]]]; try lia; cbn; ra_simpl; lra.
  Qed.

  (* v12 = 0: the statement is the linear one of AsmM.combine_me *)
  Lemma prev_combine_v0 Me Mx My Mxy mu1 mu2 :
    length Me = 9%nat ->
    prev_combine RA Me Mx My Mxy mu1 mu2 0 = combine_me RA Me Mx My Mxy mu1 mu2.
  Proof.
    intros H1. len9 Me H1. reflexivity.
  Qed.
End Combine.

(* ========================================================================================== *)
(* 2. the element tensor                                                                       *)
(* ========================================================================================== *)
Lemma pos_mix a b r i : 0 < r -> 0 < i -> 0 < a * a + b * b -> 0 < a * a * r + b * b * i.
Proof.
  intros Hr Hi H. pose proof (Rle_0_sqr a) as Ha. pose proof (Rle_0_sqr b) as Hb. unfold Rsqr in *.
  assert (0 <= a * a * r) by (apply Rmult_le_pos; lra). assert (0 <= b * b * i) by (apply Rmult_le_pos; lra).
  destruct (Req_dec (a * a) 0) as [E|E].
  - assert (0 < b * b) by lra. assert (0 < b * b * i) by (apply Rmult_lt_0_compat; lra). lra.
  - assert (0 < a * a) by lra. assert (0 < a * a * r) by (apply Rmult_lt_0_compat; lra). lra.
Qed.

Section Tensor.
  (* zero previous field: isotropic with the incremental permeability at B = 0 *)
  Lemma prev_tensor_zero inc B1p B2p muinc murel :
    prev_tensor RA inc B1p B2p 0 muinc murel = (muinc, muinc, 0).
  Proof. unfold prev_tensor. ra_simpl. rewrite (proj2 (Reqb_true 0 0) eq_refl). reflexivity. Qed.

  (* frozen permeability: isotropic with the secant permeability *)
  Lemma prev_tensor_frozen B1p B2p B muinc murel : B <> 0 ->
    prev_tensor RA 2 B1p B2p B muinc murel = (murel, murel, 0).
  Proof. intros HB. unfold prev_tensor. ra_simpl. rewrite (proj2 (Reqb_false B 0) HB). reflexivity. Qed.

  (* a curve whose differential and secant permeabilities agree (a straight line): the incremental tensor is isotropic *)
  Lemma prev_tensor_equal_perms B1p B2p B mu : B <> 0 -> mu <> 0 -> B * B = B1p * B1p + B2p * B2p ->
    prev_tensor RA 1 B1p B2p B mu mu = (mu, mu, 0).
  Proof.
    intros HB Hmu HBB. unfold prev_tensor. ra_simpl. rewrite (proj2 (Reqb_false B 0) HB). cbn [Nat.eqb].
    assert (HB2 : B * B <> 0) by (apply Rmult_integral_contrapositive_currified; assumption).
    assert (D : B1p * B1p * mu + B2p * B2p * mu <> 0).
    { replace (B1p * B1p * mu + B2p * B2p * mu) with ((B * B) * mu) by (rewrite HBB; ring).
      apply Rmult_integral_contrapositive_currified; assumption. }
    f_equal; [f_equal|].
    - apply (Rmult_eq_reg_r (B1p * B1p * mu + B2p * B2p * mu)); [|exact D].
      unfold Rdiv. rewrite Rmult_assoc, Rinv_l by exact D. rewrite HBB. ring.
    - apply (Rmult_eq_reg_r (B1p * B1p * mu + B2p * B2p * mu)); [|exact D].
      unfold Rdiv. rewrite Rmult_assoc, Rinv_l by exact D. rewrite HBB. ring.
    - unfold Rdiv. ring.
  Qed.

  (* incremental permeability: (1/mu1, 1/mu2, -v12) are the xx, yy, xy entries of the reluctivity tensor
        N = nu_par e e^T + nu_perp (I - e e^T),   e = (B1p, B2p)/B,  nu_par = 1/muinc (= dH/dB),  nu_perp = 1/murel (= H/B) *)
  Theorem prev_tensor_incremental B1p B2p B muinc murel :
    B <> 0 -> muinc <> 0 -> murel <> 0 ->
    B1p * B1p * murel + B2p * B2p * muinc <> 0 -> B1p * B1p * muinc + B2p * B2p * murel <> 0 ->
    let t := prev_tensor RA 1 B1p B2p B muinc murel in
    let ex := B1p / B in let ey := B2p / B in
    1 / fst (fst t) = / muinc * ex * ex + / murel * ey * ey /\
    1 / snd (fst t) = / muinc * ey * ey + / murel * ex * ex /\
    - snd t = (/ muinc - / murel) * ex * ey /\ fst (fst t) <> 0 /\ snd (fst t) <> 0.
  Proof.
    intros HB Hi Hr D1 D2 t ex ey. unfold t, prev_tensor, ex, ey. ra_simpl. rewrite (proj2 (Reqb_false B 0) HB).
    cbn [Nat.eqb fst snd].
    assert (HB2 : B * B <> 0) by (apply Rmult_integral_contrapositive_currified; assumption).
    assert (N : B * B * muinc * murel <> 0) by (repeat apply Rmult_integral_contrapositive_currified; assumption).
    repeat split.
    - field. repeat split; assumption.
    - field. repeat split; assumption.
    - field. repeat split; assumption.
    - intro E. apply N. apply (Rmult_eq_reg_r (/ (B1p * B1p * murel + B2p * B2p * muinc))).
      + unfold Rdiv in E. rewrite E. ring.
      + apply Rinv_neq_0_compat. exact D1.
    - intro E. apply N. apply (Rmult_eq_reg_r (/ (B1p * B1p * muinc + B2p * B2p * murel))).
      + unfold Rdiv in E. rewrite E. ring.
      + apply Rinv_neq_0_compat. exact D2.
  Qed.
End Tensor.

(* ========================================================================================== *)
(* 3. the element matrices of a dependent run                                                  *)
(* ========================================================================================== *)
Section Element.
  Variables (P : probR) (res : list (nat * R * R)) (mats : list matR) (lct : vecT R) (inc : nat) (Aprev : vecT R).

  Definition el_m (el : elemR) : matR := nth (mblk el) mats (dmat RA).
  Definition el_B12 (el : elemR) : R * R := prev2DB RA lct P Aprev el.
  Definition el_B (el : elemR) : R := prevB RA (fst (el_B12 el)) (snd (el_B12 el)).
  Definition el_mm (el : elemR) : R * R := incr_perm RA (el_m el) (el_blk P el) (el_B el).
  Definition el_t (el : elemR) : R * R * R := el_tensor RA lct P mats inc Aprev el.
  Definition prev_Me (el : elemR) : vecT R := fst (fst (prev_elem_matrices RA lct P mats res inc Aprev el)).
  Definition prev_be (el : elemR) : vecT R := snd (fst (prev_elem_matrices RA lct P mats res inc Aprev el)).

  Lemma el_tensor_nl el : bhpoints (el_m el) <> 0%nat -> inc <> 0%nat ->
    el_t el = prev_tensor RA inc (fst (el_B12 el)) (snd (el_B12 el)) (el_B el) (fst (el_mm el)) (snd (el_mm el)).
  Proof.
    intros Hn Hi. unfold el_t, el_tensor. fold (el_m el).
    apply Nat.eqb_neq in Hn. apply Nat.eqb_neq in Hi. rewrite Hn, Hi. reflexivity.
  Qed.

  Lemma el_tensor_lin el : bhpoints (el_m el) = 0%nat \/ inc = 0%nat ->
    el_t el = (fst (el_mu RA (el_blk P el)), snd (el_mu RA (el_blk P el)), 0).
  Proof.
    intros H. unfold el_t, el_tensor. fold (el_m el).
    destruct H as [H|H]; rewrite H; cbn [Nat.eqb orb]; [|rewrite orb_true_r]; reflexivity.
  Qed.

  Lemma el_B_sq el : el_B el * el_B el = fst (el_B12 el) * fst (el_B12 el) + snd (el_B12 el) * snd (el_B12 el).
  Proof. unfold el_B, prevB. ra_simpl. apply sqrt_sqrt. nra. Qed.

  (* the right-hand side contributions of a dependent run are those of the ordinary linear assembly: the new excitations
     enter exactly as in a linear problem (C05 (c1)-(c3), C11 apply), whatever the previous solution *)
  Theorem prev_rhs_is_linear_rhs el : prev_be el = snd (fst (melem_matrices RA P res el)).
  Proof.
    unfold prev_be, prev_elem_matrices. cbn [fst snd]. rewrite <- (secant_rhs P res el (0, 0)). unfold secant_matrices.
    destruct (el_parts RA P res el) as [[[[Mx My] Mxy] Me] be]. reflexivity.
  Qed.

  (* the element matrix: the secant (linear) matrix with (mu1, mu2) plus v12 times the xy block *)
  Lemma prev_Me_get el j k : (j < 3)%nat -> (k < 3)%nat ->
    m3get RA (prev_Me el) j k
      = m3get RA (fst (secant_matrices P res el (fst (el_t el)))) j k
        + m3get RA (snd (fst (fst (el_parts RA P res el)))) j k * snd (el_t el).
  Proof.
    intros Hj Hk. unfold prev_Me, prev_elem_matrices, secant_matrices. fold (el_t el). cbn [fst snd].
    pose proof (el_parts_lengths P res el) as HL.
    destruct (el_parts RA P res el) as [[[[Mx My] Mxy] Me] be]. destruct HL as (H1 & H2 & H3 & H4 & _).
    cbn [fst snd]. rewrite prev_combine_get, combine_me_get by auto. lra.
  Qed.

  (* v12 = 0: the element matrices are the linear ones for (mu1, mu2) *)
  Lemma prev_Me_v0 el : snd (el_t el) = 0 -> prev_Me el = fst (secant_matrices P res el (fst (el_t el))).
  Proof.
    intros Hv. unfold prev_Me, prev_elem_matrices, secant_matrices. fold (el_t el). cbn [fst snd]. rewrite Hv.
    pose proof (el_parts_lengths P res el) as HL.
    destruct (el_parts RA P res el) as [[[[Mx My] Mxy] Me] be]. destruct HL as (_ & _ & _ & H4 & _).
    cbn [fst snd]. apply prev_combine_v0. exact H4.
  Qed.

  (* reduction (element): a block without table, or PrevType 0: exactly the ordinary linear element *)
  Theorem prev_elem_linear_material el : bhpoints (el_m el) = 0%nat \/ inc = 0%nat ->
    prev_elem_matrices RA lct P mats res inc Aprev el
      = (fst (fst (melem_matrices RA P res el)), snd (fst (melem_matrices RA P res el)),
         (fst (el_mu RA (el_blk P el)), snd (el_mu RA (el_blk P el)), 0)).
  Proof.
    intros H. pose proof (el_tensor_lin el H) as Et.
    pose proof (prev_Me_v0 el) as E1. pose proof (prev_rhs_is_linear_rhs el) as E2.
    unfold prev_Me, prev_be in *. rewrite Et in E1. cbn [fst snd] in E1. specialize (E1 eq_refl).
    destruct (prev_elem_matrices RA lct P mats res inc Aprev el) as [[Me be] t] eqn:E. cbn [fst snd] in *.
    assert (t = el_t el) by (unfold el_t; unfold prev_elem_matrices in E; inversion E; reflexivity).
    subst t. rewrite Et. rewrite E1, E2. rewrite melem_matrices_parts. cbn [fst snd].
    replace (fst (el_mu RA (el_blk P el)), snd (el_mu RA (el_blk P el))) with (el_mu RA (el_blk P el))
      by (destruct (el_mu RA (el_blk P el)); reflexivity).
    reflexivity.
  Qed.

  (* closed form without mixed-boundary edges *)
  Lemma prev_Me_closed el j k : no_mixed_edge P el -> (j < 3)%nat -> (k < 3)%nat ->
    let g := mel_geom RA P el in
    m3get RA (prev_Me el) j k
      = -1 / (4 * ga g) * (vgetR (gp g) j * vgetR (gp g) k / snd (fst (el_t el))
                           + vgetR (gq g) j * vgetR (gq g) k / fst (fst (el_t el))
                           + (vgetR (gp g) j * vgetR (gq g) k + vgetR (gp g) k * vgetR (gq g) j) * snd (el_t el)).
  Proof.
    intros He Hj Hk g. rewrite prev_Me_get by auto.
    unfold secant_matrices, el_parts. cbv zeta. fold g.
    rewrite mixed_none by exact He. cbn [fst snd].
    assert (Hgp : gp g = [vgetR (gp g) 0; vgetR (gp g) 1; vgetR (gp g) 2]) by reflexivity.
    assert (Hgq : gq g = [vgetR (gq g) 0; vgetR (gq g) 1; vgetR (gq g) 2]) by reflexivity.
    set (K := aneg RA (aone RA) / (aofZ RA 4 * ga g)).
    assert (Z9 : length (repeat (azero RA) 9) = 9%nat) by reflexivity.
    destruct (stiff_add_get (repeat (azero RA) 9) K (vgetR (gp g) 0) (vgetR (gp g) 1) (vgetR (gp g) 2) j k Z9 Hj Hk) as [Lx Gx].
    destruct (stiff_add_get (repeat (azero RA) 9) K (vgetR (gq g) 0) (vgetR (gq g) 1) (vgetR (gq g) 2) j k Z9 Hj Hk) as [Ly Gy].
    destruct (xy_add_get (repeat (azero RA) 9) K (vgetR (gp g) 0) (vgetR (gp g) 1) (vgetR (gp g) 2)
                         (vgetR (gq g) 0) (vgetR (gq g) 1) (vgetR (gq g) 2) j k Z9 Hj Hk) as [Lxy Gxy].
    rewrite <- Hgp in Lx, Gx, Lxy, Gxy. rewrite <- Hgq in Ly, Gy, Lxy, Gxy.
    ra_simpl. fold K.
    rewrite combine_me_get by auto. rewrite Gx, Gy, Gxy.
    replace (m3get RA (repeat 0 9) j k) with 0
      by (destruct j as [|[|[|j]]]; try lia; destruct k as [|[|[|k]]]; try lia; reflexivity).
    unfold K. ra_simpl. unfold Rdiv. ring.
  Qed.

  (* symmetric *)
  Theorem prev_Me_symmetric el j k : no_mixed_edge P el -> (j < 3)%nat -> (k < 3)%nat ->
    m3get RA (prev_Me el) j k = m3get RA (prev_Me el) k j.
  Proof. intros He Hj Hk. rewrite !prev_Me_closed by auto. cbv zeta. unfold Rdiv. ring. Qed.

  (* the components of (grad phi_j)^perp * 2a = (q_j, -p_j) along and across the previous flux density *)
  Definition par (el : elemR) (j : nat) : R :=
    let g := mel_geom RA P el in
    (vgetR (gq g) j * fst (el_B12 el) - vgetR (gp g) j * snd (el_B12 el)) / el_B el.
  Definition perp (el : elemR) (j : nat) : R :=
    let g := mel_geom RA P el in
    (vgetR (gq g) j * snd (el_B12 el) + vgetR (gp g) j * fst (el_B12 el)) / el_B el.

  (* HEADLINE: the incremental element matrix is the quadratic form of the differential reluctivity tensor at the previous flux
     density, R^T diag(1/muinc, 1/murel) R with R the rotation onto the direction of B_prev *)
  Theorem prev_incremental_matrix_is_rotated_tensor el j k :
    no_mixed_edge P el -> (j < 3)%nat -> (k < 3)%nat -> bhpoints (el_m el) <> 0%nat -> inc = 1%nat ->
    el_B el <> 0 -> fst (el_mm el) <> 0 -> snd (el_mm el) <> 0 ->
    fst (el_B12 el) * fst (el_B12 el) * snd (el_mm el) + snd (el_B12 el) * snd (el_B12 el) * fst (el_mm el) <> 0 ->
    fst (el_B12 el) * fst (el_B12 el) * fst (el_mm el) + snd (el_B12 el) * snd (el_B12 el) * snd (el_mm el) <> 0 ->
    m3get RA (prev_Me el) j k
      = -1 / (4 * ga (mel_geom RA P el)) * (/ fst (el_mm el) * par el j * par el k + / snd (el_mm el) * perp el j * perp el k).
  Proof.
    intros He Hj Hk Hn Hi HB H1 H2 D1 D2. rewrite prev_Me_closed by auto. cbv zeta.
    rewrite (el_tensor_nl el Hn ltac:(lia)). rewrite Hi.
    destruct (prev_tensor_incremental _ _ _ _ _ HB H1 H2 D1 D2) as (E1 & E2 & E3 & N1 & N2).
    pose proof (el_B_sq el) as HBB.
    set (t := prev_tensor RA 1 (fst (el_B12 el)) (snd (el_B12 el)) (el_B el) (fst (el_mm el)) (snd (el_mm el))) in *.
    unfold par, perp. cbv zeta.
    set (p := vgetR (gp (mel_geom RA P el))). set (q := vgetR (gq (mel_geom RA P el))).
    replace (p j * p k / snd (fst t)) with (p j * p k * (1 / snd (fst t))) by (field; exact N2).
    replace (q j * q k / fst (fst t)) with (q j * q k * (1 / fst (fst t))) by (field; exact N1).
    replace (snd t) with (- - snd t) by ring. rewrite E1, E2, E3.
    set (b1 := fst (el_B12 el)) in *. set (b2 := snd (el_B12 el)) in *. set (B := el_B el) in *.
    set (K := -1 / (4 * ga (mel_geom RA P el))).
    field. repeat split; assumption.
  Qed.

  (* the quadratic form of an element matrix *)
  Definition q3 (Me : vecT R) (u0 u1 u2 : R) : R :=
    let u := [u0; u1; u2] in
    lsum (fun j => lsum (fun k => vgetR u j * m3get RA Me j k * vgetR u k) [0; 1; 2]%nat) [0; 1; 2]%nat.

  (* positive semi-definite (of -Me, the matrix that is scattered) for positive differential and secant permeabilities *)
  Theorem prev_incremental_matrix_psd el u0 u1 u2 :
    no_mixed_edge P el -> bhpoints (el_m el) <> 0%nat -> inc = 1%nat ->
    el_B el <> 0 -> 0 < fst (el_mm el) -> 0 < snd (el_mm el) -> 0 < ga (mel_geom RA P el) ->
    0 <= - q3 (prev_Me el) u0 u1 u2.
  Proof.
    intros He Hn Hi HB H1 H2 Ha.
    assert (D1 : fst (el_B12 el) * fst (el_B12 el) * snd (el_mm el) + snd (el_B12 el) * snd (el_B12 el) * fst (el_mm el) <> 0).
    { pose proof (el_B_sq el) as HBB. assert (0 < el_B el * el_B el) by nra.
      pose proof (pos_mix (fst (el_B12 el)) (snd (el_B12 el)) (snd (el_mm el)) (fst (el_mm el)) H2 H1 ltac:(lra)). lra. }
    assert (D2 : fst (el_B12 el) * fst (el_B12 el) * fst (el_mm el) + snd (el_B12 el) * snd (el_B12 el) * snd (el_mm el) <> 0).
    { pose proof (el_B_sq el) as HBB. assert (0 < el_B el * el_B el) by nra.
      pose proof (pos_mix (fst (el_B12 el)) (snd (el_B12 el)) (fst (el_mm el)) (snd (el_mm el)) H1 H2 ltac:(lra)). lra. }
    assert (E : - q3 (prev_Me el) u0 u1 u2
                = 1 / (4 * ga (mel_geom RA P el)) *
                  (/ fst (el_mm el) * ((u0 * par el 0 + u1 * par el 1 + u2 * par el 2) * (u0 * par el 0 + u1 * par el 1 + u2 * par el 2))
                   + / snd (el_mm el) * ((u0 * perp el 0 + u1 * perp el 1 + u2 * perp el 2) * (u0 * perp el 0 + u1 * perp el 1 + u2 * perp el 2)))).
    { unfold q3. cbn [lsum vget nth].
      rewrite !(prev_incremental_matrix_is_rotated_tensor el _ _ He) by (auto; lra). field.
      repeat split; lra. }
    rewrite E.
    assert (0 < / fst (el_mm el)) by (apply Rinv_0_lt_compat; exact H1).
    assert (0 < / snd (el_mm el)) by (apply Rinv_0_lt_compat; exact H2).
    assert (0 < 1 / (4 * ga (mel_geom RA P el))) by (apply Rdiv_lt_0_compat; lra).
    apply Rmult_le_pos; [lra|]. apply Rplus_le_le_0_compat; apply Rmult_le_pos; try lra; apply Rle_0_sqr.
  Qed.

  (* frozen permeability: the element matrix is the linear (secant) matrix with the isotropic permeability murel *)
  Theorem prev_frozen_matrix_is_secant el : bhpoints (el_m el) <> 0%nat -> inc = 2%nat -> el_B el <> 0 ->
    prev_Me el = fst (secant_matrices P res el (snd (el_mm el), snd (el_mm el))) /\
    el_t el = (snd (el_mm el), snd (el_mm el), 0).
  Proof.
    intros Hn Hi HB.
    assert (Et : el_t el = (snd (el_mm el), snd (el_mm el), 0)).
    { rewrite (el_tensor_nl el Hn ltac:(lia)). rewrite Hi. apply prev_tensor_frozen. exact HB. }
    split; [|exact Et]. rewrite prev_Me_v0 by (rewrite Et; reflexivity). rewrite Et. reflexivity.
  Qed.

  (* zero previous field at the element: isotropic, incremental permeability at B = 0 *)
  Lemma prev2DB_zero el : (forall j, (j < 3)%nat -> vgetR Aprev (tri_get (mp el) j) = 0) -> el_B12 el = (0, 0).
  Proof.
    intros H. unfold el_B12, prev2DB. cbn [fold_left fst snd].
    rewrite (H 0%nat), (H 1%nat), (H 2%nat) by lia. ra_simpl. f_equal; unfold Rdiv; ring.
  Qed.

  Theorem prev_zero_field_element el : bhpoints (el_m el) <> 0%nat -> inc <> 0%nat ->
    (forall j, (j < 3)%nat -> vgetR Aprev (tri_get (mp el) j) = 0) ->
    let m0 := fst (incr_perm RA (el_m el) (el_blk P el) 0) in
    el_t el = (m0, m0, 0) /\ prev_Me el = fst (secant_matrices P res el (m0, m0)).
  Proof.
    intros Hn Hi Hz m0.
    assert (EB : el_B el = 0).
    { unfold el_B. rewrite (prev2DB_zero el Hz). unfold prevB. cbn [fst snd]. ra_simpl.
      replace (0 * 0 + 0 * 0) with 0 by ring. apply sqrt_0. }
    assert (Et : el_t el = (m0, m0, 0)).
    { rewrite (el_tensor_nl el Hn Hi). unfold el_mm. rewrite EB. apply prev_tensor_zero. }
    split; [exact Et|]. rewrite prev_Me_v0 by (rewrite Et; reflexivity). rewrite Et. reflexivity.
  Qed.

  (* a table whose differential and secant permeabilities agree at the previous flux density (a straight line): isotropic,
     the incremental run assembles the linear element with that permeability *)
  Theorem prev_equal_perms_element el mu : bhpoints (el_m el) <> 0%nat -> inc = 1%nat -> el_B el <> 0 ->
    el_mm el = (mu, mu) -> mu <> 0 ->
    el_t el = (mu, mu, 0) /\ prev_Me el = fst (secant_matrices P res el (mu, mu)).
  Proof.
    intros Hn Hi HB Em Hmu.
    assert (Et : el_t el = (mu, mu, 0)).
    { rewrite (el_tensor_nl el Hn ltac:(lia)). rewrite Hi, Em. cbn [fst snd].
      apply prev_tensor_equal_perms; [exact HB|exact Hmu|apply el_B_sq]. }
    split; [exact Et|]. rewrite prev_Me_v0 by (rewrite Et; reflexivity). rewrite Et. reflexivity.
  Qed.
End Element.

(* ========================================================================================== *)
(* 4. reduction of the whole pass: if every element's tensor is the block's linear permeability *)
(*    the dependent run assembles exactly the ordinary linear system                            *)
(* ========================================================================================== *)
Section System.
  Variables (P : probR) (res : list (nat * R * R)) (mats : list matR) (lct : vecT R) (inc : nat) (Aprev : vecT R).

  Definition el_prev_lin (el : elemR) : Prop :=
    el_t P mats lct inc Aprev el = (fst (el_mu RA (el_blk P el)), snd (el_mu RA (el_blk P el)), 0).

  Lemma prev_step_lin M b ts el : el_prev_lin el ->
    prev_elem_step RA lct P mats res inc Aprev (M, b, ts) el
      = (fst (melem_step RA P res (M, b) el), snd (melem_step RA P res (M, b) el), el_t P mats lct inc Aprev el :: ts).
  Proof.
    intros Hl. unfold prev_elem_step, melem_step. cbn [fst snd].
    change (fst (fst (prev_elem_matrices RA lct P mats res inc Aprev el))) with (prev_Me P res mats lct inc Aprev el).
    change (snd (fst (prev_elem_matrices RA lct P mats res inc Aprev el))) with (prev_be P res mats lct inc Aprev el).
    change (snd (prev_elem_matrices RA lct P mats res inc Aprev el)) with (el_t P mats lct inc Aprev el).
    rewrite prev_Me_v0 by (rewrite Hl; reflexivity). rewrite prev_rhs_is_linear_rhs. rewrite Hl. cbn [fst snd].
    rewrite melem_matrices_parts. cbn [fst snd].
    replace (fst (el_mu RA (el_blk P el)), snd (el_mu RA (el_blk P el))) with (el_mu RA (el_blk P el))
      by (destruct (el_mu RA (el_blk P el)); reflexivity).
    destruct (secant_matrices P res el (el_mu RA (el_blk P el))) as [Me be]. cbn [fst snd].
    destruct (mscatter RA (mp el) Me be M b) as [M' b']. reflexivity.
  Qed.

  Lemma prev_loop_lin : forall els M b ts, Forall el_prev_lin els ->
    fst (fold_left (prev_elem_step RA lct P mats res inc Aprev) els (M, b, ts))
      = fold_left (melem_step RA P res) els (M, b).
  Proof.
    induction els as [|el els IH]; intros M b ts Hok; [reflexivity|].
    apply Forall_cons_iff in Hok. destruct Hok as [Hel Hok]. cbn [fold_left].
    rewrite (prev_step_lin M b ts el Hel).
    destruct (melem_step RA P res (M, b) el) as [M1 b1]. cbn [fst snd]. apply IH. exact Hok.
  Qed.

  Theorem prev_pass_linear L0 : Forall el_prev_lin (melems P) ->
    fst (prev_pass RA lct P mats res inc Aprev L0) = asm_from P res L0.
  Proof.
    intros Hok. unfold prev_pass, asm_from. cbn [fst].
    pose proof (prev_loop_lin (melems P) (lM L0) (lb L0) [] Hok) as E.
    destruct (fold_left (prev_elem_step RA lct P mats res inc Aprev) (melems P) (lM L0, lb L0, [])) as [[M b] ts].
    cbn [fst snd] in *. rewrite <- E. reflexivity.
  Qed.
End System.

(* the whole of asmMprev against AsmM.asmM *)
Theorem asmMprev_linear (P : probR) (mats : list matR) (lct : vecT R) (inc : nat) (Aprev : vecT R) bw prec :
  prev_exits RA P mats inc = false ->
  Forall (el_prev_lin P mats lct inc Aprev) (melems P) ->
  exists ts, asmMprev RA lct P mats inc Aprev bw prec = Some (fst (asmM RA P bw prec), ts, snd (asmM RA P bw prec)).
Proof.
  intros Hx Hok. unfold asmMprev. rewrite Hx. rewrite asmM_is_asm_from. cbn [fst snd].
  eexists. rewrite (prev_pass_linear P (circ_results RA P) mats lct inc Aprev _ Hok). reflexivity.
Qed.

(* ========================================================================================== *)
(* 5. the previous flux density against the flux density of the run that produced Aprev         *)
(* ========================================================================================== *)
Section FluxDensity.
  Lemma vget_written_A : forall (V : vecT R) i, vgetR (written_A RA V) i = vgetR V i * c4pi RA.
  Proof.
    unfold written_A, vget. induction V as [|v V IH]; intros [|i]; cbn [map nth]; ra_simpl; try ring. apply IH.
  Qed.

  Lemma ga_da (P : probR) el : let g := mel_geom RA P el in
    vgetR (gp g) 0 * vgetR (gq g) 1 - vgetR (gp g) 1 * vgetR (gq g) 0 = 2 * ga g.
  Proof. cbv zeta. unfold mel_geom, geom. cbn [gp gq ga]. ra_simpl. unfold vget. cbn [nth]. field. Qed.

  (* Aprev = the potentials WriteStatic2D printed for the iterate V: the previous flux density of the dependent run is the
     flux density |B| the Newton update of the previous run computed, times 0.01 / LengthConv[unit] *)
  Theorem prevB_is_scaled_nl_Bmag (P : probR) (lct : vecT R) (V : vecT R) (el : elemR) :
    let g := mel_geom RA P el in
    let lc := nth (unit_idx P) lct 1 in
    let V3 := el_V3 RA V el in
    0 < ga g -> 0 < lc ->
    el_B P lct (written_A RA V) el
      = nl_Bmag RA (ga g) (sum3 RA (fun j => vgetR V3 j * vgetR (gq g) j)) (sum3 RA (fun j => vgetR V3 j * vgetR (gp g) j))
        * (1 / 100 / lc).
  Proof.
    intros g lc V3 Ha Hlc. unfold el_B, el_B12, prev2DB, prevB. cbn [fold_left fst snd]. fold g.
    change (nth (unit_idx P) lct (aone RA)) with lc.
    rewrite !vget_written_A. ra_simpl. pose proof (ga_da P el) as Hda. cbv zeta in Hda. fold g in Hda. rewrite Hda.
    unfold nl_Bmag, sum3, V3, el_V3. cbn [map vget nth]. rewrite dec002. ra_simpl.
    fold (vgetR V (tri_get (mp el) 0)) (vgetR V (tri_get (mp el) 1)) (vgetR V (tri_get (mp el) 2)).
    fold (vgetR (gq g) 0) (vgetR (gq g) 1) (vgetR (gq g) 2) (vgetR (gp g) 0) (vgetR (gp g) 1) (vgetR (gp g) 2).
    set (v0 := vgetR V (tri_get (mp el) 0)). set (v1 := vgetR V (tri_get (mp el) 1)). set (v2 := vgetR V (tri_get (mp el) 2)).
    set (B1 := 0 + v0 * vgetR (gq g) 0 + v1 * vgetR (gq g) 1 + v2 * vgetR (gq g) 2).
    set (B2 := 0 + v0 * vgetR (gp g) 0 + v1 * vgetR (gp g) 1 + v2 * vgetR (gp g) 2).
    pose proof c4pi_pos' as Hc.
    set (k := c4pi RA / (2 * ga g * lc)).
    assert (Hk : 0 < k) by (unfold k; apply Rdiv_lt_0_compat; [lra|]; apply Rmult_lt_0_compat; lra).
    match goal with |- sqrt ?x = _ => replace x with (k * k * (B1 * B1 + B2 * B2)) end.
    2:{ unfold k, B1, B2. field. lra. }
    rewrite sqrt_mult_alt by nra. rewrite sqrt_square by lra. unfold k. field. lra.
  Qed.

  Lemma lenconv_meters_cm : nth 2 (lenconv_meters RA) 1 = 1 / 100.
  Proof. unfold lenconv_meters, adec. cbn. lra. Qed.
  Lemma lenconv_meters_inch : nth 0 (lenconv_meters RA) 1 = 254 / 10000.
  Proof. unfold lenconv_meters, adec. cbn. lra. Qed.
  Lemma lenconv_cm_all u : (u < 6)%nat -> nth u (lenconv_cm RA) 1 = 1 / 100.
  Proof.
    intros Hu. unfold lenconv_cm, adec. cbn.
    destruct u as [|[|[|[|[|[|u]]]]]]; try lia; cbn; lra.
  Qed.

  (* with the factor 0.01 (what getPrevAxiB uses) the two agree in every length unit ... *)
  Corollary prevB_cm_table (P : probR) (V : vecT R) (el : elemR) :
    let g := mel_geom RA P el in let V3 := el_V3 RA V el in
    0 < ga g -> (unit_idx P < 6)%nat ->
    el_B P (lenconv_cm RA) (written_A RA V) el
      = nl_Bmag RA (ga g) (sum3 RA (fun j => vgetR V3 j * vgetR (gq g) j)) (sum3 RA (fun j => vgetR V3 j * vgetR (gp g) j)).
  Proof.
    intros g V3 Ha Hu. rewrite prevB_is_scaled_nl_Bmag by (fold g; rewrite ?lenconv_cm_all by exact Hu; lra).
    rewrite lenconv_cm_all by exact Hu. unfold g, V3. set (N := nl_Bmag RA _ _ _). field.
  Qed.

  (* ... with the table the code uses they agree for problems in centimetres ... *)
  Corollary prevB_shipped_table_centimetres (P : probR) (V : vecT R) (el : elemR) :
    let g := mel_geom RA P el in let V3 := el_V3 RA V el in
    0 < ga g -> unit_idx P = 2%nat ->
    el_B P (lenconv_meters RA) (written_A RA V) el
      = nl_Bmag RA (ga g) (sum3 RA (fun j => vgetR V3 j * vgetR (gq g) j)) (sum3 RA (fun j => vgetR V3 j * vgetR (gp g) j)).
  Proof.
    intros g V3 Ha Hu. rewrite prevB_is_scaled_nl_Bmag by (fold g; rewrite ?Hu, ?lenconv_meters_cm; lra).
    rewrite Hu, lenconv_meters_cm. unfold g, V3. set (N := nl_Bmag RA _ _ _). field.
  Qed.

  (* ... and differ otherwise: a problem in inches *)
  Definition wit_P : probR :=
    mkMProb 0 [mkMNode 0 0 None; mkMNode 1 0 None; mkMNode 0 1 None] [mkMElem (0, 1, 2)%nat (None, None, None) 0 0 1 0] [] [] [] [] [] [].
  Definition wit_el : elemR := mkMElem (0, 1, 2)%nat (None, None, None) 0 0 1 0.
  Definition wit_V : vecT R := [0; 1; 0].

  Theorem prevB_shipped_table_refuted :
    exists (P : probR) (V : vecT R) (el : elemR),
      let g := mel_geom RA P el in let V3 := el_V3 RA V el in
      0 < ga g /\ unit_idx P = 0%nat /\
      el_B P (lenconv_meters RA) (written_A RA V) el
        <> nl_Bmag RA (ga g) (sum3 RA (fun j => vgetR V3 j * vgetR (gq g) j)) (sum3 RA (fun j => vgetR V3 j * vgetR (gp g) j)).
  Proof.
    exists wit_P, wit_V, wit_el. cbv zeta.
    assert (Ha : 0 < ga (mel_geom RA wit_P wit_el)).
    { unfold mel_geom, geom, wit_P, wit_el. cbn. lra. }
    split; [exact Ha|]. split; [reflexivity|].
    rewrite prevB_is_scaled_nl_Bmag; [|exact Ha|change (unit_idx wit_P) with 0%nat; rewrite lenconv_meters_inch; lra].
    change (unit_idx wit_P) with 0%nat. rewrite lenconv_meters_inch.
    set (N := nl_Bmag RA _ _ _).
    assert (HN : N = 100 * c4pi RA).
    { unfold N, nl_Bmag. rewrite dec002. unfold sum3, el_V3, wit_V, wit_el, wit_P, mel_geom, geom.
      cbn [map vget nth tri_get mp mnodes mx my gp gq ga fst snd]. ra_simpl.
      match goal with |- context [sqrt ?x] => replace x with 1 by ring end. rewrite sqrt_1. field. }
    pose proof c4pi_pos' as Hc. rewrite HN. intro E. lra.
  Qed.
End FluxDensity.

(* ========================================================================================== *)
(* 6. what IncrementalPermeability returns: 1/(muo dH/dB) and 1/(muo H/B); the frozen           *)
(*    permeability is the secant permeability the Newton update of the previous run stored      *)
(* ========================================================================================== *)
Section Permeabilities.
  Local Notation Cx := (R * R)%type.

  Lemma cabs_real (B : R) : 0 < B -> cabs RA (cofd RA B) = B.
  Proof.
    intros HB. unfold cabs, cofd. cbn [fst snd]. ra_simpl.
    rewrite (proj2 (Reqb_false B 0) ltac:(lra)). cbn [andb].
    rewrite Rabs_R0, (Rabs_pos_eq B) by lra. rewrite (proj2 (Rltb_true 0 B) HB).
    replace (1 + 0 / B * (0 / B)) with 1 by (field; lra). rewrite sqrt_1. ring.
  Qed.

  Lemma cdiv_real_self (B : R) : 0 < B -> cdiv RA (cofd RA B) (cofd RA B) = (1, 0).
  Proof.
    intros HB. unfold cdiv, cinv, cmul, cofd. cbn [fst snd]. ra_simpl.
    rewrite Rabs_R0, (Rabs_pos_eq B) by lra. rewrite (proj2 (Rltb_true 0 B) HB). cbn [fst snd].
    f_equal; field; lra.
  Qed.

  Lemma seg_scan_cmul1 b : forall Bd Hd Sd,
    fst (seg_scan RA (fun b0 b1 h0 h1 s0 s1 => cmul RA (1, 0) (hseg RA b b0 b1 h0 h1 s0 s1)) (czero RA) b Bd Hd Sd)
    = fst (seg_scan RA (fun b0 b1 h0 h1 s0 s1 => hseg RA b b0 b1 h0 h1 s0 s1) (czero RA) b Bd Hd Sd).
  Proof.
    induction Bd as [|b0 Bd IH]; intros Hd Sd; [reflexivity|].
    destruct Bd as [|b1 Bt]; [destruct Hd as [|h0 [|h1 Ht]]; destruct Sd as [|s0 [|s1 St]]; reflexivity|].
    destruct Hd as [|h0 [|h1 Ht]]; [reflexivity| destruct Sd as [|s0 [|s1 St]]; reflexivity |].
    destruct Sd as [|s0 [|s1 St]]; [reflexivity|reflexivity|].
    rewrite !seg_scan_cons2.
    match goal with |- context [if ?c then _ else _] => destruct c end.
    - unfold cmul. cbn [fst snd]. ra_simpl. ring.
    - apply IH.
  Qed.

  (* the base class's double GetH(double) is the real part of the solver class's GetH, for B > 0 and a block with a table
     (without table the base class returns 0 where the solver class returns B/(mu_x muo)) *)
  Lemma getH_base_pos (m : matR) (B : R) : 0 < B -> bhpoints m <> 0%nat -> getH_base RA m B = fst (getH RA m B).
  Proof.
    intros HB Hn. unfold getH_base, getH, bhpoints in *. rewrite (cabs_real B HB), (cdiv_real_self B HB). ra_simpl.
    rewrite (Rabs_pos_eq B) by lra. rewrite (proj2 (Reqb_false B 0) ltac:(lra)). rewrite orb_false_r.
    apply Nat.eqb_neq in Hn. rewrite Hn.
    destruct (Rltb (lastB RA m) B).
    - unfold cmul, cadd, cmuld, cofd. cbn [fst snd]. ra_simpl. ring.
    - apply seg_scan_cmul1.
  Qed.

  (* unlaminated (Lam_d = 0): muinc = 1/(muo Re dH/dB(B)), murel = 1/(muo H(B)/B) *)
  Theorem incr_perm_meaning (m : matR) (blk : blockR) (B : R) : 0 < B -> bhpoints m <> 0%nat -> bLamd blk = 0 ->
    fst (incr_perm RA m blk B) = 1 / (mMuo m * fst (getdHdB RA m B)) /\
    snd (incr_perm RA m blk B) = 1 / (mMuo m * (fst (getH RA m B) / B)).
  Proof.
    intros HB Hn Hl. unfold incr_perm, get_v. rewrite Hl. ra_simpl.
    rewrite (proj2 (Reqb_true 0 0) eq_refl). cbn [orb fst snd].
    rewrite (proj2 (Reqb_false B 0) ltac:(lra)). unfold cofd. cbn [fst snd].
    rewrite (getH_base_pos m B HB Hn). split; reflexivity.
  Qed.

  (* laminated in plane with the fill factor (Lam_d <> 0, LamFill <> 0): both are mixed with air once more *)
  Theorem incr_perm_laminated (m : matR) (blk : blockR) (B : R) : bLamd blk <> 0 -> bLamFill blk <> 0 ->
    let muinc := 1 / (mMuo m * fst (getdHdB RA m B)) in
    let murel := 1 / (mMuo m * fst (get_v RA m B)) in
    incr_perm RA m blk B = (muinc * bLamFill blk + (1 - bLamFill blk), murel * bLamFill blk + (1 - bLamFill blk)).
  Proof.
    intros H1 H2. cbv zeta. unfold incr_perm. ra_simpl.
    rewrite (proj2 (Reqb_false _ 0) H1), (proj2 (Reqb_false _ 0) H2). reflexivity.
  Qed.

  (* the frozen permeability at flux density B is the permeability the last Newton update of the previous run stored for B *)
  Theorem frozen_perm_is_newton_secant_perm (m : matR) (blk : blockR) (B : R) : 0 < B -> bhpoints m <> 0%nat -> bLamd blk = 0 ->
    snd (incr_perm RA m blk B) = fst (nl_mu_of RA m B).
  Proof.
    intros HB Hn Hl. destruct (incr_perm_meaning m blk B HB Hn Hl) as [_ E]. rewrite E.
    rewrite nl_mu_is_B_over_H by (unfold bhpoints in *; lia || lra). rewrite (Rabs_pos_eq B) by lra. reflexivity.
  Qed.
End Permeabilities.

(* ========================================================================================== *)
(* 7. C11: the element matrix and tensor of a dependent run do not depend on the new excitations *)
(* ========================================================================================== *)
Section Passive.
  Variables (P1 P2 : probR) (res1 res2 : list (nat * R * R)) (mats : list matR) (lct : vecT R) (inc : nat) (Aprev : vecT R).

  (* the two problems have the same passive data as far as element el is concerned: nodes, length unit, the block's
     permeabilities and lamination data, type and c0 of the boundary properties on its edges.  Source current densities, circuit
     currents, coercivities, A0 A1 A2, c1, point properties are free. *)
  Definition same_passive (el : elemR) : Prop :=
    mnodes P1 = mnodes P2 /\ unit_idx P1 = unit_idx P2 /\
    (let b1 := el_blk P1 el in let b2 := el_blk P2 el in
     bmux b1 = bmux b2 /\ bmuy b1 = bmuy b2 /\ bLamType b1 = bLamType b2 /\ bLamFill b1 = bLamFill b2 /\ bLamd b1 = bLamd b2) /\
    (forall j s, (j < 3)%nat -> tri_get (me el) j = Some s ->
       mlfmt (nth s (mlines P1) (dmline RA)) = mlfmt (nth s (mlines P2) (dmline RA)) /\
       lc0re (nth s (mlines P1) (dmline RA)) = lc0re (nth s (mlines P2) (dmline RA))).

  Lemma mixed_step_fst g el acc1 acc2 j : same_passive el -> (j < 3)%nat -> fst acc1 = fst acc2 ->
    fst (mixed_step RA P1 g el acc1 j) = fst (mixed_step RA P2 g el acc2 j).
  Proof.
    intros (_ & _ & _ & HL) Hj E. unfold mixed_step.
    destruct (tri_get (me el) j) as [s|] eqn:Es; [|exact E].
    destruct (HL j s Hj Es) as [Hf Hc]. rewrite Hf, Hc.
    destruct (Nat.eqb _ 2); [|exact E].
    destruct acc1 as [Me1 be1], acc2 as [Me2 be2]. cbn [fst snd] in *. subst Me2. reflexivity.
  Qed.

  Theorem prev_matrix_independent_of_excitations el : same_passive el ->
    prev_Me P1 res1 mats lct inc Aprev el = prev_Me P2 res2 mats lct inc Aprev el /\
    el_t P1 mats lct inc Aprev el = el_t P2 mats lct inc Aprev el.
  Proof.
    intros HS. pose proof HS as (Hn & Hu & (Hb1 & Hb2 & Hb3 & Hb4 & Hb5) & HL).
    assert (Hg : mel_geom RA P1 el = mel_geom RA P2 el) by (unfold mel_geom; rewrite Hn; reflexivity).
    assert (Hmu : el_mu RA (el_blk P1 el) = el_mu RA (el_blk P2 el)).
    { unfold el_mu. cbv zeta in *. rewrite Hb1, Hb2, Hb3, Hb4. reflexivity. }
    assert (Ht : el_t P1 mats lct inc Aprev el = el_t P2 mats lct inc Aprev el).
    { unfold el_t, el_tensor. fold (el_blk P1 el) (el_blk P2 el). rewrite Hmu.
      unfold prev2DB. rewrite Hg, Hu. unfold incr_perm. cbv zeta in *. rewrite Hb4, Hb5. reflexivity. }
    split; [|exact Ht].
    unfold prev_Me, prev_elem_matrices. cbn [fst snd]. fold (el_t P1 mats lct inc Aprev el) (el_t P2 mats lct inc Aprev el).
    rewrite Ht. unfold el_parts. cbv zeta. rewrite Hg.
    set (g := mel_geom RA P2 el).
    pose proof (mixed_step_fst g el) as MS.
    set (a0 := (repeat (azero RA) 9, repeat (azero RA) 3)).
    assert (E : fst (fold_left (mixed_step RA P1 g el) [0; 1; 2]%nat a0) = fst (fold_left (mixed_step RA P2 g el) [0; 1; 2]%nat a0)).
    { cbn [fold_left]. apply MS; [exact HS|lia|]. apply MS; [exact HS|lia|]. apply MS; [exact HS|lia|]. reflexivity. }
    destruct (fold_left (mixed_step RA P1 g el) [0; 1; 2]%nat a0) as [Me1 be1].
    destruct (fold_left (mixed_step RA P2 g el) [0; 1; 2]%nat a0) as [Me2 be2].
    cbn [fst snd] in *. rewrite E. reflexivity.
  Qed.
End Passive.
