(* Properties_C20_load.v — C20 part of the mesh-reader model (LoadMesh.v; vocabulary in Properties_C02_load.v): an element
   attribute that names no block label is never accepted by any of the three solvers' LoadMesh.  Statements only. *)
From Coq Require Import ZArith List Bool Floats.
From XF Require Import Arith Marker MarkerProofs LoadMesh LoadMeshProofs.
From XF.gen Require Import MarkerConsts LoadConsts.
Import ListNotations.
Local Open Scope Z_scope.

Theorem C20_load_attribute_without_label_is_rejected :
  forall (F : Type) (A : Arith F) v del units labels fmts nodes pbcs ages eles edges,
    (exists r, In r eles /\ ~ 0 <= label_of labels (row_a r) < Z.of_nat (length labels)) ->
    load_mesh A v del units labels fmts nodes pbcs ages eles edges = UB \/
    exists c rm, load_mesh A v del units labels fmts nodes pbcs ages eles edges = Failed c rm /\
                 (c = err_badpbcfile \/ c = err_missingmatprops \/ c = err_elmlabeltoobig).
Proof. exact (@load_bad_attribute_thm). Qed.
Print Assumptions C20_load_attribute_without_label_is_rejected.
