(* MeshCheckSound.v — what the remaining lists of an accepted validator report establish
   (MeshCheck.check_mesh): drawn entities are chains of mesh edges, region attributes are
   constant across edges that are not on a drawn entity, every region point lies in an element of
   its attribute, no hole point lies inside an element, every drawn point is an exact vertex with
   its marker, and .edge markers agree with the drawn entity.  Extends MeshCheckProofs.v
   (orientation, manifoldness, Green identity, boundary on drawn entities).  All meshes. *)
From Coq Require Import ZArith List Bool Arith PArith FMapPositive Lia.
From XF Require Import Sums MeshCheck MeshCheckProofs.
Import ListNotations.
Local Open Scope Z_scope.

(* ---- list helpers ---- *)
Lemma concat_map_nil {A B} (f : A -> list B) l :
  concat (map f l) = [] -> forall x, In x l -> f x = [].
Proof.
  induction l as [|a l IH]; intros H x Hx; [destruct Hx|].
  cbn [map concat] in H. apply app_eq_nil in H. destruct H as [Ha Hl].
  destruct Hx as [<-|Hx]; [exact Ha|apply IH; assumption].
Qed.

Lemma filter_nil {A} (p : A -> bool) l : filter p l = [] -> forall x, In x l -> p x = false.
Proof.
  intros H x Hx. destruct (p x) eqn:E; [|reflexivity].
  assert (Hin : In x (filter p l)) by (apply filter_In; split; assumption).
  rewrite H in Hin. destruct Hin.
Qed.

Definition indexed {T} (l : list T) : list (Z * T) := combine (map Z.of_nat (seq 0 (length l))) l.

Lemma In_indexed_gen {T} (l : list T) : forall s k t,
  In (k, t) (combine (map Z.of_nat (seq s (length l))) l) <->
  exists i, nth_error l i = Some t /\ k = Z.of_nat (s + i).
Proof.
  induction l as [|a l IH]; intros s k t; cbn [length seq map combine].
  - split; [intros []|intros (i & Hi & _); destruct i; discriminate].
  - split.
    + intros [H|H].
      * inversion H; subst. exists 0%nat. split; [reflexivity|f_equal; lia].
      * apply IH in H. destruct H as (i & Hi & ->). exists (S i). split; [exact Hi|f_equal; lia].
    + intros (i & Hi & ->). destruct i as [|i].
      * cbn in Hi. inversion Hi; subst. left. f_equal. f_equal. lia.
      * right. apply IH. exists i. split; [exact Hi|f_equal; lia].
Qed.

Lemma In_indexed {T} (l : list T) k t :
  In (k, t) (indexed l) <-> exists i, nth_error l i = Some t /\ k = Z.of_nat i.
Proof. unfold indexed. rewrite In_indexed_gen. reflexivity. Qed.

(* ---- the edge table also records the owning element ---- *)
Lemma build_table_values n : 0 < n -> forall es m m',
  Forall (fun x => edge_ok n (fst x)) es ->
  build_table n es m = Some m' ->
  forall e j, edge_ok n e -> PositiveMap.find (ekey n e) m' = Some j ->
    PositiveMap.find (ekey n e) m = Some j \/ In (e, j) es.
Proof.
  intros Hn. induction es as [|[e0 own] t IH]; intros m m' Hok Hb e j He Hf.
  - cbn in Hb. inversion Hb; subst. left. exact Hf.
  - apply Forall_cons_iff in Hok. destruct Hok as [He0 Hok]. cbn [fst] in He0.
    cbn [build_table] in Hb. destruct (PositiveMap.find (ekey n e0) m) eqn:Ef; [discriminate|].
    destruct (IH _ _ Hok Hb e j He Hf) as [H|H]; [|right; right; exact H].
    destruct (Pos.eq_dec (ekey n e) (ekey n e0)) as [E|E].
    + assert (e = e0) by (destruct He, He0; apply (ekey_inj n); auto; lia). subst e0.
      rewrite PositiveMap.gss in H. inversion H; subst. right. left. reflexivity.
    + rewrite PositiveMap.gso in H by exact E. left. exact H.
Qed.

Lemma In_owned ts e j :
  In (e, j) (owned_dedges ts) <-> exists i t, nth_error ts i = Some t /\ j = Z.of_nat i /\ In e (dedges t).
Proof.
  unfold owned_dedges. fold (indexed ts). rewrite in_concat. split.
  - intros (l & Hl & He). apply in_map_iff in Hl. destruct Hl as ([k t] & <- & Hkt).
    apply In_indexed in Hkt. destruct Hkt as (i & Hi & ->).
    apply in_map_iff in He. destruct He as (e' & Heq & He'). cbn [fst snd] in *. inversion Heq; subst.
    exists i, t. auto.
  - intros (i & t & Hi & -> & He). exists (map (fun e0 => (e0, Z.of_nat i)) (dedges t)). split.
    + apply in_map_iff. exists (Z.of_nat i, t). split; [reflexivity|]. apply In_indexed. exists i. auto.
    + apply in_map_iff. exists e. auto.
Qed.

(* ---- chains ---- *)
(* a path of mesh nodes: consecutive nodes are neighbours, each step lands on the closed segment
   towards the target v *)
Fixpoint chain_ok (X : list pt) (nbrs : Z -> list Z) (v : Z) (l : list Z) : Prop :=
  match l with
  | [] => False
  | [a] => a = v
  | a :: ((b :: _) as tl) =>
      In b (nbrs a) /\ b <> a /\ on_segment (ptget X a) (ptget X v) (ptget X b) = true /\ chain_ok X nbrs v tl
  end.

Lemma fold_best_in (f : Z -> Z) ws w0 :
  let best := fold_left (fun b w => if f w <? f b then w else b) ws w0 in
  best = w0 \/ In best ws.
Proof.
  revert w0. induction ws as [|w ws IH]; intros w0; cbn [fold_left]; [left; reflexivity|].
  destruct (IH (if f w <? f w0 then w else w0)) as [H|H].
  - destruct (f w <? f w0); [right; left; symmetry; exact H|left; exact H].
  - right. right. exact H.
Qed.

Lemma walk_chain_sound X nbrs v : forall fuel cur acc l,
  walk_chain fuel X nbrs cur v acc = Some l ->
  exists path, l = rev acc ++ path /\ hd_error path = Some cur /\ chain_ok X nbrs v path.
Proof.
  induction fuel as [|fuel IH]; intros cur acc l H; [discriminate|].
  cbn [walk_chain] in H. destruct (cur =? v) eqn:Ecv.
  - apply Z.eqb_eq in Ecv. inversion H; subst. exists [v]. cbn [rev]. split; [reflexivity|]. split; reflexivity.
  - set (cands := filter (fun w => negb (w =? cur) && on_segment (ptget X cur) (ptget X v) (ptget X w)) (nbrs cur)) in H.
    destruct cands as [|w0 ws] eqn:Ec; [discriminate|].
    set (best := fold_left _ ws w0) in H.
    assert (Hb : In best cands).
    { rewrite Ec. destruct (fold_best_in (fun w => dot_along (ptget X cur) (ptget X v) (ptget X w)) ws w0) as [E|E];
        fold best in E; [left; symmetry; exact E|right; exact E]. }
    unfold cands in Hb. apply filter_In in Hb. destruct Hb as [Hn Hp].
    apply andb_true_iff in Hp. destruct Hp as [Hne Hon]. apply negb_true_iff, Z.eqb_neq in Hne.
    destruct (IH best (cur :: acc) l H) as (path & -> & Hhd & Hok).
    exists (cur :: path). split; [cbn [rev]; rewrite <- app_assoc; reflexivity|]. split; [reflexivity|].
    destruct path as [|b tl]; [discriminate|]. cbn in Hhd. inversion Hhd; subst b.
    cbn [chain_ok]. auto.
Qed.

(* neighbours come from element edges, in either direction *)
Definition add_nbr (m : PositiveMap.t (list Z)) (a b : Z) : PositiveMap.t (list Z) :=
  let k := Z.to_pos (a + 1) in
  PositiveMap.add k (b :: match PositiveMap.find k m with Some l => l | None => [] end) m.

Lemma build_nbrs_unfold ts :
  build_nbrs ts = fold_left (fun m e => add_nbr (add_nbr m (fst e) (snd e)) (snd e) (fst e))
                            (all_dedges ts) (PositiveMap.empty (list Z)).
Proof. reflexivity. Qed.

Lemma nbrs_add m a b x y : 0 <= a -> 0 <= x ->
  In y (nbrs_of (add_nbr m a b) x) -> In y (nbrs_of m x) \/ (x = a /\ y = b).
Proof.
  intros Ha Hx. unfold nbrs_of, add_nbr. cbv zeta.
  destruct (Pos.eq_dec (Z.to_pos (x + 1)) (Z.to_pos (a + 1))) as [E|E].
  - rewrite E, PositiveMap.gss. intros [Hy|Hy].
    + right. apply Z2Pos.inj in E; lia.
    + left. exact Hy.
  - rewrite PositiveMap.gso by exact E. intros Hy. left. exact Hy.
Qed.

Lemma build_nbrs_fold x y : 0 <= x -> forall es m,
  (forall e, In e es -> 0 <= fst e /\ 0 <= snd e) ->
  In y (nbrs_of (fold_left (fun m e => add_nbr (add_nbr m (fst e) (snd e)) (snd e) (fst e)) es m) x) ->
  In y (nbrs_of m x) \/ In (x, y) es \/ In (y, x) es.
Proof.
  intros Hx. induction es as [|e es IH]; intros m Hpos Hin; [left; exact Hin|].
  cbn [fold_left] in Hin.
  destruct (Hpos e (or_introl eq_refl)) as [Hf Hs].
  apply IH in Hin; [|intros e' He'; apply Hpos; right; exact He'].
  destruct Hin as [Hin|[Hin|Hin]]; [|right; left; right; exact Hin|right; right; right; exact Hin].
  apply nbrs_add in Hin; [|exact Hs|exact Hx].
  destruct Hin as [Hin|[-> ->]].
  - apply nbrs_add in Hin; [|exact Hf|exact Hx].
    destruct Hin as [Hin|[-> ->]]; [left; exact Hin|].
    right. left. left. destruct e; reflexivity.
  - right. right. left. destruct e; reflexivity.
Qed.

Lemma build_nbrs_spec n ts x y : chk_range n ts = true -> 0 <= x ->
  In y (nbrs_of (build_nbrs ts) x) -> In (x, y) (all_dedges ts) \/ In (y, x) (all_dedges ts).
Proof.
  intros Hr Hx Hin. rewrite build_nbrs_unfold in Hin.
  apply (build_nbrs_fold x y Hx) in Hin.
  - destruct Hin as [Hin|Hin]; [|exact Hin].
    unfold nbrs_of in Hin. rewrite PositiveMap.gempty in Hin. destruct Hin.
  - intros e He. pose proof (chk_range_edges n ts Hr) as Hok. rewrite Forall_forall in Hok.
    destruct (Hok e He) as [H1 H2]. lia.
Qed.

(* ---- an element edge belongs to one element only ---- *)
Lemma NoDup_app_disjoint {A} (l1 l2 : list A) : NoDup (l1 ++ l2) -> forall x, In x l1 -> ~ In x l2.
Proof.
  induction l1 as [|a l1 IH]; intros H x Hx; [destruct Hx|].
  cbn [app] in H. apply NoDup_cons_iff in H. destruct H as [Hn Hd].
  destruct Hx as [<-|Hx].
  - intro H2. apply Hn. apply in_or_app. right. exact H2.
  - apply IH; assumption.
Qed.

Lemma NoDup_app_right {A} (l1 l2 : list A) : NoDup (l1 ++ l2) -> NoDup l2.
Proof.
  induction l1 as [|a l1 IH]; intros H; [exact H|].
  cbn [app] in H. apply NoDup_cons_iff in H. apply IH. exact (proj2 H).
Qed.

Lemma nodup_flat_map_unique {A B} (f : A -> list B) l : NoDup (flat_map f l) ->
  forall i j a b x, nth_error l i = Some a -> nth_error l j = Some b -> In x (f a) -> In x (f b) -> i = j.
Proof.
  induction l as [|a0 l IH]; intros Hnd i j a b x Hi Hj Ha Hb; [destruct i; discriminate|].
  cbn [flat_map] in Hnd.
  assert (Hdis := NoDup_app_disjoint _ _ Hnd).
  assert (Hin : forall k c, nth_error l k = Some c -> In x (f c) -> In x (flat_map f l)).
  { intros k c Hk Hc. apply in_flat_map. exists c. split; [eapply nth_error_In; exact Hk|exact Hc]. }
  destruct i as [|i], j as [|j]; cbn [nth_error] in Hi, Hj.
  - reflexivity.
  - inversion Hi; subst a0. exfalso. apply (Hdis x Ha). eapply Hin; eassumption.
  - inversion Hj; subst a0. exfalso. apply (Hdis x Hb). eapply Hin; eassumption.
  - f_equal. apply NoDup_app_right in Hnd. eapply (IH Hnd); eassumption.
Qed.

(* ---- the report's lists, spelled out ---- *)
Definition strict_in_tri (X : list pt) (t : tri) (p : pt) : bool :=
  let '(a, b, c) := t in
  (0 <? orient (ptget X a) (ptget X b) p) && (0 <? orient (ptget X b) (ptget X c) p) &&
  (0 <? orient (ptget X c) (ptget X a) p).

Definition point_ok (M : mesh) (k : Z) (p : pt) (mk : Z) : bool :=
  let q := ptget (mX M) k in
  let nm := nth (Z.to_nat k) (mnodemark M) 0 in
  (fst p =? fst q) && (snd p =? snd q) && (if 1 <? mk then nm =? mk else nm <=? 1).

Definition edge_mark_bad (X : list pt) (segs : list (Z * Z * Z)) (em : Z * Z * Z) : bool :=
  let '(u, v, mk) := em in
  match filter (fun s => let '(a, b, _) := s in
                  on_segment (ptget X a) (ptget X b) (ptget X u) &&
                  on_segment (ptget X a) (ptget X b) (ptget X v)) segs with
  | [] => mk <? 0
  | ss => negb (existsb (fun s => let '(_, _, m) := s in if m =? 0 then (0 <=? mk) else (mk =? m)) ss)
  end.

Lemma report_ok_fields r : report_ok r = true ->
  r_range r = true /\ r_ccw r = true /\ r_manifold r = true /\ r_area_mesh r = r_area_boundary r /\
  r_bad_chains r = [] /\ r_bad_boundary r = [] /\ r_bad_attr_pairs r = [] /\ r_bad_regions r = [] /\
  r_bad_holes r = [] /\ r_bad_points r = [] /\ r_bad_edge_marks r = [].
Proof.
  unfold report_ok. intros H.
  repeat (apply andb_true_iff in H; destruct H as [H ?]).
  destruct (r_bad_chains r); [|discriminate]. destruct (r_bad_boundary r); [|discriminate].
  destruct (r_bad_attr_pairs r); [|discriminate]. destruct (r_bad_regions r); [|discriminate].
  destruct (r_bad_holes r); [|discriminate]. destruct (r_bad_points r); [|discriminate].
  destruct (r_bad_edge_marks r); [|discriminate].
  repeat split; try assumption; try reflexivity. apply Z.eqb_eq. assumption.
Qed.

Section Full.
  Variables (M : mesh) (P : pslg) (pidx : list Z) (ppts : list pt) (pmarks : list Z).
  Let X := mX M.
  Let ts := mtris M.
  Let n := Z.of_nat (length X).
  Let attr := fun i : Z => nth (Z.to_nat i) (mattr M) 0.
  Let R := check_mesh M P pidx ppts pmarks.

  Hypothesis Hok : report_ok R = true.

  Lemma full_range : chk_range n ts = true.
  Proof. exact (proj1 (check_mesh_sound M P pidx ppts pmarks Hok)). Qed.

  Lemma full_table : exists tab, edge_table n ts = Some tab.
  Proof.
    pose proof full_range as Hr. pose proof (report_ok_fields R Hok) as (_ & _ & Hm & _).
    unfold R, check_mesh in Hm. fold X ts n in Hm. rewrite Hr in Hm.
    destruct (edge_table n ts) as [tab|]; [exists tab; reflexivity|cbn in Hm; discriminate].
  Qed.

  Lemma full_unfold tab : edge_table n ts = Some tab ->
    R = let bd := boundary n tab ts in
        let nb := build_nbrs ts in
        mkReport true (chk_ccw X ts) true (sumZ (area2 X) ts) (sumZ (cross X) bd)
          (chk_chains M P nb)
          (filter (fun e => negb (on_some_segment X (psegs P) e)) bd)
          (concat (map (fun it => let '(i, t) := it in
             concat (map (fun e =>
               match PositiveMap.find (ekey n (revE e)) tab with
               | Some j => if (i <? j) && negb (attr i =? attr j) && negb (on_some_segment X (psegs P) e)
                           then [(i, j)] else []
               | None => [] end) (dedges t))) (indexed ts)))
          (concat (map (fun ir => let '(k, (p, a, _)) := ir in
             if existsb (fun it => in_tri X (snd it) p && (attr (fst it) =? a)) (indexed ts) then [] else [k])
             (indexed (pregions P))))
          (concat (map (fun ih => let '(k, p) := ih in
             if existsb (fun t => strict_in_tri X t p) ts then [k] else []) (indexed (pholes P))))
          (concat (map (fun ip => let '(k, (p, mk)) := ip in
             if point_ok M k p mk then [] else [k]) (combine pidx (combine ppts pmarks))))
          (filter (edge_mark_bad X (psegs P)) (medges M)).
  Proof.
    intros Ht. unfold R, check_mesh. fold X ts n. rewrite full_range, Ht. reflexivity.
  Qed.

  (* 1. every drawn (PSLG) segment is a chain of mesh edges from its first to its last point *)
  Theorem full_chains : forall u v mk, In (u, v, mk) (psegs P) ->
    exists path, hd_error path = Some u /\ chain_ok X (nbrs_of (build_nbrs ts)) v path.
  Proof.
    destruct full_table as [tab Ht]. intros u v mk Hin.
    pose proof (report_ok_fields R Hok) as (_ & _ & _ & _ & Hc & _).
    rewrite (full_unfold tab Ht) in Hc. cbn [r_bad_chains] in Hc. unfold chk_chains in Hc.
    pose proof (filter_nil _ _ Hc (u, v, mk) Hin) as Hf. cbn beta iota in Hf. fold X in Hf.
    destruct (walk_chain (S (length X)) X (nbrs_of (build_nbrs ts)) u v []) as [l|] eqn:Ew; [|discriminate].
    destruct (walk_chain_sound X _ v _ _ _ _ Ew) as (path & _ & Hhd & Hch).
    exists path. split; assumption.
  Qed.

  (* 2. region attributes agree across every element edge that is not on a drawn segment *)
  Theorem full_attributes : forall i j ti tj e,
    nth_error ts i = Some ti -> nth_error ts j = Some tj -> (i < j)%nat ->
    In e (dedges ti) -> In (revE e) (dedges tj) ->
    attr (Z.of_nat i) <> attr (Z.of_nat j) -> on_some_segment X (psegs P) e = true.
  Proof.
    destruct full_table as [tab Ht]. intros i j ti tj e Hi Hj Hij Hei Hej Hat.
    pose proof full_range as Hr.
    pose proof (report_ok_fields R Hok) as (_ & _ & _ & _ & _ & _ & Ha & _).
    rewrite (full_unfold tab Ht) in Ha. cbn [r_bad_attr_pairs] in Ha.
    assert (Hn : 0 < n).
    { pose proof (chk_range_edges n ts Hr) as Hok'. rewrite Forall_forall in Hok'.
      assert (In e (all_dedges ts)) as Hin.
      { unfold all_dedges. apply in_flat_map. exists ti. split; [eapply nth_error_In; exact Hi|exact Hei]. }
      destruct (Hok' e Hin). lia. }
    destruct (manifold_sound n ts tab Hn Hr Ht) as [ND Hmem].
    assert (Hre_in : In (revE e) (all_dedges ts)).
    { unfold all_dedges. apply in_flat_map. exists tj. split; [eapply nth_error_In; exact Hj|exact Hej]. }
    assert (Hre_ok : edge_ok n (revE e)).
    { pose proof (chk_range_edges n ts Hr) as Hok'. rewrite Forall_forall in Hok'. apply Hok'. exact Hre_in. }
    pose proof (proj2 (Hmem (revE e) Hre_ok) Hre_in) as Hhas. unfold has_edge in Hhas.
    destruct (PositiveMap.find (ekey n (revE e)) tab) as [j'|] eqn:Ef; [|discriminate].
    assert (Hj' : j' = Z.of_nat j).
    { unfold edge_table in Ht.
      assert (Hok' : Forall (fun x => edge_ok n (fst x)) (owned_dedges ts)).
      { pose proof (chk_range_edges n ts Hr) as H0. rewrite <- owned_dedges_fst in H0.
        apply Forall_forall. intros x Hx. rewrite Forall_forall in H0. apply H0. apply in_map. exact Hx. }
      destruct (build_table_values n Hn _ _ _ Hok' Ht (revE e) j' Hre_ok Ef) as [H0|H0].
      - rewrite PositiveMap.gempty in H0. discriminate.
      - apply In_owned in H0. destruct H0 as (i' & t' & Hi' & -> & He').
        f_equal. unfold all_dedges in ND.
        eapply (nodup_flat_map_unique dedges ts ND); eassumption. }
    subst j'.
    assert (Hit : In (Z.of_nat i, ti) (indexed ts)) by (apply In_indexed; exists i; auto).
    pose proof (concat_map_nil _ _ Ha (Z.of_nat i, ti) Hit) as H1. cbn beta iota in H1.
    pose proof (concat_map_nil _ _ H1 e Hei) as H2. cbn beta in H2. rewrite Ef in H2.
    destruct (on_some_segment X (psegs P) e); [reflexivity|].
    assert (Hlt : (Z.of_nat i <? Z.of_nat j) = true) by (apply Z.ltb_lt; lia).
    assert (Hne : (attr (Z.of_nat i) =? attr (Z.of_nat j)) = false) by (apply Z.eqb_neq; exact Hat).
    rewrite Hlt, Hne in H2. cbn in H2. discriminate.
  Qed.

  (* 3. every region point lies in (or on the border of) an element carrying that region's attribute *)
  Theorem full_regions : forall k p a mx, nth_error (pregions P) k = Some (p, a, mx) ->
    exists i t, nth_error ts i = Some t /\ in_tri X t p = true /\ attr (Z.of_nat i) = a.
  Proof.
    destruct full_table as [tab Ht]. intros k p a mx Hk.
    pose proof (report_ok_fields R Hok) as (_ & _ & _ & _ & _ & _ & _ & Hr & _).
    rewrite (full_unfold tab Ht) in Hr. cbn [r_bad_regions] in Hr.
    assert (Hin : In (Z.of_nat k, (p, a, mx)) (indexed (pregions P))) by (apply In_indexed; exists k; auto).
    pose proof (concat_map_nil _ _ Hr _ Hin) as H1. cbn beta iota in H1.
    destruct (existsb _ (indexed ts)) eqn:Ex; [|discriminate].
    apply existsb_exists in Ex. destruct Ex as ([i' t] & Hit & Hc). cbn [fst snd] in Hc.
    apply In_indexed in Hit. destruct Hit as (i & Hi & ->).
    apply andb_true_iff in Hc. destruct Hc as [Hc1 Hc2]. apply Z.eqb_eq in Hc2.
    exists i, t. auto.
  Qed.

  (* 4. no hole point lies strictly inside an element *)
  Theorem full_holes : forall p t, In p (pholes P) -> In t ts -> strict_in_tri X t p = false.
  Proof.
    destruct full_table as [tab Ht]. intros p t Hp Htt.
    pose proof (report_ok_fields R Hok) as (_ & _ & _ & _ & _ & _ & _ & _ & Hh & _).
    rewrite (full_unfold tab Ht) in Hh. cbn [r_bad_holes] in Hh.
    apply In_nth_error in Hp. destruct Hp as [k Hk].
    assert (Hin : In (Z.of_nat k, p) (indexed (pholes P))) by (apply In_indexed; exists k; auto).
    pose proof (concat_map_nil _ _ Hh _ Hin) as H1. cbn beta iota in H1.
    destruct (existsb (fun t0 => strict_in_tri X t0 p) ts) eqn:Ex; [discriminate|].
    destruct (strict_in_tri X t p) eqn:E; [|reflexivity].
    assert (existsb (fun t0 => strict_in_tri X t0 p) ts = true) by (apply existsb_exists; exists t; auto).
    congruence.
  Qed.

  (* 5. every drawn point is reproduced exactly as a mesh vertex and keeps its marker *)
  Theorem full_points : forall k p mk, In (k, (p, mk)) (combine pidx (combine ppts pmarks)) ->
    ptget X k = p /\ (if 1 <? mk then nth (Z.to_nat k) (mnodemark M) 0 = mk else nth (Z.to_nat k) (mnodemark M) 0 <= 1).
  Proof.
    destruct full_table as [tab Ht]. intros k p mk Hin.
    pose proof (report_ok_fields R Hok) as (_ & _ & _ & _ & _ & _ & _ & _ & _ & Hp & _).
    rewrite (full_unfold tab Ht) in Hp. cbn [r_bad_points] in Hp.
    pose proof (concat_map_nil _ _ Hp _ Hin) as H1. cbn beta iota in H1.
    destruct (point_ok M k p mk) eqn:E; [|discriminate].
    unfold point_ok in E. fold X in E. cbv zeta in E.
    apply andb_true_iff in E. destruct E as [E E3]. apply andb_true_iff in E. destruct E as [E1 E2].
    apply Z.eqb_eq in E1, E2. split.
    - destruct (ptget X k) as [qx qy], p as [px py]. cbn [fst snd] in E1, E2. subst. reflexivity.
    - destruct (1 <? mk); [apply Z.eqb_eq|apply Z.leb_le]; exact E3.
  Qed.

  (* 6. the markers of the .edge file agree with the drawn segment the edge lies on *)
  Theorem full_edge_marks : forall em, In em (medges M) -> edge_mark_bad X (psegs P) em = false.
  Proof.
    destruct full_table as [tab Ht]. intros em Hin.
    pose proof (report_ok_fields R Hok) as (_ & _ & _ & _ & _ & _ & _ & _ & _ & _ & He).
    rewrite (full_unfold tab Ht) in He. cbn [r_bad_edge_marks] in He.
    exact (filter_nil _ _ He em Hin).
  Qed.
End Full.
