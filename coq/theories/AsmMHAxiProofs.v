(* AsmMHAxiProofs.v — theorems about the model of FSolver::HarmonicAxisymmetric (real reading, complex numbers
   are pairs of reals): at omega = 0 the harmonic axisymmetric element equations are the static axisymmetric
   ones (and which differences between the two solvers make this fail outside the stated hypotheses). *)
From Coq Require Import ZArith List Bool Arith Lia Reals Lra.
From XF Require Import Arith Sparse CSparse SparseProofs AsmOps AsmOpsProofs AsmE AsmEProofs AsmM AsmMProofs AsmMH AsmMHProofs
  AsmMAxi AsmMAxiProofs AsmMAxiLinearProofs AsmMHAxi.
Import ListNotations.
Local Open Scope R_scope.

Local Notation C := (R * R)%type.
Local Notation CC := (CA RA).
Local Notation vgetR := (vget RA).
Local Notation probR := (mprob (F:=R)).
Local Notation aprobR := (aprob (F:=R)).
Local Notation elemR := (melem (F:=R)).
Local Notation alogsR := (alogs (F:=R)).

(* a real number as a complex one *)
Definition emb (x : R) : C := (x, 0).

Ltac list_pair_eq :=
  repeat match goal with
         | |- (_ :: _) = (_ :: _) => apply f_equal2
         | |- (_, _) = (_, _) => apply f_equal2
         | |- @nil _ = @nil _ => reflexivity
         end.

Section Embed.
  Lemma hmx_embed tol K p0 p1 p2 r0 r1 r2 :
    hmirror3 RA (haxis_diag RA tol [r0; r1; r2] (hmx_upper RA (K, 0) [p0; p1; p2] [r0; r1; r2]))
    = map emb (mirror3 RA (axis_diag RA tol [r0; r1; r2] (mx_upper RA K [p0; p1; p2] [r0; r1; r2]))).
  Proof.
    unfold hmirror3, haxis_diag, hmx_upper, hupper6, mirror3, axis_diag, mx_upper, upper6, on_axis. cbn [fold_left].
    unfold vget. cbn [nth]. ra_simpl.
    destruct (Rltb r0 tol); destruct (Rltb r1 tol); destruct (Rltb r2 tol); cbn; unfold cadd, cmuld; cbn [fst snd]; ra_simpl; unfold emb;
      repeat (f_equal; try ring).
  Qed.

  Lemma hmy_embed K q0 q1 q2 r0 r1 r2 g0 g1 g2 Rc :
    hmirror3 RA (hmy_upper RA (K, 0) [q0; q1; q2] [r0; r1; r2] [g0; g1; g2] Rc)
    = map emb (mirror3 RA (my_upper RA K [q0; q1; q2] [r0; r1; r2] [g0; g1; g2] Rc)).
  Proof.
    unfold hmirror3, hmy_upper, hupper6, mirror3, my_upper, upper6. cbn. unfold cadd, cmuld. cbn [fst snd]. ra_simpl. unfold emb.
    repeat (f_equal; try ring).
  Qed.
End Embed.

Section EmbedOps.
  Lemma cdiv_emb x m : m <> 0 -> cdiv RA (emb x) (emb m) = emb (x / m).
  Proof.
    intros Hm. rewrite cdiv_spec by (unfold emb; intro H; inversion H; contradiction).
    unfold Cmul, Cinv, emb. cbn [fst snd]. f_equal; field; nra.
  Qed.

  (* Me[j][k] += Mx/mu2 + My/mu1 + Mxy*v12 on real data (Mxy = 0 in HarmonicAxisymmetric, v12 = 0 in both) *)
  Lemma hcombine_embed (Me Mx My Mxy : vecT R) mu1 mu2 : sym9 Me -> sym9 Mx -> sym9 My -> sym9 Mxy ->
    mu1 <> 0 -> mu2 <> 0 ->
    hcombine_me RA (map emb Me) (map emb Mx) (map emb My) (repeat (0, 0) 9) (emb mu1) (emb mu2)
    = map emb (combine_me RA Me Mx My Mxy mu1 mu2).
  Proof.
    intros (a00 & a01 & a02 & a11 & a12 & a22 & ->) (b00 & b01 & b02 & b11 & b12 & b22 & ->)
           (c00 & c01 & c02 & c11 & c12 & c22 & ->) (d00 & d01 & d02 & d11 & d12 & d22 & ->) H1 H2.
    unfold hcombine_me, combine_me. cbn [fold_left map repeat].
    unfold h3add, h3get, m3add, m3set, m3get, vget. cbn [nth vset Nat.mul Nat.add].
    rewrite !cdiv_emb by assumption.
    unfold cadd, cmul, emb. cbn [fst snd map]. ra_simpl. repeat (f_equal; try (unfold Rdiv; ring)).
  Qed.

  Lemma haeddy_zero : haeddy_add RA (repeat (0, 0) 9) (0, 0) = map emb (repeat 0 9).
  Proof.
    unfold haeddy_add. cbn. unfold cadd, cdivd, cmuld, emb. cbn [fst snd]. ra_simpl.
    repeat (f_equal; try (unfold Rdiv; ring)).
  Qed.
End EmbedOps.

(* ------------------------------------------------------------------------------------------ *)
Section Omega0.
  Variables (AP : aprobR) (X : list (hexp (F:=R))) (PM : list C) (extRo extRi extZo : R)
            (res : list (nat * R * R)) (hres : list (nat * C * C)).
  Local Notation P := (ap AP).

  (* the circuit results of the two solvers agree: same Case (0 or 1: a circuit whose voltage gradient is an
     extra unknown, Case 2, has no static counterpart), real J and dV *)
  Definition res_embed : Prop :=
    forall k, let r := nth k res (dres RA) in let h := nth k hres (dhres RA) in
      fst (fst h) = fst (fst r) /\ snd (fst h) = emb (snd (fst r)) /\ snd h = emb (snd r).

  (* block property i is one on which the two solvers compute the same thing at omega = 0: real source
     current, no permanent magnet (HarmonicAxisymmetric ignores H_c), no on-edge lamination (refused by
     HarmonicAxisymmetric), no hysteresis lag (exp(-I*0) = 1), and for LamType 0 either no lamination
     thickness and fill factor 1 (HarmonicAxisymmetric ignores LamFill when Lam_d = 0) or a lamination
     thickness and zero conductivity (the eddy-current formula divides by the skin depth sqrt(2/0)) *)
  Definition block_ok (i : nat) : Prop :=
    let b := nth i (mblocks P) (dmblock RA) in let x := nth i X (dhexp RA) in
    bJim b = 0 /\ bHc b = 0 /\ bLamType b <> 1%nat /\ bLamType b <> 2%nat /\
    (bLamType b = 0%nat ->
       hex x = (1, 0) /\ hey x = (1, 0) /\ ((bLamd b = 0 /\ bLamFill b = 1) \/ (bLamd b <> 0 /\ bCduct b = 0))).
  (* wire-type blocks: GetFillFactor sets ProximityMu = 1 for Frequency == 0 *)
  Definition label_ok (el : elemR) : Prop :=
    (2 < bLamType (nth (mblk el) (mblocks P) (dmblock RA)))%nat -> nth (mlbl el) PM (0, 0) = (1, 0).
  Definition lines_real : Prop :=
    forall s, lc0im (nth s (mlines P) (dmline RA)) = 0 /\ lc1im (nth s (mlines P) (dmline RA)) = 0.

  Hypothesis HRes : res_embed.
  Hypothesis HLines : lines_real.

  Lemma hael_shape_embed el lg :
    hael_shape RA P el lg = (map emb (fst (fst (ael_shape RA P el lg))), map emb (snd (fst (ael_shape RA P el lg)))).
  Proof.
    unfold hael_shape, ael_shape. cbv zeta. cbn [fst snd].
    rewrite (mid_explicit AP el), (gp_explicit AP el), (gq_explicit AP el), (el_rn_explicit AP el).
    ra_simpl. rewrite hmx_embed, hmy_embed. reflexivity.
  Qed.

  Lemma hamixed_step_embed g rn el (Me be : vecT R) j : (j < 3)%nat -> sym9 Me -> len3 be ->
    hamixed_step RA P g rn el (map emb Me, map emb be) j
    = (map emb (fst (amixed_step RA P g rn el (Me, be) j)), map emb (snd (amixed_step RA P g rn el (Me, be) j))).
  Proof.
    intros Hj (m00 & m01 & m02 & m11 & m12 & m22 & ->) (b0 & b1 & b2 & ->).
    unfold hamixed_step, amixed_step. destruct (tri_get (me el) j) as [s|]; [|reflexivity].
    destruct (HLines s) as [I0 I1].
    destruct (Nat.eqb (mlfmt (nth s (mlines P) (dmline RA))) 2); [|reflexivity].
    rewrite I0, I1. cbn [fst snd].
    destruct j as [|[|[|j]]]; [| | |lia]; cbn;
      unfold cadd, cdivd, cmuld, emb, e4, c4pi, adec; cbn [fst snd]; ra_simpl;
      repeat (f_equal; try (unfold Rdiv; ring)).
  Qed.

  Lemma hamixed_fold_embed g rn el (Me be : vecT R) : sym9 Me -> len3 be ->
    fold_left (hamixed_step RA P g rn el) [0%nat; 1%nat; 2%nat] (map emb Me, map emb be)
    = (map emb (fst (fold_left (amixed_step RA P g rn el) [0%nat; 1%nat; 2%nat] (Me, be))),
       map emb (snd (fold_left (amixed_step RA P g rn el) [0%nat; 1%nat; 2%nat] (Me, be)))).
  Proof.
    intros S0 B0. cbn [fold_left].
    rewrite (hamixed_step_embed g rn el Me be 0%nat) by (auto; lia).
    destruct (amixed_step_shape AP g rn el Me be 0%nat ltac:(lia) S0 B0) as [S1 B1].
    destruct (amixed_step RA P g rn el (Me, be) 0%nat) as [Me1 be1]. cbn [fst snd] in *.
    rewrite (hamixed_step_embed g rn el Me1 be1 1%nat) by (auto; lia).
    destruct (amixed_step_shape AP g rn el Me1 be1 1%nat ltac:(lia) S1 B1) as [S2 B2].
    destruct (amixed_step RA P g rn el (Me1, be1) 1%nat) as [Me2 be2]. cbn [fst snd] in *.
    rewrite (hamixed_step_embed g rn el Me2 be2 2%nat) by (auto; lia).
    reflexivity.
  Qed.

  (* the circuit part of the current density *)
  Lemma hacirc_Jv_embed el Rc :
    fst (hacirc_Jv RA P hres el Rc) = emb (acirc_t RA P res el Rc).
  Proof.
    unfold hacirc_Jv, acirc_t.
    destruct (lcirc (nth (mlbl el) (mlabels P) dmlabel)) as [k|]; [|reflexivity].
    destruct (HRes k) as (C1 & HJ & HV). cbv zeta in C1, HJ, HV.
    destruct (nth k hres (dhres RA)) as [[c J] dV]. destruct (nth k res (dres RA)) as [[c' J'] dV'].
    cbn [fst snd] in *. subst c J dV.
    destruct (Nat.eqb c' 0); destruct (Nat.eqb c' 1); cbn [fst];
      unfold cdivd, cmuld, emb; cbn [fst snd]; ra_simpl; f_equal; unfold Rdiv; ring.
  Qed.

  (* effective permeabilities at omega = 0 *)
  Lemma hael_mu_embed el Rc zn : block_ok (mblk el) -> label_ok el ->
    hael_mu RA AP X PM 0 extRo extRi extZo el Rc zn
    = (emb (fst (ael_mu RA AP extRo extRi extZo el Rc zn)), emb (snd (ael_mu RA AP extRo extRi extZo el Rc zn))).
  Proof.
    intros (_ & _ & N1 & N2 & H0) HL. unfold hael_mu, ael_mu. unfold label_ok in HL.
    set (b := nth (mblk el) (mblocks P) (dmblock RA)) in *. set (x := nth (mblk el) X (dhexp RA)) in *.
    assert (G : (let '(m1, m2) := block_mu RA 0 b x in
                 if Nat.ltb 2 (bLamType b) then (nth (mlbl el) PM (azero RA, azero RA), nth (mlbl el) PM (azero RA, azero RA))
                 else (m1, m2))
                = (emb (fst (el_mu RA b)), emb (snd (el_mu RA b)))).
    { unfold block_mu, el_mu. destruct (bLamType b) as [|[|[|n]]] eqn:ET; try congruence.
      - destruct (H0 eq_refl) as (Ex & Ey & [[Hd Hf] | [Hd Hc]]); cbn [Nat.eqb Nat.ltb Nat.leb]; rewrite Ex, Ey.
        + ra_simpl. rewrite Hd, Hf. replace (Reqb 0 0) with true by (symmetry; apply Reqb_true; reflexivity).
          unfold cmuld, emb. cbn [fst snd]. ra_simpl. f_equal; f_equal; ring.
        + ra_simpl. replace (Reqb (bLamd b) 0) with false by (symmetry; apply Reqb_false; exact Hd).
          rewrite Hc. replace (Reqb 0 0) with true by (symmetry; apply Reqb_true; reflexivity).
          unfold caddd, cmuld, emb. cbn [fst snd]. ra_simpl. f_equal; f_equal; ring.
      - cbn [Nat.eqb Nat.ltb Nat.leb]. ra_simpl. rewrite HL by lia. unfold emb. cbn [fst snd]. reflexivity. }
    destruct (block_mu RA 0 b x) as [m1 m2].
    destruct (if Nat.ltb 2 (bLamType b) then (nth (mlbl el) PM (azero RA, azero RA), nth (mlbl el) PM (azero RA, azero RA))
              else (m1, m2)) as [hm1 hm2].
    destruct (el_mu RA b) as [mu1 mu2]. cbn [fst snd] in G. inversion G; subst hm1 hm2.
    destruct (nth (mlbl el) (aext AP) false); [|reflexivity].
    unfold cdivd, emb. cbn [fst snd]. ra_simpl. f_equal; f_equal; unfold Rdiv; ring.
  Qed.

  (* AT OMEGA = 0 THE HARMONIC ELEMENT IS THE STATIC ELEMENT: element matrix and load of
     HarmonicAxisymmetric with w = 0 are those of StaticAxisymmetric, imaginary parts zero.  (The two solvers
     then assemble them with opposite signs: L += Me, b += be there, L -= Me, b -= be here.) *)
  Theorem haelem_matrices_omega0 el lg :
    block_ok (mblk el) -> label_ok el ->
    fst (e_mu AP extRo extRi extZo el) <> 0 -> snd (e_mu AP extRo extRi extZo el) <> 0 ->
    let h := haelem_matrices RA AP X PM 0 extRo extRi extZo hres (el, lg) in
    let r := amelem_matrices RA AP extRo extRi extZo res (el, lg) in
    fst (fst (fst h)) = map emb (fst (fst r)) /\ snd (fst (fst h)) = map emb (snd (fst r)).
  Proof.
    intros HB HL H1 H2 h r. unfold h, r, haelem_matrices, amelem_matrices. cbv zeta.
    rewrite (hael_shape_embed el lg).
    destruct (ael_shape_spec AP el lg) as (Sx & Sy & Sxy & _).
    destruct (ael_shape RA P el lg) as [[Mx My] Mxy]. cbn [fst snd] in Sx, Sy, Sxy |- *.
    assert (EK : haeddy_K RA P 0 el (gr (mel_geom RA P el)) (ga (mel_geom RA P el)) = (0, 0)).
    { unfold haeddy_K. destruct (is_wound RA P _); [reflexivity|]. destruct (_ && _)%bool; [reflexivity|].
      unfold cdivd, cmuld, cneg, cI. cbn [fst snd]. ra_simpl. f_equal; unfold Rdiv; ring. }
    ra_simpl. rewrite EK, haeddy_zero.
    assert (S0 : sym9 (repeat 0 9)) by (cbn; do 6 eexists; reflexivity).
    assert (B0 : len3 (repeat 0 3)) by (cbn; do 3 eexists; reflexivity).
    change (repeat (0, 0) 3) with (map emb (repeat 0 3)).
    rewrite (hamixed_fold_embed (mel_geom RA P el) (el_rn RA P el) el _ _ S0 B0).
    destruct (amixed_fold_shape AP (mel_geom RA P el) (el_rn RA P el) el _ _ S0 B0) as [S1 B1].
    destruct (fold_left (amixed_step RA P (mel_geom RA P el) (el_rn RA P el) el) [0%nat; 1%nat; 2%nat]
                        (repeat 0 9, repeat 0 3)) as [Me be]. cbn [fst snd] in S1, B1 |- *.
    rewrite (hacirc_Jv_embed el (gr (mel_geom RA P el))).
    rewrite (hael_mu_embed el (gr (mel_geom RA P el)) (el_zn RA P el) HB HL).
    unfold e_mu, e_R in H1, H2.
    destruct (ael_mu RA AP extRo extRi extZo el (gr (mel_geom RA P el)) (el_zn RA P el)) as [mu1 mu2].
    cbn [fst snd] in *.
    destruct HB as (HJi & HHc & _). cbv zeta in HJi, HHc.
    split.
    - apply hcombine_embed; assumption.
    - destruct B1 as (b0 & b1 & b2 & ->). rewrite HJi.
      unfold amagnet_step. rewrite HHc.
      cbn. unfold hv3add, v3add, re_I_im, cadd, cdivd, cmuld, cI, emb, vget. cbn [fst snd nth vset map].
      ra_simpl. list_pair_eq; unfold Rdiv; ring.
  Qed.
End Omega0.

(* ------------------------------------------------------------------------------------------ *)
Section Omega0Circuits.
  Lemma wfreq_zero : wfreq RA 0 = 0.
  Proof. unfold wfreq. ra_simpl. ring. Qed.

  Lemma vget_map_emb (c : vecT R) i : vget CC (map emb c) i = emb (vgetR c i).
  Proof. unfold vget. change (azero CC) with (emb 0). apply map_nth. Qed.
  Lemma vset_map_emb (c : vecT R) i v : vset (map emb c) i (emb v) = map emb (vset c i v).
  Proof. revert i. induction c as [|x t IH]; intros [|i]; cbn; try reflexivity. rewrite IH. reflexivity. Qed.
  Lemma repeat_emb n : repeat (0, 0) n = map emb (repeat 0 n).
  Proof. induction n; cbn; [reflexivity|]. rewrite IHn. reflexivity. Qed.

  (* 1/(0.01*r) = 100/r for every real r (also r = 0: both sides are 100 * /0) *)
  Lemma inv_e2_r r : / (e2 RA * r) = 100 * / r.
  Proof.
    rewrite e2_val. unfold Rdiv. rewrite Rmult_1_l, Rinv_mult, Rinv_inv. reflexivity.
  Qed.

  Variable P : probR.
  Hypothesis HJim : forall i, bJim (nth i (mblocks P) (dmblock RA)) = 0.

  Lemma hacirc_step_embed (c1 c2 c3 : vecT R) el :
    hacirc_step RA P (map emb c1, map emb c2, map emb c3) el
    = (map emb (fst (fst (acirc_step RA P (c1, c2, c3) el))), map emb (snd (fst (acirc_step RA P (c1, c2, c3) el))),
       map emb (snd (acirc_step RA P (c1, c2, c3) el))).
  Proof.
    unfold hacirc_step, acirc_step.
    destruct (lcirc (nth (mlbl el) (mlabels P) dmlabel)) as [ic|]; [|reflexivity].
    cbn [fst snd]. rewrite !vget_map_emb, HJim.
    set (Cd := if is_wound RA P (nth (mlbl el) (mlabels P) dmlabel) then azero RA else bCduct (nth (mblk el) (mblocks P) (dmblock RA))).
    rewrite <- !vset_map_emb. ra_simpl.
    f_equal; [f_equal|]; f_equal; unfold caddd, cadd, re_I_im, cmuld, cI, emb; cbn [fst snd]; ra_simpl;
      apply f_equal2; try ring.
    unfold Rdiv. rewrite inv_e2_r. ring.
  Qed.

  Lemma hacirc_fold_embed : forall (els : list elemR) (c1 c2 c3 : vecT R),
    fold_left (hacirc_step RA P) els (map emb c1, map emb c2, map emb c3)
    = (map emb (fst (fst (fold_left (acirc_step RA P) els (c1, c2, c3)))),
       map emb (snd (fst (fold_left (acirc_step RA P) els (c1, c2, c3)))),
       map emb (snd (fold_left (acirc_step RA P) els (c1, c2, c3)))).
  Proof.
    induction els as [|el els IH]; intros c1 c2 c3; [reflexivity|].
    cbn [fold_left]. rewrite hacirc_step_embed.
    destruct (acirc_step RA P (c1, c2, c3) el) as [[d1 d2] d3]. cbn [fst snd]. apply IH.
  Qed.

  (* real circuit excitations; no circuit of the "total current" type contains (effective) conductivity,
     i.e. StaticAxisymmetric's CircInt2 vanishes: otherwise HarmonicAxisymmetric makes the circuit's voltage
     gradient an extra unknown (Case 2), whose row and column are identically zero at omega = 0 *)
  Hypothesis HCre : forall i, cAim (nth i (mcircs P) (dmcirc RA)) = 0 /\ cdVim (nth i (mcircs P) (dmcirc RA)) = 0.
  Hypothesis HNo2 : forall i, (i < length (mcircs P))%nat -> cType (nth i (mcircs P) (dmcirc RA)) = 0%nat ->
    vgetR (snd (fst (acirc_ints RA P (length (mcircs P))))) i = 0.

  Theorem hacirc_results_embed : res_embed (acirc_results RA P) (hacirc_results RA P).
  Proof.
    intros k. cbv zeta. rewrite (acirc_results_nth P k).
    unfold hacirc_results, hacirc_ints. rewrite !repeat_emb, hacirc_fold_embed.
    pose proof (HNo2 k) as H2. unfold acirc_ints in *. ra_simpl.
    destruct (fold_left (acirc_step RA P) (melems P)
                (repeat 0 (length (mcircs P)), repeat 0 (length (mcircs P)), repeat 0 (length (mcircs P)))) as [[c1 c2] c3].
    cbn [fst snd] in *.
    destruct (Nat.ltb_spec k (length (mcircs P))) as [Hk|Hk].
    - rewrite (nth_map_combine_seq _ (mcircs P) (dmcirc RA)) by exact Hk. cbn [fst snd].
      rewrite !vget_map_emb.
      destruct (HCre k) as [A0 V0]. specialize (H2 Hk).
      unfold hcirc_case, circ_case. rewrite A0, V0.
      destruct (Nat.eqb_spec (cType (nth k (mcircs P) (dmcirc RA))) 0) as [ET|ET].
      + rewrite (H2 ET). unfold ceq0, emb. cbn [fst snd]. ra_simpl.
        replace (Reqb 0 0) with true by (symmetry; apply Reqb_true; reflexivity). cbn [andb].
        destruct (Reqb (vgetR c1 k) 0) eqn:E1; cbn [fst snd]; [repeat split; reflexivity|].
        apply Reqb_false in E1. repeat split; try reflexivity.
        change (vgetR c1 k, 0) with (emb (vgetR c1 k)).
        replace (cmuld RA (csub RA (re_I_im RA (cAre (nth k (mcircs P) (dmcirc RA))) 0) (vgetR c3 k, 0)) (e2 RA))
          with (emb ((cAre (nth k (mcircs P) (dmcirc RA)) - vgetR c3 k) * e2 RA))
          by (unfold re_I_im, cmuld, csub, cI, emb; cbn [fst snd]; ra_simpl; apply f_equal2; ring).
        cbn [andb]. rewrite cdiv_emb by exact E1. unfold emb. apply f_equal2; [unfold Rdiv; ring | reflexivity].
      + cbn [fst snd]. repeat split; try reflexivity.
        unfold re_I_im, cmuld, cI, emb. cbn [fst snd]. ra_simpl. apply f_equal2; ring.
    - rewrite nth_overflow by (rewrite map_length, combine_length, seq_length; lia).
      cbn. repeat split; reflexivity.
  Qed.
End Omega0Circuits.

(* ------------------------------------------------------------------------------------------ *)
(* the sparse matrix of the complex problem as the value-wise image of the real one *)
Section MatrixImage.
  Variable f : R -> C.
  Hypothesis f0 : f 0 = (0, 0).

  Definition rowmap (r : rowT R) : rowT C := map (fun e => (fst e, f (snd e))) r.
  Definition mmapv (M : matrixT R) : matrixT C := map rowmap M.

  Lemma get_row_map q : forall r, get_row CC q (rowmap r) = f (get_row RA q r).
  Proof.
    induction r as [|[c x] r IH]; cbn [rowmap map get_row fst snd]; [symmetry; exact f0|].
    destruct (Nat.eqb c q); [reflexivity|]. destruct (Nat.ltb c q); [exact IH|symmetry; exact f0].
  Qed.

  Lemma put_row_map v q : forall r, put_row (f v) q (rowmap r) = rowmap (put_row v q r).
  Proof.
    induction r as [|[c x] r IH]; cbn [rowmap map put_row fst snd]; [reflexivity|].
    destruct (Nat.eqb c q); [reflexivity|]. destruct (Nat.ltb c q); [|reflexivity].
    destruct r as [|e r']; [reflexivity|]. cbn [map]. f_equal. exact IH.
  Qed.

  Lemma upd_nth_map_app {T U} (g : T -> U) (h : U -> U) (h' : T -> T) (l : list T) (t : list U) i :
    (forall x, h (g x) = g (h' x)) -> (i < length l)%nat ->
    upd_nth (map g l ++ t) i h = map g (upd_nth l i h') ++ t.
  Proof.
    intros Hh. revert i. induction l as [|x l IH]; intros i Hi; [cbn in Hi; lia|].
    destruct i as [|i]; cbn [map app upd_nth]; [rewrite Hh; reflexivity|].
    rewrite IH by (cbn in Hi; lia). reflexivity.
  Qed.

  Lemma nth_map_lt {T U} (g : T -> U) (l : list T) i d d' : (i < length l)%nat -> nth i (map g l) d' = g (nth i l d).
  Proof. revert i. induction l as [|x l IH]; intros [|i] Hi; cbn in *; try lia; [reflexivity|]. apply IH. lia. Qed.

  Lemma mput_image (M : matrixT R) (T : matrixT C) v p q : (p < length M)%nat -> (q < length M)%nat ->
    mput (mmapv M ++ T) (f v) p q = mmapv (mput M v p q) ++ T.
  Proof.
    intros Hp Hq. unfold mput, mmapv.
    destruct (Nat.ltb q p); apply upd_nth_map_app; auto using put_row_map.
  Qed.

  Lemma mget_image (M : matrixT R) (T : matrixT C) p q : (p < length M)%nat -> (q < length M)%nat ->
    mget CC (mmapv M ++ T) p q = f (mget RA M p q).
  Proof.
    intros Hp Hq. unfold mget, mmapv.
    destruct (Nat.ltb q p); rewrite app_nth1 by (rewrite map_length; assumption);
      rewrite (nth_map_lt rowmap _ _ []) by assumption; apply get_row_map.
  Qed.

  Lemma vget_image (b : vecT R) (t : list C) i : (i < length b)%nat -> vget CC (map f b ++ t) i = f (vgetR b i).
  Proof.
    intros Hi. unfold vget. rewrite app_nth1 by (rewrite map_length; exact Hi).
    change (azero CC) with ((0, 0) : C). rewrite <- f0. apply map_nth.
  Qed.

  Lemma vset_image (b : vecT R) (t : list C) i v : (i < length b)%nat ->
    vset (map f b ++ t) i (f v) = map f (vset b i v) ++ t.
  Proof.
    revert i. induction b as [|x b IH]; intros i Hi; [cbn in Hi; lia|].
    destruct i as [|i]; cbn [map app vset]; [reflexivity|]. rewrite IH by (cbn in Hi; lia). reflexivity.
  Qed.
End MatrixImage.

(* the sign flip between the two solvers: HarmonicAxisymmetric assembles  L += Me, b += be,
   StaticAxisymmetric  L -= Me, b -= be *)
Definition negemb (x : R) : C := emb (- x).
Lemma negemb0 : negemb 0 = (0, 0).
Proof. unfold negemb, emb. rewrite Ropp_0. reflexivity. Qed.

Section Omega0Loop.
  Variables (AP : aprobR) (X : list (hexp (F:=R))) (PM : list C) (extRo extRi extZo : R)
            (res : list (nat * R * R)) (hres : list (nat * C * C)).
  Local Notation P := (ap AP).
  Hypothesis HRes : res_embed res hres.
  Hypothesis HLines : lines_real AP.
  (* no circuit of HarmonicAxisymmetric is Case 2 *)
  Hypothesis HNo2 : forall k, fst (fst (nth k hres (dhres RA))) <> 2%nat.

  Definition el_omega0_ok (ela : elemR * alogsR) : Prop :=
    block_ok AP X (mblk (fst ela)) /\ label_ok AP PM (fst ela) /\
    fst (e_mu AP extRo extRi extZo (fst ela)) <> 0 /\ snd (e_mu AP extRo extRi extZo (fst ela)) <> 0.

  Lemma caddto_image (M : matrixT R) (T : matrixT C) v p q : (p < length M)%nat -> (q < length M)%nat ->
    caddto RA (mmapv negemb M ++ T) (emb v) p q = mmapv negemb (msub RA M v p q) ++ T.
  Proof.
    intros Hp Hq. unfold caddto, maddto, msub.
    rewrite (mget_image negemb negemb0) by assumption.
    replace (aadd CC (negemb (mget RA M p q)) (emb v)) with (negemb (asub RA (mget RA M p q) v))
      by (unfold negemb, emb; cbn [aadd CA]; unfold cadd; cbn [fst snd]; ra_simpl; apply f_equal2; ring).
    apply (mput_image negemb); assumption.
  Qed.

  Lemma haelem_step_image nn (M : matrixT R) (T : matrixT C) (b : vecT R) (tb : list C) ela :
    el_omega0_ok ela -> elem_okM (length M) (fst ela) -> length b = length M ->
    haelem_step RA AP X PM 0 extRo extRi extZo hres nn (mmapv negemb M ++ T, map negemb b ++ tb) ela
    = (mmapv negemb (fst (amelem_step RA AP extRo extRi extZo res (M, b) ela)) ++ T,
       map negemb (snd (amelem_step RA AP extRo extRi extZo res (M, b) ela)) ++ tb).
  Proof.
    intros (HB & HL & H1 & H2) (Hd & K0 & K1 & K2) Hb. destruct ela as [el lg]. cbn [fst] in *.
    unfold haelem_step, amelem_step. cbn [fst snd].
    destruct (haelem_matrices_omega0 AP X PM extRo extRi extZo res hres HRes HLines el lg HB HL H1 H2) as [EM EB].
    destruct (haelem_matrices RA AP X PM 0 extRo extRi extZo hres (el, lg)) as [[[hMe hbe] hKj] hmu].
    destruct (amelem_matrices RA AP extRo extRi extZo res (el, lg)) as [[Me be] mu]. cbn [fst snd] in EM, EB. subst hMe hbe.
    assert (NC : snd (hacirc_Jv RA P hres el (gr (mel_geom RA P el))) = None).
    { unfold hacirc_Jv. destruct (lcirc (nth (mlbl el) (mlabels P) dmlabel)) as [k|]; [|reflexivity].
      pose proof (HNo2 k) as N. destruct (nth k hres (dhres RA)) as [[c J] dV]. cbn [fst snd] in *.
      apply Nat.eqb_neq in N. rewrite N. reflexivity. }
    rewrite NC. unfold ascatter. cbn [fold_left Nat.leb fst snd].
    assert (G : forall j k, h3get RA (map emb Me) j k = emb (m3get RA Me j k)).
    { intros j k. unfold h3get, m3get. change (azero RA, azero RA) with (emb 0). apply map_nth. }
    assert (GB : forall j, vget CC (map emb be) j = emb (vgetR be j)) by (intros; apply vget_map_emb).
    rewrite !G, !GB.
    assert (VB : forall (b0 : vecT R) i v, (i < length b0)%nat ->
              vset (map negemb b0 ++ tb) i (cadd RA (vget CC (map negemb b0 ++ tb) i) (emb v))
              = map negemb (vset b0 i (vgetR b0 i - v)) ++ tb).
    { intros b0 i v Hi. rewrite (vget_image negemb negemb0) by exact Hi.
      replace (cadd RA (negemb (vgetR b0 i)) (emb v)) with (negemb (vgetR b0 i - v))
        by (unfold negemb, emb, cadd; cbn [fst snd]; ra_simpl; apply f_equal2; ring).
      apply (vset_image negemb). exact Hi. }
    repeat (rewrite caddto_image by (rewrite ?mput_length; unfold msub; rewrite ?mput_length; assumption)).
    ra_simpl.
    rewrite VB by lia. rewrite VB by (rewrite vset_length; lia). rewrite VB by (rewrite !vset_length; lia).
    reflexivity.
  Qed.

  Lemma amelem_step_lengths (M : matrixT R) (b : vecT R) ela :
    length (fst (amelem_step RA AP extRo extRi extZo res (M, b) ela)) = length M /\
    length (snd (amelem_step RA AP extRo extRi extZo res (M, b) ela)) = length b.
  Proof.
    unfold amelem_step. destruct (amelem_matrices RA AP extRo extRi extZo res ela) as [[Me be] mu].
    unfold ascatter. cbn [fold_left Nat.leb fst snd]. unfold msub.
    rewrite !mput_length, !vset_length. split; reflexivity.
  Qed.

  Lemma haloop_image nn (T : matrixT C) (tb : list C) : forall (els : list (elemR * alogsR)) (M : matrixT R) (b : vecT R),
    Forall el_omega0_ok els -> Forall (fun ela => elem_okM (length M) (fst ela)) els -> length b = length M ->
    fold_left (haelem_step RA AP X PM 0 extRo extRi extZo hres nn) els (mmapv negemb M ++ T, map negemb b ++ tb)
    = (mmapv negemb (fst (fold_left (amelem_step RA AP extRo extRi extZo res) els (M, b))) ++ T,
       map negemb (snd (fold_left (amelem_step RA AP extRo extRi extZo res) els (M, b))) ++ tb).
  Proof.
    induction els as [|ela els IH]; intros M b H1 H2 Hb; [reflexivity|].
    apply Forall_cons_iff in H1. destruct H1 as [E1 H1]. apply Forall_cons_iff in H2. destruct H2 as [E2 H2].
    cbn [fold_left]. rewrite (haelem_step_image nn M T b tb ela E1 E2 Hb).
    destruct (amelem_step_lengths M b ela) as [LM Lb].
    destruct (amelem_step RA AP extRo extRi extZo res (M, b) ela) as [M1 b1]. cbn [fst snd] in *.
    apply IH; [exact H1 | rewrite LM; exact H2 | lia].
  Qed.
End Omega0Loop.

Section Omega0Raw.
  Variables (AP : aprobR) (X : list (hexp (F:=R))) (PM : list C) (bw bw' : nat) (prec prec' : R).
  Local Notation P := (ap AP).
  Local Notation nn := (length (mnodes P)).
  Local Notation nc := (length (mcircs P)).
  Local Notation u := (aunit RA P).

  (* the problem is one on which both solvers are defined alike *)
  Hypothesis HLines : lines_real AP.
  Hypothesis HJim : forall i, bJim (nth i (mblocks P) (dmblock RA)) = 0.
  Hypothesis HCre : forall i, cAim (nth i (mcircs P) (dmcirc RA)) = 0 /\ cdVim (nth i (mcircs P) (dmcirc RA)) = 0.
  Hypothesis HPim : forall i, pJim (nth i (mpoints P) (dmpoint RA)) = 0.
  Hypothesis HNo2 : forall i, (i < nc)%nat -> cType (nth i (mcircs P) (dmcirc RA)) = 0%nat ->
    vgetR (snd (fst (acirc_ints RA P nc))) i = 0.
  Hypothesis HEls : Forall (el_omega0_ok AP X PM (aRo_raw AP * u) (aRi_raw AP * u) (aZo_raw AP * u)) (combine (melems P) (alg AP)).
  Hypothesis HMesh : Forall (fun ela : elemR * alogsR => elem_okM nn (fst ela)) (combine (melems P) (alg AP)).

  Lemma mcreate_image : mcreate CC (nn + nc) = mmapv negemb (mcreate RA nn) ++ map (fun i => [(i, (0, 0))]) (seq nn nc).
  Proof.
    unfold mcreate, mmapv. rewrite seq_app, map_app, map_map. cbn [Nat.add]. f_equal.
    apply map_ext. intros i. cbn. unfold negemb, emb. ra_simpl. rewrite Ropp_0. reflexivity.
  Qed.

  Lemma vzero_image : vzero CC (nn + nc) = map negemb (vzero RA nn) ++ repeat (0, 0) nc.
  Proof.
    unfold vzero. rewrite repeat_app. f_equal. ra_simpl.
    generalize nn. intros n. induction n; cbn; [reflexivity|]. rewrite negemb0. f_equal. assumption.
  Qed.

  Lemma combine_seq_bound {T} (l : list T) : forall a,
    Forall (fun in_ : nat * T => (fst in_ < a + length l)%nat) (combine (seq a (length l)) l).
  Proof.
    induction l as [|x l IH]; intros a; cbn [length seq combine]; constructor; [cbn [fst]; lia|].
    eapply Forall_impl; [|apply (IH (S a))]. intros [i nd] H. cbn [fst] in *. lia.
  Qed.

  Lemma hapoint_currents_image (b : vecT R) (tb : list C) : length b = nn ->
    hapoint_currents RA P (map negemb b ++ tb) = map negemb (apoint_currents RA P b) ++ tb.
  Proof.
    unfold hapoint_currents, apoint_currents. intros Hb.
    assert (G : forall (l : list (nat * mnode (F:=R))) (b0 : vecT R), length b0 = nn ->
              Forall (fun in_ => (fst in_ < nn)%nat) l ->
              fold_left (fun b1 in_ => match mbm (snd in_) with
                                       | Some m => vset b1 (fst in_) (csub RA (vget CC b1 (fst in_))
                                                      (cmuld RA (re_I_im RA (pJre (nth m (mpoints P) (dmpoint RA))) (pJim (nth m (mpoints P) (dmpoint RA))))
                                                                (aofZ RA 2 * mx (snd in_) * e2 RA)))
                                       | None => b1 end) l (map negemb b0 ++ tb)
              = map negemb (fold_left (fun b1 in_ => match mbm (snd in_) with
                                                     | Some m => vset b1 (fst in_) (vgetR b1 (fst in_) + e2 RA * pJre (nth m (mpoints P) (dmpoint RA)) * aofZ RA 2 * mx (snd in_))
                                                     | None => b1 end) l b0) ++ tb).
    { induction l as [|[i nd] l IH]; intros b0 H0 HF; [reflexivity|].
      apply Forall_cons_iff in HF. destruct HF as [Hi HF]. cbn [fst snd] in Hi.
      cbn [fold_left fst snd]. destruct (mbm nd) as [m|]; [|apply IH; assumption].
      rewrite (vget_image negemb negemb0) by lia. rewrite HPim.
      match goal with |- context [vset (map negemb b0 ++ tb) i ?v] =>
        replace v with (negemb (vgetR b0 i + e2 RA * pJre (nth m (mpoints P) (dmpoint RA)) * aofZ RA 2 * mx nd))
          by (unfold negemb, emb, csub, re_I_im, cmuld, cI; cbn [fst snd]; ra_simpl; apply f_equal2; ring) end.
      rewrite (vset_image negemb) by lia. apply IH; [rewrite vset_length; exact H0 | exact HF]. }
    ra_simpl. apply G; [exact Hb|]. apply (combine_seq_bound (mnodes P) 0).
  Qed.

  Lemma acirc_case_le1 k : (fst (fst (nth k (acirc_results RA P) (dres RA))) <= 1)%nat.
  Proof.
    rewrite acirc_results_nth. destruct (Nat.ltb k nc); [apply circ_case_01 | cbn; lia].
  Qed.

  Lemma hres_no2 k : fst (fst (nth k (hacirc_results RA P) (dhres RA))) <> 2%nat.
  Proof.
    destruct (hacirc_results_embed P HJim HCre HNo2 k) as (C1 & _). cbv zeta in C1. rewrite C1.
    pose proof (acirc_case_le1 k). lia.
  Qed.

  Lemma hacirc_constraints_id (b : list C) : hacirc_constraints RA P (hacirc_results RA P) nn b = b.
  Proof.
    unfold hacirc_constraints.
    assert (F : Forall (fun ic : nat * (mcirc (F:=R) * (nat * C * C)) => fst (fst (snd (snd ic))) <> 2%nat)
                       (combine (seq 0 nc) (combine (mcircs P) (hacirc_results RA P)))).
    { apply Forall_forall. intros [i [c r]] Hin. cbn [fst snd].
      apply in_combine_r in Hin. apply in_combine_r in Hin.
      destruct (In_nth _ _ (dhres RA) Hin) as (k & _ & <-). apply hres_no2. }
    revert b. induction F as [|[i [c r]] l Hx F IH]; intros b; [reflexivity|].
    cbn [fold_left]. cbn [fst snd] in Hx. apply Nat.eqb_neq in Hx. rewrite Hx. apply IH.
  Qed.

  Lemma aloop_lengths extRo extRi extZo res : forall (els : list (elemR * alogsR)) (M : matrixT R) (b : vecT R),
    length (fst (fold_left (amelem_step RA AP extRo extRi extZo res) els (M, b))) = length M /\
    length (snd (fold_left (amelem_step RA AP extRo extRi extZo res) els (M, b))) = length b.
  Proof.
    induction els as [|ela els IH]; intros M b; [split; reflexivity|].
    cbn [fold_left]. destruct (amelem_step_lengths AP extRo extRi extZo res M b ela) as [LM Lb].
    destruct (amelem_step RA AP extRo extRi extZo res (M, b) ela) as [M1 b1]. cbn [fst snd] in *.
    destruct (IH M1 b1) as [L1 L2]. split; congruence.
  Qed.

  (* AT OMEGA = 0 THE HARMONIC SYSTEM IS THE NEGATED STATIC SYSTEM, after the element loop, the point currents
     and the circuit constraints (before the prescribed values and periodic pairs): node block entry by entry
     (M_h = -M_s, b_h = -b_s, imaginary parts zero), the rows of the NumCircProps extra unknowns untouched.
     PARTIAL: the SetValue / periodicity stage is not covered; there the two solvers differ in code
     (staticaxi.cpp:676 guards SetValue by x != 0 and tests fabs(x) on the axis, harmonicaxi.cpp:651,686 do not). *)
  Theorem asmMHAxi_raw_omega0 :
    let Ls := asmMAxi_raw RA AP bw' prec' (acirc_results RA P) in
    let Lh := asmMHAxi_raw RA AP X PM 0 bw prec (hacirc_results RA P) in
    CSparse.cM Lh = mmapv negemb (lM Ls) ++ map (fun i => [(i, (0, 0))]) (seq nn nc) /\
    cb Lh = map negemb (lb Ls) ++ repeat (0, 0) nc.
  Proof.
    unfold asmMHAxi_raw, asmMAxi_raw. cbv zeta. rewrite wfreq_zero.
    unfold ccreate, lcreate, cwith, lwithMb. cbn [CSparse.cM cb lM lb cn cbdw cnodes cV cprec clam].
    rewrite mcreate_image, vzero_image.
    rewrite (haloop_image AP X PM (aRo_raw AP * u) (aRi_raw AP * u) (aZo_raw AP * u)
               (acirc_results RA P) (hacirc_results RA P) (hacirc_results_embed P HJim HCre HNo2) HLines hres_no2 nn);
      [ | exact HEls | rewrite mcreate_length; exact HMesh | rewrite mcreate_length; apply vzero_length ].
    destruct (aloop_lengths (aRo_raw AP * u) (aRi_raw AP * u) (aZo_raw AP * u) (acirc_results RA P)
                (combine (melems P) (alg AP)) (mcreate RA nn) (vzero RA nn)) as [LM Lb].
    ra_simpl.
    destruct (fold_left (amelem_step RA AP (aRo_raw AP * u) (aRi_raw AP * u) (aZo_raw AP * u) (acirc_results RA P))
                        (combine (melems P) (alg AP)) (mcreate RA nn, vzero RA nn)) as [M b].
    cbn [fst snd] in *. rewrite vzero_length in Lb.
    rewrite (hapoint_currents_image b _ Lb), hacirc_constraints_id.
    split; reflexivity.
  Qed.

  (* read off entry by entry *)
  Corollary asmMHAxi_raw_omega0_entries :
    let Ls := asmMAxi_raw RA AP bw' prec' (acirc_results RA P) in
    let Lh := asmMHAxi_raw RA AP X PM 0 bw prec (hacirc_results RA P) in
    length (lM Ls) = nn -> length (lb Ls) = nn ->
    (forall i j, (i < nn)%nat -> (j < nn)%nat -> mget CC (CSparse.cM Lh) i j = (- mget RA (lM Ls) i j, 0)) /\
    (forall i, (i < nn)%nat -> vget CC (cb Lh) i = (- vgetR (lb Ls) i, 0)).
  Proof.
    intros Ls Lh LM Lb. destruct asmMHAxi_raw_omega0 as [EM Eb]. fold Ls Lh in EM, Eb. rewrite EM, Eb. split.
    - intros i j Hi Hj. rewrite (mget_image negemb negemb0) by lia. reflexivity.
    - intros i Hi. rewrite (vget_image negemb negemb0) by lia. reflexivity.
  Qed.
End Omega0Raw.

(* ------------------------------------------------------------------------------------------ *)
Section EddyTerm.
  (* the eddy-current term of HarmonicAxisymmetric: the induced current density -j w sigma A is taken constant
     over the element (average of the nodal values), weighted with R*a: every entry of the element matrix
     receives  K*4/3 = -j w sigma c * (2/9) R a  (solid conductor: not wound, no lamination thickness) *)
  Theorem haeddy_K_value (P : probR) w el Rc a :
    is_wound RA P (nth (mlbl el) (mlabels P) dmlabel) = false ->
    (bLamType (nth (mblk el) (mblocks P) (dmblock RA)) <> 0%nat \/ ~ 0 < bLamd (nth (mblk el) (mblocks P) (dmblock RA))) ->
    haeddy_K RA P w el Rc a = (0, - (w * bCduct (nth (mblk el) (mblocks P) (dmblock RA)) * c4pi RA * Rc * a / 6)).
  Proof.
    intros Hw Hl. unfold haeddy_K. rewrite Hw.
    replace (Nat.eqb (bLamType (nth (mblk el) (mblocks P) (dmblock RA))) 0 && altb RA (azero RA) (bLamd (nth (mblk el) (mblocks P) (dmblock RA))))%bool
      with false.
    - unfold cdivd, cmuld, cneg, cI. cbn [fst snd]. ra_simpl. apply f_equal2; unfold Rdiv; ring.
    - symmetry. destruct Hl as [Hl|Hl].
      + apply Nat.eqb_neq in Hl. rewrite Hl. reflexivity.
      + ra_simpl. replace (Rltb 0 (bLamd (nth (mblk el) (mblocks P) (dmblock RA)))) with false
          by (symmetry; apply Rltb_false; exact Hl). apply andb_false_r.
  Qed.

  Theorem haeddy_add_pattern (K : C) j k : (j < 3)%nat -> (k < 3)%nat ->
    h3get RA (haeddy_add RA (repeat (0, 0) 9) K) j k = (fst K * 4 / 3, snd K * 4 / 3).
  Proof.
    intros Hj Hk. destruct K as [kr ki].
    destruct j as [|[|[|j]]]; try lia; destruct k as [|[|[|k]]]; try lia;
      cbn; unfold cadd, cdivd, cmuld; cbn [fst snd]; ra_simpl; apply f_equal2; unfold Rdiv; ring.
  Qed.
End EddyTerm.
