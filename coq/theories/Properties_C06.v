(* Properties_C06.v — theorem statements for C06 (closed-form fields are reproduced). *)
From Coq Require Import ZArith List Bool Arith Lia Reals Lra.
From XF Require Import Arith Sparse AsmE AsmEProofs ClosedFormProofs.
Import ListNotations.
Local Open Scope R_scope.

(* the element row applied to an affine potential V = c0 + alpha x + beta y, planar and axisymmetric *)
Theorem C06_element_row_on_affine_field :
  forall (P : eprob (F:=R)) (extRo extRi extZo D0 k0 : R) (el : eelem) (c0 alpha beta : R) (j : nat),
  ee el = (None, None, None) -> (j < 3)%nat ->
  ga (el_geom P el) <> 0 -> snd (elem_dk P extRo extRi extZo D0 k0 el) <> 0 ->
  let r := elem_matrices RA P extRo extRi extZo D0 k0 el in
  let blk := nth (eblk el) (blocks P) (dblock RA) in
  let nd := fun t => nth (tri_get (ep el) t) (nodes P) (dnode RA) in
  let Vn := fun t => c0 + alpha * nx (nd t) + beta * ny (nd t) in
  let g := el_geom P el in
  m3get RA (snd (fst r)) j 0 * Vn 0%nat + m3get RA (snd (fst r)) j 1 * Vn 1%nat + m3get RA (snd (fst r)) j 2 * Vn 2%nat
  = - fst (elem_dk P extRo extRi extZo D0 k0 el) / snd (elem_dk P extRo extRi extZo D0 k0 el) / 2
      * (bex blk * alpha * vget RA (gp g) j + bey blk * beta * vget RA (gq g) j).
Proof. exact stiffness_row_on_affine. Qed.
Print Assumptions C06_element_row_on_affine_field.

(* around ANY closed fan (any number of elements, any coordinates) these contributions cancel: an
   affine potential satisfies the assembled equation of every interior node, on every mesh *)
Theorem C06_fan_row_zero : forall (ring : list (R * R)) (Depth ex ey alpha beta : R),
  lsumR (fun pq => - Depth / 2 * (ex * alpha * (snd (fst pq) - snd (snd pq)) + ey * beta * (fst (snd pq) - fst (fst pq))))
        (ring_pairs ring) = 0.
Proof. exact fan_row_zero. Qed.
Print Assumptions C06_fan_row_zero.

Theorem C06_interface_row_zero : forall (Depth ex1 ex2 ey1 ey2 a1 a2 beta ytop ybot xl xr xi : R),
  ex1 * a1 = ex2 * a2 ->
  - Depth / 2 * (ex1 * a1 * (ytop - ybot) + ey1 * beta * (xi - xi))
  + - Depth / 2 * (ex2 * a2 * (ybot - ytop) + ey2 * beta * (xi - xi)) = 0.
Proof. exact interface_row_zero. Qed.
Print Assumptions C06_interface_row_zero.

(* derived quantity: the element energy of an affine field is 1/2 (ex Ex^2 + ey Ey^2) * depth * area *)
Theorem C06_affine_energy : forall (x0 y0 x1 y1 x2 y2 depth ex ey c0 alpha beta : R),
  let g := geom RA x0 y0 x1 y1 x2 y2 in
  ga g <> 0 ->
  let v := fun t => match t with 0%nat => c0 + alpha * x0 + beta * y0 | 1%nat => c0 + alpha * x1 + beta * y1 | _ => c0 + alpha * x2 + beta * y2 end in
  (v 0%nat * (galerkin_K depth ex ey g 0 0 * v 0%nat + galerkin_K depth ex ey g 0 1 * v 1%nat + galerkin_K depth ex ey g 0 2 * v 2%nat)
   + v 1%nat * (galerkin_K depth ex ey g 1 0 * v 0%nat + galerkin_K depth ex ey g 1 1 * v 1%nat + galerkin_K depth ex ey g 1 2 * v 2%nat)
   + v 2%nat * (galerkin_K depth ex ey g 2 0 * v 0%nat + galerkin_K depth ex ey g 2 1 * v 1%nat + galerkin_K depth ex ey g 2 2 * v 2%nat)) / 2
  = (ex * alpha * alpha + ey * beta * beta) / 2 * depth * ga g.
Proof. exact affine_energy. Qed.
Print Assumptions C06_affine_energy.
