(* MeshCheckProofs.v — soundness of the core of the mesh validator (MeshCheck.v) and the
   discrete Green identity: for an edge-manifold triangle list, the sum of the (signed, doubled)
   element areas equals the shoelace sum over the boundary edges.  All meshes, all sizes. *)
From Coq Require Import ZArith List Bool Arith PArith FMapPositive Lia Permutation.
From XF Require Import Sums MeshCheck.
Import ListNotations.
Local Open Scope Z_scope.

(* ---- sums over Z as an instance of Sums.v ---- *)
Definition zsum {E} (f : E -> Z) (l : list E) : Z := gsum Z Z.add 0 f l.

Lemma sumZ_zsum {E} (f : E -> Z) l : sumZ f l = zsum f l.
Proof. induction l as [|x t IH]; simpl; [reflexivity|]. unfold zsum in *. simpl. rewrite <- IH. reflexivity. Qed.

Lemma zsum_app {E} (f : E -> Z) l1 l2 : zsum f (l1 ++ l2) = zsum f l1 + zsum f l2.
Proof. apply (gsum_app Z Z.add 0); intros; lia. Qed.

Lemma zsum_filter_split {E} (f : E -> Z) (p : E -> bool) l :
  zsum f l = zsum f (filter p l) + zsum f (filter (fun x => negb (p x)) l).
Proof. apply (gsum_filter_split Z Z.add 0); intros; lia. Qed.

Lemma zsum_antisym_cancel {E} (rev : E -> E) (f : E -> Z) (l : list E) :
  NoDup l -> (forall e, In e l -> In (rev e) l) -> (forall e, rev (rev e) = e) ->
  (forall e, f (rev e) = - f e) -> zsum f l = 0.
Proof. apply (antisym_cancel Z Z.add Z.opp 0); intros; lia. Qed.

(* ---- triangles and directed edges ---- *)
Lemma tri_cross_sum X t : zsum (cross X) (dedges t) = area2 X t.
Proof.
  destruct t as [[a b] c]. unfold zsum, dedges, cross, area2, orient. simpl.
  destruct (ptget X a), (ptget X b), (ptget X c). simpl. ring.
Qed.

Lemma mesh_cross_sum X ts : zsum (cross X) (all_dedges ts) = zsum (area2 X) ts.
Proof.
  induction ts as [|t ts IH]; [reflexivity|].
  unfold all_dedges in *. simpl flat_map. rewrite zsum_app, IH, tri_cross_sum. reflexivity.
Qed.

Lemma cross_rev X e : cross X (revE e) = - cross X e.
Proof. unfold cross, revE. simpl. ring. Qed.

Definition dedge_eqb (e1 e2 : dedge) : bool := (fst e1 =? fst e2) && (snd e1 =? snd e2).
Lemma dedge_eqb_spec e1 e2 : dedge_eqb e1 e2 = true <-> e1 = e2.
Proof.
  destruct e1, e2. unfold dedge_eqb. simpl. rewrite andb_true_iff, !Z.eqb_eq.
  split; [intros [-> ->]; reflexivity|intros H; inversion H; auto].
Qed.
Definition mem_edge (e : dedge) (l : list dedge) : bool := existsb (dedge_eqb e) l.
Lemma mem_edge_spec e l : mem_edge e l = true <-> In e l.
Proof.
  unfold mem_edge. rewrite existsb_exists. split.
  - intros [x [Hx E]]. apply dedge_eqb_spec in E. subst. exact Hx.
  - intros H. exists e. split; [exact H|apply dedge_eqb_spec; reflexivity].
Qed.

(* boundary, specified without any table: directed edges whose reverse is not an element edge *)
Definition boundary_spec (ts : list tri) : list dedge :=
  filter (fun e => negb (mem_edge (revE e) (all_dedges ts))) (all_dedges ts).

(* The discrete Green identity *)
Theorem green X ts : NoDup (all_dedges ts) ->
  zsum (area2 X) ts = zsum (cross X) (boundary_spec ts).
Proof.
  intros Hnd. rewrite <- mesh_cross_sum.
  set (E := all_dedges ts) in *.
  rewrite (zsum_filter_split (cross X) (fun e => mem_edge (revE e) E) E).
  fold (boundary_spec ts). unfold boundary_spec. fold E.
  assert (Z0 : zsum (cross X) (filter (fun e => mem_edge (revE e) E) E) = 0).
  { apply (zsum_antisym_cancel revE).
    - apply NoDup_filter. exact Hnd.
    - intros e He. apply filter_In in He. destruct He as [HeE Hm].
      apply mem_edge_spec in Hm. apply filter_In. split; [exact Hm|].
      apply mem_edge_spec. destruct e. exact HeE.
    - intros [u v]. reflexivity.
    - intros e. apply cross_rev. }
  rewrite Z0. lia.
Qed.

(* ---- the table-based manifold check is sound ---- *)
Lemma ekey_inj n e1 e2 : 0 < n ->
  0 <= fst e1 -> 0 <= snd e1 < n -> 0 <= fst e2 -> 0 <= snd e2 < n ->
  ekey n e1 = ekey n e2 -> e1 = e2.
Proof.
  destruct e1 as [u1 v1], e2 as [u2 v2]. unfold ekey. simpl. intros Hn A1 B1 A2 B2 H.
  apply Z2Pos.inj in H; [|nia|nia].
  assert (u1 = u2) by nia. subst. f_equal. lia.
Qed.

Definition edge_ok (n : Z) (e : dedge) : Prop := 0 <= fst e < n /\ 0 <= snd e < n.

Lemma build_table_sound n : 0 < n -> forall es m m',
  Forall (fun x => edge_ok n (fst x)) es ->
  build_table n es m = Some m' ->
  NoDup (map fst es) /\
  (forall x, In x es -> PositiveMap.find (ekey n (fst x)) m = None) /\
  (forall e, edge_ok n e ->
     (PositiveMap.find (ekey n e) m' <> None <-> (PositiveMap.find (ekey n e) m <> None \/ In e (map fst es)))).
Proof.
  intros Hn. induction es as [|[e own] t IH]; intros m m' Hok Hb.
  - simpl in Hb. inversion Hb; subst. split; [constructor|]. split; [intros x []|].
    intros e _. simpl. tauto.
  - apply Forall_cons_iff in Hok. destruct Hok as [He Hok]. simpl in He.
    simpl in Hb. destruct (PositiveMap.find (ekey n e) m) eqn:Ef; [discriminate|].
    destruct (IH _ _ Hok Hb) as (ND & Hfresh & Hiff).
    assert (Hnotin : ~ In e (map fst t)).
    { intro Hin. apply in_map_iff in Hin. destruct Hin as [[e' o'] [E1 Hin]]. simpl in E1. subst e'.
      specialize (Hfresh _ Hin). simpl in Hfresh. rewrite PositiveMap.gss in Hfresh. discriminate. }
    split; [simpl; constructor; assumption|]. split.
    + intros x [<-|Hx]; [exact Ef|].
      specialize (Hfresh _ Hx). destruct (Pos.eq_dec (ekey n (fst x)) (ekey n e)) as [E|E].
      * rewrite E in Hfresh. rewrite PositiveMap.gss in Hfresh. discriminate.
      * rewrite PositiveMap.gso in Hfresh by exact E. exact Hfresh.
    + intros e0 He0. rewrite (Hiff e0 He0). simpl.
      destruct (Pos.eq_dec (ekey n e0) (ekey n e)) as [E|E].
      * assert (e0 = e) by (destruct He, He0; apply (ekey_inj n); auto; lia). subst e0.
        rewrite PositiveMap.gss. split; [intros _; right; left; reflexivity|intros _; left; discriminate].
      * rewrite PositiveMap.gso by exact E. split.
        -- intros [H|H]; [left; exact H|right; right; exact H].
        -- intros [H|[H|H]]; [left; exact H| |right; exact H]. subst. congruence.
Qed.

Lemma owned_dedges_fst ts : map fst (owned_dedges ts) = all_dedges ts.
Proof.
  unfold owned_dedges, all_dedges.
  assert (G : forall (l : list Z) (ts : list tri), length l = length ts ->
             map fst (concat (map (fun it => map (fun e => (e, fst it)) (dedges (snd it))) (combine l ts)))
             = flat_map dedges ts).
  { intros l. induction l as [|i l IH]; intros [|t ts'] HL; try discriminate; [reflexivity|].
    simpl. rewrite map_app, IH by (simpl in HL; lia). f_equal.
    rewrite map_map. simpl. apply map_id. }
  apply G. rewrite map_length, seq_length. reflexivity.
Qed.

Lemma chk_range_edges n ts : chk_range n ts = true -> Forall (edge_ok n) (all_dedges ts).
Proof.
  unfold chk_range, all_dedges. intros H. rewrite forallb_forall in H.
  apply Forall_forall. intros e He. apply in_flat_map in He. destruct He as [[[a b] c] [Ht He]].
  specialize (H _ Ht). simpl in H. unfold in_range in H.
  repeat (apply andb_true_iff in H; destruct H as [H ?]).
  repeat match goal with H : (_ <=? _) = true |- _ => apply Z.leb_le in H
                       | H : (_ <? _) = true |- _ => apply Z.ltb_lt in H end.
  simpl in He. unfold edge_ok. destruct He as [<-|[<-|[<-|[]]]]; simpl; lia.
Qed.

(* range + table built  ==>  every directed edge occurs once, and the table decides membership *)
Theorem manifold_sound n ts tab : 0 < n ->
  chk_range n ts = true -> edge_table n ts = Some tab ->
  NoDup (all_dedges ts) /\
  forall e, edge_ok n e -> (has_edge n tab e = true <-> In e (all_dedges ts)).
Proof.
  intros Hn Hr Ht. unfold edge_table in Ht.
  pose proof (chk_range_edges n ts Hr) as Hok.
  assert (Hok' : Forall (fun x => edge_ok n (fst x)) (owned_dedges ts)).
  { rewrite <- owned_dedges_fst in Hok. apply Forall_forall. intros x Hx.
    rewrite Forall_forall in Hok. apply Hok. apply in_map. exact Hx. }
  destruct (build_table_sound n Hn _ _ _ Hok' Ht) as (ND & _ & Hiff).
  rewrite owned_dedges_fst in ND, Hiff. split; [exact ND|].
  intros e He. unfold has_edge. specialize (Hiff e He).
  rewrite PositiveMap.gempty in Hiff.
  destruct (PositiveMap.find (ekey n e) tab) eqn:Ef; split; intros H.
  - destruct (proj1 Hiff ltac:(discriminate)) as [H1|H1]; [congruence|exact H1].
  - reflexivity.
  - discriminate.
  - exfalso. apply (proj2 Hiff (or_intror H)). reflexivity.
Qed.

(* the table-based boundary list is the specified one *)
Lemma boundary_table_spec n ts tab : 0 < n ->
  chk_range n ts = true -> edge_table n ts = Some tab ->
  boundary n tab ts = boundary_spec ts.
Proof.
  intros Hn Hr Ht. destruct (manifold_sound n ts tab Hn Hr Ht) as [_ Hmem].
  unfold boundary, boundary_spec. apply filter_ext_in. intros e He. f_equal.
  pose proof (chk_range_edges n ts Hr) as Hok. rewrite Forall_forall in Hok.
  assert (Hre : edge_ok n (revE e)) by (destruct (Hok e He); unfold edge_ok, revE; simpl; lia).
  destruct (has_edge n tab (revE e)) eqn:E1; destruct (mem_edge (revE e) (all_dedges ts)) eqn:E2; try reflexivity.
  - apply Hmem in E1; [|exact Hre]. apply mem_edge_spec in E1. congruence.
  - apply mem_edge_spec in E2. apply Hmem in E2; [|exact Hre]. congruence.
Qed.

Lemma chk_ccw_sound X ts : chk_ccw X ts = true -> forall t, In t ts -> 0 < area2 X t.
Proof. unfold chk_ccw. rewrite forallb_forall. intros H t Ht. apply Z.ltb_lt. auto. Qed.

(* what an accepted report establishes about the mesh itself *)
Theorem check_mesh_sound M P pidx ppts pmarks :
  report_ok (check_mesh M P pidx ppts pmarks) = true ->
  let X := mX M in let ts := mtris M in let n := Z.of_nat (length X) in
  chk_range n ts = true /\
  (forall t, In t ts -> 0 < area2 X t) /\
  NoDup (all_dedges ts) /\
  zsum (area2 X) ts = zsum (cross X) (boundary_spec ts) /\
  (forall e, In e (boundary_spec ts) -> on_some_segment X (psegs P) e = true).
Proof.
  intros Hok X ts n. unfold check_mesh in Hok. fold X ts n in Hok.
  destruct (chk_range n ts) eqn:Er; [|simpl in Hok; discriminate].
  cbv iota in Hok.
  destruct (edge_table n ts) as [tab|] eqn:Et; [|unfold report_ok in Hok; cbn in Hok; destruct (chk_ccw X ts); discriminate].
  unfold report_ok in Hok. cbn [r_range r_ccw r_manifold r_area_mesh r_area_boundary r_bad_chains r_bad_boundary
                              r_bad_attr_pairs r_bad_regions r_bad_holes r_bad_points r_bad_edge_marks] in Hok.
  repeat (apply andb_true_iff in Hok; destruct Hok as [Hok ?]).
  destruct ts as [|t0 ts0] eqn:Ets.
  { (* no elements: everything is trivial *)
    split; [reflexivity|]. split; [intros t []|]. split; [constructor|]. split; [reflexivity|]. intros e []. }
  rewrite <- Ets in *.
  assert (Hn : 0 < n).
  { rewrite Ets in Er. destruct t0 as [[a b] c]. simpl in Er. unfold in_range in Er.
    repeat (apply andb_true_iff in Er; destruct Er as [Er ?]).
    repeat match goal with H : (_ <=? _) = true |- _ => apply Z.leb_le in H
                         | H : (_ <? _) = true |- _ => apply Z.ltb_lt in H end. lia. }
  destruct (manifold_sound n ts tab Hn Er Et) as [ND Hmem].
  split; [reflexivity|]. split; [apply chk_ccw_sound; assumption|]. split; [exact ND|]. split.
  - apply green. exact ND.
  - intros e He. rewrite <- (boundary_table_spec n ts tab Hn Er Et) in He.
    repeat match goal with H : match ?l with [] => _ | _ :: _ => false end = true |- _ =>
             destruct l eqn:?; [|discriminate H] end.
    match goal with H : filter (fun e0 => negb (on_some_segment X (psegs P) e0)) (boundary n tab ts) = [] |- _ =>
      rename H into EF end.
    destruct (on_some_segment X (psegs P) e) eqn:E; [reflexivity|].
    assert (In e (filter (fun e0 => negb (on_some_segment X (psegs P) e0)) (boundary n tab ts))).
    { apply filter_In. split; [exact He|rewrite E; reflexivity]. }
    match goal with H : In e (filter _ _) |- _ => rewrite EF in H; destruct H end.
Qed.
