(* BHGauss.v — CComplexFullMatrix::GaussSolve as modelled in BH.v (pivot search, row swap,
   elimination that only touches columns k>=i, back substitution summed from the last column)
   solves the system it is given: real reading [RA], complex entries as pairs.  Proofs only. *)
From Coq Require Import ZArith List Bool Arith Lia Reals Lra Psatz FunctionalExtensionality.
From XF Require Import Arith BH.
Import ListNotations.
Local Open Scope R_scope.

Notation Cx := (R * R)%type (only parsing).
Notation c0 := (czero RA) (only parsing).

Ltac cring :=
  intros; repeat match goal with x : (R * R)%type |- _ => destruct x end;
  unfold cadd, csub, cmul, cneg, czero, cofd; cbn [fst snd]; ra_simpl; f_equal; ring.

(* ---- complex arithmetic over R is a field ------------------------------------------------ *)
Lemma cadd_comm (x y : Cx) : cadd RA x y = cadd RA y x. Proof. cring. Qed.
Lemma cadd_assoc (x y z : Cx) : cadd RA (cadd RA x y) z = cadd RA x (cadd RA y z). Proof. cring. Qed.
Lemma cadd_0_l (x : Cx) : cadd RA c0 x = x. Proof. cring. Qed.
Lemma cadd_0_r (x : Cx) : cadd RA x c0 = x. Proof. cring. Qed.
Lemma cmul_comm (x y : Cx) : cmul RA x y = cmul RA y x. Proof. cring. Qed.
Lemma cmul_assoc (x y z : Cx) : cmul RA (cmul RA x y) z = cmul RA x (cmul RA y z). Proof. cring. Qed.
Lemma cmul_0_l (x : Cx) : cmul RA c0 x = c0. Proof. cring. Qed.
Lemma cmul_0_r (x : Cx) : cmul RA x c0 = c0. Proof. cring. Qed.
Lemma cmul_add_r (x y z : Cx) : cmul RA x (cadd RA y z) = cadd RA (cmul RA x y) (cmul RA x z). Proof. cring. Qed.
Lemma cmul_sub_r (x y z : Cx) : cmul RA x (csub RA y z) = csub RA (cmul RA x y) (cmul RA x z). Proof. cring. Qed.
Lemma csub_self (x : Cx) : csub RA x x = c0. Proof. cring. Qed.
Lemma csub_0_r (x : Cx) : csub RA x c0 = x. Proof. cring. Qed.
Lemma csub_add_cancel (x y : Cx) : cadd RA (csub RA x y) y = x. Proof. cring. Qed.
Lemma cadd_sub_cancel (x y : Cx) : csub RA (cadd RA x y) y = x. Proof. cring. Qed.

Lemma cinv_r (p : Cx) : p <> c0 -> cmul RA p (cinv RA p) = (1, 0).
Proof.
  intros Hp. destruct p as [a b]. unfold cinv, cmul, czero in *. cbn [fst snd]. ra_simpl.
  destruct (Rltb (Rabs b) (Rabs a)) eqn:E.
  - apply Rltb_true in E.
    assert (Ha : a <> 0). { intros Z. subst a. rewrite Rabs_R0 in E. pose proof (Rabs_pos b). lra. }
    assert (H1 : 0 < 1 + b / a * (b / a)) by (pose proof (Rle_0_sqr (b / a)) as Q; unfold Rsqr in Q; lra).
    assert (H2 : a * a + b * b <> 0) by (pose proof (Rle_0_sqr b) as Q; unfold Rsqr in Q; assert (0 < a * a) by nra; lra).
    cbn [fst snd]. f_equal; field; split; auto.
  - apply Rltb_false in E.
    assert (Hb : b <> 0).
    { intros Z. subst b. rewrite Rabs_R0 in E. pose proof (Rabs_pos a).
      assert (Rabs a = 0) by lra. apply Hp. f_equal. destruct (Req_dec a 0); auto.
      exfalso. pose proof (Rabs_pos_lt a H1). lra. }
    assert (H2 : b * b + a * a <> 0) by (pose proof (Rle_0_sqr a) as Q; unfold Rsqr in Q; assert (0 < b * b) by nra; lra).
    cbn [fst snd]. f_equal; field; split; auto.
Qed.

Lemma cdiv_mul (a p : Cx) : p <> c0 -> cmul RA (cdiv RA a p) p = a.
Proof.
  intros Hp. unfold cdiv. rewrite cmul_assoc, (cmul_comm (cinv RA p) p), cinv_r by exact Hp. cring.
Qed.

Lemma cmul_1_l (x : Cx) : cmul RA (1, 0) x = x. Proof. cring. Qed.

Lemma cmul_cancel_l (p x y : Cx) : p <> c0 -> cmul RA p x = cmul RA p y -> x = y.
Proof.
  intros Hp E.
  assert (H : cmul RA (cinv RA p) (cmul RA p x) = cmul RA (cinv RA p) (cmul RA p y)) by (rewrite E; reflexivity).
  rewrite <- !cmul_assoc, !(cmul_comm (cinv RA p) p), cinv_r, !cmul_1_l in H by exact Hp. exact H.
Qed.

(* ---- dot product of a matrix row with a vector ------------------------------------------ *)
Fixpoint cdot (r y : list Cx) : Cx :=
  match r, y with
  | a :: r', v :: y' => cadd RA (cmul RA a v) (cdot r' y')
  | _, _ => c0
  end.

Lemma cdot_app (l1 l2 y : list Cx) : (length l1 <= length y)%nat ->
  cdot (l1 ++ l2) y = cadd RA (cdot l1 (firstn (length l1) y)) (cdot l2 (skipn (length l1) y)).
Proof.
  revert y. induction l1 as [|a l1 IH]; intros y Hl.
  - cbn. rewrite cadd_0_l. reflexivity.
  - destruct y as [|v y]; [cbn in Hl; lia|]. cbn [app cdot length firstn skipn].
    rewrite IH by (cbn in Hl; lia). rewrite cadd_assoc. reflexivity.
Qed.

Lemma cdot_zeros (l y : list Cx) : (forall k, nth k l c0 = c0) -> cdot l y = c0.
Proof.
  revert y. induction l as [|a l IH]; intros y Hz; [reflexivity|].
  destruct y as [|v y]; [reflexivity|]. cbn [cdot].
  pose proof (Hz 0%nat) as H0. cbn in H0. subst a.
  rewrite cmul_0_l, cadd_0_l. apply IH. intros k. apply (Hz (S k)).
Qed.

Lemma firstn_skipn_dot (r y : list Cx) (i : nat) : (i <= length r)%nat -> (i <= length y)%nat ->
  cdot r y = cadd RA (cdot (firstn i r) (firstn i y)) (cdot (skipn i r) (skipn i y)).
Proof.
  intros Hr Hy. rewrite <- (firstn_skipn i r) at 1.
  rewrite cdot_app by (rewrite firstn_length; lia).
  rewrite firstn_length, Nat.min_l by lia. reflexivity.
Qed.

Lemma row_sub_length f : forall (rj ri : list Cx), length (row_sub RA f rj ri) = length rj.
Proof.
  induction rj as [|x rj IH]; intros ri; [reflexivity|].
  destruct ri as [|y ri]; [reflexivity|]. cbn [row_sub length]. rewrite IH. reflexivity.
Qed.

Lemma row_sub_dot f : forall (rj ri y : list Cx), length rj = length ri ->
  cdot (row_sub RA f rj ri) y = csub RA (cdot rj y) (cmul RA f (cdot ri y)).
Proof.
  induction rj as [|x rj IH]; intros ri y Hl.
  - destruct ri; [|discriminate]. cbn. cring.
  - destruct ri as [|z ri]; [discriminate|]. destruct y as [|v y].
    + cbn. cring.
    + cbn [row_sub cdot]. rewrite IH by (cbn in Hl; lia).
      generalize (cdot rj y) (cdot ri y). cring.
Qed.

Lemma row_sub_nth f : forall (rj ri : list Cx) k, (k < length rj)%nat -> (k < length ri)%nat ->
  nth k (row_sub RA f rj ri) c0 = csub RA (nth k rj c0) (cmul RA f (nth k ri c0)).
Proof.
  induction rj as [|x rj IH]; intros ri k H1 H2; [cbn in H1; lia|].
  destruct ri as [|z ri]; [cbn in H2; lia|]. destruct k as [|k]; [reflexivity|].
  cbn [row_sub nth]. apply IH; cbn in *; lia.
Qed.

(* ---- list updates ------------------------------------------------------------------------ *)
Lemma nth_lset {T} (d : T) : forall (l : list T) i v k, (i < length l)%nat ->
  nth k (lset l i v) d = if Nat.eqb k i then v else nth k l d.
Proof.
  induction l as [|a l IH]; intros i v k Hi; [cbn in Hi; lia|].
  destruct i as [|i]; destruct k as [|k]; cbn [lset nth Nat.eqb]; auto.
  apply IH. cbn in Hi. lia.
Qed.

Lemma lset_len {T} (l : list T) : forall i v, length (lset l i v) = length l.
Proof. induction l as [|a l IH]; intros [|i] v; cbn; auto. Qed.

Lemma lswap_len {T} (d : T) l i q : length (lswap d l i q) = length l.
Proof. unfold lswap. rewrite !lset_len. reflexivity. Qed.

Lemma nth_lswap {T} (d : T) (l : list T) i q k : (i < length l)%nat -> (q < length l)%nat ->
  nth k (lswap d l i q) d =
  if Nat.eqb k q then nth i l d else if Nat.eqb k i then nth q l d else nth k l d.
Proof.
  intros Hi Hq. unfold lswap. rewrite nth_lset by (rewrite lset_len; exact Hq).
  destruct (Nat.eqb k q); [reflexivity|]. apply nth_lset. exact Hi.
Qed.

Lemma nth_skipn_plus {T} (d : T) : forall m (l : list T) k, nth k (skipn m l) d = nth (m + k) l d.
Proof.
  induction m as [|m IH]; intros l k; [reflexivity|].
  destruct l as [|a l]; [cbn; destruct k; reflexivity|]. cbn [skipn]. rewrite IH. reflexivity.
Qed.

Lemma nth_firstn_lt {T} (d : T) : forall m (l : list T) k, (k < m)%nat -> nth k (firstn m l) d = nth k l d.
Proof.
  induction m as [|m IH]; intros l k Hk; [lia|].
  destruct l as [|a l]; [reflexivity|]. destruct k as [|k]; [reflexivity|].
  cbn [firstn nth]. apply IH. lia.
Qed.

Lemma nth_firstn_ge {T} (d : T) : forall m (l : list T) k, (m <= k)%nat -> nth k (firstn m l) d = d.
Proof.
  intros m l k Hk. apply nth_overflow. rewrite firstn_length. lia.
Qed.

(* ---- the pivot search ------------------------------------------------------------------- *)
Lemma pivot_scan_spec : forall (rows : list (list Cx)) col j mx q,
  let '(mx', q') := pivot_scan RA col rows j mx q in
  (mx' = mx /\ q' = q) \/
  (exists t, (t < length rows)%nat /\ q' = (j + t)%nat /\ mx' = nth col (nth t rows []) c0).
Proof.
  induction rows as [|r rows IH]; intros col j mx q; [cbn; left; auto|].
  cbn [pivot_scan].
  destruct (altb RA (cabs RA mx) (cabs RA (nth col r (czero RA)))).
  - specialize (IH col (S j) (nth col r c0) j).
    destruct (pivot_scan RA col rows (S j) (nth col r c0) j) as [mx' q'].
    destruct IH as [[E1 E2] | (t & Ht & E1 & E2)].
    + right. exists 0%nat. cbn [length nth]. subst. split; [lia|]. split; [lia|reflexivity].
    + right. exists (S t). cbn [length nth]. split; [lia|]. split; [lia|exact E2].
  - specialize (IH col (S j) mx q).
    destruct (pivot_scan RA col rows (S j) mx q) as [mx' q'].
    destruct IH as [[E1 E2] | (t & Ht & E1 & E2)]; [left; auto|].
    right. exists (S t). cbn [length nth]. split; [lia|]. split; [lia|exact E2].
Qed.

(* ---- one elimination step ------------------------------------------------------------------ *)
Definition gstep (i : nat) (M : list (list Cx)) (b : list Cx) (q' : nat) : list (list Cx) * list Cx :=
  let M1 := lswap [] M i q' in
  let b1 := lswap c0 b i q' in
  let ri := nth i M1 [] in
  let bi := nth i b1 c0 in
  let low := map (elim_row RA i ri bi) (combine (skipn (S i) M1) (skipn (S i) b1)) in
  (firstn (S i) M1 ++ map fst low, firstn (S i) b1 ++ map snd low).

Lemma gauss_fwd_S steps i M b q :
  gauss_fwd RA (S steps) i M b q =
  let '(mx, q') := pivot_scan RA i (skipn i M) i c0 q in
  if ceq0 RA mx then (false, M, b)
  else gauss_fwd RA steps (S i) (fst (gstep i M b q')) (snd (gstep i M b q')) q'.
Proof. reflexivity. Qed.

Definition shape (n : nat) (M : list (list Cx)) (b : list Cx) : Prop :=
  length M = n /\ length b = n /\ forall r, (r < n)%nat -> length (nth r M []) = n.

Definition erow (i : nat) (ri rj : list Cx) : list Cx :=
  firstn i rj ++ row_sub RA (cdiv RA (nth i rj c0) (nth i ri c0)) (skipn i rj) (skipn i ri).

Lemma nth_gstep n i M b q' r :
  shape n M b -> (i < n)%nat -> (q' < n)%nat -> (r < n)%nat ->
  let M1 := lswap [] M i q' in
  let b1 := lswap c0 b i q' in
  nth r (fst (gstep i M b q')) [] =
    (if Nat.leb r i then nth r M1 [] else erow i (nth i M1 []) (nth r M1 [])) /\
  nth r (snd (gstep i M b q')) c0 =
    (if Nat.leb r i then nth r b1 c0
     else csub RA (nth r b1 c0)
                  (cmul RA (cdiv RA (nth i (nth r M1 []) c0) (nth i (nth i M1 []) c0)) (nth i b1 c0))).
Proof.
  intros (LM & Lb & Lr) Hi Hq Hr M1 b1. unfold gstep. fold M1 b1. cbn [fst snd].
  assert (L1 : length M1 = n) by (unfold M1; rewrite lswap_len; exact LM).
  assert (L2 : length b1 = n) by (unfold b1; rewrite lswap_len; exact Lb).
  set (low := map (elim_row RA i _ _) _).
  destruct (Nat.leb r i) eqn:E.
  - apply Nat.leb_le in E. split.
    + rewrite app_nth1 by (rewrite firstn_length; lia). apply nth_firstn_lt. lia.
    + rewrite app_nth1 by (rewrite firstn_length; lia). apply nth_firstn_lt. lia.
  - apply Nat.leb_gt in E.
    assert (Ll : length low = (n - S i)%nat).
    { unfold low. rewrite map_length, combine_length, !skipn_length. lia. }
    assert (Hk : (r - S i < length low)%nat) by lia.
    assert (Elow : nth (r - S i) low ([], c0) =
                   elim_row RA i (nth i M1 []) (nth i b1 c0) (nth r M1 [], nth r b1 c0)).
    { unfold low.
      rewrite (nth_indep _ ([], c0) (elim_row RA i (nth i M1 []) (nth i b1 c0) ([], c0)))
        by (fold low; exact Hk).
      rewrite map_nth. rewrite combine_nth by (rewrite !skipn_length; lia).
      rewrite !nth_skipn_plus. replace (S i + (r - S i))%nat with r by lia. reflexivity. }
    split.
    + rewrite app_nth2 by (rewrite firstn_length; lia).
      rewrite firstn_length, Nat.min_l by lia.
      rewrite (nth_indep _ [] (fst ([], c0))) by (rewrite map_length; exact Hk).
      rewrite map_nth, Elow. reflexivity.
    + rewrite app_nth2 by (rewrite firstn_length; lia).
      rewrite firstn_length, Nat.min_l by lia.
      rewrite (nth_indep _ c0 (snd (([] : list Cx), c0))) by (rewrite map_length; exact Hk).
      rewrite map_nth, Elow. reflexivity.
Qed.

(* ---- invariants of the forward phase -------------------------------------------------------- *)
Definition zeros_from (i n : nat) (M : list (list Cx)) : Prop :=
  forall r k, (i <= r < n)%nat -> (k < i)%nat -> nth k (nth r M []) c0 = c0.
Definition upper_to (i : nat) (M : list (list Cx)) : Prop :=
  forall r, (r < i)%nat ->
    (forall k, (k < r)%nat -> nth k (nth r M []) c0 = c0) /\ nth r (nth r M []) c0 <> c0.
Definition sat (n : nat) (M : list (list Cx)) (b y : list Cx) : Prop :=
  forall r, (r < n)%nat -> cdot (nth r M []) y = nth r b c0.

Lemma erow_length i (ri rj : list Cx) n : length ri = n -> length rj = n -> (i <= n)%nat ->
  length (erow i ri rj) = n.
Proof.
  intros L1 L2 Hi. unfold erow. rewrite app_length, firstn_length, row_sub_length, skipn_length. lia.
Qed.

Lemma erow_dot i (ri rj y : list Cx) n :
  length ri = n -> length rj = n -> length y = n -> (i <= n)%nat ->
  (forall k, (k < i)%nat -> nth k ri c0 = c0) ->
  cdot (erow i ri rj) y =
  csub RA (cdot rj y) (cmul RA (cdiv RA (nth i rj c0) (nth i ri c0)) (cdot ri y)).
Proof.
  intros L1 L2 Ly Hi Hz. unfold erow. set (f := cdiv RA _ _).
  rewrite cdot_app by (rewrite firstn_length; lia).
  rewrite firstn_length, Nat.min_l by lia.
  rewrite row_sub_dot by (rewrite !skipn_length; lia).
  rewrite (firstn_skipn_dot rj y i) by lia.
  rewrite (firstn_skipn_dot ri y i) by lia.
  rewrite (cdot_zeros (firstn i ri)).
  - generalize (cdot (firstn i rj) (firstn i y)) (cdot (skipn i rj) (skipn i y))
               (cdot (skipn i ri) (skipn i y)). cring.
  - intros k. destruct (Nat.lt_ge_cases k i) as [Hk | Hk].
    + rewrite nth_firstn_lt by exact Hk. apply Hz. exact Hk.
    + apply nth_firstn_ge. exact Hk.
Qed.

Lemma erow_nth_lt i (ri rj : list Cx) n k : length rj = n -> (i <= n)%nat -> (k < i)%nat ->
  nth k (erow i ri rj) c0 = nth k rj c0.
Proof.
  intros L Hi Hk. unfold erow. rewrite app_nth1 by (rewrite firstn_length; lia).
  apply nth_firstn_lt. exact Hk.
Qed.

Lemma erow_nth_pivot i (ri rj : list Cx) n : length ri = n -> length rj = n -> (i < n)%nat ->
  nth i ri c0 <> c0 -> nth i (erow i ri rj) c0 = c0.
Proof.
  intros L1 L2 Hi Hp. unfold erow. rewrite app_nth2 by (rewrite firstn_length; lia).
  rewrite firstn_length, Nat.min_l by lia. replace (i - i)%nat with 0%nat by lia.
  rewrite row_sub_nth by (rewrite skipn_length; lia).
  rewrite !nth_skipn_plus, Nat.add_0_r. rewrite cdiv_mul by exact Hp. apply csub_self.
Qed.

Lemma gstep_invariant n i M b q' :
  shape n M b -> (i < n)%nat -> (i <= q' < n)%nat ->
  zeros_from i n M -> upper_to i M -> nth i (nth q' M []) c0 <> c0 ->
  let M' := fst (gstep i M b q') in
  let b' := snd (gstep i M b q') in
  shape n M' b' /\ zeros_from (S i) n M' /\ upper_to (S i) M' /\
  forall y, length y = n -> (sat n M' b' y <-> sat n M b y).
Proof.
  intros Hsh Hi Hq Hz Hu Hp M' b'.
  pose proof Hsh as (LM & Lb & Lr).
  set (M1 := lswap [] M i q'). set (b1 := lswap c0 b i q').
  assert (N1 : forall r, nth r M1 [] = if Nat.eqb r q' then nth i M [] else if Nat.eqb r i then nth q' M [] else nth r M [])
    by (intros r; unfold M1; apply nth_lswap; lia).
  assert (N2 : forall r, nth r b1 c0 = if Nat.eqb r q' then nth i b c0 else if Nat.eqb r i then nth q' b c0 else nth r b c0)
    by (intros r; unfold b1; apply nth_lswap; lia).
  assert (G : forall r, (r < n)%nat ->
    nth r M' [] = (if Nat.leb r i then nth r M1 [] else erow i (nth i M1 []) (nth r M1 [])) /\
    nth r b' c0 = (if Nat.leb r i then nth r b1 c0
                   else csub RA (nth r b1 c0)
                          (cmul RA (cdiv RA (nth i (nth r M1 []) c0) (nth i (nth i M1 []) c0)) (nth i b1 c0)))).
  { intros r Hr. apply (nth_gstep n i M b q' r Hsh Hi ltac:(lia) Hr). }
  (* rows of M1 *)
  assert (R1len : forall r, (r < n)%nat -> length (nth r M1 []) = n).
  { intros r Hr. rewrite N1. destruct (Nat.eqb r q'); [apply Lr; lia|]. destruct (Nat.eqb r i); apply Lr; lia. }
  assert (R1z : forall r k, (i <= r < n)%nat -> (k < i)%nat -> nth k (nth r M1 []) c0 = c0).
  { intros r k Hr Hk. rewrite N1. destruct (Nat.eqb r q'); [apply Hz; lia|].
    destruct (Nat.eqb r i); apply Hz; lia. }
  assert (Ri : nth i M1 [] = nth q' M []).
  { rewrite N1. destruct (Nat.eqb i q') eqn:E; [apply Nat.eqb_eq in E; subst; reflexivity|].
    rewrite Nat.eqb_refl. reflexivity. }
  assert (Rlt : forall r, (r < i)%nat -> nth r M1 [] = nth r M []).
  { intros r Hr. rewrite N1.
    destruct (Nat.eqb r q') eqn:E1; [apply Nat.eqb_eq in E1; lia|].
    destruct (Nat.eqb r i) eqn:E2; [apply Nat.eqb_eq in E2; lia|]. reflexivity. }
  assert (Hpi : nth i (nth i M1 []) c0 <> c0) by (rewrite Ri; exact Hp).
  assert (Lsw : length M' = n /\ length b' = n).
  { unfold M', b', gstep. cbn [fst snd]. fold M1 b1.
    rewrite !app_length, !firstn_length, !map_length, combine_length, !skipn_length.
    unfold M1, b1. rewrite !lswap_len. lia. }
  split; [|split; [|split]].
  - (* shape *)
    destruct Lsw as [A1 A2]. split; [exact A1|]. split; [exact A2|].
    intros r Hr. destruct (G r Hr) as [E _]. rewrite E.
    destruct (Nat.leb r i); [apply R1len; exact Hr|].
    apply erow_length; [apply R1len; lia|apply R1len; exact Hr|lia].
  - (* zeros below the new pivot *)
    intros r k Hr Hk. destruct (G r ltac:(lia)) as [E _]. rewrite E.
    assert (El : Nat.leb r i = false) by (apply Nat.leb_gt; lia). rewrite El.
    destruct (Nat.eq_dec k i) as [Ek | Ek].
    + subst k. apply (erow_nth_pivot i _ _ n); auto; apply R1len; lia.
    + rewrite (erow_nth_lt i _ _ n) by (try apply R1len; lia). apply R1z; lia.
  - (* upper triangular part grows by one row *)
    intros r Hr. destruct (G r ltac:(lia)) as [E _]. rewrite E.
    assert (El : Nat.leb r i = true) by (apply Nat.leb_le; lia). rewrite El.
    destruct (Nat.eq_dec r i) as [Er | Er].
    + subst r. split; [|exact Hpi]. intros k Hk. apply R1z; lia.
    + rewrite Rlt by lia. apply Hu. lia.
  - (* same solutions *)
    intros y Ly.
    assert (S1 : sat n M1 b1 y <-> sat n M b y).
    { split; intros Hs r Hr.
      - destruct (Nat.eq_dec r i) as [Er | Er]; [|destruct (Nat.eq_dec r q') as [Eq | Eq]].
        + subst r. specialize (Hs q' ltac:(lia)). rewrite N1, N2, Nat.eqb_refl in Hs. exact Hs.
        + subst r. specialize (Hs i Hi). rewrite N1, N2 in Hs.
          destruct (Nat.eqb i q') eqn:E; [apply Nat.eqb_eq in E; lia|].
          rewrite Nat.eqb_refl in Hs. exact Hs.
        + specialize (Hs r Hr). rewrite N1, N2 in Hs.
          destruct (Nat.eqb r q') eqn:E1; [apply Nat.eqb_eq in E1; lia|].
          destruct (Nat.eqb r i) eqn:E2; [apply Nat.eqb_eq in E2; lia|]. exact Hs.
      - rewrite N1, N2.
        destruct (Nat.eqb r q') eqn:E1; [apply Hs; lia|].
        destruct (Nat.eqb r i) eqn:E2; apply Hs; lia. }
    rewrite <- S1. clear S1.
    assert (D : forall r, (i < r < n)%nat ->
      cdot (erow i (nth i M1 []) (nth r M1 [])) y =
      csub RA (cdot (nth r M1 []) y)
              (cmul RA (cdiv RA (nth i (nth r M1 []) c0) (nth i (nth i M1 []) c0)) (cdot (nth i M1 []) y))).
    { intros r Hr.
      apply (erow_dot i _ _ y n); [apply R1len; lia|apply R1len; lia|exact Ly|lia|intros k Hk; apply R1z; lia]. }
    split; intros Hs r Hr.
    + destruct (Nat.le_gt_cases r i) as [Hle | Hgt].
      * specialize (Hs r Hr). destruct (G r Hr) as [E1 E2]. rewrite E1, E2 in Hs.
        assert (El : Nat.leb r i = true) by (apply Nat.leb_le; lia). rewrite El in Hs. exact Hs.
      * pose proof (Hs i Hi) as Hsi. destruct (G i Hi) as [E1 E2]. rewrite E1, E2 in Hsi.
        rewrite Nat.leb_refl in Hsi.
        specialize (Hs r Hr). destruct (G r Hr) as [F1 F2]. rewrite F1, F2 in Hs.
        assert (El : Nat.leb r i = false) by (apply Nat.leb_gt; lia). rewrite El in Hs.
        rewrite D in Hs by lia. rewrite Hsi in Hs.
        revert Hs. generalize (cdot (nth r M1 []) y) (nth r b1 c0)
          (cmul RA (cdiv RA (nth i (nth r M1 []) c0) (nth i (nth i M1 []) c0)) (nth i b1 c0)).
        intros u v w Hs.
        assert (E : cadd RA (csub RA u w) w = cadd RA (csub RA v w) w) by (rewrite Hs; reflexivity).
        rewrite !csub_add_cancel in E. exact E.
    + destruct (G r Hr) as [E1 E2]. rewrite E1, E2.
      destruct (Nat.leb r i) eqn:El; [apply Hs; exact Hr|].
      apply Nat.leb_gt in El. rewrite D by lia.
      rewrite (Hs r Hr), (Hs i Hi). reflexivity.
Qed.

Lemma ceq0_false (x : Cx) : ceq0 RA x = false -> x <> c0.
Proof.
  intros H E. subst x. unfold ceq0, czero in H. cbn [fst snd] in H. ra_simpl.
  assert (Z : Reqb 0 0 = true) by (apply Reqb_true; reflexivity). rewrite Z in H. discriminate.
Qed.

Lemma gauss_fwd_correct n : forall steps i M b q U c,
  shape n M b -> (i + steps = n)%nat -> zeros_from i n M -> upper_to i M ->
  gauss_fwd RA steps i M b q = (true, U, c) ->
  shape n U c /\ upper_to n U /\ forall y, length y = n -> (sat n U c y <-> sat n M b y).
Proof.
  induction steps as [|steps IH]; intros i M b q U c Hsh Hn Hz Hu Hg.
  - cbn in Hg. injection Hg as E1 E2. subst U c. replace i with n in * by lia.
    split; [exact Hsh|]. split; [exact Hu|]. intros y _. tauto.
  - rewrite gauss_fwd_S in Hg.
    pose proof (pivot_scan_spec (skipn i M) i i c0 q) as Hp.
    destruct (pivot_scan RA i (skipn i M) i c0 q) as [mx q'].
    destruct (ceq0 RA mx) eqn:Ez; [discriminate|].
    apply ceq0_false in Ez.
    destruct Hp as [[E _] | (t & Ht & Eq & Em)]; [congruence|].
    pose proof Hsh as (LM & Lb & Lr).
    rewrite skipn_length in Ht. rewrite nth_skipn_plus in Em.
    assert (Hq : (i <= q' < n)%nat) by lia.
    assert (Hpv : nth i (nth q' M []) c0 <> c0) by (rewrite Eq, <- Em; exact Ez).
    destruct (gstep_invariant n i M b q' Hsh ltac:(lia) Hq Hz Hu Hpv) as (S1 & S2 & S3 & S4).
    destruct (IH (S i) _ _ q' U c S1 ltac:(lia) S2 S3 Hg) as (T1 & T2 & T3).
    split; [exact T1|]. split; [exact T2|].
    intros y Ly. rewrite (T3 y Ly). apply S4. exact Ly.
Qed.

(* ---- back substitution ------------------------------------------------------------------- *)
Lemma cons_inv {T} (a b : T) (l m : list T) : a :: l = b :: m -> a = b /\ l = m.
Proof. intros H. injection H. auto. Qed.

Lemma skipn_cons_nth {T} (d : T) : forall k (l : list T), (k < length l)%nat ->
  skipn k l = nth k l d :: skipn (S k) l.
Proof.
  induction k as [|k IH]; intros l Hk; destruct l as [|a l]; try (cbn in Hk; lia); [reflexivity|].
  cbn [skipn nth]. rewrite (IH l) by (cbn in Hk; lia). reflexivity.
Qed.

Lemma firstn_S_nth {T} (d : T) : forall k (l : list T), (k < length l)%nat ->
  firstn (S k) l = firstn k l ++ [nth k l d].
Proof.
  induction k as [|k IH]; intros l Hk; destruct l as [|a l]; try (cbn in Hk; lia); [reflexivity|].
  cbn [firstn nth app]. rewrite <- (IH l) by (cbn in Hk; lia). reflexivity.
Qed.

Lemma fold_rev_cdot : forall (a xs : list Cx),
  fold_left (fun f (mx : Cx * Cx) => cadd RA f (cmul RA (fst mx) (snd mx))) (rev (combine a xs)) c0
  = cdot a xs.
Proof.
  intros a xs. rewrite <- fold_left_rev_right, rev_involutive.
  revert xs. induction a as [|a0 a IH]; intros xs; [reflexivity|].
  destruct xs as [|x0 xs]; [reflexivity|]. cbn [combine fold_right cdot fst snd].
  rewrite IH. apply cadd_comm.
Qed.

Section BackSub.
  Variables (n : nat) (U : list (list Cx)) (c : list Cx).
  Hypothesis Hsh : shape n U c.
  Hypothesis Hup : upper_to n U.

  Definition sufP (k : nat) (xs : list Cx) : Prop :=
    forall y, length y = n ->
      ((forall r, (k <= r < n)%nat -> cdot (nth r U []) y = nth r c c0) <-> skipn k y = xs).

  Definition bs_x (k : nat) (xs : list Cx) : Cx :=
    cdiv RA (csub RA (nth k c c0)
                  (fold_left (fun f (mx : Cx * Cx) => cadd RA f (cmul RA (fst mx) (snd mx)))
                             (rev (combine (skipn (S k) (nth k U [])) xs)) c0))
         (nth k (nth k U []) c0).

  Lemma row_dot_upper k y : (k < n)%nat -> length y = n ->
    cdot (nth k U []) y =
    cadd RA (cmul RA (nth k (nth k U []) c0) (nth k y c0))
            (cdot (skipn (S k) (nth k U [])) (skipn (S k) y)).
  Proof.
    intros Hk Ly. destruct Hsh as (LU & Lc & Lr). destruct (Hup k Hk) as [Hz Hp].
    rewrite (firstn_skipn_dot (nth k U []) y k) by (rewrite ?Lr; lia).
    rewrite (cdot_zeros (firstn k (nth k U []))).
    - rewrite cadd_0_l.
      rewrite (skipn_cons_nth c0 k (nth k U [])) by (rewrite Lr; lia).
      rewrite (skipn_cons_nth c0 k y) by lia. reflexivity.
    - intros j. destruct (Nat.lt_ge_cases j k) as [Hj | Hj].
      + rewrite nth_firstn_lt by exact Hj. apply Hz. exact Hj.
      + apply nth_firstn_ge. exact Hj.
  Qed.

  Lemma backsub_step k xs : (k < n)%nat -> sufP (S k) xs -> sufP k (bs_x k xs :: xs).
  Proof.
    intros Hk HP y Ly. destruct (Hup k Hk) as [Hz Hp].
    unfold bs_x. rewrite fold_rev_cdot.
    set (p := nth k (nth k U []) c0) in *. set (row := skipn (S k) (nth k U [])).
    rewrite (skipn_cons_nth c0 k y) by lia.
    split.
    - intros Hall.
      assert (Hs : skipn (S k) y = xs) by (apply (HP y Ly); intros r Hr; apply Hall; lia).
      pose proof (Hall k ltac:(lia)) as Ek. rewrite (row_dot_upper k y Hk Ly) in Ek.
      fold p row in Ek. rewrite Hs in *.
      f_equal. apply (cmul_cancel_l p); [exact Hp|].
      rewrite (cmul_comm p (cdiv RA _ p)), cdiv_mul by exact Hp.
      rewrite <- Ek. rewrite cadd_sub_cancel. reflexivity.
    - intros E. apply cons_inv in E. destruct E as [Ek Es].
      intros r Hr. destruct (Nat.eq_dec r k) as [Er | Er].
      + subst r. rewrite (row_dot_upper k y Hk Ly). fold p row. rewrite Es, Ek.
        rewrite (cmul_comm p (cdiv RA _ p)), cdiv_mul by exact Hp.
        apply csub_add_cancel.
      + apply (proj2 (HP y Ly) Es). lia.
  Qed.

  Definition triples := combine (combine (seq 0 n) U) c.

  Lemma triples_nth k : (k < n)%nat -> nth k triples (0%nat, [], c0) = (k, nth k U [], nth k c c0).
  Proof.
    intros Hk. destruct Hsh as (LU & Lc & _). unfold triples.
    rewrite combine_nth by (rewrite combine_length, seq_length; lia).
    rewrite combine_nth by (rewrite seq_length; lia).
    rewrite seq_nth by exact Hk. reflexivity.
  Qed.

  Lemma triples_length : length triples = n.
  Proof. destruct Hsh as (LU & Lc & _). unfold triples. rewrite !combine_length, seq_length. lia. Qed.

  Lemma backsub_all : forall k xs, (k <= n)%nat -> sufP k xs ->
    sufP 0 (backsub RA (rev (firstn k triples)) xs).
  Proof.
    induction k as [|k IH]; intros xs Hk HP; [exact HP|].
    rewrite (firstn_S_nth (0%nat, [], c0)) by (rewrite triples_length; lia).
    rewrite rev_app_distr. cbn [rev app]. rewrite triples_nth by lia. cbn [backsub].
    apply IH; [lia|]. apply (backsub_step k xs ltac:(lia) HP).
  Qed.

  Lemma backsub_correct :
    forall y, length y = n -> (sat n U c y <-> y = backsub RA (rev triples) []).
  Proof.
    intros y Ly.
    assert (Hn : sufP n []).
    { intros z Lz. split; [intros _; apply skipn_all2; lia|intros _ r Hr; lia]. }
    pose proof (backsub_all n [] (Nat.le_refl n) Hn) as H0.
    rewrite firstn_all2 in H0 by (rewrite triples_length; lia).
    specialize (H0 y Ly). cbn [skipn] in H0. rewrite <- H0.
    unfold sat. split; intros H r Hr; apply H; lia.
  Qed.
End BackSub.

(* ---- GaussSolve as a whole -------------------------------------------------------------- *)
Theorem gauss_solve_correct (n : nat) (M : list (list Cx)) (b x : list Cx) :
  shape n M b -> gauss_solve RA M b = (true, x) ->
  forall y, length y = n -> (sat n M b y <-> y = x).
Proof.
  intros Hsh Hg y Ly. unfold gauss_solve in Hg. pose proof Hsh as (LM & Lb & Lr). rewrite LM in Hg.
  destruct (gauss_fwd RA n 0 M b 0) as [[ok U] c] eqn:Ef.
  destruct ok; [|discriminate]. injection Hg as Ex.
  assert (Hz : zeros_from 0 n M) by (intros r k _ Hk; lia).
  assert (Hu : upper_to 0 M) by (intros r Hr; lia).
  destruct (gauss_fwd_correct n n 0 M b 0 U c Hsh ltac:(lia) Hz Hu Ef) as (T1 & T2 & T3).
  rewrite <- (T3 y Ly). rewrite (backsub_correct n U c T1 T2 y Ly).
  unfold triples. rewrite Ex. tauto.
Qed.

(* ---- the spline system of GetSlopes ------------------------------------------------------- *)
Definition look (es : list (nat * R)) (k : nat) : Cx :=
  match find (fun e => Nat.eqb (fst e) k) es with Some e => cofd RA (snd e) | None => c0 end.

Lemma sparse_row_eq n es : sparse_row RA n es = map (look es) (seq 0 n).
Proof. reflexivity. Qed.

Fixpoint csum (g : nat -> Cx) (s m : nat) : Cx :=
  match m with O => c0 | S m' => cadd RA (g s) (csum g (S s) m') end.

Lemma cdot_map_const (g : nat -> Cx) (kc : Cx) : forall m s,
  cdot (map g (seq s m)) (repeat kc m) = cmul RA (csum g s m) kc.
Proof.
  induction m as [|m IH]; intros s; [cbn; cring|].
  cbn [seq map repeat cdot csum]. rewrite IH.
  generalize (g s) (csum g (S s) m). cring.
Qed.

Lemma csum_single (g : nat -> Cx) (a : nat) (u : Cx) : forall m s,
  (s <= a < s + m)%nat -> g a = c0 ->
  csum (fun k => if Nat.eqb a k then u else g k) s m = cadd RA u (csum g s m).
Proof.
  induction m as [|m IH]; intros s Ha Hg; [lia|]. cbn [csum].
  destruct (Nat.eqb a s) eqn:E.
  - apply Nat.eqb_eq in E. subst a. rewrite Hg, cadd_0_l.
    f_equal. clear IH Ha. revert Hg.
    assert (forall m t, (s < t)%nat -> csum (fun k => if Nat.eqb s k then u else g k) t m = csum g t m).
    { induction m0 as [|m0 IHm]; intros t Ht; [reflexivity|]. cbn [csum].
      destruct (Nat.eqb s t) eqn:E; [apply Nat.eqb_eq in E; lia|]. rewrite IHm by lia. reflexivity. }
    intros _. apply H. lia.
  - apply Nat.eqb_neq in E. rewrite IH by (try lia; exact Hg).
    generalize (g s) (csum g (S s) m). cring.
Qed.

Lemma look_cons a v es k : look ((a, v) :: es) k = if Nat.eqb a k then cofd RA v else look es k.
Proof. unfold look. cbn [find fst snd]. destruct (Nat.eqb a k); reflexivity. Qed.

Lemma look_notin es a : ~ In a (map fst es) -> look es a = c0.
Proof.
  induction es as [|[b v] es IH]; intros Hn; [reflexivity|]. rewrite look_cons.
  destruct (Nat.eqb b a) eqn:E.
  - apply Nat.eqb_eq in E. subst. exfalso. apply Hn. left. reflexivity.
  - apply IH. intros Hin. apply Hn. right. exact Hin.
Qed.

Fixpoint vsum (es : list (nat * R)) : R := match es with [] => 0 | e :: t => snd e + vsum t end.

Lemma csum_look : forall es n, NoDup (map fst es) -> (forall a, In a (map fst es) -> (a < n)%nat) ->
  csum (look es) 0 n = cofd RA (vsum es).
Proof.
  induction es as [|[a v] es IH]; intros n Hnd Hr.
  - cbn [vsum]. assert (forall m s, csum (look []) s m = c0).
    { induction m as [|m IHm]; intros s; [reflexivity|]. cbn [csum]. rewrite IHm. unfold look. cbn. cring. }
    rewrite H. reflexivity.
  - inversion Hnd as [|x l Hnotin Hnd']; subst.
    rewrite (functional_extensionality (look ((a, v) :: es)) (fun k => if Nat.eqb a k then cofd RA v else look es k))
      by (intros k; apply look_cons).
    rewrite csum_single.
    + rewrite IH; auto. { cbn [vsum snd]. cring. } intros b Hb. apply Hr. right. exact Hb.
    + assert (a < n)%nat by (apply Hr; left; reflexivity). lia.
    + apply look_notin. exact Hnotin.
Qed.

Lemma spline_nth n Bd Hd r : n = length Bd -> (r < n)%nat ->
  nth r (fst (spline_system RA Bd Hd)) [] = sys_row RA n Bd r /\
  nth r (snd (spline_system RA Bd Hd)) c0 = sys_rhs RA n Bd Hd r.
Proof.
  intros En Hr. unfold spline_system. rewrite <- En. cbn [fst snd]. split.
  - rewrite (nth_indep _ [] (sys_row RA n Bd 0)) by (rewrite map_length, seq_length; exact Hr).
    rewrite map_nth, seq_nth by exact Hr. reflexivity.
  - rewrite (nth_indep _ c0 (sys_rhs RA n Bd Hd 0)) by (rewrite map_length, seq_length; exact Hr).
    rewrite map_nth, seq_nth by exact Hr. reflexivity.
Qed.

Lemma spline_shape Bd Hd :
  shape (length Bd) (fst (spline_system RA Bd Hd)) (snd (spline_system RA Bd Hd)).
Proof.
  split; [|split].
  - unfold spline_system. cbn [fst]. rewrite map_length, seq_length. reflexivity.
  - unfold spline_system. cbn [snd]. rewrite map_length, seq_length. reflexivity.
  - intros r Hr. destruct (spline_nth (length Bd) Bd Hd r eq_refl Hr) as [E _]. rewrite E.
    unfold sys_row.
    destruct (Nat.eqb r 0); [|destruct (Nat.eqb r (length Bd - 1))];
      rewrite sparse_row_eq, map_length, seq_length; reflexivity.
Qed.

Lemma sparse_dot_const n es (kc : Cx) :
  NoDup (map fst es) -> (forall a, In a (map fst es) -> (a < n)%nat) ->
  cdot (sparse_row RA n es) (repeat kc n) = cmul RA (cofd RA (vsum es)) kc.
Proof. intros H1 H2. rewrite sparse_row_eq, cdot_map_const, csum_look; auto. Qed.

(* the constant slope vector solves the spline system of a table on a straight line *)
Lemma spline_sat_const (Bd : list R) (Hd : list Cx) (k : Cx) :
  let n := length Bd in
  (2 <= n)%nat ->
  (forall i, (S i < n)%nat -> nth (S i) Bd 0 - nth i Bd 0 <> 0) ->
  (forall i, (i < n)%nat -> nth i Hd c0 = (nth i Bd 0 * fst k, nth i Bd 0 * snd k)) ->
  sat n (fst (spline_system RA Bd Hd)) (snd (spline_system RA Bd Hd)) (repeat k n).
Proof.
  intros n Hlen2 Hl HH r Hr.
  destruct (spline_nth n Bd Hd r eq_refl Hr) as [E1 E2]. rewrite E1, E2. clear E1 E2.
  unfold sys_row, sys_rhs, Bn, Hn. ra_simpl.
  destruct (Nat.eqb r 0) eqn:E0.
  - apply Nat.eqb_eq in E0. subst r.
    rewrite sparse_dot_const.
    + rewrite (HH 0%nat), (HH 1%nat) by lia. pose proof (Hl 0%nat ltac:(lia)) as L0.
      destruct k as [kr ki]. unfold cdivd, dmulc, csub, cmul, cofd. cbn [fst snd vsum]. ra_simpl.
      f_equal; field; exact L0.
    + cbn [map fst]. constructor; [intros [H|[]]; discriminate|]. constructor; [intros []|constructor].
    + cbn [map fst]. intros a [H|[H|[]]]; subst; lia.
  - apply Nat.eqb_neq in E0.
    destruct (Nat.eqb r (n - 1)) eqn:E1.
    + apply Nat.eqb_eq in E1. subst r.
      rewrite sparse_dot_const.
      * rewrite (HH (n - 1)%nat), (HH (n - 2)%nat) by lia.
        pose proof (Hl (n - 2)%nat ltac:(lia)) as L0. replace (S (n - 2)) with (n - 1)%nat in L0 by lia.
        destruct k as [kr ki]. unfold cdivd, dmulc, csub, cmul, cofd. cbn [fst snd vsum]. ra_simpl.
        f_equal; field; exact L0.
      * cbn [map fst]. constructor; [intros [H|[]]; lia|]. constructor; [intros []|constructor].
      * cbn [map fst]. intros a [H|[H|[]]]; subst; lia.
    + apply Nat.eqb_neq in E1.
      rewrite sparse_dot_const.
      * rewrite (HH r), (HH (r - 1)%nat), (HH (r + 1)%nat) by lia.
        pose proof (Hl (r - 1)%nat ltac:(lia)) as L0. replace (S (r - 1)) with r in L0 by lia.
        pose proof (Hl r ltac:(lia)) as L1. replace (S r) with (r + 1)%nat in L1 by lia.
        destruct k as [kr ki]. unfold cdivd, dmulc, csub, cadd, cmul, cofd. cbn [fst snd vsum]. ra_simpl.
        f_equal; field; split; assumption.
      * cbn [map fst]. constructor; [intros [H|[H|[]]]; lia|].
        constructor; [intros [H|[]]; lia|]. constructor; [intros []|constructor].
      * cbn [map fst]. intros a [H|[H|[H|[]]]]; subst; lia.
Qed.

(* the slopes GetSlopes stores: whenever GaussSolve reports success they are THE solution of the
   spline system (C2 continuity at interior knots, zero second derivative at both ends) *)
Theorem slopes_solve_spline_system (Bd : list R) (Hd Sd : list Cx) :
  gauss_solve RA (fst (spline_system RA Bd Hd)) (snd (spline_system RA Bd Hd)) = (true, Sd) ->
  forall y, length y = length Bd ->
    (sat (length Bd) (fst (spline_system RA Bd Hd)) (snd (spline_system RA Bd Hd)) y <-> y = Sd).
Proof. intros Hg. apply (gauss_solve_correct _ _ _ _ (spline_shape Bd Hd) Hg). Qed.

Theorem line_table_slopes (Bd : list R) (Hd Sd : list Cx) (k : Cx) :
  let n := length Bd in
  (2 <= n)%nat ->
  (forall i, (S i < n)%nat -> nth (S i) Bd 0 - nth i Bd 0 <> 0) ->
  (forall i, (i < n)%nat -> nth i Hd c0 = (nth i Bd 0 * fst k, nth i Bd 0 * snd k)) ->
  gauss_solve RA (fst (spline_system RA Bd Hd)) (snd (spline_system RA Bd Hd)) = (true, Sd) ->
  Sd = repeat k n.
Proof.
  intros n Hlen2 Hl HH Hg. symmetry.
  apply (slopes_solve_spline_system Bd Hd Sd Hg (repeat k n)); [apply repeat_length|].
  apply spline_sat_const; assumption.
Qed.
