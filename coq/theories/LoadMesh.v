(* LoadMesh.v — executable model of the mesh readers of the three solvers:

     FSolver::LoadMesh(bool)   cfemm/fsolver/fsolver.cpp:350-718     (variant VM, magnetics)
     ESolver::LoadMesh(bool)   cfemm/esolver/esolver.cpp:127-380     (variant VE, electrostatics)
     HSolver::LoadMesh(bool)   cfemm/hsolver/hsolver.cpp:189-439     (variant VH, heat flow)

   INPUT: the number tables of <name>.node / .pbc / .ele / .edge AFTER tokenisation (fscanf "%i" /
   "%lf" and the header counts are not modelled: a table has as many rows as its header says) and the
   tables of the problem that LoadMesh consults: LengthUnits, labellist[] (IsDefault, BlockType),
   lineproplist[].BdryFormat (esolver / hsolver only).
   OUTPUT: what the solver holds when LoadMesh returns: meshnode[] (x, y, BoundaryMarker,
   InConductor), meshele[] (p[], e[], blk, lbl), pbclist[] (x, y, t), for fsolver the quad nodes of
   the air-gap elements; the LoadMeshErr code on failure; the mesh files removed.

   The three variants differ (the model follows each):
     * node markers: fsolver  j>1 ? j-2 : -1  on the WHOLE int, no conductor field;  esolver/hsolver
       mask 0xffff, offset 2, conductor = (n - (n&0xffff))/0x10000 - 1  (Marker.v: dec_pt_mag / dec_pt);
     * .edge markers: fsolver  j<0 ? -(j+2)  and the element search runs for EVERY negative marker
       (marker -1 writes the value -1 over an earlier assignment);  esolver/hsolver decode boundary
       property and conductor (Marker.dec_seg), copy a conductor >= 0 to BOTH end nodes, and search
       only when the property index is >= 0;
     * esolver/hsolver end the search at the first element that carries the edge when
       lineproplist[j].BdryFormat is one of the "stop" formats ("line charge distributions should be
       applied to at most one element": format 2 = surface charge in esolver; hsolver as shipped has
       the same statement, where format 2 is convection and the heat flux, format 1, is not covered:
       findings/XLOAD-1); the stop formats of each solver are regenerated from its source
       (gen/LoadConsts.v: stop_formats_e / stop_formats_h); lineproplist[j] is read in every pass of
       the search loop WITHOUT a range check;
     * coordinates: fsolver x *= 100*LengthConvMeters[u] (cm), esolver x *= units[u] (mm), hsolver
       x *= c[u] (m): constants regenerated from the sources in gen/LoadConsts.v;
     * a label index >= labellist.size() is rejected by all three (ELMLABELTOOBIG); fsolver then
       removes the five mesh files, esolver/hsolver leave them;
     * only fsolver reads the air-gap elements of the .pbc file (a negative quad node: BADPBCFILE).

   Every element access the C++ performs with an index that comes from a FILE is a checked access
   here; outside the table the result is [UB] (heap access outside the calloc'ed nmbr[] / mbr[] /
   meshnode[] / lineproplist: undefined behaviour, no check in the C++).  The bookkeeping arrays
   nmbr[] / mbr[][] (count pass, calloc, fill pass) are the list of lists [mbr]: mbr[k] = indices of
   the elements that have node k as a corner, in element order, once per corner.
   C++ int is 32 bit: -n is [wrap32] (Marker.v); attr-1 is not wrapped (attr = INT_MIN excluded).
   Model file: no proofs here (LoadMeshProofs.v). *)
From Coq Require Import ZArith List Bool.
From XF Require Import Arith Marker.
From XF.gen Require Import MarkerConsts LoadConsts.
Import ListNotations.
Local Open Scope Z_scope.

Inductive variant : Type := VM | VE | VH.
Inductive mfile : Type := FEle | FNode | FPbc | FPoly | FEdge.

Inductive lres (T : Type) : Type :=
| Loaded (t : T)
| Failed (code : Z) (removed : list mfile)     (* LoadMeshErr code <> NOERROR *)
| UB.                                          (* an access outside an array: undefined behaviour *)
Arguments Loaded {T} t.
Arguments Failed {T} code removed.
Arguments UB {T}.

Record elem : Type := mkElem { el_p : Z * Z * Z; el_e : Z * Z * Z; el_blk : Z; el_lbl : Z }.
Record node (F : Type) : Type := mkNode { nd_x : F; nd_y : F; nd_bm : Z; nd_cond : Z }.
Arguments mkNode {F}. Arguments nd_x {F}. Arguments nd_y {F}. Arguments nd_bm {F}. Arguments nd_cond {F}.

(* v[k] with k read from a file *)
Definition zidx (len : nat) (k : Z) : option nat :=
  if (0 <=? k) && (k <? Z.of_nat len) then Some (Z.to_nat k) else None.

Fixpoint lupd {T : Type} (l : list T) (i : nat) (x : T) : list T :=
  match l, i with
  | [], _ => []
  | _ :: t, O => x :: t
  | y :: t, S i' => y :: lupd t i' x
  end.

(* ---- elements (.ele) --------------------------------------------------------------------- *)
(* for(i=0,defaultLabel=-1;i<NumBlockLabels;i++) if (labellist[i].IsDefault) defaultLabel=i; *)
Fixpoint default_from (labels : list (bool * Z)) (i d : Z) : Z :=
  match labels with
  | [] => d
  | l :: t => default_from t (i + 1) (if fst l then i else d)
  end.
Definition default_label (labels : list (bool * Z)) : Z := default_from labels 0 (-1).

Inductive ele_res : Type := EOk (e : elem) | EMissing | ETooBig.

(* elm.lbl--; if(elm.lbl<0) elm.lbl=defaultLabel; if(elm.lbl<0) return MISSINGMATPROPS;
   if (!(elm.lbl < (int)labellist.size())) return ELMLABELTOOBIG; elm.blk=labellist[elm.lbl].BlockType;
   (e[] = -1 is the loop "initialize edge bc's" that follows) *)
Definition read_elem (labels : list (bool * Z)) (dflt : Z) (row : Z * Z * Z * Z) : ele_res :=
  let '(p0, p1, p2, a) := row in
  let l := a - 1 in
  let l := if l <? 0 then dflt else l in
  if l <? 0 then EMissing
  else match zidx (length labels) l with
       | None => ETooBig
       | Some k => EOk (mkElem (p0, p1, p2) (-1, -1, -1) (snd (nth k labels (false, 0))) l)
       end.

(* the element loop stops at the first row that fails *)
Fixpoint read_elems (labels : list (bool * Z)) (dflt : Z) (rows : list (Z * Z * Z * Z)) : list elem + Z :=
  match rows with
  | [] => inl []
  | r :: t => match read_elem labels dflt r with
              | EMissing => inr err_missingmatprops
              | ETooBig => inr err_elmlabeltoobig
              | EOk e => match read_elems labels dflt t with
                         | inl es => inl (e :: es)
                         | inr c => inr c
                         end
              end
  end.

(* ---- connectivity bookkeeping ------------------------------------------------------------ *)
(* nmbr[meshele[i].p[j]]++ ... mbr[k][nmbr[k]]=i; nmbr[k]++ *)
Definition add_member (mbr : list (list nat)) (k : Z) (i : nat) : option (list (list nat)) :=
  match zidx (length mbr) k with
  | None => None
  | Some kk => Some (lupd mbr kk (nth kk mbr [] ++ [i]))
  end.

Fixpoint build_mbr (els : list elem) (i : nat) (mbr : list (list nat)) : option (list (list nat)) :=
  match els with
  | [] => Some mbr
  | e :: t =>
    let '(p0, p1, p2) := el_p e in
    match add_member mbr p0 i with None => None | Some m1 =>
    match add_member m1 p1 i with None => None | Some m2 =>
    match add_member m2 p2 i with None => None | Some m3 => build_mbr t (S i) m3 end end end
  end.

(* ---- the six tests of the search loop ---------------------------------------------------- *)
(* if ((elm.p[0] == n0) && (elm.p[1] == n1)) elm.e[0]=j;  if ((elm.p[0] == n1) && (elm.p[1] == n0)) elm.e[0]=j;
   ... p[1],p[2] -> e[1];  p[2],p[0] -> e[2];  the flag is esolver/hsolver's n=true *)
Definition mark6 (n0 n1 j : Z) (e : elem) : elem * bool :=
  let '(p0, p1, p2) := el_p e in
  let '(e0, e1, e2) := el_e e in
  let h0 := ((p0 =? n0) && (p1 =? n1)) || ((p0 =? n1) && (p1 =? n0)) in
  let h1 := ((p1 =? n0) && (p2 =? n1)) || ((p1 =? n1) && (p2 =? n0)) in
  let h2 := ((p2 =? n0) && (p0 =? n1)) || ((p2 =? n1) && (p0 =? n0)) in
  (mkElem (p0, p1, p2) (if h0 then j else e0, if h1 then j else e1, if h2 then j else e2) (el_blk e) (el_lbl e),
   h0 || h1 || h2).

(* fsolver: for(q=0; q<nmbr[n0]; q++) { elm=meshele[mbr[n0][q]]; six ifs; meshele[mbr[n0][q]]=elm; } *)
Fixpoint loop_m (n0 n1 j : Z) (L : list nat) (els : list elem) : option (list elem) :=
  match L with
  | [] => Some els
  | i :: t => match nth_error els i with
              | None => None
              | Some e => loop_m n0 n1 j t (lupd els i (fst (mark6 n0 n1 j e)))
              end
  end.

(* esolver / hsolver: for(q=0,n=false;q<nmbr[n0];q++) { ...six ifs with n=true...; meshele[..]=elm;
     if((lineproplist[j].BdryFormat==2) && (n)) q=nmbr[n0]; }     ([stops] = the formats of that test) *)
Definition stopb (stops : list Z) (f : Z) : bool := existsb (Z.eqb f) stops.
Definition stops_of (v : variant) : list Z := match v with VH => stop_formats_h | _ => stop_formats_e end.

Fixpoint loop_eh (stops : list Z) (fmts : list Z) (n0 n1 j : Z) (L : list nat) (els : list elem) (hit : bool) : option (list elem) :=
  match L with
  | [] => Some els
  | i :: t =>
    match nth_error els i with
    | None => None
    | Some e =>
      let els' := lupd els i (fst (mark6 n0 n1 j e)) in
      let hit' := hit || snd (mark6 n0 n1 j e) in
      match zidx (length fmts) j with
      | None => None                                   (* lineproplist[j] outside the vector *)
      | Some jj => if stopb stops (nth jj fmts 0) && hit' then Some els'
                   else loop_eh stops fmts n0 n1 j t els' hit'
      end
    end
  end.

Section LoadMesh.
  Context {F : Type} (A : Arith F).

  (* ---- nodes (.node) ------------------------------------------------------------------- *)
  Definition unit_factor (v : variant) (u : Z) : option F :=
    let dec := fun me : Z * Z => adec A (fst me) (snd me) in
    match v with
    | VM => match zidx (length units_m) u with
            | Some k => Some (amul A (aofZ A scale_m) (dec (nth k units_m (0, 0))))
            | None => None end
    | VE => match zidx (length units_e) u with Some k => Some (dec (nth k units_e (0, 0))) | None => None end
    | VH => match zidx (length units_h) u with Some k => Some (dec (nth k units_h (0, 0))) | None => None end
    end.

  Definition node_marks (v : variant) (n : Z) : Z * Z :=
    match v with
    | VM => (dec_pt_mag_z n, -1)        (* CNode(): InConductor(-1), never written by fsolver *)
    | _ => dec_pt_z n
    end.

  Definition read_node (v : variant) (cf : F) (row : F * F * Z) : node F :=
    let '(x, y, n) := row in
    mkNode (amul A x cf) (amul A y cf) (fst (node_marks v n)) (snd (node_marks v n)).

  (* meshnode[n0].InConductor=n; meshnode[n1].InConductor=n; *)
  Definition set_cond (nds : list (node F)) (n0 n1 c : Z) : option (list (node F)) :=
    match zidx (length nds) n0 with
    | None => None
    | Some k0 =>
      let a := nth k0 nds (mkNode (azero A) (azero A) 0 0) in
      let nds1 := lupd nds k0 (mkNode (nd_x a) (nd_y a) (nd_bm a) c) in
      match zidx (length nds1) n1 with
      | None => None
      | Some k1 =>
        let b := nth k1 nds1 (mkNode (azero A) (azero A) 0 0) in
        Some (lupd nds1 k1 (mkNode (nd_x b) (nd_y b) (nd_bm b) c))
      end
    end.

  (* ---- one row of the .edge file ------------------------------------------------------- *)
  Definition edge_step (v : variant) (fmts : list Z) (mbr : list (list nat))
             (st : list (node F) * list elem) (row : Z * Z * Z) : option (list (node F) * list elem) :=
    let '(n0, n1, m) := row in
    let '(nds, els) := st in
    match v with
    | VM =>
      (* if(j<0) { j = -(j+2); search } *)
      if m <? 0 then
        match zidx (length mbr) n0 with
        | None => None
        | Some k => match loop_m n0 n1 (wrap32 (- (m + dec_offset_mag))) (nth k mbr []) els with
                    | None => None | Some els' => Some (nds, els') end
        end
      else Some (nds, els)
    | _ =>
      (* if (n<0) { n=(-n); j = (n & 0xffff) - 2; if (j<0) j = -1; n= (n - (n & 0xffff))/0x10000 - 1;
                    if (n>=0) { meshnode[n0].InConductor=n; meshnode[n1].InConductor=n; } } else j=-1;
         if (j>=0) search *)
      let '(j, c) := dec_seg_z m in
      match (if 0 <=? c then set_cond nds n0 n1 c else Some nds) with
      | None => None
      | Some nds' =>
        if 0 <=? j then
          match zidx (length mbr) n0 with
          | None => None
          | Some k => match loop_eh (stops_of v) fmts n0 n1 j (nth k mbr []) els false with
                      | None => None | Some els' => Some (nds', els') end
          end
        else Some (nds', els)
      end
    end.

  Fixpoint edge_stage (v : variant) (fmts : list Z) (mbr : list (list nat))
           (st : list (node F) * list elem) (rows : list (Z * Z * Z)) : option (list (node F) * list elem) :=
    match rows with
    | [] => Some st
    | r :: t => match edge_step v fmts mbr st r with
                | None => None
                | Some st' => edge_stage v fmts mbr st' t
                end
    end.

  (* ---- LoadMesh ------------------------------------------------------------------------ *)
  Definition all5 : list mfile := [FEle; FNode; FPbc; FPoly; FEdge].
  Definition ok4 : list mfile := [FEle; FNode; FPbc; FPoly].       (* .edge is read again by Cuthill *)

  Definition quad_negative (q : Z * Z * Z * Z) : bool :=
    let '(a, b, c, d) := q in (a <? 0) || (b <? 0) || (c <? 0) || (d <? 0).

  Record mesh : Type := mkMesh {
    m_nodes : list (node F); m_elems : list elem; m_pbcs : list (Z * Z * Z); m_ages : list (list (Z * Z * Z * Z)) }.

  Definition load_mesh (v : variant) (del : bool) (units : Z) (labels : list (bool * Z)) (fmts : list Z)
             (nodes : list (F * F * Z)) (pbcs : list (Z * Z * Z)) (ages : list (list (Z * Z * Z * Z)))
             (eles : list (Z * Z * Z * Z)) (edges : list (Z * Z * Z)) : lres mesh :=
    match unit_factor v units with
    | None => UB
    | Some cf =>
      let nds0 := map (read_node v cf) nodes in
      let ages' := match v with VM => ages | _ => [] end in
      if existsb (existsb quad_negative) ages' then Failed err_badpbcfile []
      else
        match read_elems labels (default_label labels) eles with
        | inr code =>
          Failed code (if negb del then []
                       else if code =? err_missingmatprops then all5
                       else match v with VM => all5 | _ => [] end)
        | inl els0 =>
          match build_mbr els0 O (repeat [] (length nodes)) with
          | None => UB
          | Some mbr =>
            match edge_stage v fmts mbr (nds0, els0) edges with
            | None => UB
            | Some (nds, els) => Loaded (mkMesh nds els pbcs ages')
            end
          end
        end
    end.

  Definition removed_on_success (del : bool) : list mfile := if del then ok4 else [].

  (* ---- printable view for the correspondence run -------------------------------------- *)
  Definition mfile_code (f : mfile) : Z :=
    match f with FEle => 0 | FNode => 1 | FPbc => 2 | FPoly => 3 | FEdge => 4 end.
  Definition node_io (n : node F) := (nd_x n, nd_y n, nd_bm n, nd_cond n).
  Definition elem_io (e : elem) :=
    let '(p0, p1, p2) := el_p e in let '(e0, e1, e2) := el_e e in (p0, p1, p2, e0, e1, e2, el_blk e, el_lbl e).
  Definition load_mesh_io v del units labels fmts nodes pbcs ages eles edges :=
    match load_mesh v del units labels fmts nodes pbcs ages eles edges with
    | Loaded m => (0, map mfile_code (removed_on_success del),
                   (map node_io (m_nodes m), map elem_io (m_elems m), m_pbcs m, m_ages m))
    | Failed c r => (c, map mfile_code r, ([], [], [], []))
    | UB => (-1, [], ([], [], [], []))
    end.
End LoadMesh.
