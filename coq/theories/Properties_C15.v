(* Properties_C15.v — theorem statements for property C15 (entities keep the property the
   script gave them through any edit history).  Model and specification: PropRefs.v; proofs:
   PropRefsProofs.v.  [run false] is the code as it stands, [run true] the code with
   findings/C15-D5-fix.diff; the correspondence (tools/props/c15.py) decides which of the two the
   working tree is.  All theorems quantify over histories of any length. *)
From Coq Require Import List String Bool Arith.
From XF Require Import PropRefs PropRefsProofs.
Import ListNotations.
Local Open Scope string_scope.
Local Open Scope list_scope.

(* ---- the desired theorem is FALSE of the code as it stands (defect D5) ------------------- *)
(* three materials, the label gets "B", "A" is deleted: the file now says "C" *)
Definition w_delete : history :=
  [AddEnt TLabel 0 0; Add KBlock "A"; Add KBlock "B"; Add KBlock "C";
   Select TLabel 0; SetLabel (Some "B") None; ClearSel; Del KBlock "A"; Save].
Theorem C15_save_assoc_refuted : exists ph h t id s,
  ordinary h = true /\ has_slot ph t s = true /\
  saved_meaning ph (run false ph h) t id s <> of_assoc (assoc ph h t id s) /\
  (* silent re-targeting: the file names a different property that exists *)
  saved_meaning ph (run false ph h) t id s = MName "C" /\ assoc ph h t id s = Some "B".
Proof.
  exists Elec, w_delete, TLabel, 0, false.
  split; [reflexivity|]. split; [reflexivity|]. split; [vm_compute; discriminate|].
  split; vm_compute; reflexivity.
Qed.
Print Assumptions C15_save_assoc_refuted.

(* the entity's own property is deleted: instead of "none" the file names the next property *)
Definition w_delete_own : history :=
  [AddEnt TLabel 0 0; Add KBlock "A"; Add KBlock "B"; Select TLabel 0; SetLabel (Some "A") None; Del KBlock "A"; Save].
Theorem C15_deleted_property_retargets_refuted : exists ph h t id s,
  ordinary h = true /\ has_slot ph t s = true /\
  assoc ph h t id s = None /\ saved_meaning ph (run false ph h) t id s = MName "B".
Proof.
  exists Elec, w_delete_own, TLabel, 0, false. repeat split; vm_compute; reflexivity.
Qed.
Print Assumptions C15_deleted_property_retargets_refuted.

(* ---- what IS true of the code as it stands ---------------------------------------------- *)
(* without delete / rename / re-open, and when every set*prop names an existing property, the
   saved file says exactly what the script assigned *)
Theorem C15_save_assoc_no_delete : forall ph h t id s,
  calm h = true -> ordinary h = true -> sets_defined ph h = true -> has_slot ph t s = true ->
  saved_meaning ph (run false ph h) t id s = of_assoc (assoc ph h t id s).
Proof. exact save_assoc_calm. Qed.
Print Assumptions C15_save_assoc_no_delete.

(* ... and so does the analysis (labels by index, nodes/segments/arcs by name) *)
Theorem C15_analysis_no_delete : forall ph h t id s,
  calm h = true -> ordinary h = true -> sets_defined ph h = true -> has_slot ph t s = true ->
  analysis_meaning ph (run false ph h) t id s = of_assoc (assoc ph h t id s).
Proof. exact analysis_calm. Qed.
Print Assumptions C15_analysis_no_delete.

(* the hypothesis [sets_defined] cannot be dropped: a name assigned before the property is
   defined is lost in the file (index -1 is never re-resolved) although the analysis, which
   resolves segments by name, uses it — and the gate accepts *)
Definition w_early : history :=
  [AddEnt TNode 0 0; AddEnt TNode 0 0; AddEnt TSeg 0 1; AddEnt TLabel 0 0; Add KBlock "M";
   Select TLabel 3; SetLabel (Some "M") None; ClearSel;
   Select TSeg 2; SetSeg (Some "X") None; ClearSel; Add KBdry "X"; Save].
Theorem C15_assign_before_define_refuted : exists ph h t id s,
  calm h = true /\ ordinary h = true /\ has_slot ph t s = true /\
  assoc ph h t id s = Some "X" /\
  saved_meaning ph (run false ph h) t id s = MNone /\
  gate (run false ph h) = true /\ analysis_meaning ph (run false ph h) t id s = MName "X".
Proof.
  exists Elec, w_early, TSeg, 2, false. repeat split; vm_compute; reflexivity.
Qed.
Print Assumptions C15_assign_before_define_refuted.

(* renaming a point property (or a conductor) leaves the name->index map stale: the new name
   cannot be assigned *)
Definition w_rename : history :=
  [AddEnt TNode 0 0; Add KPoint "P"; Rename KPoint "P" "Q"; Select TNode 0; SetNode (Some "Q") None; Save].
Theorem C15_rename_stale_map_refuted : exists ph h t id s,
  ordinary h = true /\ has_slot ph t s = true /\
  assoc ph h t id s = Some "Q" /\ saved_meaning ph (run false ph h) t id s = MNone.
Proof.
  exists Elec, w_rename, TNode, 0, false. repeat split; vm_compute; reflexivity.
Qed.
Print Assumptions C15_rename_stale_map_refuted.

(* ---- the analysis gate ------------------------------------------------------------------ *)
(* what consistencyCheckOK establishes, for every document state of either variant: every
   reference it looks at resolves, by index, to the stored name *)
Theorem C15_gate_checks : forall d, gate d = true ->
  (forall e, In e (ents d TLabel) -> has_block_type (rname (er1 e)) = true ->
     resolve (props d KBlock) (ridx (er1 e)) = MName (rname (er1 e))) /\
  (forall t e, t <> TLabel -> In e (ents d t) -> ridx (er1 e) <> None ->
     resolve (props d (k1 t)) (ridx (er1 e)) = MName (rname (er1 e))) /\
  (forall t e, In e (ents d t) -> ridx (er2 e) <> None ->
     resolve (props d KCirc) (ridx (er2 e)) = MName (rname (er2 e))).
Proof. exact gate_checks. Qed.
Print Assumptions C15_gate_checks.

(* but "accepted ==> the analysis uses the association" is FALSE of the code as it stands:
   after open() block labels have no name (updateLabelsFromIndex tests the name, not the
   index), the check skips them, and a delete then re-targets them unnoticed *)
Definition w_open : history :=
  [AddEnt TLabel 0 0; Add KBlock "A"; Add KBlock "B"; Add KBlock "C";
   Select TLabel 0; SetLabel (Some "B") None; ClearSel; Save; Reopen; Del KBlock "A"].
Theorem C15_gate_sound_refuted : exists ph h t id s,
  ordinary h = true /\ has_slot ph t s = true /\
  gate (run false ph h) = true /\
  assoc ph h t id s = Some "B" /\ analysis_meaning ph (run false ph h) t id s = MName "C".
Proof.
  exists Elec, w_open, TLabel, 0, false. repeat split; vm_compute; reflexivity.
Qed.
Print Assumptions C15_gate_sound_refuted.

(* ---- the repaired code: the full property, all histories -------------------------------- *)
Theorem C15_save_assoc_fixed : forall ph h t id s,
  ordinary h = true -> has_slot ph t s = true ->
  saved_meaning ph (run true ph h) t id s = of_assoc (assoc ph h t id s).
Proof. exact save_assoc_fixed. Qed.
Print Assumptions C15_save_assoc_fixed.

(* the analysis uses exactly that association (whether or not it is refused for other reasons) *)
Theorem C15_analysis_uses_assoc_fixed : forall ph h t id s,
  ordinary h = true -> has_slot ph t s = true ->
  analysis_meaning ph (run true ph h) t id s = of_assoc (assoc ph h t id s).
Proof. exact analysis_fixed. Qed.
Print Assumptions C15_analysis_uses_assoc_fixed.

(* deleting, renaming or reordering never re-targets: the file says "none" or the name last
   assigned *)
Theorem C15_never_retargets_fixed : forall ph h t id s,
  ordinary h = true -> has_slot ph t s = true ->
  saved_meaning ph (run true ph h) t id s = MNone \/
  exists n, saved_meaning ph (run true ph h) t id s = MName n /\ last_assigned ph h t id s = Some n.
Proof.
  intros ph h t id s Ho Hs. rewrite (save_assoc_fixed ph h t id s Ho Hs).
  destruct (assoc ph h t id s) eqn:E; [right|left; reflexivity].
  exists s0. split; [reflexivity|]. apply aassoc_last_assigned. exact E.
Qed.
Print Assumptions C15_never_retargets_fixed.

(* the specification itself: an association is the last assigned name or nothing *)
Theorem C15_assoc_is_last_assigned : forall ph h t id s n,
  assoc ph h t id s = Some n -> last_assigned ph h t id s = Some n.
Proof. exact aassoc_last_assigned. Qed.
Print Assumptions C15_assoc_is_last_assigned.

(* ---- non-vacuity ------------------------------------------------------------------------ *)
(* the hypotheses of C15_save_assoc_no_delete are met by a history that assigns, duplicates a
   name, copies and multi-selects, and its conclusion is a real association *)
Definition w_calm : history :=
  [AddEnt TNode 0 0; AddEnt TNode 0 0; AddEnt TSeg 0 1; AddEnt TLabel 0 0;
   Add KBlock "A"; Add KBlock "B"; Add KBdry "V"; Add KCirc "c1"; Add KBlock "A";
   Select TLabel 3; SetLabel (Some "A") None; Copy TLabel;
   Select TSeg 2; SetSeg (Some "V") (Some "c1"); ClearSel; Save].
Example C15_no_delete_hypotheses_satisfiable :
  calm w_calm = true /\ ordinary w_calm = true /\ sets_defined Elec w_calm = true /\
  saved_meaning Elec (run false Elec w_calm) TLabel 4 false = MName "A" /\
  saved_meaning Elec (run false Elec w_calm) TSeg 2 true = MName "c1".
Proof. repeat split; vm_compute; reflexivity. Qed.

(* the repaired variant on the refuting histories: the association survives the delete, the
   early assignment is honoured, the renamed property can be assigned, the re-opened document
   is analysed with the right material *)
Example C15_fixed_on_witnesses :
  saved_meaning Elec (run true Elec w_delete) TLabel 0 false = MName "B" /\
  saved_meaning Elec (run true Elec w_delete_own) TLabel 0 false = MNone /\
  saved_meaning Elec (run true Elec w_early) TSeg 2 false = MName "X" /\
  saved_meaning Elec (run true Elec w_rename) TNode 0 false = MName "Q" /\
  analysis_meaning Elec (run true Elec w_open) TLabel 0 false = MName "B" /\
  gate (run true Elec w_open) = true.
Proof. repeat split; vm_compute; reflexivity. Qed.

(* the gate does refuse the un-reopened delete history in the code as it stands *)
Example C15_gate_refuses_stale_label : gate (run false Elec w_delete) = false.
Proof. vm_compute. reflexivity. Qed.
