(* AsmMHAxi.v — executable model of the LINEAR path of FSolver::HarmonicAxisymmetric
   (cfemm/fsolver/harmonicaxi.cpp), statement by statement and operator by operator as
   femmcomplex.cpp evaluates the mixed double / CComplex expressions, on the post-LoadMesh /
   post-Cuthill data (AsmMAxi.aprob) plus the libm values.  The solution is written by
   FSolver::WriteHarmonic2D, whose per-label lines are AsmMH.hwritten_label.
   Reused because the C++ is literally the same statements: AsmMH.hcirc_case (harmonicaxi.cpp:130-156
   = harmonic2d.cpp), AsmMH.block_mu (lines 163-203; only the ARGUMENTS of exp differ:
   Theta*PI/180. and Theta*PI/360. here, Theta*DEG and Theta*DEG/2. there, and they are libm inputs),
   AsmMH.hcombine_me (line 603), AsmMH.hseg_value (line 685), AsmMH.hfix_diag, AsmMH.happly_pbcs,
   AsmMH.hwritten_label; the shape data (rn, g, a_hat, R_hat with its logarithms) are AsmMAxi's.
   NOT modelled (never generated): BH curves (successive approximation / Newton, ACSolver = 1),
   LamType 1/2 (HarmonicAxisymmetric refuses them), BdryFormat 1 (small skin depth), polar boundary
   coordinates, previous solutions.  With BHpoints = 0 the loop runs once, Mn = 0 and
   be[j] += Mn[j][k]*L.V[n[k]]  adds 0; Mxy is never written (default-constructed zeros).
   libm inputs: per block AsmMH.hexp (ex = exp(-I*Theta_hx*PI/180.), ey, hx = exp(-I*Theta_hx*PI/360.),
   hy, tx = tanh(K), ty), per boundary property exp(I*phi*DEG), per element the six logarithms,
   per block label ProximityMu of FSolver::GetFillFactor (used for LamType > 2).
   No proofs in this file. *)
From Coq Require Import ZArith List Bool Arith.
From XF Require Import Arith Sparse CSparse AsmE AsmM AsmMH AsmMAxi.
Import ListNotations.

Section AsmMHAxi.
  Context {F : Type} (A : Arith F).
  Local Notation "x +. y" := (aadd A x y) (at level 50, left associativity).
  Local Notation "x -. y" := (asub A x y) (at level 50, left associativity).
  Local Notation "x *. y" := (amul A x y) (at level 40, left associativity).
  Local Notation "x /. y" := (adiv A x y) (at level 40, left associativity).
  Local Notation zero := (azero A).
  Local Notation one := (aone A).
  Local Notation "'#' z" := (aofZ A z) (at level 9).
  Local Notation C := (CA A).
  Local Notation cplx := (F * F)%type.
  Local Notation cmatrix := (list (list (nat * (F * F)))).
  Local Notation cvec := (list (F * F)).
  Local Notation c0 := (zero, zero).

  (* ---- circuit pre-pass (harmonicaxi.cpp:88-128) ---- *)
  Definition hacirc_step (P : mprob (F:=F)) (acc : cvec * cvec * cvec) (el : melem (F:=F)) : cvec * cvec * cvec :=
    let '(c1, c2, c3) := acc in
    let lab := nth (mlbl el) (mlabels P) (dmlabel) in
    match lcirc lab with
    | None => acc
    | Some ic =>
        let g := mel_geom A P el in
        let a := ga g in
        let r := gr g in
        let blk := nth (mblk el) (mblocks P) (dmblock A) in
        let Cduct := if is_wound A P lab then zero else bCduct blk in
        (vset c1 ic (caddd A (vget C c1 ic) a),
         vset c2 ic (caddd A (vget C c2 ic) (a *. Cduct /. (e2 A *. r))),
         vset c3 ic (cadd A (vget C c3 ic) (cmuld A (cmuld A (re_I_im A (bJre blk) (bJim blk)) a) #100)))
    end.

  Definition hacirc_ints (P : mprob (F:=F)) (nc : nat) : cvec * cvec * cvec :=
    fold_left (hacirc_step P) (melems P) (repeat c0 nc, repeat c0 nc, repeat c0 nc).

  Definition hacirc_results (P : mprob (F:=F)) : list (nat * cplx * cplx) :=
    let nc := length (mcircs P) in
    let '(c1, c2, c3) := hacirc_ints P nc in
    map (fun ic => hcirc_case A (snd ic) (vget C c1 (fst ic)) (vget C c2 (fst ic)) (vget C c3 (fst ic)))
        (combine (seq 0 nc) (mcircs P)).

  (* ---- complex 3x3 element matrices ---- *)
  Definition hupper6 : list (nat * nat) := [(0,0);(0,1);(0,2);(1,1);(1,2);(2,2)].
  Definition h3set (M : cvec) (j k : nat) (v : cplx) : cvec := vset M (j * 3 + k) v.

  (* Mx[j][k] += K*p[j]*rn[j]*p[k]*rn[k];  K complex, the rest double  (harmonicaxi.cpp:336-339) *)
  Definition hmx_upper (K : cplx) (p rn : list F) : cvec :=
    fold_left (fun M jk => let '(j, k) := jk in
      h3add A M j k (cmuld A (cmuld A (cmuld A (cmuld A K (vget A p j)) (vget A rn j)) (vget A p k)) (vget A rn k)))
      hupper6 (repeat c0 9).
  (* if (rn[j]<tol) Mx[j][j]+=Mx[0][0]+Mx[1][1]+Mx[2][2];  (lines 346-347) *)
  Definition haxis_diag (tol : F) (rn : list F) (M : cvec) : cvec :=
    fold_left (fun M j => if on_axis A tol rn j
                          then h3add A M j j (cadd A (cadd A (h3get A M 0 0) (h3get A M 1 1)) (h3get A M 2 2)) else M) [0; 1; 2] M.
  (* My[j][k] += K*(q[j]*rn[j])*(q[k]*rn[k])*(g[j]/R)*(g[k]/R);  (lines 352-356) *)
  Definition hmy_upper (K : cplx) (q rn g : list F) (R : F) : cvec :=
    fold_left (fun M jk => let '(j, k) := jk in
      h3add A M j k (cmuld A (cmuld A (cmuld A (cmuld A K (vget A q j *. vget A rn j)) (vget A q k *. vget A rn k))
                                      (vget A g j /. R)) (vget A g k /. R)))
      hupper6 (repeat c0 9).
  Definition hmirror3 (M : cvec) : cvec :=
    h3set (h3set (h3set M 1 0 (h3get A M 0 1)) 2 0 (h3get A M 0 2)) 2 1 (h3get A M 1 2).

  (* the eddy-current coefficient K = -I*R*a*w*Cduct*c/6. and its two overrides (lines 369-379) *)
  Definition haeddy_K (P : mprob (F:=F)) (w : F) (el : melem (F:=F)) (R a : F) : cplx :=
    let blk := nth (mblk el) (mblocks P) (dmblock A) in
    let K := cdivd A (cmuld A (cmuld A (cmuld A (cmuld A (cmuld A (cneg A (cI A)) R) a) w) (bCduct blk)) (c4pi A)) #6 in
    let K := if Nat.eqb (bLamType blk) 0 && altb A zero (bLamd blk) then c0 else K in
    if is_wound A P (nth (mlbl el) (mlabels P) dmlabel) then c0 else K.

  (* for j, for k:  Me[j][k]+=K*4./3.;  (lines 381-383) *)
  Definition haeddy_add (Me : cvec) (K : cplx) : cvec :=
    fold_left (fun Me jk => let '(j, k) := jk in h3add A Me j k (cdivd A (cmuld A K #4) #3))
      [(0,0);(0,1);(0,2);(1,0);(1,1);(1,2);(2,0);(2,1);(2,2)] Me.

  (* BdryFormat 2 (lines 394-407) *)
  Definition hamixed_step (P : mprob (F:=F)) (g : egeom) (rn : list F) (el : melem (F:=F)) (acc : cvec * cvec) (j : nat)
    : cvec * cvec :=
    match tri_get (me el) j with
    | None => acc
    | Some s =>
        let lp := nth s (mlines P) (dmline A) in
        if Nat.eqb (mlfmt lp) 2 then
          let '(Me, be) := acc in
          let k := nxt j in
          let r := (vget A rn j +. vget A rn k) /. #2 in
          let K := cdivd A (cmuld A (cmuld A (lc0re lp, lc0im lp) (aneg A (e4 A) *. c4pi A *. #2 *. r)) (vget A (gl g) j)) #6 in
          let Me := h3add A Me j j (cmuld A K #2) in
          let Me := h3add A Me k k (cmuld A K #2) in
          let Me := h3add A Me j k K in
          let Me := h3add A Me k j K in
          let K := cmuld A (cmuld A (cmuld A (cdivd A (cmuld A (lc1re lp, lc1im lp) (vget A (gl g) j)) #2) #2) r) (e4 A) in
          (Me, hv3add A (hv3add A be j K) k K)
        else acc
    end.

  (* Jv of an element (lines 427-435) and whether its circuit is Case 2 *)
  Definition hacirc_Jv (P : mprob (F:=F)) (res : list (nat * cplx * cplx)) (el : melem (F:=F)) (R : F) : cplx * option nat :=
    match lcirc (nth (mlbl el) (mlabels P) dmlabel) with
    | None => (c0, None)
    | Some k =>
        let '(case, J, dV) := nth k res (dhres A) in
        let Jv := if Nat.eqb case 1 then J else c0 in
        let Jv := if Nat.eqb case 0
                  then cdivd A (cmuld A (cmuld A dV (aneg A #100)) (bCduct (nth (mblk el) (mblocks P) (dmblock A)))) R else Jv in
        (Jv, if Nat.eqb case 2 then Some k else None)
    end.

  (* element permeabilities (lines 468-473, 573-587): block values, ProximityMu for LamType > 2, exterior region *)
  Definition hael_mu (AP : aprob (F:=F)) (X : list hexp) (PM : cvec) (w : F) (extRo extRi extZo : F)
    (el : melem (F:=F)) (R : F) (zn : list F) : cplx * cplx :=
    let blk := nth (mblk el) (mblocks (ap AP)) (dmblock A) in
    let '(mu1, mu2) := block_mu A w blk (nth (mblk el) X (dhexp A)) in
    let '(mu1, mu2) := if Nat.ltb 2 (bLamType blk) then (nth (mlbl el) PM c0, nth (mlbl el) PM c0) else (mu1, mu2) in
    if nth (mlbl el) (aext AP) false then
      let Z := (vget A zn 0 +. vget A zn 1 +. vget A zn 2) /. #3 -. extZo in
      let kludge := (R *. R +. Z *. Z) *. extRi /. (extRo *. extRo *. extRo) in
      (cdivd A mu1 kludge, cdivd A mu2 kludge)
    else (mu1, mu2).

  (* the two geometric matrices (Mx, My) *)
  Definition hael_shape (P : mprob (F:=F)) (el : melem (F:=F)) (lg : alogs (F:=F)) : cvec * cvec :=
    let g := mel_geom A P el in
    let rn := el_rn A P el in
    let tol := atol A P in
    let R := gr g in
    let gm := mid_radii A rn in
    let ah := a_hat_of A rn (gp g) R in
    let Rh := r_hat_of A tol rn (gq g) R lg in
    let K := (aneg A one /. (#2 *. ah *. R), zero) in
    let Mx := haxis_diag tol rn (hmx_upper K (gp g) rn) in
    let K := (aneg A one /. (#2 *. ah *. Rh), zero) in
    let My := hmy_upper K (gq g) rn gm R in
    (hmirror3 Mx, hmirror3 My).

  (* element matrices: (Me, be, K of the current density, (mu1, mu2)) *)
  Definition haelem_matrices (AP : aprob (F:=F)) (X : list hexp) (PM : cvec) (w : F) (extRo extRi extZo : F)
    (res : list (nat * cplx * cplx)) (ela : melem (F:=F) * alogs (F:=F)) : cvec * cvec * cplx * (cplx * cplx) :=
    let P := ap AP in
    let '(el, lg) := ela in
    let g := mel_geom A P el in
    let rn := el_rn A P el in
    let zn := el_zn A P el in
    let R := gr g in
    let blk := nth (mblk el) (mblocks P) (dmblock A) in
    let '(Mx, My) := hael_shape P el lg in
    let Mxy := repeat c0 9 in
    let Me := haeddy_add (repeat c0 9) (haeddy_K P w el R (ga g)) in
    let '(Me, be) := fold_left (hamixed_step P g rn el) [0;1;2] (Me, repeat c0 3) in
    let Jv := fst (hacirc_Jv P res el R) in
    let Kj := cdivd A (cmuld A (cmuld A (cadd A (re_I_im A (bJre blk) (bJim blk)) Jv) (aneg A #2 *. R)) (ga g)) #3 in
    let be := hv3add A (hv3add A (hv3add A be 0 Kj) 1 Kj) 2 Kj in
    let '(mu1, mu2) := hael_mu AP X PM w extRo extRi extZo el R zn in
    (hcombine_me A Me Mx My Mxy mu1 mu2, be, Kj, (mu1, mu2)).

  (* Case 2 circuit entries of an element (lines 440-459), then the scatter (lines 610-625) *)
  Definition haelem_step (AP : aprob (F:=F)) (X : list hexp) (PM : cvec) (w : F) (extRo extRi extZo : F)
    (res : list (nat * cplx * cplx)) (nn : nat) (s : cmatrix * cvec) (ela : melem (F:=F) * alogs (F:=F)) : cmatrix * cvec :=
    let P := ap AP in
    let el := fst ela in
    let '(Me, be, Kj, _) := haelem_matrices AP X PM w extRo extRi extZo res ela in
    let '(M, b) := s in
    let n := mp el in
    let R := gr (mel_geom A P el) in
    let '(M, b) :=
      match snd (hacirc_Jv P res el R) with
      | None => (M, b)
      | Some k =>
          let r := nn + k in
          let KR := cdivd A Kj R in
          let b := vset b r (cadd A (cadd A (cadd A (vget C b r) KR) KR) KR) in
          let blk := nth (mblk el) (mblocks P) (dmblock A) in
          let K := cmuld A (cmuld A (cmuld A (cmuld A (cmuld A (cI A) (aneg A #2)) (ga (mel_geom A P el))) w) (bCduct blk)) (c4pi A) in
          let M := fold_left (fun M j => caddto A M (cdivd A K #3) (tri_get n j) r) [0;1;2] M in
          (caddto A M (cdivd A K R) r r, b)
      end in
    fold_left (fun acc j =>
      let '(M, b) := acc in
      let nj := tri_get n j in
      let M := fold_left (fun M k => if Nat.leb j k then caddto A M (h3get A Me j k) nj (tri_get n k) else M) [0;1;2] M in
      (M, vset b nj (cadd A (vget C b nj) (vget C be j)))) [0;1;2] (M, b).

  (* point currents:  K = (2.*r*0.01)*(J.re+I*J.im); L.b[i]-=K;  (lines 632-639) *)
  Definition hapoint_currents (P : mprob (F:=F)) (b : cvec) : cvec :=
    fold_left (fun b in_ =>
      match mbm (snd in_) with
      | Some m =>
          let pp := nth m (mpoints P) (dmpoint A) in
          vset b (fst in_) (csub A (vget C b (fst in_)) (cmuld A (re_I_im A (pJre pp) (pJim pp)) (#2 *. mx (snd in_) *. e2 A)))
      | None => b end) (combine (seq 0 (length (mnodes P))) (mnodes P)) b.

  (* total current constraints:  L.b[NumNodes+i]+=2.*0.01*(Amps.re+I*Amps.im);  (lines 642-647) *)
  Definition hacirc_constraints (P : mprob (F:=F)) (res : list (nat * cplx * cplx)) (nn : nat) (b : cvec) : cvec :=
    fold_left (fun b ic =>
      let '(i, (c, r)) := ic in
      if Nat.eqb (fst (fst r)) 2 then vset b (nn + i) (cadd A (vget C b (nn + i)) (cmuld A (re_I_im A (cAre c) (cAim c)) (#2 *. e2 A)))
      else b) (combine (seq 0 (length (mcircs P))) (combine (mcircs P) res)) b.

  (* fixed boundary conditions at points; x < tol WITHOUT fabs (lines 650-663) *)
  Definition hafixed_points (P : mprob (F:=F)) (L : clin (F:=F)) : clin :=
    fold_left (fun L in_ =>
      if altb A (mx (snd in_)) (atol A P) then csetvalue A L (fst in_) c0
      else
        match mbm (snd in_) with
        | Some m =>
            let pp := nth m (mpoints P) (dmpoint A) in
            if aeqb A (pJre pp) zero && aeqb A (pJim pp) zero
            then csetvalue A L (fst in_) (cdivd A (re_I_im A (pAre pp) (pAim pp)) (c4pi A)) else L
        | None => L end) (combine (seq 0 (length (mnodes P))) (mnodes P)) L.

  (* fixed boundary conditions along segments; NO  x != 0  guard here (lines 666-730, Coords == 0):
     literally Harmonic2D's loop *)
  Definition hafixed_segments (P : mprob (F:=F)) (L : clin (F:=F)) : clin := hfixed_segments A P L.

  Definition asmMHAxi_raw (AP : aprob (F:=F)) (X : list hexp) (PM : cvec) (freq : F) (bw : nat) (prec : F)
    (res : list (nat * cplx * cplx)) : clin (F:=F) :=
    let P := ap AP in
    let nn := length (mnodes P) in
    let nc := length (mcircs P) in
    let w := wfreq A freq in
    let u := aunit A P in
    let extRo := aRo_raw AP *. u in
    let extRi := aRi_raw AP *. u in
    let extZo := aZo_raw AP *. u in
    let L0 := ccreate A (nn + nc) bw nn prec (adec A 15 (-1)) in
    let '(M, b) := fold_left (haelem_step AP X PM w extRo extRi extZo res nn) (combine (melems P) (alg AP)) (CSparse.cM L0, cb L0) in
    let b := hapoint_currents P b in
    let b := hacirc_constraints P res nn b in
    cwith L0 M b.

  Definition asmMHAxi (AP : aprob (F:=F)) (X : list hexp) (PM : cvec) (freq : F) (bw : nat) (prec : F)
    : clin (F:=F) * list (nat * cplx * cplx) :=
    let P := ap AP in
    let nn := length (mnodes P) in
    let res := hacirc_results P in
    let L := asmMHAxi_raw AP X PM freq bw prec res in
    let L := hafixed_points P L in
    let L := hafixed_segments P L in
    let L := cwith L (hfix_diag A res nn (CSparse.cM L)) (cb L) in
    let L := happly_pbcs A P L in
    (L, res).

  (* L.b[i]=L.V[i]*c*2.*PI*meshnode[i].x*0.01;  L.b[NumNodes+i]=(I*w*c*0.01*L.V[NumNodes+i]);  (lines 807-809) *)
  Definition hawritten (P : mprob (F:=F)) (freq : F) (V : cvec) : cvec :=
    let nn := length (mnodes P) in
    map (fun iv => if Nat.ltb (fst iv) nn
                   then cmuld A (cmuld A (cmuld A (cmuld A (cmuld A (snd iv) (c4pi A)) #2) (api A))
                                         (mx (nth (fst iv) (mnodes P) (dmnode A)))) (e2 A)
                   else cmul A (cmuld A (cmuld A (cmuld A (cI A) (wfreq A freq)) (c4pi A)) (e2 A)) (snd iv))
        (combine (seq 0 (length V)) V).

  Definition haside_outputs (AP : aprob (F:=F)) (X : list hexp) (PM : cvec) (freq : F) (res : list (nat * cplx * cplx))
    (bfinal : cvec) : list F :=
    let P := ap AP in
    let nn := length (mnodes P) in
    let u := aunit A P in
    concat (map (fun r => let '(case, J, dV) := r in [#(Z.of_nat case); fst J; snd J; fst dV; snd dV]) res)
    ++ concat (map (fun l => let '(f, v) := hwritten_label A res nn bfinal l in [#(Z.of_nat f); fst v; snd v]) (mlabels P))
    ++ map (fun l => if is_wound A P l then one else zero) (mlabels P)
    ++ concat (map (fun el => let '(m1, m2) := hael_mu AP X PM (wfreq A freq) (aRo_raw AP *. u) (aRi_raw AP *. u) (aZo_raw AP *. u)
                                                       el (gr (mel_geom A P el)) (el_zn A P el)
                              in [fst m1; snd m1; fst m2; snd m2]) (melems P)).
End AsmMHAxi.
