(* Properties_C19.v — theorem statements for property C19 (nonlinear B-H curves are consistent
   and reduce to the linear case), each closed by [exact] of a lemma proved in BHProofs.v.
   All statements are about the real-number reading [RA] of the model BH.v (which follows
   CMaterialProp.cpp / fullmatrix.cpp statement by statement) and hold for every table size.
   A segment is (B_i, B_i+1, H_i, H_i+1, slope_i, slope_i+1); [segs] lists the segments of a
   table, [lo]/[hi] are its end abscissae, [on_seg f sg] applies a segment formula. *)
From Coq Require Import ZArith List Bool Arith Lia Reals Lra.
Set Warnings "-ambiguous-paths".
From Coquelicot Require Import Coquelicot.
From XF Require Import Arith BH BHGauss BHProofs.
Import ListNotations.
Local Open Scope R_scope.

(* -- (a) GetH's segment formula is the cubic Hermite interpolant: table values and reported
      slopes at both knots (both complex components) --------------------------------------- *)
Theorem C19_segment_interpolates : forall b0 b1 (h0 h1 s0 s1 : R * R), b0 <> b1 ->
  hseg RA b0 b0 b1 h0 h1 s0 s1 = h0 /\ hseg RA b1 b0 b1 h0 h1 s0 s1 = h1 /\
  dhseg RA b0 b0 b1 h0 h1 s0 s1 = s0 /\ dhseg RA b1 b0 b1 h0 h1 s0 s1 = s1.
Proof.
  intros. repeat split; [apply hseg_left|apply hseg_right|apply dhseg_left|apply dhseg_right]; auto.
Qed.
Print Assumptions C19_segment_interpolates.

Theorem C19_segment_is_hermite_cubic : forall b b0 b1 (h0 h1 s0 s1 : R * R),
  fst (hseg RA b b0 b1 h0 h1 s0 s1) = hermite b b0 b1 (fst h0) (fst h1) (fst s0) (fst s1) /\
  snd (hseg RA b b0 b1 h0 h1 s0 s1) = hermite b b0 b1 (snd h0) (snd h1) (snd s0) (snd s1).
Proof. intros. split; [apply hseg_re|apply hseg_im]. Qed.
Print Assumptions C19_segment_is_hermite_cubic.

(* on every CLOSED segment of a strictly increasing table, GetH(B) is that segment's cubic in
   |B| (so at a knot it does not matter which of the two segments the search picks) *)
Theorem C19_H_on_closed_segment : forall (m : mat (F:=R)) (B : R) pre sg post,
  incr (mB m) -> segs (mB m) (mH m) (mS m) = pre ++ sg :: post ->
  lo sg <= Rabs B <= hi sg ->
  getH RA m B = on_seg (hseg RA (Rabs B)) sg.
Proof. exact getH_on_segment. Qed.
Print Assumptions C19_H_on_closed_segment.

(* continuity at knots: the left segment at z=1, the right segment at z=0 and GetH agree *)
Theorem C19_H_continuous_at_knots : forall (m : mat (F:=R)) pre sgL sgR post,
  incr (mB m) -> 0 <= hd 0 (mB m) ->
  segs (mB m) (mH m) (mS m) = pre ++ sgL :: sgR :: post ->
  hi sgL = lo sgR /\
  on_seg (hseg RA (hi sgL)) sgL = on_seg (hseg RA (lo sgR)) sgR /\
  getH RA m (hi sgL) = on_seg (hseg RA (hi sgL)) sgL /\
  getH RA m (lo sgR) = on_seg (hseg RA (lo sgR)) sgR.
Proof. exact getH_knot_both_sides. Qed.
Print Assumptions C19_H_continuous_at_knots.

(* -- (b) the reported slope is the derivative of the reported H -------------------------- *)
Theorem C19_dHdB_segment_is_derivative : forall b b0 b1 (h0 h1 s0 s1 : R * R), b0 <> b1 ->
  is_derive (fun x => fst (hseg RA x b0 b1 h0 h1 s0 s1)) b (fst (dhseg RA b b0 b1 h0 h1 s0 s1)) /\
  is_derive (fun x => snd (hseg RA x b0 b1 h0 h1 s0 s1)) b (snd (dhseg RA b b0 b1 h0 h1 s0 s1)).
Proof. intros. split; [apply dhseg_is_derive_re|apply dhseg_is_derive_im]; auto. Qed.
Print Assumptions C19_dHdB_segment_is_derivative.

Theorem C19_dHdB_on_closed_segment : forall (m : mat (F:=R)) (B : R) pre sg post,
  incr (mB m) -> segs (mB m) (mH m) (mS m) = pre ++ sg :: post ->
  lo sg <= Rabs B <= hi sg ->
  getdHdB RA m B = on_seg (dhseg RA (Rabs B)) sg.
Proof. exact getdHdB_on_segment. Qed.
Print Assumptions C19_dHdB_on_closed_segment.

(* table level, full strength: at EVERY flux density beyond the first knot — inside a segment, at
   a knot, at the last point, beyond the table — the reported slope GetdHdB is the derivative of
   the reported H *)
Theorem C19_dHdB_is_derivative_of_H : forall (m : mat (F:=R)) (B : R),
  tbl_wf m -> 0 <= hd 0 (mB m) -> hd 0 (mB m) < B ->
  is_derive (fun x => fst (getH RA m x)) B (fst (getdHdB RA m B)).
Proof. exact getH_is_derive. Qed.
Print Assumptions C19_dHdB_is_derivative_of_H.

(* H(|B|) is continuous on the whole real line when the table starts at B = 0 *)
Theorem C19_H_continuous_everywhere : forall (m : mat (F:=R)) (B : R),
  tbl_wf m -> (2 <= length (mB m))%nat -> hd 0 (mB m) = 0 ->
  continuous (fun x => fst (getH RA m x)) B.
Proof. exact getH_continuous. Qed.
Print Assumptions C19_H_continuous_everywhere.

(* -- (c) the stored energy is the integral of H dB --------------------------------------- *)
(* segment formula: 0 at the left knot, the whole-segment constant at the right knot (energy is
   continuous at knots), derivative = the cubic of GetH *)
Theorem C19_energy_segment_is_integral : forall b b0 b1 h0 h1 d0 d1, b0 <> b1 ->
  eseg RA b0 b0 b1 h0 h1 d0 d1 = 0 /\
  eseg RA b1 b0 b1 h0 h1 d0 d1 = efull RA b0 b1 h0 h1 d0 d1 /\
  is_derive (fun x => eseg RA x b0 b1 h0 h1 d0 d1) b (hermite b b0 b1 h0 h1 d0 d1).
Proof. intros. split; [apply eseg_left|split; [apply eseg_right|apply eseg_is_derive]]; auto. Qed.
Print Assumptions C19_energy_segment_is_integral.

(* GetEnergy on a closed segment = sum of the whole-segment integrals before it + the partial one *)
Theorem C19_energy_on_closed_segment : forall (m : mat (F:=R)) (B : R) pre sg post,
  incr (mB m) -> segs (mB m) (mH m) (mS m) = pre ++ sg :: post ->
  lo sg <= Rabs B <= hi sg ->
  getEnergy RA m B = esum pre + eseg_at (Rabs B) sg.
Proof. exact getEnergy_on_segment. Qed.
Print Assumptions C19_energy_on_closed_segment.

(* table level, full strength: d(energy)/dB = H at every B beyond the first knot, and the energy
   IS the integral of the reported H from the first knot, inside and beyond the table *)
Theorem C19_energy_derivative_is_H : forall (m : mat (F:=R)) (B : R),
  tbl_wf m -> 0 <= hd 0 (mB m) -> hd 0 (mB m) < B ->
  is_derive (getEnergy RA m) B (fst (getH RA m B)).
Proof. exact getEnergy_is_derive. Qed.
Print Assumptions C19_energy_derivative_is_H.

Theorem C19_energy_is_integral_of_H : forall (m : mat (F:=R)) (B : R),
  tbl_wf m -> (2 <= length (mB m))%nat -> 0 <= hd 0 (mB m) -> hd 0 (mB m) <= B ->
  is_RInt (fun x => fst (getH RA m x)) (hd 0 (mB m)) B (getEnergy RA m B).
Proof. exact getEnergy_is_RInt. Qed.
Print Assumptions C19_energy_is_integral_of_H.

(* -- (d) beyond the last point: H affine with the last slope, slope constant, energy tail
      differentiates to H and starts at the accumulated table energy ----------------------- *)
Theorem C19_extrapolation : forall (m : mat (F:=R)) (B : R),
  tbl_wf m -> lastB RA m < Rabs B ->
  getH RA m B = (fst (lastH RA m) + fst (lastS RA m) * (Rabs B - lastB RA m),
                 snd (lastH RA m) + snd (lastS RA m) * (Rabs B - lastB RA m)) /\
  getdHdB RA m B = lastS RA m /\
  getEnergy RA m B = esum (segs (mB m) (mH m) (mS m))
                     + etail (Rabs B) (lastB RA m) (fst (lastH RA m)) (fst (lastS RA m)) /\
  etail (lastB RA m) (lastB RA m) (fst (lastH RA m)) (fst (lastS RA m)) = 0 /\
  is_derive (fun x => etail x (lastB RA m) (fst (lastH RA m)) (fst (lastS RA m))) (Rabs B)
            (fst (lastH RA m) + fst (lastS RA m) * (Rabs B - lastB RA m)).
Proof.
  intros m B Hwf Hb. pose proof Hwf as (Hi & LH & LS & Hne).
  split; [apply getH_beyond; auto|]. split; [apply getdHdB_beyond; auto|].
  split; [apply getEnergy_beyond; auto|]. split; [apply etail_at_knot|apply etail_is_derive].
Qed.
Print Assumptions C19_extrapolation.

(* -- (e) what the acceptance test of GetSlopes really implies ----------------------------- *)
(* dH/dB on a segment is the quadratic the test looks at *)
Theorem C19_dHdB_is_the_tested_quadratic : forall b b0 b1 (h0 h1 s0 s1 : R * R), b0 <> b1 ->
  fst (dhseg RA b b0 b1 h0 h1 s0 s1) = dquad (fst s0) (fst s1) (fst h0) (fst h1) (b1 - b0) (b - b0).
Proof. exact dhseg_re_dquad. Qed.
Print Assumptions C19_dHdB_is_the_tested_quadratic.

(* if the test does not flag the segment and the two table values do not decrease, dH/dB >= 0
   on the whole closed segment (the untested double root and the degenerate branches included) *)
Theorem C19_test_passed_implies_slope_nonneg : forall d0 d1 u0 u1 L x,
  seg_bad RA d0 d1 u0 u1 L = false -> 0 < L -> u0 <= u1 -> 0 <= x <= L ->
  0 <= dquad d0 d1 u0 u1 L x.
Proof. exact seg_bad_false_nonneg. Qed.
Print Assumptions C19_test_passed_implies_slope_nonneg.

(* the hypothesis u0 <= u1 (monotone table values) cannot be dropped: by itself the test is not a
   monotonicity test — a decreasing straight segment (slopes -1, values 0 then -1) is not flagged *)
Theorem C19_test_without_monotone_data_refuted :
  exists d0 d1 u0 u1 L x,
    seg_bad RA d0 d1 u0 u1 L = false /\ 0 < L /\ 0 <= x <= L /\ dquad d0 d1 u0 u1 L x < 0.
Proof.
  exists (-1), (-1), (0 * -1), (1 * -1), (1 - 0), 0.
  split; [apply line_seg_ok; lra|]. split; [lra|]. split; [lra|].
  unfold dquad, qc1, qc2. lra.
Qed.
Print Assumptions C19_test_without_monotone_data_refuted.

(* hence: a table on which every segment passed yields H(|B|) non-decreasing from the first
   knot on, inside and beyond the table *)
Theorem C19_H_nondecreasing : forall (m : mat (F:=R)),
  tbl_wf m -> (2 <= length (mB m))%nat ->
  curve_bad RA (mB m) (mH m) (mS m) = false -> nondecr (map fst (mH m)) ->
  0 <= fst (lastS RA m) ->
  forall x y, hd 0 (mB m) <= Rabs x -> Rabs x <= Rabs y ->
  fst (getH RA m x) <= fst (getH RA m y).
Proof. exact getH_monotone. Qed.
Print Assumptions C19_H_nondecreasing.

(* the smoothing repair keeps a monotone table monotone and does not move its end points *)
Theorem C19_smoothing_keeps_monotone_table : forall (Bd : list R) (Hd : list (R * R)),
  incr Bd -> nondecr (map fst Hd) ->
  incr (smooth (avgF RA) Bd) /\ nondecr (map fst (smooth (avgC RA) Hd)) /\
  length (smooth (avgF RA) Bd) = length Bd /\ length (smooth (avgC RA) Hd) = length Hd /\
  hd 0 (smooth (avgF RA) Bd) = hd 0 Bd /\ last (smooth (avgF RA) Bd) 0 = last Bd 0.
Proof.
  intros Bd Hd Hi Hn. split; [apply smooth_incr; auto|].
  split; [rewrite smooth_fst; apply smooth_nondecr; auto|].
  split; [apply smooth_length|]. split; [apply smooth_length|]. apply smooth_hd_last.
Qed.
Print Assumptions C19_smoothing_keeps_monotone_table.

(* GetSlopes(0) as a whole, without fill-factor mixing: whenever the repair loop finishes (fuel
   not exhausted) the material model it leaves is non-decreasing in |B| and kept its end points.
   PARTIAL: termination of the loop (bounded construction time) is not proved. *)
Theorem C19_get_slopes_yields_nondecreasing_H_partial :
  forall fuel lam0 lamfill muo mux (Bd : list R) (Hd : list (R * R)),
  no_mixing lam0 lamfill false ->
  incr Bd -> length Hd = length Bd -> (2 <= length Bd)%nat -> nondecr (map fst Hd) ->
  let r := get_slopes RA fuel lam0 lamfill muo Bd Hd in
  rdone r = true ->
  let m := mkMat (rB r) (rH r) (rS r) mux muo in
  hd 0 (rB r) = hd 0 Bd /\ last (rB r) 0 = last Bd 0 /\
  forall x y, hd 0 Bd <= Rabs x -> Rabs x <= Rabs y -> fst (getH RA m x) <= fst (getH RA m y).
Proof. exact get_slopes_monotone_model. Qed.
Print Assumptions C19_get_slopes_yields_nondecreasing_H_partial.

(* the same WITH the fill-factor mixing of GetSlopes (LamType 0, 0 < LamFill < 1; the other
   lamination types do not touch the curve): for a real monotone table that starts at the origin
   ([mix_inv]: B strictly increasing from 0, H real, non-decreasing, H_0 >= 0, H_1 > 0) the material
   model that comes out is non-decreasing in |B| on the whole real line.
   PARTIAL: termination of the loop is not proved. *)
Theorem C19_get_slopes_with_fill_factor_yields_nondecreasing_H_partial :
  forall fuel lamfill muo mux (Bd : list R) (Hd : list (R * R)),
  0 < lamfill < 1 -> 0 < muo -> mix_inv Bd Hd ->
  let r := get_slopes RA fuel true lamfill muo Bd Hd in
  rdone r = true ->
  let m := mkMat (rB r) (rH r) (rS r) mux muo in
  forall x y, Rabs x <= Rabs y -> fst (getH RA m x) <= fst (getH RA m y).
Proof. exact get_slopes_monotone_mixing. Qed.
Print Assumptions C19_get_slopes_with_fill_factor_yields_nondecreasing_H_partial.

(* -- (f) reduction to the linear case ------------------------------------------------------ *)
(* a table on a straight line through the origin (H_i = k B_i) whose slopes all equal k gives
   H = k|B|, dH/dB = k, energy = k B^2/2 for every B, inside and beyond the table *)
Theorem C19_line_table_is_linear_material : forall (k : R * R) (Bd : list R) mux muo (B : R),
  incr Bd -> (2 <= length Bd)%nat -> hd 0 Bd = 0 ->
  let m := line_mat k Bd mux muo in
  getH RA m B = (Rabs B * fst k, Rabs B * snd k) /\
  getdHdB RA m B = k /\
  getEnergy RA m B = fst k * (B * B) / 2.
Proof.
  intros k Bd mux muo B Hi Hlen H0 m.
  assert (Hne : Bd <> []) by (destruct Bd; [cbn in Hlen; lia|discriminate]).
  assert (Hb : hd 0 Bd <= Rabs B) by (rewrite H0; apply Rabs_pos).
  split; [apply line_getH; auto|]. split; [apply line_getdHdB; auto|apply line_getEnergy; auto].
Qed.
Print Assumptions C19_line_table_is_linear_material.

(* ... and it is the linear material of permeability mu: with k = 1/(mu*muo), GetH of the table
   equals GetH of the material without a table (BHpoints = 0, mu_x = mu) *)
Theorem C19_line_table_equals_linear_material : forall (mu muo : R) (Bd : list R) (B : R),
  incr Bd -> (2 <= length Bd)%nat -> hd 0 Bd = 0 -> mu * muo <> 0 ->
  getH RA (line_mat (1 / (mu * muo), 0) Bd mu muo) B = getH RA (mkMat [] [] [] mu muo) B.
Proof.
  intros mu muo Bd B Hi Hlen H0 Hm.
  rewrite line_getH; auto; [|rewrite H0; apply Rabs_pos].
  unfold getH. cbn [mB length Nat.eqb mMux mMuo fst snd]. unfold cofd. ra_simpl.
  assert (mu <> 0 /\ muo <> 0) as [Hmu Hmuo] by (split; intros E; apply Hm; rewrite E; ring).
  f_equal; field; auto.
Qed.
Print Assumptions C19_line_table_equals_linear_material.

(* the straight-line table with constant slopes passes the acceptance test: no smoothing *)
Theorem C19_line_table_passes_test : forall (k : R) (Bd : list R), incr Bd ->
  curve_bad RA Bd (line_H (k, 0) Bd) (line_S (k, 0) Bd) = false.
Proof. exact line_curve_ok. Qed.
Print Assumptions C19_line_table_passes_test.

(* -- the slopes: GaussSolve and the spline system ------------------------------------------- *)
(* CComplexFullMatrix::GaussSolve as written (pivot search, row swap, elimination restricted to
   columns k>=i, back substitution): whenever it reports success, what it returns is THE solution
   of the n x n system it was given (all n, all complex entries) *)
Theorem C19_gauss_solve_returns_the_solution :
  forall (n : nat) (M : list (list (R * R))) (b x : list (R * R)),
  shape n M b -> gauss_solve RA M b = (true, x) ->
  forall y, length y = n -> (sat n M b y <-> y = x).
Proof. exact gauss_solve_correct. Qed.
Print Assumptions C19_gauss_solve_returns_the_solution.

(* hence the stored slopes are the unique solution of the natural-spline equations of the table *)
Theorem C19_slopes_solve_the_spline_system : forall (Bd : list R) (Hd Sd : list (R * R)),
  gauss_solve RA (fst (spline_system RA Bd Hd)) (snd (spline_system RA Bd Hd)) = (true, Sd) ->
  forall y, length y = length Bd ->
    (sat (length Bd) (fst (spline_system RA Bd Hd)) (snd (spline_system RA Bd Hd)) y <-> y = Sd).
Proof. exact slopes_solve_spline_system. Qed.
Print Assumptions C19_slopes_solve_the_spline_system.

(* GetSlopes(0) on a straight-line table (no fill-factor mixing): one pass, no smoothing, table
   untouched, every slope = the slope of the line; with C19_line_table_is_linear_material the
   material built from it IS the linear material.
   PARTIAL: conditional on GaussSolve reporting success on that system (its return value is
   ignored by the C++; that the pivots of the spline matrix never vanish is not proved). *)
Theorem C19_get_slopes_on_line_table_partial :
  forall fuel lam0 lamfill muo (k : R * R) (Bd : list R),
  no_mixing lam0 lamfill false -> incr Bd -> (2 <= length Bd)%nat ->
  fst (gauss_solve RA (fst (spline_system RA Bd (line_H k Bd)))
                      (snd (spline_system RA Bd (line_H k Bd)))) = true ->
  get_slopes RA (S fuel) lam0 lamfill muo Bd (line_H k Bd)
  = mkSR Bd (line_H k Bd) (line_S k Bd) 0 true true.
Proof. exact get_slopes_line_table. Qed.
Print Assumptions C19_get_slopes_on_line_table_partial.

(* -- non-vacuity -------------------------------------------------------------------------- *)
Example C19_mix_inv_satisfiable : mix_inv [0; 1; 2] [(0, 0); (1, 0); (2, 0)].
Proof.
  unfold mix_inv. cbn [incr hd length map fst nth nondecr].
  repeat split; try lra; try lia; repeat constructor; cbn; lra.
Qed.

(* the spline system of every table has the shape required by the GaussSolve theorem *)
Example C19_spline_system_has_shape : forall (Bd : list R) (Hd : list (R * R)),
  shape (length Bd) (fst (spline_system RA Bd Hd)) (snd (spline_system RA Bd Hd)).
Proof. exact spline_shape. Qed.

(* a concrete 3-point monotone table with its natural-spline slopes: well-formed, passes the
   test, H non-decreasing by the theorem above *)
Example C19_hypotheses_satisfiable :
  let m := mkMat [0; 1; 2] [(0, 0); (1, 0); (2, 0)] [(1, 0); (1, 0); (1, 0)] 1 1 in
  tbl_wf m /\ (2 <= length (mB m))%nat /\ curve_bad RA (mB m) (mH m) (mS m) = false /\
  nondecr (map fst (mH m)) /\ 0 <= fst (lastS RA m) /\ hd 0 (mB m) = 0.
Proof.
  cbn [mB mH mS map fst length hd]. split.
  { unfold tbl_wf. cbn. repeat split; try lra; discriminate. }
  split; [lia|]. split.
  { change [(0, 0); (1, 0); (2, 0)] with (map (fun b : R => (b, 0)) [0; 1; 2]).
    pose proof (line_curve_ok 1 [0; 1; 2]) as H. unfold line_H, line_S in H. cbn [map fst snd] in H.
    cbn [map]. replace (0 * 1) with 0 in H by ring. replace (1 * 1) with 1 in H by ring.
    replace (2 * 1) with 2 in H by ring. replace (0 * 0) with 0 in H by ring.
    replace (1 * 0) with 0 in H by ring. replace (2 * 0) with 0 in H by ring.
    apply H. cbn. lra. }
  split; [cbn; lra|]. split; [unfold lastS; cbn; lra|reflexivity].
Qed.
