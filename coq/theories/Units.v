(* Units.v — all length-unit tables of the sources (regenerated into gen/Tables.v) agree with the SI
   definition of the six units and with each other, up to each tool's working unit. *)
From Coq Require Import QArith List Bool.
From XF.gen Require Import Tables.
Import ListNotations.
Local Open Scope Q_scope.

(* metres per inch, millimetre, centimetre, metre, mil, micrometre *)
Definition si_meters : list Q := [254 # 10000; 1 # 1000; 1 # 100; 1; 254 # 10000000; 1 # 1000000].

Definition scaled_eq (k : Q) (t : list Q) : bool :=
  (length t =? 6)%nat && forallb (fun p => Qeq_bool (fst p) (k * snd p)) (combine t si_meters).

(* esolver works in millimetres, hsolver in metres, fsolver in centimetres, post-processors in metres *)
Definition tables_consistent_b : bool :=
  scaled_eq 1000 esolver_units && scaled_eq 1 hsolver_units && scaled_eq 1 hsolver_loadmesh_c &&
  scaled_eq 100 static2d_units && scaled_eq 100 static2d_unitconv &&
  scaled_eq 100 harmonic2d_units && scaled_eq 100 harmonic2d_unitconv &&
  scaled_eq 100 staticaxi_units && scaled_eq 100 harmonicaxi_units &&
  scaled_eq 1 lengthconvmeters && scaled_eq 1 pproc_lengthconv && scaled_eq 1 fpproc_lengthconv.
