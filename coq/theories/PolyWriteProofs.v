(* PolyWriteProofs.v — lemmas about PolyWrite.v (what fmesher hands to Triangle on the non-periodic
   path and what it writes from Triangle's answer). *)
From Coq Require Import ZArith List Bool Arith String Lia Reals Lra.
From XF.gen Require Import MarkerConsts.
From XF Require Import Arith Marker MarkerProofs Discretize PolyWrite.
Import ListNotations.

(* ---------------------------------------------------------------------------------------------- *)
(* name matching                                                                                  *)
(* ---------------------------------------------------------------------------------------------- *)
Definition names_ok (names : list string) : Prop := NoDup names /\ ~ In none_name names.
Definition idx_opt (i : Z) : option Z := if (i =? -1)%Z then None else Some i.

Lemma last_match_nomatch names nm j t f : ~ In nm names -> last_match names nm j t f = t.
Proof.
  revert j t. induction names as [|n r IH]; intros j t H; simpl; [reflexivity|].
  destruct (String.eqb_spec n nm) as [->|Hne]; [exfalso; apply H; left; reflexivity|].
  apply IH. intro Hin. apply H. right. exact Hin.
Qed.

Lemma last_match_unique names nm k j t f :
  NoDup names -> nth_error names k = Some nm -> last_match names nm j t f = f (j + Z.of_nat k)%Z.
Proof.
  revert k j t. induction names as [|n r IH]; intros k j t Hnd Hk; [destruct k; discriminate|].
  inversion Hnd as [|? ? Hnotin Hnd']; subst. destruct k as [|k]; simpl in Hk.
  - inversion Hk; subst. simpl. rewrite String.eqb_refl.
    rewrite last_match_nomatch by exact Hnotin. f_equal. lia.
  - simpl. destruct (String.eqb_spec n nm) as [->|Hne].
    + exfalso. apply Hnotin. eapply nth_error_In. exact Hk.
    + rewrite (IH k) by assumption. f_equal. lia.
Qed.

Lemma sum_match_nomatch names nm j t g : ~ In nm names -> sum_match names nm j t g = t.
Proof.
  revert j t. induction names as [|n r IH]; intros j t H; simpl; [reflexivity|].
  destruct (String.eqb_spec n nm) as [->|Hne]; [exfalso; apply H; left; reflexivity|].
  apply IH. intro Hin. apply H. right. exact Hin.
Qed.

Lemma sum_match_unique names nm k j t g :
  NoDup names -> nth_error names k = Some nm -> sum_match names nm j t g = (t + g (j + Z.of_nat k))%Z.
Proof.
  revert k j t. induction names as [|n r IH]; intros k j t Hnd Hk; [destruct k; discriminate|].
  inversion Hnd as [|? ? Hnotin Hnd']; subst. destruct k as [|k]; simpl in Hk.
  - inversion Hk; subst. simpl. rewrite String.eqb_refl.
    rewrite sum_match_nomatch by exact Hnotin. do 2 f_equal. lia.
  - simpl. destruct (String.eqb_spec n nm) as [->|Hne].
    + exfalso. apply Hnotin. eapply nth_error_In. exact Hk.
    + rewrite (IH k) by assumption. do 2 f_equal. lia.
Qed.

Lemma lookup_name_spec names i nm :
  lookup_name names i = Some nm ->
  (i = (-1)%Z /\ nm = none_name) \/
  ((0 <= i < Z.of_nat (List.length names))%Z /\ nth_error names (Z.to_nat i) = Some nm).
Proof.
  unfold lookup_name. destruct (Z.eqb_spec i (-1)) as [->|Hne].
  - intros Hs. inversion Hs. left. auto.
  - destruct (Z.leb_spec 0 i) as [Hlo|Hlo]; destruct (Z.ltb_spec i (Z.of_nat (List.length names))) as [Hhi|Hhi]; simpl; try discriminate.
    intros Hs. inversion Hs. right. split; [lia|].
    apply nth_error_nth'. lia.
Qed.

(* the value of one name-matching loop for an entity whose name comes from index i *)
Lemma last_match_of_index names i nm f :
  names_ok names -> lookup_name names i = Some nm -> last_match names nm 0 0 f = oz (idx_opt i) f.
Proof.
  intros [Hnd Hnone] H. apply lookup_name_spec in H. destruct H as [[-> ->]|[Hr Hk]].
  - rewrite last_match_nomatch by exact Hnone. reflexivity.
  - rewrite (last_match_unique names nm (Z.to_nat i)) by assumption.
    unfold idx_opt. destruct (Z.eqb_spec i (-1)); [lia|]. simpl. f_equal. lia.
Qed.
Lemma sum_match_of_index names i nm t g :
  names_ok names -> lookup_name names i = Some nm -> sum_match names nm 0 t g = (t + oz (idx_opt i) g)%Z.
Proof.
  intros [Hnd Hnone] H. apply lookup_name_spec in H. destruct H as [[-> ->]|[Hr Hk]].
  - rewrite sum_match_nomatch by exact Hnone. simpl. lia.
  - rewrite (sum_match_unique names nm (Z.to_nat i)) by assumption.
    unfold idx_opt. destruct (Z.eqb_spec i (-1)); [lia|]. simpl. do 2 f_equal. lia.
Qed.

Lemma pair_names_inv n1 n2 i1 i2 nm :
  pair_names n1 n2 i1 i2 = Some nm -> lookup_name n1 i1 = Some (fst nm) /\ lookup_name n2 i2 = Some (snd nm).
Proof.
  unfold pair_names. destruct (lookup_name n1 i1), (lookup_name n2 i2); try discriminate.
  intros H. inversion H. auto.
Qed.

Theorem point_marker_enc P i c nm :
  names_ok (p_point P) -> names_ok (p_cond P) -> pair_names (p_point P) (p_cond P) i c = Some nm ->
  point_marker false P nm = enc_pt (idx_opt i) (idx_opt c).
Proof.
  intros H1 H2 H. apply pair_names_inv in H. destruct H as [Ha Hb].
  unfold point_marker, enc_pt. rewrite (last_match_of_index _ i) by assumption.
  rewrite (sum_match_of_index _ c) by assumption. reflexivity.
Qed.
Theorem point_marker_enc_mag P i c nm :
  names_ok (p_point P) -> pair_names (p_point P) (p_cond P) i c = Some nm ->
  point_marker true P nm = enc_pt_mag (idx_opt i).
Proof.
  intros H1 H. apply pair_names_inv in H. destruct H as [Ha Hb].
  unfold point_marker, enc_pt_mag. rewrite (last_match_of_index _ i) by assumption. reflexivity.
Qed.
Theorem seg_marker_enc P i c nm :
  names_ok (p_bdry P) -> names_ok (p_cond P) -> pair_names (p_bdry P) (p_cond P) i c = Some nm ->
  seg_marker false P nm = enc_seg (idx_opt i) (idx_opt c).
Proof.
  intros H1 H2 H. apply pair_names_inv in H. destruct H as [Ha Hb].
  unfold seg_marker, enc_seg. rewrite (last_match_of_index _ i) by assumption.
  rewrite (sum_match_of_index _ c) by assumption. f_equal.
  destruct (idx_opt i), (idx_opt c); simpl; lia.
Qed.
Theorem seg_marker_enc_mag P i c nm :
  names_ok (p_bdry P) -> pair_names (p_bdry P) (p_cond P) i c = Some nm ->
  seg_marker true P nm = enc_seg_mag (idx_opt i).
Proof.
  intros H1 H. apply pair_names_inv in H. destruct H as [Ha Hb].
  unfold seg_marker, enc_seg_mag. rewrite (last_match_of_index _ i) by assumption. f_equal.
  destruct (idx_opt i); simpl; lia.
Qed.

(* nodes created by the subdivision carry the names "<None>", "<None>" *)
Theorem created_marker_neutral mag P :
  ~ In none_name (p_point P) -> ~ In none_name (p_cond P) -> point_marker mag P (none_name, none_name) = 0%Z.
Proof.
  intros H1 H2. unfold point_marker. cbn [fst snd]. rewrite last_match_nomatch by exact H1.
  rewrite sum_match_nomatch by exact H2. destruct mag; reflexivity.
Qed.

(* a point property called "<None>" is given to every created node (and to every point without a property) *)
Theorem created_marker_refuted : exists P, point_marker false P (none_name, none_name) <> 0%Z.
Proof. exists (mkProps ["<None>"%string] [] [] 1). vm_compute. discriminate. Qed.
(* with two boundary properties of one name the LAST one is encoded, whatever the entity's index; with two conductors of
   one name both are added *)
Theorem seg_marker_duplicate_refuted :
  exists P i c nm, pair_names (p_bdry P) (p_cond P) i c = Some nm /\ seg_marker false P nm <> enc_seg (idx_opt i) (idx_opt c).
Proof.
  exists (mkProps [] ["a"%string; "a"%string] ["c"%string; "c"%string] 1), 0%Z, 0%Z, ("a"%string, "c"%string).
  split; [reflexivity|]. vm_compute. discriminate.
Qed.

(* ---------------------------------------------------------------------------------------------- *)
(* list helpers                                                                                   *)
(* ---------------------------------------------------------------------------------------------- *)
Lemma all_some_spec {X : Type} (l : list (option X)) r :
  all_some l = Some r -> l = map Some r.
Proof.
  revert r. induction l as [|[x|] t IH]; intros r H; simpl in H.
  - inversion H. reflexivity.
  - destruct (all_some t) as [r'|]; [|discriminate]. inversion H. simpl. f_equal. apply IH. reflexivity.
  - discriminate.
Qed.

Lemma all_some_map_nth {X Y : Type} (f : X -> option Y) (l : list X) r (dx : X) (dy : Y) k :
  all_some (map f l) = Some r -> (k < List.length l)%nat -> f (nth k l dx) = Some (nth k r dy) /\ List.length r = List.length l.
Proof.
  intros H Hk. apply all_some_spec in H.
  assert (Hlen : List.length r = List.length l).
  { apply (f_equal (@List.length _)) in H. rewrite !map_length in H. auto. }
  split; [|exact Hlen].
  assert (E : nth k (map f l) None = nth k (map Some r) None) by (rewrite H; reflexivity).
  rewrite (nth_indep (map f l) None (f dx)) in E by (rewrite map_length; lia).
  rewrite map_nth in E.
  rewrite (nth_indep (map Some r) None (Some dy)) in E by (rewrite map_length; lia).
  rewrite map_nth in E. exact E.
Qed.

(* ---------------------------------------------------------------------------------------------- *)
(* the subdivision only appends; every segment it emits for entity cnt carries cnt               *)
(* ---------------------------------------------------------------------------------------------- *)
Section Appends.
  Context {F : Type} (A : Arith F).
  Local Notation cplx := (F * F)%type.
  Local Notation seg := (nat * nat * nat)%type.

  Definition extends (bound : nat -> Prop) (st st' : list cplx * list seg) : Prop :=
    exists nn ns, st' = (fst st ++ nn, snd st ++ ns) /\ Forall (fun s => bound (snd s)) ns.

  Lemma extends_refl (bound : nat -> Prop) st : extends bound st st.
  Proof. exists [], []. rewrite !app_nil_r. destruct st; auto. Qed.
  Lemma extends_trans (bound : nat -> Prop) st1 st2 st3 : extends bound st1 st2 -> extends bound st2 st3 -> extends bound st1 st3.
  Proof.
    intros (n1 & s1 & -> & H1) (n2 & s2 & -> & H2). exists (n1 ++ n2), (s1 ++ s2). cbn [fst snd].
    rewrite !app_assoc. split; [reflexivity|]. apply Forall_app; auto.
  Qed.
  Lemma extends_step (bound : nat -> Prop) (nodes : list cplx) (segs : list seg) nn (s : seg) :
    bound (snd s) -> extends bound (nodes, segs) (nodes ++ nn, segs ++ [s]).
  Proof. intros H. exists nn, [s]. cbn [fst snd]. split; [reflexivity|]. constructor; auto. Qed.
  Lemma extends_weaken (b1 b2 : nat -> Prop) st st' : (forall c, b1 c -> b2 c) -> extends b1 st st' -> extends b2 st st'.
  Proof.
    intros Hw (nn & ns & E & H). exists nn, ns. split; [exact E|].
    eapply Forall_impl; [|exact H]. intros s. apply Hw.
  Qed.

  Lemma subdivide_extends fuel j np a0 a1 n0 n1 cnt st :
    extends (fun c => c = cnt) st (subdivide A fuel j np a0 a1 n0 n1 cnt st).
  Proof.
    revert j st. induction fuel as [|fuel IH]; intros j st; [apply extends_refl|].
    cbn [subdivide]. destruct (Nat.ltb j np); [|apply extends_refl].
    destruct st as [nodes segs].
    eapply extends_trans; [|apply IH].
    destruct (Nat.eqb j 0); [|destruct (Nat.eqb j (np - 1))].
    - apply extends_step. reflexivity.
    - rewrite <- (app_nil_r nodes) at 2. apply extends_step. reflexivity.
    - apply extends_step. reflexivity.
  Qed.

  Lemma arc_points_extends fuel j np c a1 a2 n0 n1 cnt st :
    extends (fun k => k = cnt) st (arc_points A fuel j np c a1 a2 n0 n1 cnt st).
  Proof.
    revert j a2 st. induction fuel as [|fuel IH]; intros j a2 st; [apply extends_refl|].
    cbn [arc_points]. destruct (Nat.ltb j np); [|apply extends_refl].
    destruct st as [nodes segs].
    eapply extends_trans; [|apply IH].
    destruct (Nat.eqb j 0); [|destruct (Nat.eqb j (np - 1))].
    - apply extends_step. reflexivity.
    - rewrite <- (app_nil_r nodes) at 2. apply extends_step. reflexivity.
    - apply extends_step. reflexivity.
  Qed.

  (* one drawn line (index i): only segments carrying cnt = i are added *)
  Lemma discretize_line_extends dosmart dL orig i l st :
    extends (fun c => c = i) st (discretize_line A dosmart dL orig i l st).
  Proof.
    unfold discretize_line. cbv zeta.
    destruct (Nat.eqb (Z.to_nat (lparts l)) 1).
    - destruct (altb A _ _ || negb dosmart).
      + destruct st as [nodes segs]. cbn [fst snd]. rewrite <- (app_nil_r nodes) at 2. apply extends_step. reflexivity.
      + destruct st as [nodes segs]. eexists _, _. cbn [fst snd]. split; [reflexivity|].
        repeat constructor.
    - apply subdivide_extends.
  Qed.

  Lemma discretize_arc_extends orig nlines i a st :
    extends (fun c => c = (i + nlines)%nat) st (discretize_arc A orig nlines i a st).
  Proof.
    unfold discretize_arc. cbv zeta.
    destruct (Nat.eqb (Z.to_nat (aparts a)) 1).
    - destruct st as [nodes segs]. cbn [fst snd]. rewrite <- (app_nil_r nodes) at 2. apply extends_step. reflexivity.
    - destruct (get_circle A orig a) as [c r]. apply arc_points_extends.
  Qed.

  Lemma fold_lines_extends dosmart dL orig (lines : list (@dline F)) k st :
    extends (fun c => (k <= c < k + List.length lines)%nat) st
            (fold_left (fun st il => discretize_line A dosmart dL orig (fst il) (snd il) st)
                       (combine (seq k (List.length lines)) lines) st).
  Proof.
    revert k st. induction lines as [|l r IH]; intros k st; [apply extends_refl|].
    cbn [List.length seq combine fold_left fst snd].
    eapply extends_trans.
    - apply (extends_weaken (fun c => c = k)); [|apply discretize_line_extends]. intros c ->. simpl. lia.
    - apply (extends_weaken (fun c => (S k <= c < S k + List.length r)%nat)); [|apply IH]. intros c Hc. simpl. lia.
  Qed.

  Lemma fold_arcs_extends orig nlines (arcs : list (@darc F)) k st :
    extends (fun c => (k + nlines <= c < k + nlines + List.length arcs)%nat) st
            (fold_left (fun st ia => discretize_arc A orig nlines (fst ia) (snd ia) st)
                       (combine (seq k (List.length arcs)) arcs) st).
  Proof.
    revert k st. induction arcs as [|a r IH]; intros k st; [apply extends_refl|].
    cbn [List.length seq combine fold_left fst snd].
    eapply extends_trans.
    - apply (extends_weaken (fun c => c = (k + nlines)%nat)); [|apply discretize_arc_extends]. intros c ->. simpl. lia.
    - apply (extends_weaken (fun c => (S k + nlines <= c < S k + nlines + List.length r)%nat)); [|apply IH]. intros c Hc. simpl. lia.
  Qed.

  (* the PSLG: the drawn points first (same indices, same coordinates), then created nodes; every segment
     carries the index of a drawn line (cnt < nlines) or arc (nlines <= cnt < nlines + narcs) *)
  Theorem discretize_shape dosmart orig lines arcs nodes segs :
    discretize A dosmart orig lines arcs = Some (nodes, segs) ->
    exists created : list cplx, (nodes = orig ++ created) /\
      (Forall (fun s : seg => (snd s < List.length lines + List.length arcs)%nat) segs).
  Proof.
    unfold discretize. destruct (forallb _ lines && forallb _ arcs); [|discriminate].
    cbv zeta. intros H. inversion H as [E]. clear H.
    match type of E with fold_left ?fa ?la (fold_left ?fl ?ll ?s0) = _ =>
      assert (H1 : extends (fun c => (c < List.length lines + List.length arcs)%nat) s0 (fold_left fl ll s0));
      [|assert (H2 : extends (fun c => (c < List.length lines + List.length arcs)%nat) (fold_left fl ll s0) (fold_left fa la (fold_left fl ll s0)))]
    end.
    - apply (extends_weaken (fun c => (0 <= c < 0 + List.length lines)%nat)); [|apply fold_lines_extends]. intros c Hc. simpl in Hc. lia.
    - apply (extends_weaken (fun c => (0 + List.length lines <= c < 0 + List.length lines + List.length arcs)%nat));
        [|apply (fold_arcs_extends orig (List.length lines) arcs 0)]. intros c Hc. simpl in Hc. lia.
    - pose proof (extends_trans _ _ _ _ H1 H2) as (nn & ns & E' & Hf). rewrite E in E'. cbn [fst snd] in E'.
      inversion E'. subst. exists nn. split; [reflexivity|]. exact Hf.
  Qed.
End Appends.

(* ---------------------------------------------------------------------------------------------- *)
(* the triangulateio input                                                                        *)
(* ---------------------------------------------------------------------------------------------- *)
Lemma nth_map_lt {X Y : Type} (f : X -> Y) (l : list X) (i : nat) (d : X) (d' : Y) :
  (i < List.length l)%nat -> nth i (map f l) d' = f (nth i l d).
Proof.
  intros H. rewrite (nth_indep (map f l) d' (f d)) by (rewrite map_length; exact H). apply map_nth.
Qed.

Definition dflt_attr : ent_attr := mkAttr (-1) (-1) false.

Section Structure.
  Context {F : Type} (A : Arith F).
  Local Notation cplx := (F * F)%type.
  Local Notation seg := (nat * nat * nat)%type.

  Definition ent_attrs (lines : list (@dline F * ent_attr)) (arcs : list (@darc F * ent_attr)) : list ent_attr :=
    map snd lines ++ map snd arcs.

  Ltac open_poly H :=
    unfold poly_input in H; cbv zeta in H;
    match type of H with match ?d with _ => _ end = _ => destruct d as [[nodes segs]|] eqn:D; [|discriminate] end;
    cbn [fst snd] in H;
    match type of H with match ?d with _ => _ end = _ => destruct d as [pn|] eqn:E1; [|discriminate] end;
    match type of H with match ?d with _ => _ end = _ => destruct d as [en|] eqn:E2; [|discriminate] end;
    match type of H with (if ?d then _ else _) = _ => destruct d eqn:E3; [|discriminate] end;
    inversion H; subst; clear H; cbn [ti_points ti_pmarks ti_segs ti_smarks ti_holes ti_regions].

  Theorem poly_input_points S P pts lines arcs labels T :
    poly_input A S P pts lines arcs labels = Some T ->
    exists created : list cplx,
      (ti_points T = map fst pts ++ created) /\
      List.length (ti_pmarks T) = List.length (ti_points T) /\
      (forall i d, (i < List.length pts)%nat ->
         exists nm, pair_names (p_point P) (p_cond P) (fst (snd (nth i pts d))) (snd (snd (nth i pts d))) = Some nm /\
                    nth i (ti_pmarks T) 0%Z = point_marker (s_mag S) P nm) /\
      (forall i, (List.length pts <= i < List.length (ti_points T))%nat ->
         nth i (ti_pmarks T) 0%Z = point_marker (s_mag S) P (none_name, none_name)).
  Proof.
    intros H. open_poly H.
    destruct (discretize_shape A _ _ _ _ _ _ D) as (created & Hn & _). subst nodes.
    assert (Hpn : List.length pn = List.length pts).
    { apply all_some_spec in E1. apply (f_equal (@List.length _)) in E1. rewrite !map_length in E1. auto. }
    assert (Hc : (List.length (map fst pts ++ created) - List.length (map fst pts))%nat = List.length created)
      by (rewrite app_length, map_length; lia).
    rewrite Hc.
    exists created. split; [reflexivity|]. split; [|split].
    - rewrite map_length, !app_length, repeat_length, map_length. lia.
    - intros i d Hi.
      destruct (all_some_map_nth _ pts pn d (none_name, none_name) i E1 Hi) as [Hf _].
      eexists. split; [exact Hf|].
      rewrite (nth_map_lt _ _ _ (none_name, none_name)) by (rewrite app_length; lia).
      rewrite app_nth1 by lia. reflexivity.
    - intros i Hi. rewrite app_length, map_length in Hi.
      rewrite (nth_map_lt _ _ _ (none_name, none_name)) by (rewrite app_length, repeat_length; lia).
      rewrite app_nth2 by lia. f_equal. apply nth_repeat.
  Qed.

  Theorem poly_input_segments S P pts lines arcs labels T :
    poly_input A S P pts lines arcs labels = Some T ->
    exists nodes (segs : list seg),
      discretize A (s_smart S) (map fst pts) (map fst lines) (map fst arcs) = Some (nodes, segs) /\
      ti_points T = nodes /\
      ti_segs T = map (fun s : seg => (fst (fst s), snd (fst s))) segs /\
      List.length (ti_smarks T) = List.length segs /\
      forall k d, (k < List.length segs)%nat ->
        (snd (nth k segs d) < List.length lines + List.length arcs)%nat /\
        exists nm,
          pair_names (p_bdry P) (p_cond P) (e_bdry (nth (snd (nth k segs d)) (ent_attrs lines arcs) dflt_attr))
                     (e_cond (nth (snd (nth k segs d)) (ent_attrs lines arcs) dflt_attr)) = Some nm /\
          nth k (ti_smarks T) 0%Z = seg_marker (s_mag S) P nm.
  Proof.
    intros H. open_poly H.
    destruct (discretize_shape A _ _ _ _ _ _ D) as (created & Hn & Hb).
    exists nodes, segs. split; [reflexivity|]. split; [reflexivity|]. split; [reflexivity|].
    split; [apply map_length|].
    intros k d Hk. rewrite !map_length in Hb.
    assert (He : (snd (nth k segs d) < List.length lines + List.length arcs)%nat).
    { rewrite Forall_forall in Hb. apply Hb. apply nth_In. exact Hk. }
    split; [exact He|].
    assert (Hl : (snd (nth k segs d) < List.length (map snd lines ++ map snd arcs))%nat)
      by (rewrite app_length, !map_length; exact He).
    destruct (all_some_map_nth _ _ en dflt_attr (none_name, none_name) _ E2 Hl) as [Hf _].
    eexists. split; [exact Hf|].
    rewrite (nth_map_lt _ _ _ d) by exact Hk. reflexivity.
  Qed.

  (* the Hidden flag of lines and arcs is not an input of the non-periodic path *)
  Theorem poly_input_ignores_hidden S P pts lines arcs lines' arcs' labels :
    map fst lines = map fst lines' -> map fst arcs = map fst arcs' ->
    map (fun l => (e_bdry (snd l), e_cond (snd l))) lines = map (fun l => (e_bdry (snd l), e_cond (snd l))) lines' ->
    map (fun l => (e_bdry (snd l), e_cond (snd l))) arcs = map (fun l => (e_bdry (snd l), e_cond (snd l))) arcs' ->
    poly_input A S P pts lines arcs labels = poly_input A S P pts lines' arcs' labels.
  Proof.
    intros H1 H2 H3 H4. unfold poly_input. rewrite H1, H2.
    assert (E : map (fun a => pair_names (p_bdry P) (p_cond P) (e_bdry a) (e_cond a)) (map snd lines ++ map snd arcs)
              = map (fun a => pair_names (p_bdry P) (p_cond P) (e_bdry a) (e_cond a)) (map snd lines' ++ map snd arcs')).
    { rewrite !map_app, !map_map.
      assert (G : forall (X : Type) (l : list (X * ent_attr)),
                 map (fun x => pair_names (p_bdry P) (p_cond P) (e_bdry (snd x)) (e_cond (snd x))) l
                 = map (fun bc => pair_names (p_bdry P) (p_cond P) (fst bc) (snd bc)) (map (fun l => (e_bdry (snd l), e_cond (snd l))) l)).
      { intros X l. rewrite map_map. reflexivity. }
      rewrite !G, H3, H4. reflexivity. }
    rewrite E. reflexivity.
  Qed.

  (* holes: exactly the labels without mesh, in order *)
  Theorem poly_input_holes S P pts lines arcs labels T :
    poly_input A S P pts lines arcs labels = Some T ->
    ti_holes T = map (fun l => (lb_x l, lb_y l)) (filter is_hole labels).
  Proof. intros H. open_poly H. reflexivity. Qed.

  Theorem holes_iff S P pts lines arcs labels T h :
    poly_input A S P pts lines arcs labels = Some T ->
    (In h (ti_holes T) <-> exists l, In l labels /\ lb_block l = (-1)%Z /\ h = (lb_x l, lb_y l)).
  Proof.
    intros H. rewrite (poly_input_holes _ _ _ _ _ _ _ H). rewrite in_map_iff. split.
    - intros (l & E & Hin). apply filter_In in Hin. destruct Hin as [Hin Hh].
      exists l. split; [exact Hin|]. split; [|auto]. unfold is_hole in Hh. apply Z.eqb_eq. exact Hh.
    - intros (l & Hin & Hb & ->). exists l. split; [reflexivity|]. apply filter_In. split; [exact Hin|].
      unfold is_hole. apply Z.eqb_eq. exact Hb.
  Qed.

  (* regions: one per meshed label, in order; the attribute is the rank among the meshed labels + 1 *)
  Definition meshed (labels : list (@xlabel F)) : list (@xlabel F) := filter (fun l => negb (is_hole l)) labels.
  Definition region_of (force : bool) (dflt : F) (k : Z) (l : @xlabel F) : F * F * F * F :=
    (lb_x l, lb_y l, aofZ A (k + 1), area_constraint A force dflt (max_area_of_size A (lb_size l))).

  Lemma regions_from_nth force dflt labels k :
    List.length (regions_from A force dflt labels k) = List.length (meshed labels) /\
    forall j dl dr, (j < List.length (meshed labels))%nat ->
      nth j (regions_from A force dflt labels k) dr = region_of force dflt (k + Z.of_nat j) (nth j (meshed labels) dl).
  Proof.
    revert k. induction labels as [|l r IH]; intros k.
    - split; [reflexivity|]. intros j dl dr Hj. simpl in Hj. lia.
    - unfold meshed. cbn [regions_from filter]. destruct (is_hole l); cbn [negb].
      + apply IH.
      + destruct (IH (k + 1)%Z) as [IH1 IH2]. split; [cbn [List.length]; f_equal; exact IH1|].
        intros j dl dr Hj. destruct j as [|j].
        * cbn [nth]. unfold region_of. rewrite Z.add_0_r. reflexivity.
        * cbn [nth]. cbn [List.length] in Hj. rewrite (IH2 j dl dr) by (unfold meshed; lia).
          f_equal. lia.
  Qed.

  Theorem poly_input_regions S P pts lines arcs labels T :
    poly_input A S P pts lines arcs labels = Some T ->
    List.length (ti_regions T) = List.length (meshed labels) /\
    forall j dl dr, (j < List.length (meshed labels))%nat ->
      nth j (ti_regions T) dr
      = region_of (s_force S) (default_mesh_size A (s_smart S) (ti_points T)) (Z.of_nat j) (nth j (meshed labels) dl).
  Proof.
    intros H. open_poly H.
    destruct (regions_from_nth (s_force S) (default_mesh_size A (s_smart S) nodes) labels 0) as [H1 H2].
    split; [exact H1|]. intros j dl dr Hj. rewrite (H2 j dl dr Hj). reflexivity.
  Qed.

  (* every meshed label refers to an existing block property; none is a hole *)
  Theorem meshed_labels_have_material S P pts lines arcs labels T l :
    poly_input A S P pts lines arcs labels = Some T -> In l (meshed labels) ->
    (0 <= lb_block l < p_nblock P)%Z.
  Proof.
    intros H Hin. open_poly H. unfold meshed in Hin. apply filter_In in Hin. destruct Hin as [Hin Hh].
    rewrite forallb_forall in E3. specialize (E3 l Hin). unfold label_ok in E3.
    destruct (is_hole l); [discriminate|]. simpl in E3. apply andb_true_iff in E3. destruct E3 as [Ea Eb].
    apply Z.leb_le in Ea. apply Z.ltb_lt in Eb. lia.
  Qed.

  (* ---- written files ---- *)
  Lemma nth_zseq n k d : (k < Z.to_nat n)%nat -> nth k (zseq n) d = Z.of_nat k.
  Proof.
    intros H. unfold zseq. rewrite (nth_map_lt _ _ _ 0%nat) by (rewrite seq_length; exact H).
    rewrite seq_nth by exact H. reflexivity.
  Qed.
  Lemma zseq_length n : List.length (zseq n) = Z.to_nat n.
  Proof. unfold zseq. rewrite map_length, seq_length. reflexivity. Qed.

  Theorem node_file_rows (o : @tri_out F) :
    (0 < o_np o)%Z ->
    List.length (node_file A o) = S (Z.to_nat (o_np o)) /\
    nth 0 (node_file A o) [] = [TI (o_np o); TI 2; TI 0; TI 1] /\
    forall k, (k < Z.to_nat (o_np o))%nat ->
      nth (S k) (node_file A o) []
      = [TI (Z.of_nat k); TF (zn (o_pointlist o) (azero A) (2 * Z.of_nat k)); TF (zn (o_pointlist o) (azero A) (2 * Z.of_nat k + 1));
         TI (zn (o_pointmarkers o) 0%Z (Z.of_nat k))].
  Proof.
    intros H. unfold node_file. apply Z.ltb_lt in H. rewrite H.
    split; [cbn [List.length]; rewrite map_length, zseq_length; reflexivity|]. split; [reflexivity|].
    intros k Hk. cbn [nth]. rewrite (nth_map_lt _ _ _ 0%Z) by (rewrite zseq_length; exact Hk).
    rewrite nth_zseq by exact Hk. reflexivity.
  Qed.

  Theorem edge_file_rows (o : @tri_out F) :
    (0 < o_ne o)%Z ->
    List.length (edge_file o) = S (Z.to_nat (o_ne o)) /\
    nth 0 (edge_file o) [] = [TI (o_ne o); TI 1] /\
    forall k, (k < Z.to_nat (o_ne o))%nat ->
      nth (S k) (edge_file o) []
      = [TI (Z.of_nat k); TI (zn (o_edgelist o) 0%Z (2 * Z.of_nat k)); TI (zn (o_edgelist o) 0%Z (2 * Z.of_nat k + 1));
         TI (zn (o_edgemarkers o) 0%Z (Z.of_nat k))].
  Proof.
    intros H. unfold edge_file. apply Z.ltb_lt in H. rewrite H.
    split; [cbn [List.length]; rewrite map_length, zseq_length; reflexivity|]. split; [reflexivity|].
    intros k Hk. cbn [nth]. rewrite (nth_map_lt _ _ _ 0%Z) by (rewrite zseq_length; exact Hk).
    rewrite nth_zseq by exact Hk. reflexivity.
  Qed.

  (* Triangle's usual output: three corners and one attribute per element *)
  Theorem ele_file_rows (o : @tri_out F) :
    (0 < o_nt o)%Z -> o_corners o = 3%Z -> o_nattr o = 1%Z ->
    exists rows, ele_file A o = Some rows /\
      List.length rows = S (Z.to_nat (o_nt o)) /\
      nth 0 rows [] = [TI (o_nt o); TI 3; TI 1] /\
      forall k, (k < Z.to_nat (o_nt o))%nat ->
        nth (S k) rows []
        = [TI (Z.of_nat k); TI (zn (o_trilist o) 0%Z (3 * Z.of_nat k + 0)); TI (zn (o_trilist o) 0%Z (3 * Z.of_nat k + 1));
           TI (zn (o_trilist o) 0%Z (3 * Z.of_nat k + 2)); TF (zn (o_triattr o) (azero A) (1 * Z.of_nat k + 0))].
  Proof.
    intros H Hc Ha. unfold ele_file. apply Z.ltb_lt in H. rewrite H, Hc, Ha. cbn [Z.leb Z.compare Z.ltb].
    eexists. split; [reflexivity|].
    split; [cbn [List.length]; rewrite map_length, zseq_length; reflexivity|]. split; [reflexivity|].
    intros k Hk. cbn [nth]. rewrite (nth_map_lt _ _ _ 0%Z) by (rewrite zseq_length; exact Hk).
    rewrite nth_zseq by exact Hk. reflexivity.
  Qed.

  (* any numbers of corners and attributes: row k lists trianglelist[c*k .. c*k+c-1] then triangleattributelist[a*k .. a*k+a-1] *)
  Theorem ele_file_rows_general (o : @tri_out F) :
    (0 < o_nt o)%Z -> (1 <= o_corners o)%Z ->
    exists rows, ele_file A o = Some rows /\
      List.length rows = S (Z.to_nat (o_nt o)) /\
      forall k, (k < Z.to_nat (o_nt o))%nat ->
        nth (S k) rows []
        = [TI (Z.of_nat k)] ++ map (fun j => TI (zn (o_trilist o) 0%Z (o_corners o * Z.of_nat k + j))) (zseq (o_corners o))
          ++ map (fun j => TF (zn (o_triattr o) (azero A) (o_nattr o * Z.of_nat k + j))) (zseq (o_nattr o)).
  Proof.
    intros H Hc. unfold ele_file. apply Z.ltb_lt in H. rewrite H. apply Z.leb_le in Hc. rewrite Hc.
    eexists. split; [reflexivity|].
    split; [cbn [List.length]; rewrite map_length, zseq_length; reflexivity|].
    intros k Hk. cbn [nth]. rewrite (nth_map_lt _ _ _ 0%Z) by (rewrite zseq_length; exact Hk).
    rewrite nth_zseq by exact Hk.
    destruct (Z.ltb_spec 0 (o_nattr o)) as [Hp|Hn]; [reflexivity|].
    unfold zseq at 3. replace (Z.to_nat (o_nattr o)) with 0%nat by lia. reflexivity.
  Qed.

  Theorem empty_tables_empty_files (o : @tri_out F) :
    ((o_np o <= 0)%Z -> node_file A o = []) /\ ((o_ne o <= 0)%Z -> edge_file o = []) /\ ((o_nt o <= 0)%Z -> ele_file A o = Some []).
  Proof.
    unfold node_file, edge_file, ele_file. repeat split; intros H.
    - destruct (Z.ltb_spec 0 (o_np o)); [lia|reflexivity].
    - destruct (Z.ltb_spec 0 (o_ne o)); [lia|reflexivity].
    - destruct (Z.ltb_spec 0 (o_nt o)); [lia|reflexivity].
  Qed.

  Theorem result_status (st : Z) (o : @tri_out F) :
    (st <> 0%Z -> nonperiodic_result A st o = (st, None)) /\
    (st = 0%Z -> nonperiodic_result A st o = (0%Z, Some (node_file A o, edge_file o, ele_file A o))).
  Proof.
    unfold nonperiodic_result. split; intros H.
    - destruct (Z.eqb_spec st 0); [contradiction|reflexivity].
    - subst. reflexivity.
  Qed.
End Structure.

(* ---------------------------------------------------------------------------------------------- *)
(* switches                                                                                       *)
(* ---------------------------------------------------------------------------------------------- *)
Theorem switches_shape verbose angle :
  nonperiodic_switches verbose angle
  = ["-pPq"%string; angle; "eAaz"%string] ++ (if verbose then [] else ["Q"%string]) ++ ["I"%string; "j"%string].
Proof. destruct verbose; reflexivity. Qed.

Theorem switches_flags verbose angle :
  In "j"%string (nonperiodic_switches verbose angle) /\
  (angle <> "Y"%string -> ~ In "Y"%string (nonperiodic_switches verbose angle)) /\
  (angle <> "Q"%string -> (In "Q"%string (nonperiodic_switches verbose angle) <-> verbose = false)).
Proof.
  rewrite switches_shape. split; [|split].
  - destruct verbose; simpl; tauto.
  - intros Ha Hin. destruct verbose; simpl in Hin; repeat (destruct Hin as [Hin|Hin]; [try discriminate; congruence|]); exact Hin.
  - intros Ha. destruct verbose; simpl; split; intros H; try discriminate; try tauto;
      repeat (destruct H as [H|H]; [try discriminate; congruence|]); contradiction.
Qed.

(* ---------------------------------------------------------------------------------------------- *)
(* real-number reading: sizes and angles                                                          *)
(* ---------------------------------------------------------------------------------------------- *)
Local Open Scope R_scope.

Lemma max_area_R d : 0 < d -> max_area_of_size RA d = PI * (d / 2) * (d / 2).
Proof.
  intros H. unfold max_area_of_size. ra_simpl.
  destruct (Rle_dec d 0) as [Hle|Hnle]; [lra|].
  assert (E : Rleb d 0 = false) by (apply Rleb_false; exact Hnle). rewrite E. field.
Qed.
Lemma max_area_R_nonpos d : d <= 0 -> max_area_of_size RA d = 0.
Proof.
  intros H. unfold max_area_of_size. ra_simpl.
  assert (E : Rleb d 0 = true) by (apply Rleb_true; exact H). rewrite E. reflexivity.
Qed.

Lemma max_area_R_pos d : 0 < d -> 0 < max_area_of_size RA d.
Proof.
  intros H. rewrite max_area_R by exact H. pose proof PI_RGT_0.
  apply Rmult_lt_0_compat; [apply Rmult_lt_0_compat|]; lra.
Qed.

(* the constraint of a label with mesh size d > 0 never exceeds the area of the circle of diameter d *)
Theorem constraint_le_circle force dflt d :
  0 < d -> area_constraint RA force dflt (max_area_of_size RA d) <= PI * (d / 2) * (d / 2).
Proof.
  intros H. pose proof (max_area_R_pos d H) as Hp. rewrite <- (max_area_R d H).
  unfold area_constraint. ra_simpl.
  assert (E : Rleb (max_area_of_size RA d) 0 = false) by (apply Rleb_false; lra). rewrite E.
  destruct (Rlt_dec dflt (max_area_of_size RA d)) as [Hlt|Hge].
  - assert (E2 : Rltb dflt (max_area_of_size RA d) = true) by (apply Rltb_true; exact Hlt). rewrite E2.
    destruct force; simpl; lra.
  - assert (E2 : Rltb dflt (max_area_of_size RA d) = false) by (apply Rltb_false; exact Hge). rewrite E2. simpl. lra.
Qed.

Theorem constraint_is_circle force dflt d :
  0 < d -> (force = false \/ PI * (d / 2) * (d / 2) <= dflt) ->
  area_constraint RA force dflt (max_area_of_size RA d) = PI * (d / 2) * (d / 2).
Proof.
  intros H Hc. pose proof (max_area_R_pos d H) as Hp. rewrite <- (max_area_R d H) in *.
  unfold area_constraint. ra_simpl.
  assert (E : Rleb (max_area_of_size RA d) 0 = false) by (apply Rleb_false; lra). rewrite E.
  destruct Hc as [->|Hle]; [rewrite andb_false_r; reflexivity|].
  assert (E2 : Rltb dflt (max_area_of_size RA d) = false) by (apply Rltb_false; lra). rewrite E2. reflexivity.
Qed.

Theorem constraint_forced dflt d :
  0 < d -> dflt < PI * (d / 2) * (d / 2) -> area_constraint RA true dflt (max_area_of_size RA d) = dflt.
Proof.
  intros H Hc. pose proof (max_area_R_pos d H) as Hp. rewrite <- (max_area_R d H) in *.
  unfold area_constraint. ra_simpl.
  assert (E : Rleb (max_area_of_size RA d) 0 = false) by (apply Rleb_false; lra). rewrite E.
  assert (E2 : Rltb dflt (max_area_of_size RA d) = true) by (apply Rltb_true; lra). rewrite E2. reflexivity.
Qed.

Theorem constraint_default force dflt d :
  d <= 0 -> area_constraint RA force dflt (max_area_of_size RA d) = dflt.
Proof.
  intros H. rewrite max_area_R_nonpos by exact H. unfold area_constraint. ra_simpl.
  assert (E : Rleb 0 0 = true) by (apply Rleb_true; lra). rewrite E. reflexivity.
Qed.

(* C18's statement about element sizes follows from Triangle honouring the constraint *)
Theorem element_within_circle force dflt d area :
  0 < d -> area <= area_constraint RA force dflt (max_area_of_size RA d) -> area <= PI * (d / 2) * (d / 2).
Proof. intros H Ha. pose proof (constraint_le_circle force dflt d H). lra. Qed.

(* bounding box and default mesh size *)
Lemma bbox_step_R mm p :
  fst (fst (bbox_step RA mm p)) = Rmin (fst (fst mm)) (fst p) /\ snd (fst (bbox_step RA mm p)) = Rmin (snd (fst mm)) (snd p) /\
  fst (snd (bbox_step RA mm p)) = Rmax (fst (snd mm)) (fst p) /\ snd (snd (bbox_step RA mm p)) = Rmax (snd (snd mm)) (snd p).
Proof.
  unfold bbox_step. cbn [fst snd]. ra_simpl. unfold Rltb.
  repeat split.
  - destruct (Rlt_dec (fst p) (fst (fst mm))); unfold Rmin; destruct (Rle_dec (fst (fst mm)) (fst p)); lra.
  - destruct (Rlt_dec (snd p) (snd (fst mm))); unfold Rmin; destruct (Rle_dec (snd (fst mm)) (snd p)); lra.
  - destruct (Rlt_dec (fst (snd mm)) (fst p)); unfold Rmax; destruct (Rle_dec (fst (snd mm)) (fst p)); lra.
  - destruct (Rlt_dec (snd (snd mm)) (snd p)); unfold Rmax; destruct (Rle_dec (snd (snd mm)) (snd p)); lra.
Qed.

Definition in_box (mm : (R * R) * (R * R)) (p : R * R) : Prop :=
  fst (fst mm) <= fst p <= fst (snd mm) /\ snd (fst mm) <= snd p <= snd (snd mm).
Definition box_le (m1 m2 : (R * R) * (R * R)) : Prop :=
  fst (fst m2) <= fst (fst m1) /\ snd (fst m2) <= snd (fst m1) /\ fst (snd m1) <= fst (snd m2) /\ snd (snd m1) <= snd (snd m2).

Lemma bbox_fold_contains nodes mm :
  box_le mm (fold_left (bbox_step RA) nodes mm) /\
  forall p, In p nodes -> in_box (fold_left (bbox_step RA) nodes mm) p.
Proof.
  revert mm. induction nodes as [|q r IH]; intros mm.
  - cbn [fold_left]. split; [unfold box_le; lra|]. intros p [].
  - cbn [fold_left]. destruct (IH (bbox_step RA mm q)) as [IH1 IH2].
    destruct (bbox_step_R mm q) as (E1 & E2 & E3 & E4).
    pose proof (Rmin_l (fst (fst mm)) (fst q)). pose proof (Rmin_r (fst (fst mm)) (fst q)).
    pose proof (Rmin_l (snd (fst mm)) (snd q)). pose proof (Rmin_r (snd (fst mm)) (snd q)).
    pose proof (Rmax_l (fst (snd mm)) (fst q)). pose proof (Rmax_r (fst (snd mm)) (fst q)).
    pose proof (Rmax_l (snd (snd mm)) (snd q)). pose proof (Rmax_r (snd (snd mm)) (snd q)).
    unfold box_le in *. split; [lra|].
    intros p [->|Hin]; [|apply IH2; exact Hin].
    unfold in_box. lra.
Qed.

(* every PSLG node lies in the box whose diagonal defines the default mesh size *)
Theorem bbox_contains p0 nodes p : In p (p0 :: nodes) -> in_box (bbox RA p0 (p0 :: nodes)) p.
Proof. intros H. unfold bbox. apply (proj2 (bbox_fold_contains (p0 :: nodes) (p0, p0))). exact H. Qed.

Theorem default_mesh_size_R smart p0 nodes :
  default_mesh_size RA smart (p0 :: nodes)
  = let mm := bbox RA p0 (p0 :: nodes) in
    let diag := cabsf RA (csub RA (snd mm) (fst mm)) in
    if smart then (diag / 100) * (diag / 100) else diag.
Proof. unfold default_mesh_size. cbv zeta. ra_simpl. destruct smart; reflexivity. Qed.

Theorem default_mesh_size_empty smart : default_mesh_size RA smart [] = -1.
Proof. unfold default_mesh_size. ra_simpl. reflexivity. Qed.

(* minimum angle handed to Triangle *)
Lemma adec_338 : adec RA 338 (-1) = 338 / 10.
Proof. unfold adec. cbn [Z.ltb Z.compare Z.opp Z.pow Z.pow_pos Pos.iter Z.mul Pos.mul]. ra_simpl. reflexivity. Qed.

Theorem min_angle_cap S : min_angle_arg RA S <= 338 / 10.
Proof.
  unfold min_angle_arg, amin. rewrite adec_338. ra_simpl. unfold Rltb.
  destruct (Rlt_dec (338 / 10) (s_minangle S + 3)); lra.
Qed.
Theorem min_angle_bump S : s_minangle S <= 308 / 10 -> min_angle_arg RA S = s_minangle S + 3.
Proof.
  intros H. unfold min_angle_arg, amin. rewrite adec_338. ra_simpl. unfold Rltb.
  destruct (Rlt_dec (338 / 10) (s_minangle S + 3)); lra.
Qed.
Theorem min_angle_ge_setting S : s_minangle S <= 338 / 10 -> s_minangle S <= min_angle_arg RA S.
Proof.
  intros H. unfold min_angle_arg, amin. rewrite adec_338. ra_simpl. unfold Rltb.
  destruct (Rlt_dec (338 / 10) (s_minangle S + 3)); lra.
Qed.
Theorem min_angle_beyond_cap_refuted : exists S, min_angle_arg RA S < s_minangle S.
Proof.
  exists (mkSettings false false false false 34). unfold min_angle_arg, amin. rewrite adec_338.
  cbn [s_minangle]. ra_simpl. unfold Rltb. destruct (Rlt_dec (338 / 10) (34 + 3)); lra.
Qed.

(* ---------------------------------------------------------------------------------------------- *)
(* composition with the marker codec (Marker.v / MarkerProofs.v)                                  *)
(* ---------------------------------------------------------------------------------------------- *)
Local Close Scope R_scope.
Section Codec.
  Context {F : Type} (A : Arith F).
  Local Notation cplx := (F * F)%type.
  Local Notation seg := (nat * nat * nat)%type.

  (* every drawn point keeps its index and its coordinates *)
  Theorem drawn_points_keep_index S P pts lines arcs labels T :
    poly_input A S P pts lines arcs labels = Some T ->
    forall i d, (i < List.length pts)%nat -> nth i (ti_points T) (fst d) = fst (nth i pts d).
  Proof.
    intros H i d Hi. destruct (poly_input_points A _ _ _ _ _ _ _ H) as (created & Hp & _).
    rewrite Hp, app_nth1 by (rewrite map_length; exact Hi). apply map_nth.
  Qed.

  Theorem drawn_point_marker S P pts lines arcs labels T :
    poly_input A S P pts lines arcs labels = Some T -> names_ok (p_point P) -> names_ok (p_cond P) ->
    forall i d, (i < List.length pts)%nat ->
      nth i (ti_pmarks T) 0%Z
      = if s_mag S then enc_pt_mag (idx_opt (fst (snd (nth i pts d))))
        else enc_pt (idx_opt (fst (snd (nth i pts d)))) (idx_opt (snd (snd (nth i pts d)))).
  Proof.
    intros H N1 N2 i d Hi. destruct (poly_input_points A _ _ _ _ _ _ _ H) as (created & _ & _ & Hm & _).
    destruct (Hm i d Hi) as (nm & Hn & ->). destruct (s_mag S).
    - eapply point_marker_enc_mag; eassumption.
    - eapply point_marker_enc; eassumption.
  Qed.

  Theorem created_nodes_neutral S P pts lines arcs labels T :
    poly_input A S P pts lines arcs labels = Some T -> ~ In none_name (p_point P) -> ~ In none_name (p_cond P) ->
    forall i, (List.length pts <= i < List.length (ti_points T))%nat -> nth i (ti_pmarks T) 0%Z = 0%Z.
  Proof.
    intros H N1 N2 i Hi. destruct (poly_input_points A _ _ _ _ _ _ _ H) as (created & _ & _ & _ & Hc).
    rewrite (Hc i Hi). apply created_marker_neutral; assumption.
  Qed.

  Theorem segment_marker S P pts lines arcs labels T :
    poly_input A S P pts lines arcs labels = Some T -> names_ok (p_bdry P) -> names_ok (p_cond P) ->
    exists nodes (segs : list seg),
      discretize A (s_smart S) (map fst pts) (map fst lines) (map fst arcs) = Some (nodes, segs) /\
      ti_segs T = map (fun s : seg => (fst (fst s), snd (fst s))) segs /\
      forall k d, (k < List.length segs)%nat ->
        (snd (nth k segs d) < List.length lines + List.length arcs)%nat /\
        nth k (ti_smarks T) 0%Z
        = if s_mag S then enc_seg_mag (idx_opt (e_bdry (nth (snd (nth k segs d)) (ent_attrs lines arcs) dflt_attr)))
          else enc_seg (idx_opt (e_bdry (nth (snd (nth k segs d)) (ent_attrs lines arcs) dflt_attr)))
                       (idx_opt (e_cond (nth (snd (nth k segs d)) (ent_attrs lines arcs) dflt_attr))).
  Proof.
    intros H N1 N2. destruct (poly_input_segments A _ _ _ _ _ _ _ H) as (nodes & segs & D & _ & Hs & _ & Hm).
    exists nodes, segs. split; [exact D|]. split; [exact Hs|].
    intros k d Hk. destruct (Hm k d Hk) as (He & nm & Hn & ->). split; [exact He|]. destruct (s_mag S).
    - eapply seg_marker_enc_mag; eassumption.
    - eapply seg_marker_enc; eassumption.
  Qed.

  (* ... and the solvers' decoders (esolver / hsolver) give back exactly the drawn entity's assignment *)
  Theorem segment_marker_decodes S P pts lines arcs labels T :
    poly_input A S P pts lines arcs labels = Some T -> s_mag S = false -> names_ok (p_bdry P) -> names_ok (p_cond P) ->
    exists nodes (segs : list seg),
      discretize A (s_smart S) (map fst pts) (map fst lines) (map fst arcs) = Some (nodes, segs) /\
      forall k d, (k < List.length segs)%nat ->
        let a := nth (snd (nth k segs d)) (ent_attrs lines arcs) dflt_attr in
        prop_ok (idx_opt (e_bdry a)) -> cond_ok (idx_opt (e_cond a)) ->
        dec_seg (nth k (ti_smarks T) 0%Z) = (idx_opt (e_bdry a), idx_opt (e_cond a)).
  Proof.
    intros H Hm N1 N2. destruct (segment_marker _ _ _ _ _ _ _ H N1 N2) as (nodes & segs & D & _ & Hk).
    exists nodes, segs. split; [exact D|]. intros k d Hlt a Hp Hc.
    destruct (Hk k d Hlt) as [_ E]. rewrite E, Hm. apply dec_enc_seg; assumption.
  Qed.
  Theorem segment_marker_decodes_mag S P pts lines arcs labels T :
    poly_input A S P pts lines arcs labels = Some T -> s_mag S = true -> names_ok (p_bdry P) -> names_ok (p_cond P) ->
    exists nodes (segs : list seg),
      discretize A (s_smart S) (map fst pts) (map fst lines) (map fst arcs) = Some (nodes, segs) /\
      forall k d, (k < List.length segs)%nat ->
        let a := nth (snd (nth k segs d)) (ent_attrs lines arcs) dflt_attr in
        (match idx_opt (e_bdry a) with Some j => 0 <= j < 2 ^ 31 - 2 | None => True end)%Z ->
        dec_seg_mag (nth k (ti_smarks T) 0%Z) = idx_opt (e_bdry a).
  Proof.
    intros H Hm N1 N2. destruct (segment_marker _ _ _ _ _ _ _ H N1 N2) as (nodes & segs & D & _ & Hk).
    exists nodes, segs. split; [exact D|]. intros k d Hlt a Hp.
    destruct (Hk k d Hlt) as [_ E]. rewrite E, Hm. apply dec_enc_seg_mag; assumption.
  Qed.

  Theorem drawn_point_marker_decodes S P pts lines arcs labels T :
    poly_input A S P pts lines arcs labels = Some T -> s_mag S = false -> names_ok (p_point P) -> names_ok (p_cond P) ->
    forall i d, (i < List.length pts)%nat ->
      prop_ok (idx_opt (fst (snd (nth i pts d)))) -> cond_ok (idx_opt (snd (snd (nth i pts d)))) ->
      dec_pt (nth i (ti_pmarks T) 0%Z) = (idx_opt (fst (snd (nth i pts d))), idx_opt (snd (snd (nth i pts d)))).
  Proof.
    intros H Hm N1 N2 i d Hi Hp Hc. rewrite (drawn_point_marker _ _ _ _ _ _ _ H N1 N2 i d Hi), Hm.
    apply dec_enc_pt; assumption.
  Qed.
  Theorem drawn_point_marker_decodes_mag S P pts lines arcs labels T :
    poly_input A S P pts lines arcs labels = Some T -> s_mag S = true -> names_ok (p_point P) -> names_ok (p_cond P) ->
    forall i d, (i < List.length pts)%nat ->
      (match idx_opt (fst (snd (nth i pts d))) with Some j => 0 <= j < 2 ^ 31 - 2 | None => True end)%Z ->
      dec_pt_mag (nth i (ti_pmarks T) 0%Z) = idx_opt (fst (snd (nth i pts d))).
  Proof.
    intros H Hm N1 N2 i d Hi Hp. rewrite (drawn_point_marker _ _ _ _ _ _ _ H N1 N2 i d Hi), Hm.
    apply dec_enc_pt_mag; assumption.
  Qed.
  (* created nodes decode to "no property, no conductor" *)
  Theorem created_nodes_decode_to_nothing S P pts lines arcs labels T :
    poly_input A S P pts lines arcs labels = Some T -> ~ In none_name (p_point P) -> ~ In none_name (p_cond P) ->
    forall i, (List.length pts <= i < List.length (ti_points T))%nat ->
      dec_pt (nth i (ti_pmarks T) 0%Z) = (None, None) /\ dec_pt_mag (nth i (ti_pmarks T) 0%Z) = None.
  Proof.
    intros H N1 N2 i Hi. rewrite (created_nodes_neutral _ _ _ _ _ _ _ H N1 N2 i Hi). split; reflexivity.
  Qed.
End Codec.
