(* AsmEFinish.v — C03: the conductor rows that finish ESolver::AnalyzeProblem (real reading).
   A conductor with prescribed charge (type 0) owns the extra unknown k = nn + i.  After the
   element loop row k holds minus the stiffness couplings of the conductor's nodes to the free
   unknowns; the couplings to fixed nodes were eliminated into condK (coefficient) and condB
   (right-hand side).  The finishing step writes the diagonal so that the row states
       sum_{j<>k} M_kj (V_j - V_k)  -  condK_i V_k  =  1e9 c q_i + condB_i ,
   i.e. the total flux leaving the conductor equals the prescribed charge (Gauss's law for the
   conductor).  A conductor with prescribed voltage (type 1) gets the row  K V_k = K V_c. *)
From Coq Require Import ZArith List Bool Arith Lia Reals Lra.
From XF Require Import Arith Sparse SparseProofs AsmOps AsmOpsProofs AsmE.
Import ListNotations.
Local Open Scope R_scope.

Section Finish.
  Local Notation vgetR := (vget RA).
  Local Notation mgetR := (mget RA).
  Implicit Type M : matrixT R.
  Implicit Type L : lin (F:=R).

  (* the off-diagonal row sum accumulated by the scan over all columns *)
  Lemma cond_rowsum_spec L k K0 :
    cond_rowsum RA L k K0 = K0 + rsum (fun j => if Nat.eqb k j then 0 else mgetR (lM L) k j) (ln L).
  Proof.
    unfold cond_rowsum. generalize (ln L) as n. intros n. revert K0.
    induction n as [|n IH]; intros K0.
    - cbn. lra.
    - rewrite seq_S, fold_left_app, IH. cbn [fold_left rsum plus]. ra_simpl.
      rewrite (Nat.eqb_sym n k). destruct (Nat.eqb k n); lra.
  Qed.

  (* row k of a matrix whose diagonal entry (k,k) was overwritten *)
  Lemma Ax_put_diag M v k (V : vecT R) : mat_ok M -> (k < length M)%nat ->
    Ax (mput M v k k) V k
    = v * vgetR V k + rsum (fun j => if Nat.eqb k j then 0 else mgetR M k j * vgetR V j) (length M).
  Proof.
    intros HM Hk. unfold Ax. rewrite mput_length.
    rewrite (rsum_extract k) by exact Hk.
    pose proof (abs_mput RA M v k k HM Hk Hk) as Habs. unfold abs, aput in Habs.
    f_equal.
    - rewrite Habs. replace (same_key k k k k) with true; [reflexivity|].
      symmetry. apply same_key_spec. left. split; reflexivity.
    - apply rsum_ext. intros j Hj. destruct (Nat.eqb_spec k j) as [E|E]; [reflexivity|].
      rewrite Habs. destruct (same_key k k k j) eqn:Ek; [|reflexivity].
      apply same_key_spec in Ek. destruct Ek as [[_ Ej]|[_ Ej]]; congruence.
  Qed.

  (* other rows only change in column k *)
  Lemma Ax_put_diag_other M v k r (V : vecT R) : mat_ok M -> (k < length M)%nat -> r <> k ->
    Ax (mput M v k k) V r = Ax M V r.
  Proof.
    intros HM Hk Hr. unfold Ax. rewrite mput_length. apply rsum_ext. intros j Hj.
    pose proof (abs_mput RA M v k k HM Hk Hk r j) as Habs. unfold abs, aput in Habs.
    rewrite Habs. destruct (same_key k k r j) eqn:Ek; [|reflexivity].
    apply same_key_spec in Ek. destruct Ek as [[Er _]|[Er _]]; congruence.
  Qed.

  Definition wfL L : Prop := mat_ok (lM L) /\ ln L = length (lM L) /\ length (lb L) = ln L.

  (* --- conductor with prescribed charge ------------------------------------------------ *)
  (* the flux balance the finished row states *)
  Definition floating_balance L (cKi cBi rhs : R) (k : nat) (V : vecT R) : Prop :=
    rsum (fun j => if Nat.eqb k j then 0 else mgetR (lM L) k j * (vgetR V j - vgetR V k)) (ln L)
      - cKi * vgetR V k = rhs + cBi.

  Theorem floating_conductor_row (P : eprob (F:=R)) nn cK cB L i cc (V : vecT R) :
    wfL L -> (nn + i < ln L)%nat -> ctype cc = 0%nat ->
    let k := (nn + i)%nat in
    let L' := cond_row_step RA P nn cK cB L (i, cc) in
    cond_rowsum RA L k (vgetR cK i) <> 0 ->
    (Ax (lM L') V k = vgetR (lb L') k
     <-> floating_balance L (vgetR cK i) (vgetR cB i) (adec RA 1 9 * cconst RA P * cq cc) k V)
    /\ (forall r, r <> k -> (r < ln L)%nat -> Ax (lM L') V r = Ax (lM L) V r /\ vgetR (lb L') r = vgetR (lb L) r).
  Proof.
    intros (HM & Hn & Hb) Hk Ht k L' HK.
    unfold L', cond_row_step. rewrite Ht. cbn [Nat.eqb].
    fold k. ra_simpl.
    destruct (Reqb (cond_rowsum RA L k (vgetR cK i)) 0) eqn:E.
    { apply Reqb_true in E. contradiction. }
    cbn [lM lb lsetb lput]. split.
    - rewrite Ax_put_diag by (try exact HM; rewrite <- Hn; exact Hk).
      rewrite vget_vset_same by (rewrite Hb; exact Hk).
      rewrite cond_rowsum_spec. unfold floating_balance. rewrite <- Hn.
      set (S1 := rsum (fun j => if Nat.eqb k j then 0 else mgetR (lM L) k j) (ln L)).
      set (S2 := rsum (fun j => if Nat.eqb k j then 0 else mgetR (lM L) k j * vgetR V j) (ln L)).
      assert (HS : rsum (fun j => if Nat.eqb k j then 0 else mgetR (lM L) k j * (vgetR V j - vgetR V k)) (ln L)
                   = S2 - vgetR V k * S1).
      { unfold S1, S2. rewrite <- rsum_scal, <- rsum_minus. apply rsum_ext. intros j _.
        destruct (Nat.eqb k j); lra. }
      rewrite HS. split; intros H; lra.
    - intros r Hr Hrn. split.
      + apply Ax_put_diag_other; [exact HM | rewrite <- Hn; exact Hk | exact Hr].
      + apply vget_vset_other. exact Hr.
  Qed.

  (* a floating conductor whose row is empty (no node carries it) gets a harmless unit row *)
  Theorem floating_conductor_row_empty (P : eprob (F:=R)) nn cK cB L i cc :
    wfL L -> (nn + i < ln L)%nat -> ctype cc = 0%nat ->
    let k := (nn + i)%nat in
    let L' := cond_row_step RA P nn cK cB L (i, cc) in
    cond_rowsum RA L k (vgetR cK i) = 0 ->
    mgetR (lM L') k k = mgetR (lM L) 0 0 /\ lb L' = lb L.
  Proof.
    intros (HM & Hn & Hb) Hk Ht k L' HK.
    unfold L', cond_row_step. rewrite Ht. cbn [Nat.eqb]. fold k. ra_simpl.
    destruct (Reqb (cond_rowsum RA L k (vgetR cK i)) 0) eqn:E.
    2:{ apply Reqb_false in E. contradiction. }
    cbn [lM lb lput]. split; [|reflexivity].
    apply mget_mput_same; [exact HM | rewrite <- Hn; exact Hk | rewrite <- Hn; exact Hk].
  Qed.

  (* --- conductor with prescribed voltage ------------------------------------------------ *)
  Theorem fixed_conductor_row (P : eprob (F:=R)) nn cK cB L i cc :
    wfL L -> (nn + i < ln L)%nat -> ctype cc = 1%nat ->
    let k := (nn + i)%nat in
    let L' := cond_row_step RA P nn cK cB L (i, cc) in
    let K := mgetR (lM L) 0 0 in
    mgetR (lM L') k k = K /\ vgetR (lb L') k = K * cV cc /\
    (forall p q, (p <> k \/ q <> k) -> mgetR (lM L') p q = mgetR (lM L) p q) /\
    (forall r, r <> k -> vgetR (lb L') r = vgetR (lb L) r).
  Proof.
    intros (HM & Hn & Hb) Hk Ht k L' K.
    unfold L', cond_row_step. rewrite Ht. cbn [Nat.eqb]. fold k. ra_simpl.
    cbn [lM lb lsetb lput]. fold K.
    assert (Hkl : (k < length (lM L))%nat) by (rewrite <- Hn; exact Hk).
    split; [apply mget_mput_same; assumption|].
    split; [apply vget_vset_same; rewrite Hb; exact Hk|].
    split.
    - intros p q Hpq.
      pose proof (abs_mput RA (lM L) K k k HM Hkl Hkl p q) as Habs. unfold abs, aput in Habs.
      rewrite Habs. destruct (same_key k k p q) eqn:Ek; [|reflexivity].
      apply same_key_spec in Ek. destruct Ek as [[Ep Eq]|[Ep Eq]]; destruct Hpq; congruence.
    - intros r Hr. apply vget_vset_other. exact Hr.
  Qed.

  (* well-formedness is preserved, so the theorems apply at every step of the conductor loop *)
  Lemma cond_row_step_wf (P : eprob (F:=R)) nn cK cB L i cc :
    wfL L -> (nn + i < ln L)%nat -> wfL (cond_row_step RA P nn cK cB L (i, cc)).
  Proof.
    intros (HM & Hn & Hb) Hk. unfold cond_row_step.
    assert (Hkl : (nn + i < length (lM L))%nat) by (rewrite <- Hn; exact Hk).
    destruct (Nat.eqb (ctype cc) 1); destruct (Nat.eqb (ctype cc) 0);
      try destruct (aeqb RA _ _); unfold wfL; cbn [lM lb ln lsetb lput];
      rewrite ?mput_length, ?vset_length; repeat split; auto using mput_ok.
  Qed.

  Theorem conductor_rows_wf (P : eprob (F:=R)) nn cK cB L :
    wfL L -> (nn + length (circs P) <= ln L)%nat -> wfL (conductor_rows RA P nn cK cB L).
  Proof.
    unfold conductor_rows. intros HL Hn.
    assert (Hin : forall ic, In ic (combine (seq 0 (length (circs P))) (circs P)) -> (nn + fst ic < ln L)%nat).
    { intros [i cc] Hi. apply in_combine_l in Hi. apply in_seq in Hi. cbn [fst]. lia. }
    revert L HL Hn Hin. generalize (combine (seq 0 (length (circs P))) (circs P)) as l.
    induction l as [|[i cc] l IH]; intros L HL Hn Hin; cbn [fold_left]; [exact HL|].
    assert (Hk : (nn + i < ln L)%nat) by (apply (Hin (i, cc)); left; reflexivity).
    assert (Hln : ln (cond_row_step RA P nn cK cB L (i, cc)) = ln L).
    { unfold cond_row_step. destruct (Nat.eqb (ctype cc) 1); destruct (Nat.eqb (ctype cc) 0);
        try destruct (aeqb RA _ _); reflexivity. }
    apply IH.
    - apply cond_row_step_wf; assumption.
    - rewrite Hln. exact Hn.
    - intros ic Hic. rewrite Hln. apply Hin. right. exact Hic.
  Qed.
End Finish.
