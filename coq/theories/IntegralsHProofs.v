(* IntegralsHProofs.v — theorems about the model of the heat-flow post-processor's block integrals
   (IntegralsH.v), real reading.  Geometry (area, volume) is IntegralsEProofs' applied to the view. *)
From Coq Require Import ZArith List Bool Arith Lia Reals Lra Permutation.
From XF Require Import Arith Sparse SparseProofs AsmOps AsmOpsProofs AsmE KT Sums
                       Integrals IntegralsProofs IntegralsE IntegralsEProofs IntegralsH.
Import ListNotations.
Local Open Scope R_scope.

Section ElemH.
  Variable P : ih_prob (F:=R).
  Local Notation V := (ih_view RA P).
  Implicit Type el : ie_elem.

  Definition h_kx el : R := fst (ih_kn RA P el).
  Definition h_ky el : R := snd (ih_kn RA P el).

  (* heat flux density F = -k grad T / AECF (k averaged over the element's nodes) *)
  Lemma ih_D_R el :
    ih_D RA P el = (e_gx V el * h_kx el / ih_aecf RA P el, e_gy V el * h_ky el / ih_aecf RA P el).
  Proof.
    unfold ih_D. rewrite ie_gradE_R. unfold h_kx, h_ky. destruct (ih_kn RA P el) as [kx ky].
    unfold cdivr, dplusc, cmuld, ci_times. cbn [fst snd]. ra_simpl. unfold Rdiv. f_equal; ring.
  Qed.

  (* E() returns the temperature gradient field G = -grad T again *)
  Lemma ih_E_R el : h_kx el <> 0 -> h_ky el <> 0 -> ih_aecf RA P el <> 0 ->
    ih_E RA P el (ih_D RA P el) = (e_gx V el, e_gy V el).
  Proof.
    intros Hx Hy Ha. rewrite ih_D_R. unfold ih_E, h_kx, h_ky in *. destruct (ih_kn RA P el) as [kx ky].
    cbn [fst snd] in *. unfold cmuld, cdivr, dplusc, ci_times. cbn [fst snd]. ra_simpl.
    f_equal; field; repeat split; assumption.
  Qed.

  (* without a T-k table the conductivity is (Kx, Ky) *)
  Lemma ih_kn_linear el : ih_tk (nth (ie_blk el) (ih_mats P) (ih_dmat RA)) = [] ->
    ih_kn RA P el = (ih_kx (nth (ie_blk el) (ih_mats P) (ih_dmat RA)), ih_ky (nth (ie_blk el) (ih_mats P) (ih_dmat RA))).
  Proof.
    intros Ht. unfold ih_kn. cbv zeta. rewrite Ht. unfold getk, k_linear, cdivr, cadd, czero. cbn [fst snd]. ra_simpl.
    f_equal; field.
  Qed.

  Lemma ih_Tavg_R el : ih_Tavg RA P el = (ih_T RA P el 0 + ih_T RA P el 1 + ih_T RA P el 2) / 3.
  Proof. unfold ih_Tavg. ra_simpl. field. Qed.

  (* the exact integral of the P1 interpolant of T over the element:
       planar         depth * area * (T0+T1+T2)/3
       axisymmetric   2 pi area/12 * ((r0+r1+r2)(T0+T1+T2) + r0 T0 + r1 T1 + r2 T2)      (metres)
     (closed forms of the integrals of a linear function, resp. of r times a linear function, over a
     triangle).  blockIntegral(0) uses vol * (T0+T1+T2)/3 in both cases: exact in the planar case,
     the centroid rule in the axisymmetric case *)
  Definition h_exact_T_integral el : R :=
    let a := ih_area RA P el in
    let T0 := ih_T RA P el 0 in let T1 := ih_T RA P el 1 in let T2 := ih_T RA P el 2 in
    if ih_axi P then
      let r0 := e_x V el 0 * ih_lc P in let r1 := e_x V el 1 * ih_lc P in let r2 := e_x V el 2 * ih_lc P in
      2 * PI * a / 12 * ((r0 + r1 + r2) * (T0 + T1 + T2) + r0 * T0 + r1 * T1 + r2 * T2)
    else ie_depth RA V * a * ((T0 + T1 + T2) / 3).

  Theorem ih_T_term_planar_exact el : ih_axi P = false ->
    ih_vol RA P el * ih_Tavg RA P el = h_exact_T_integral el.
  Proof.
    intros Hp. unfold h_exact_T_integral, ih_vol, ie_vol. cbn [ie_axi ih_view]. rewrite Hp, ih_Tavg_R.
    unfold ih_area. ra_simpl. ring.
  Qed.

  Theorem ih_T_term_axisymmetric_centroid_rule el : ih_axi P = true ->
    let T0 := ih_T RA P el 0 in let T1 := ih_T RA P el 1 in let T2 := ih_T RA P el 2 in
    let r0 := e_x V el 0 * ih_lc P in let r1 := e_x V el 1 * ih_lc P in let r2 := e_x V el 2 * ih_lc P in
    let Rm := (r0 + r1 + r2) / 3 in let Tm := (T0 + T1 + T2) / 3 in
    h_exact_T_integral el - ih_vol RA P el * ih_Tavg RA P el
    = 2 * PI * ih_area RA P el / 12 * ((r0 - Rm) * (T0 - Tm) + (r1 - Rm) * (T1 - Tm) + (r2 - Rm) * (T2 - Tm)).
  Proof.
    intros Ha T0 T1 T2 r0 r1 r2 Rm Tm. unfold h_exact_T_integral, ih_vol, ie_vol. cbn [ie_axi ih_view]. rewrite Ha, ih_Tavg_R.
    fold T0 T1 T2 r0 r1 r2. unfold ih_area. rewrite ie_R_R. cbn [ie_lc ih_view]. ra_simpl.
    unfold Rm, Tm, r0, r1, r2. field.
  Qed.
End ElemH.

Section LoopH.
  Variable P : ih_prob (F:=R).
  Variable sel : list bool.
  Local Notation V := (ih_view RA P).

  Definition h_sel (el : ie_elem) : bool := selected sel (ie_lbl el).
  Definition h_term (t : nat) (el : ie_elem) : R :=
    match t with
    | 0%nat => ih_vol RA P el * ih_Tavg RA P el
    | 1%nat => ih_area RA P el
    | 2%nat => ih_vol RA P el
    | _ => 0
    end.

  Lemma ih_loop_real_gen t : (t < 3)%nat -> forall els acc,
    fold_left (ih_step RA P sel t) (combine els (map (ih_D RA P) els)) acc
    = (fst acc + lsum (fun el => if h_sel el then h_term t el else 0) els, snd acc).
  Proof.
    intros Ht. induction els as [|el els IH]; intros [ar ai]; cbn [map combine fold_left lsum fst snd].
    - f_equal. lra.
    - rewrite IH. unfold ih_step, h_sel.
      destruct (selected sel (ie_lbl el)).
      + destruct t as [|[|[|t]]]; try lia; unfold caddd, h_term; cbn [fst snd]; ra_simpl; f_equal; lra.
      + cbn [fst snd]. f_equal. lra.
  Qed.

  Theorem ih_loop_real t : (t < 3)%nat ->
    ih_loop RA P (ih_Ds RA P) sel t = (lsum (fun el => if h_sel el then h_term t el else 0) (ih_elems P), 0).
  Proof.
    intros Ht. unfold ih_loop, ih_Ds. rewrite (ih_loop_real_gen t Ht). unfold czero. cbn [fst snd]. ra_simpl.
    f_equal. lra.
  Qed.

  (* area (1) and volume (2) are plain sums of the selected elements' terms *)
  Theorem ih_block_integral_real t : (t = 1 \/ t = 2)%nat ->
    ih_block_integral RA P (ih_Ds RA P) sel t = (lsum (fun el => if h_sel el then h_term t el else 0) (ih_elems P), 0).
  Proof.
    intros Ht. unfold ih_block_integral. destruct Ht as [-> | ->]; cbn [Nat.eqb orb]; apply ih_loop_real; lia.
  Qed.

  Theorem ih_block_integral_is_block_integral t : (t = 1 \/ t = 2)%nat ->
    fst (ih_block_integral RA P (ih_Ds RA P) sel t)
    = block_integral RA sel (map (fun el => (ie_lbl el, h_term t el)) (ih_elems P)).
  Proof.
    intros Ht. rewrite ih_block_integral_real by exact Ht. cbn [fst].
    rewrite block_integral_sum. induction (ih_elems P) as [|el els IH]; cbn [map lsum sel_sum fst snd]; [reflexivity|].
    rewrite IH. reflexivity.
  Qed.

  (* average temperature (0): volume-weighted mean of the element mean temperatures *)
  Theorem ih_block_integral_avgT :
    let vol := lsum (fun el => if h_sel el then ih_vol RA P el else 0) (ih_elems P) in
    vol <> 0 ->
    ih_block_integral RA P (ih_Ds RA P) sel 0
    = (lsum (fun el => if h_sel el then ih_vol RA P el * ih_Tavg RA P el else 0) (ih_elems P) / vol, 0).
  Proof.
    intros vol Hvol. unfold ih_block_integral. cbn [Nat.eqb orb].
    rewrite (ih_loop_real 0) by lia. rewrite (ih_loop_real 2) by lia. cbn [h_term]. fold vol.
    rewrite cdiv_real by exact Hvol. cbn [fst snd]. f_equal. lra.
  Qed.

  Definition h_cterm (t : nat) (el : ie_elem) : R * R :=
    match t with
    | 3%nat => ih_D RA P el
    | _ => ih_E RA P el (ih_D RA P el)
    end.

  Lemma ih_loop_cplx_gen t : (t = 3 \/ t = 4)%nat -> forall els acc,
    fold_left (ih_step RA P sel t) (combine els (map (ih_D RA P) els)) acc
    = (fst acc + lsum (fun el => if h_sel el then ih_vol RA P el * fst (h_cterm t el) else 0) els,
       snd acc + lsum (fun el => if h_sel el then ih_vol RA P el * snd (h_cterm t el) else 0) els).
  Proof.
    intros Ht. induction els as [|el els IH]; intros [ar ai]; cbn [map combine fold_left lsum fst snd].
    - f_equal; lra.
    - rewrite IH. unfold ih_step, h_sel.
      destruct (selected sel (ie_lbl el)).
      + destruct Ht as [-> | ->]; unfold cadd, dmulc, h_cterm; cbn [fst snd]; ra_simpl; f_equal; lra.
      + cbn [fst snd]. f_equal; lra.
  Qed.

  (* average heat flux density F (3) and temperature gradient G (4) *)
  Theorem ih_block_integral_average t : (t = 3 \/ t = 4)%nat ->
    let vol := lsum (fun el => if h_sel el then ih_vol RA P el else 0) (ih_elems P) in
    vol <> 0 ->
    ih_block_integral RA P (ih_Ds RA P) sel t
    = (lsum (fun el => if h_sel el then ih_vol RA P el * fst (h_cterm t el) else 0) (ih_elems P) / vol,
       lsum (fun el => if h_sel el then ih_vol RA P el * snd (h_cterm t el) else 0) (ih_elems P) / vol).
  Proof.
    intros Ht vol Hvol. unfold ih_block_integral.
    replace (Nat.eqb t 0 || Nat.eqb t 3 || Nat.eqb t 4) with true by (destruct Ht as [-> | ->]; reflexivity).
    rewrite (ih_loop_real 2) by lia. cbn [h_term]. fold vol.
    unfold ih_loop, ih_Ds. rewrite (ih_loop_cplx_gen t Ht). unfold czero. cbn [fst snd]. ra_simpl.
    rewrite cdiv_real by exact Hvol. cbn [fst snd]. f_equal; f_equal; lra.
  Qed.
End LoopH.

Section GeomH.
  Variable P : ih_prob (F:=R).
  Local Notation V := (ih_view RA P).

  Theorem h_area_integral_is_shoelace els :
    NoDup (rall_dedges (map ie_p els)) ->
    lsum (ih_area RA P) els = ih_lc P * ih_lc P * (lsum (rcross (e_X V)) (rboundary (map ie_p els)) / 2).
  Proof. exact (area_integral_is_shoelace V els). Qed.

  Theorem h_volume_integral_planar els : ih_axi P = false ->
    lsum (ih_vol RA P) els = ie_depth RA V * lsum (ih_area RA P) els.
  Proof. exact (volume_integral_planar V els). Qed.

  Theorem h_vol_pappus el : ih_axi P = true ->
    ih_vol RA P el = ih_lc P * ih_lc P * ih_lc P * rpappus (e_X V) (ie_p el).
  Proof. exact (ie_vol_pappus V el). Qed.

  Theorem h_volume_integral_axisymmetric els : ih_axi P = true ->
    NoDup (rall_dedges (map ie_p els)) ->
    lsum (ih_vol RA P) els = ih_lc P * ih_lc P * ih_lc P * lsum (rrevol (e_X V)) (rboundary (map ie_p els)).
  Proof. exact (volume_integral_axisymmetric V els). Qed.
End GeomH.

(* a concrete instance: unit square, T = 300 K at the bottom nodes and 400 K at the top, k = 2 W/(m K) *)
Definition ex_H : ih_prob (F:=R) :=
  mkIHProb false 1 1 0 0 0
    [mkIENode 0 0 300 0%Z; mkIENode 1 0 300 0%Z; mkIENode 1 1 400 1%Z; mkIENode 0 1 400 1%Z]
    [mkIEElem (0, 1, 2)%nat 0 0; mkIEElem (0, 2, 3)%nat 0 0] [false] [mkIHMat 2 2 []].

Lemma ex_H_depth : ie_depth RA (ih_view RA ex_H) = 1.
Proof.
  unfold ie_depth. cbn [ie_depth_file ie_lc ih_view ih_depth_file ih_lc ex_H]. ra_simpl.
  destruct (Reqb 1 (- (1))) eqn:E; [apply Reqb_true in E; lra|lra].
Qed.

Lemma ex_H_average_temperature :
  lsum (fun el => if h_sel [true] el then ih_vol RA ex_H el else 0) (ih_elems ex_H) = 1 /\
  ih_block_integral RA ex_H (ih_Ds RA ex_H) [true] 0 = (350, 0).
Proof.
  assert (V : lsum (fun el => if h_sel [true] el then ih_vol RA ex_H el else 0) (ih_elems ex_H) = 1).
  { cbn [lsum ih_elems ex_H h_sel selected ie_lbl nth]. unfold ih_vol. rewrite !ie_vol_R. cbn [ie_axi ih_view ih_axi ex_H].
    rewrite ex_H_depth. unfold e_da, e_b, e_c, e_x, e_y, ie_nd. cbn. field. }
  split; [exact V|].
  rewrite ih_block_integral_avgT by (rewrite V; lra). rewrite V. f_equal.
  cbn [lsum ih_elems ex_H h_sel selected ie_lbl nth]. rewrite !ih_Tavg_R. unfold ih_vol. rewrite !ie_vol_R.
  cbn [ie_axi ih_view ih_axi ex_H]. rewrite ex_H_depth. unfold ih_T, e_da, e_b, e_c, e_x, e_y, ie_nd. cbn. field.
Qed.
