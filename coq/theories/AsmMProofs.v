(* AsmMProofs.v — theorems about the model of FSolver::Static2D / WriteStatic2D (real reading). *)
From Coq Require Import ZArith List Bool Arith Lia Reals Lra.
From XF Require Import Arith Sparse SparseProofs AsmOps AsmOpsProofs AsmE AsmEProofs AsmM.
Import ListNotations.
Local Open Scope R_scope.

Local Notation vgetR := (vget RA).
Local Notation mgetR := (mget RA).
Local Notation probR := (mprob (F:=R)).
Local Notation elemR := (melem (F:=R)).

(* ------------------------------------------------------------------------------------------ *)
Section Scatter.
  Implicit Type M : matrixT R.
  Implicit Type V b Me be : vecT R.

  Definition mscatter_mops (n : nat * nat * nat) Me : list (nat * nat * R) :=
    let t := tri_get n in
    [(t 0%nat, t 0%nat, - m3get RA Me 0 0); (t 0%nat, t 1%nat, - m3get RA Me 0 1); (t 0%nat, t 2%nat, - m3get RA Me 0 2);
     (t 1%nat, t 1%nat, - m3get RA Me 1 1); (t 1%nat, t 2%nat, - m3get RA Me 1 2);
     (t 2%nat, t 2%nat, - m3get RA Me 2 2)].
  Definition mscatter_bops (n : nat * nat * nat) be : list (nat * R) :=
    let t := tri_get n in
    [(t 0%nat, - vgetR be 0); (t 1%nat, - vgetR be 1); (t 2%nat, - vgetR be 2)].

  (* L.AddTo(-Me[j][k],n[j],n[k]); L.b[n[j]]-=be[j]  are "+= contribution" operations *)
  Lemma mscatter_as_ops n Me be M b :
    mscatter RA n Me be M b = (apply_mops RA M (mscatter_mops n Me), apply_bops RA b (mscatter_bops n be)).
  Proof.
    unfold mscatter, mscatter_mops, mscatter_bops. cbn [fold_left Nat.leb].
    unfold maddto. cbn [apply_mops apply_bops fold_left apply_mop apply_bop]. ra_simpl.
    reflexivity.
  Qed.

  Lemma melem_row_identity n Me be V i : distinct3 n ->
    lsum (fun o => mop_row V o i) (mscatter_mops n Me) - lsum (fun o => bop_entry o i) (mscatter_bops n be)
    = - ((if Nat.eqb (tri_get n 0) i then local_resid Me be n V 0 else 0)
         + (if Nat.eqb (tri_get n 1) i then local_resid Me be n V 1 else 0)
         + (if Nat.eqb (tri_get n 2) i then local_resid Me be n V 2 else 0)).
  Proof.
    intros (D01 & D12 & D02).
    unfold mscatter_mops, mscatter_bops.
    cbn [lsum mop_row bop_entry]. unfold local_resid, usym. cbn [Nat.leb].
    destruct n as [[n0 n1] n2]. cbn [tri_get] in *.
    destruct (Nat.eqb_spec n0 i); destruct (Nat.eqb_spec n1 i); destruct (Nat.eqb_spec n2 i);
      destruct (Nat.eqb_spec n0 n1); destruct (Nat.eqb_spec n1 n2); destruct (Nat.eqb_spec n0 n2);
      destruct (Nat.eqb_spec n0 n0); destruct (Nat.eqb_spec n1 n1); destruct (Nat.eqb_spec n2 n2);
      cbn [andb negb]; subst; try congruence; try lra.
  Qed.
End Scatter.

(* ------------------------------------------------------------------------------------------ *)
Section Loop.
  Variables (P : probR) (res : list (nat * R * R)).
  Implicit Type M : matrixT R.

  Definition elem_okM (len : nat) (el : elemR) : Prop :=
    distinct3 (mp el) /\
    (tri_get (mp el) 0 < len)%nat /\ (tri_get (mp el) 1 < len)%nat /\ (tri_get (mp el) 2 < len)%nat.

  Definition el_resid (el : elemR) (U : vecT R) (i : nat) : R :=
    let r := melem_matrices RA P res el in
    let Me := fst (fst r) in let be := snd (fst r) in
    (if Nat.eqb (tri_get (mp el) 0) i then local_resid Me be (mp el) U 0 else 0)
    + (if Nat.eqb (tri_get (mp el) 1) i then local_resid Me be (mp el) U 1 else 0)
    + (if Nat.eqb (tri_get (mp el) 2) i then local_resid Me be (mp el) U 2 else 0).

  Definition mloop_resid (els : list elemR) (U : vecT R) (i : nat) : R := lsum (fun el => el_resid el U i) els.

  Lemma melem_step_rows M (b : vecT R) el U :
    mat_wf M -> length b = length M -> elem_okM (length M) el ->
    let s' := melem_step RA P res (M, b) el in
    mat_wf (fst s') /\ length (fst s') = length M /\ length (snd s') = length b /\
    forall i, (i < length M)%nat ->
      Ax (fst s') U i - vgetR (snd s') i = (Ax M U i - vgetR b i) - el_resid el U i.
  Proof.
    intros Hwf Hb (Hd & H0 & H1 & H2) s'. unfold s', melem_step, el_resid.
    destruct (melem_matrices RA P res el) as [[Me be] mu]. cbn [fst snd].
    rewrite mscatter_as_ops. cbn [fst snd].
    assert (Hm : mops_in_range (length M) (mscatter_mops (mp el) Me)).
    { unfold mscatter_mops. repeat constructor; cbn [fst snd]; auto. }
    assert (Hbo : bops_in_range (length b) (mscatter_bops (mp el) be)).
    { unfold mscatter_bops. rewrite Hb. repeat constructor; cbn [fst snd]; auto. }
    destruct (assembled_rows M b _ _ U Hwf Hm Hbo) as (W & L1 & L2 & HR).
    split; [exact W|]. split; [exact L1|]. split; [exact L2|].
    intros i Hi. rewrite (HR i Hi).
    pose proof (melem_row_identity (mp el) Me be U i Hd) as G. lra.
  Qed.

  (* the element loop of Static2D: every row of the residual is minus the sum of the local
     residuals  sum_b Me[a][b] U[n_b] - be[a]  of the element rows assembled into it *)
  Theorem mloop_rows U : forall els M (b : vecT R),
    mat_wf M -> length b = length M -> Forall (elem_okM (length M)) els ->
    let s' := fold_left (melem_step RA P res) els (M, b) in
    mat_wf (fst s') /\ length (fst s') = length M /\ length (snd s') = length b /\
    forall i, (i < length M)%nat ->
      Ax (fst s') U i - vgetR (snd s') i = (Ax M U i - vgetR b i) - mloop_resid els U i.
  Proof.
    induction els as [|el els IH]; intros M b Hwf Hb Hok.
    - cbn [fold_left fst snd]. split; [auto|]. split; [auto|]. split; [auto|]. intros; unfold mloop_resid; cbn [lsum]; lra.
    - apply Forall_cons_iff in Hok. destruct Hok as [Hel Hok].
      destruct (melem_step_rows M b el U Hwf Hb Hel) as (W1 & L1 & L2 & HR).
      cbn [fold_left].
      destruct (melem_step RA P res (M, b) el) as [M1 b1] eqn:E1. cbn [fst snd] in *.
      destruct (IH M1 b1 W1) as (W & L & Lb & HR2); [lia|rewrite L1; exact Hok|].
      split; [exact W|]. split; [lia|]. split; [lia|].
      intros i Hi. rewrite HR2 by lia. rewrite HR by auto. unfold mloop_resid. cbn [lsum]. lra.
  Qed.

  (* point currents:  L.b[i] += 0.01*I  at every node that carries a point property *)
  Definition point_bops (ns : list (nat * mnode (F:=R))) : list (nat * R) :=
    flat_map (fun in_ => match mbm (snd in_) with
                         | Some m => [(fst in_, e2 RA * pJre (nth m (mpoints P) (dmpoint RA)))]
                         | None => [] end) ns.

  Lemma point_currents_as_bops (b : vecT R) :
    point_currents RA P b = apply_bops RA b (point_bops (combine (seq 0 (length (mnodes P))) (mnodes P))).
  Proof.
    unfold point_currents. generalize (combine (seq 0 (length (mnodes P))) (mnodes P)). intros l. revert b.
    induction l as [|[i nd] l IH]; intros b; [reflexivity|].
    cbn [fold_left point_bops flat_map fst snd]. rewrite IH.
    destruct (mbm nd); cbn [app]; reflexivity.
  Qed.
End Loop.

(* ------------------------------------------------------------------------------------------ *)
Section Element.
  Variables (P : probR) (res : list (nat * R * R)).
  Implicit Type Me be : vecT R.

  (* P1 Galerkin matrix of curl(nu curl A) on one triangle, reluctivities nu_x = 1/mu_x (acting on
     B_x = dA/dy) and nu_y = 1/mu_y (acting on B_y = -dA/dx):
        area * (nu_y dphi_j/dx dphi_k/dx + nu_x dphi_j/dy dphi_k/dy),  grad phi_j = (p_j, q_j)/(2a) *)
  Definition dphidx (g : egeom) (j : nat) : R := vgetR (gp g) j / (2 * ga g).
  Definition dphidy (g : egeom) (j : nat) : R := vgetR (gq g) j / (2 * ga g).
  Definition curlcurl_K (nu_x nu_y : R) (g : egeom) (j k : nat) : R :=
    ga g * (nu_y * dphidx g j * dphidx g k + nu_x * dphidy g j * dphidy g k).

  Lemma xy_add_get Me K p0 p1 p2 q0 q1 q2 j k : length Me = 9%nat -> (j < 3)%nat -> (k < 3)%nat ->
    length (xy_add RA Me K [p0; p1; p2] [q0; q1; q2]) = 9%nat /\
    m3get RA (xy_add RA Me K [p0; p1; p2] [q0; q1; q2]) j k
      = m3get RA Me j k + K * (vgetR [p0; p1; p2] j * vgetR [q0; q1; q2] k + vgetR [p0; p1; p2] k * vgetR [q0; q1; q2] j).
  Proof.
    intros HL Hj Hk. destruct (len9_explicit Me HL) as (m0 & m1 & m2 & m3 & m4 & m5 & m6 & m7 & m8 & ->).
    split; [reflexivity|].
    destruct j as [|[|[|j]]]; try lia; destruct k as [|[|[|k]]]; try lia; cbn; ra_simpl; lra.
  Qed.

  Lemma combine_me_get Me Mx My Mxy mu1 mu2 j k :
    length Me = 9%nat -> length Mx = 9%nat -> length My = 9%nat -> length Mxy = 9%nat -> (j < 3)%nat -> (k < 3)%nat ->
    m3get RA (combine_me RA Me Mx My Mxy mu1 mu2) j k
      = m3get RA Me j k + (m3get RA Mx j k / mu2 + m3get RA My j k / mu1).
  Proof.
    intros H1 H2 H3 H4 Hj Hk.
    destruct (len9_explicit Me H1) as (a0 & a1 & a2 & a3 & a4 & a5 & a6 & a7 & a8 & ->).
    destruct (len9_explicit Mx H2) as (b0 & b1 & b2 & b3 & b4 & b5 & b6 & b7 & b8 & ->).
    destruct (len9_explicit My H3) as (c0 & c1 & c2 & c3 & c4 & c5 & c6 & c7 & c8 & ->).
    destruct (len9_explicit Mxy H4) as (d0 & d1 & d2 & d3 & d4 & d5 & d6 & d7 & d8 & ->).
    destruct j as [|[|[|j]]]; try lia; destruct k as [|[|[|k]]]; try lia; cbn; ra_simpl; lra.
  Qed.

  Lemma mixed_none g el acc :
    me el = (None, None, None) -> fold_left (mixed_step RA P g el) [0%nat; 1%nat; 2%nat] acc = acc.
  Proof. intros He. unfold mixed_step. cbn [fold_left]. rewrite He. reflexivity. Qed.

  (* the magnet edge term  K = 0.0001*H_c*(cos t*(x_k-x_j) + sin t*(y_k-y_j))/2  of edge j -> j+1 *)
  Definition Kmag (el : elemR) (j : nat) : R :=
    let nd := fun t => nth (tri_get (mp el) t) (mnodes P) (dmnode RA) in
    let blk := nth (mblk el) (mblocks P) (dmblock RA) in
    e4 RA * bHc blk * (mcos el * (mx (nd (nxt j)) - mx (nd j)) + msin el * (my (nd (nxt j)) - my (nd j))) / 2.
  Definition prv (j : nat) : nat := match j with 0%nat => 2%nat | 1%nat => 0%nat | _ => 1%nat end.

  Lemma melem_matrices_noedge el :
    me el = (None, None, None) ->
    let r := melem_matrices RA P res el in
    let g := mel_geom RA P el in
    let blk := nth (mblk el) (mblocks P) (dmblock RA) in
    let mu := el_mu RA blk in
    snd r = mu /\
    (forall j k, (j < 3)%nat -> (k < 3)%nat ->
       m3get RA (fst (fst r)) j k =
         -1 / (4 * ga g) * vgetR (gp g) j * vgetR (gp g) k / snd mu
         + -1 / (4 * ga g) * vgetR (gq g) j * vgetR (gq g) k / fst mu) /\
    (forall j, (j < 3)%nat ->
       vgetR (snd (fst r)) j = - (bJre blk + circ_t RA P res el) * ga g / 3 + Kmag el j + Kmag el (prv j)).
  Proof.
    intros He r g blk mu. unfold r, melem_matrices. cbv zeta.
    fold g. fold blk. rewrite mixed_none by exact He. fold mu.
    destruct mu as [mu1 mu2] eqn:Emu. cbn [fst snd].
    assert (Hgp : gp g = [vgetR (gp g) 0; vgetR (gp g) 1; vgetR (gp g) 2]) by reflexivity.
    assert (Hgq : gq g = [vgetR (gq g) 0; vgetR (gq g) 1; vgetR (gq g) 2]) by reflexivity.
    split; [reflexivity|]. split.
    - intros j k Hj Hk.
      set (K := aneg RA (aone RA) / (4 * ga g)).
      assert (Z9 : length (repeat (azero RA) 9) = 9%nat) by reflexivity.
      destruct (stiff_add_get (repeat (azero RA) 9) K (vgetR (gp g) 0) (vgetR (gp g) 1) (vgetR (gp g) 2) j k Z9 Hj Hk) as [Lx Gx].
      destruct (stiff_add_get (repeat (azero RA) 9) K (vgetR (gq g) 0) (vgetR (gq g) 1) (vgetR (gq g) 2) j k Z9 Hj Hk) as [Ly Gy].
      destruct (xy_add_get (repeat (azero RA) 9) K (vgetR (gp g) 0) (vgetR (gp g) 1) (vgetR (gp g) 2)
                           (vgetR (gq g) 0) (vgetR (gq g) 1) (vgetR (gq g) 2) j k Z9 Hj Hk) as [Lxy _].
      rewrite <- Hgp in Lx, Gx, Lxy. rewrite <- Hgq in Ly, Gy, Lxy.
      ra_simpl. fold K.
      rewrite combine_me_get by auto. rewrite Gx, Gy.
      replace (m3get RA (repeat 0 9) j k) with 0
        by (destruct j as [|[|[|j]]]; try lia; destruct k as [|[|[|k]]]; try lia; reflexivity).
      unfold K. ra_simpl. lra.
    - intros j Hj. unfold Kmag. subst blk.
      destruct j as [|[|[|j]]]; try lia; cbn; ra_simpl; field.
  Qed.

  (* (b) the element matrix is minus the linear-triangle Galerkin matrix of curl(nu curl A):
     the effective mu_x (mu1) goes with the y-derivatives (q q), the effective mu_y (mu2) with the
     x-derivatives (p p) *)
  Theorem Mel_is_curlcurl el j k :
    me el = (None, None, None) -> (j < 3)%nat -> (k < 3)%nat ->
    let g := mel_geom RA P el in
    let mu := el_mu RA (nth (mblk el) (mblocks P) (dmblock RA)) in
    ga g <> 0 -> fst mu <> 0 -> snd mu <> 0 ->
    m3get RA (fst (fst (melem_matrices RA P res el))) j k = - curlcurl_K (1 / fst mu) (1 / snd mu) g j k.
  Proof.
    intros He Hj Hk g mu Ha H1 H2.
    destruct (melem_matrices_noedge el He) as (_ & HM & _). rewrite (HM j k Hj Hk).
    fold g. fold mu. unfold curlcurl_K, dphidx, dphidy. field. repeat split; assumption.
  Qed.

  (* (c) right-hand side: be_j = -( (J + t) a/3 + 0.0001 * integral of Hc x grad(phi_j) ), with
     Hc = H_c (cos, sin); L.b[n_j] -= be_j puts  + J a/3 + curl(Hc) load  on the right-hand side *)
  Theorem current_and_magnet_rhs el j :
    me el = (None, None, None) -> (j < 3)%nat ->
    let g := mel_geom RA P el in
    let blk := nth (mblk el) (mblocks P) (dmblock RA) in
    ga g <> 0 ->
    vgetR (snd (fst (melem_matrices RA P res el))) j =
      - ((bJre blk + circ_t RA P res el) * ga g / 3
         + e4 RA * (ga g * (bHc blk * mcos el * dphidy g j - bHc blk * msin el * dphidx g j))).
  Proof.
    intros He Hj g blk Ha.
    destruct (melem_matrices_noedge el He) as (_ & _ & HB). rewrite (HB j Hj).
    fold g. fold blk. unfold Kmag, dphidx, dphidy. fold blk.
    unfold g, mel_geom, geom in *. cbn [gp gq ga] in *. unfold vget in *. cbn [nth] in Ha.
    destruct j as [|[|[|j]]]; try lia; cbn [nth nxt prv tri_get]; ra_simpl; field; intro Hz; apply Ha; lra.
  Qed.

  (* pure source current: no magnet *)
  Corollary current_rhs el j :
    me el = (None, None, None) -> (j < 3)%nat ->
    let blk := nth (mblk el) (mblocks P) (dmblock RA) in
    bHc blk = 0 ->
    vgetR (snd (fst (melem_matrices RA P res el))) j = - (bJre blk + circ_t RA P res el) * ga (mel_geom RA P el) / 3.
  Proof.
    intros He Hj blk Hc.
    destruct (melem_matrices_noedge el He) as (_ & _ & HB). rewrite (HB j Hj).
    unfold Kmag. fold blk. rewrite Hc. lra.
  Qed.

  (* magnet_rhs_is_curl_Hc: the two edge terms a node receives are the Galerkin load of curl(Hc) *)
  Theorem magnet_rhs_is_curl_Hc el j :
    (j < 3)%nat -> let g := mel_geom RA P el in let blk := nth (mblk el) (mblocks P) (dmblock RA) in
    ga g <> 0 ->
    Kmag el j + Kmag el (prv j) = - (e4 RA * (ga g * (bHc blk * mcos el * dphidy g j - bHc blk * msin el * dphidx g j))).
  Proof.
    intros Hj g blk Ha. unfold Kmag, dphidx, dphidy. fold blk.
    unfold g, mel_geom, geom in *. cbn [gp gq ga] in *. unfold vget in *. cbn [nth] in Ha.
    destruct j as [|[|[|j]]]; try lia; cbn [nth nxt prv tri_get]; ra_simpl; field; intro Hz; apply Ha; lra.
  Qed.

  (* shape of the element matrices (what the loop theorem's local residual uses) *)
  Lemma melem_matrices_sym el :
    me el = (None, None, None) -> forall j k, (j < 3)%nat -> (k < 3)%nat ->
    m3get RA (fst (fst (melem_matrices RA P res el))) j k = m3get RA (fst (fst (melem_matrices RA P res el))) k j.
  Proof.
    intros He j k Hj Hk. destruct (melem_matrices_noedge el He) as (_ & HM & _).
    rewrite (HM j k Hj Hk), (HM k j Hk Hj). lra.
  Qed.
End Element.

(* ------------------------------------------------------------------------------------------ *)
Section Lamination.
  (* (g) what Static2D computes for LamType 0/1/2 are the parallel / series mixtures of iron
     (fill) and air (1 - fill): mu_par = fill*mu + (1-fill), 1/mu_ser = fill/mu + (1-fill) *)
  Definition mu_par (fill mu : R) : R := fill * mu + (1 - fill).
  Definition mu_ser (fill mu : R) : R := / (fill / mu + (1 - fill)).

  Theorem lam_mixing_series_parallel (b : mblock (F:=R)) :
    (bLamType b = 0%nat -> el_mu RA b = (mu_par (bLamFill b) (bmux b), mu_par (bLamFill b) (bmuy b))) /\
    (bLamType b = 1%nat -> bmux b <> 0 -> bLamFill b + bmux b * (1 - bLamFill b) <> 0 ->
       el_mu RA b = (mu_par (bLamFill b) (bmux b), mu_ser (bLamFill b) (bmux b))) /\
    (bLamType b = 2%nat -> bmuy b <> 0 -> bLamFill b + bmuy b * (1 - bLamFill b) <> 0 ->
       el_mu RA b = (mu_ser (bLamFill b) (bmuy b), mu_par (bLamFill b) (bmuy b))) /\
    ((2 < bLamType b)%nat -> el_mu RA b = (1, 1)).
  Proof.
    unfold el_mu, mu_par, mu_ser. repeat split.
    - intros ->. cbn. ra_simpl. f_equal; ring.
    - intros -> Hm Hd. cbn. ra_simpl. f_equal; [ring|]. field.
      split; [exact Hm | intro Hz; apply Hd; lra].
    - intros -> Hm Hd. cbn. ra_simpl. f_equal; [|ring]. field.
      split; [exact Hm | intro Hz; apply Hd; lra].
    - intros H. destruct (bLamType b) as [|[|[|n]]]; try lia. reflexivity.
  Qed.
End Lamination.
