(* AsmMProofs.v — theorems about the model of FSolver::Static2D / WriteStatic2D (real reading). *)
From Coq Require Import ZArith List Bool Arith Lia Reals Lra.
From XF Require Import Arith Sparse SparseProofs AsmOps AsmOpsProofs AsmE AsmEProofs AsmM.
Import ListNotations.
Local Open Scope R_scope.

Local Notation vgetR := (vget RA).
Local Notation mgetR := (mget RA).
Local Notation probR := (mprob (F:=R)).
Local Notation elemR := (melem (F:=R)).

(* ------------------------------------------------------------------------------------------ *)
Section Scatter.
  Implicit Type M : matrixT R.
  Implicit Type V b Me be : vecT R.

  Definition mscatter_mops (n : nat * nat * nat) Me : list (nat * nat * R) :=
    let t := tri_get n in
    [(t 0%nat, t 0%nat, - m3get RA Me 0 0); (t 0%nat, t 1%nat, - m3get RA Me 0 1); (t 0%nat, t 2%nat, - m3get RA Me 0 2);
     (t 1%nat, t 1%nat, - m3get RA Me 1 1); (t 1%nat, t 2%nat, - m3get RA Me 1 2);
     (t 2%nat, t 2%nat, - m3get RA Me 2 2)].
  Definition mscatter_bops (n : nat * nat * nat) be : list (nat * R) :=
    let t := tri_get n in
    [(t 0%nat, - vgetR be 0); (t 1%nat, - vgetR be 1); (t 2%nat, - vgetR be 2)].

  (* L.AddTo(-Me[j][k],n[j],n[k]); L.b[n[j]]-=be[j]  are "+= contribution" operations *)
  Lemma mscatter_as_ops n Me be M b :
    mscatter RA n Me be M b = (apply_mops RA M (mscatter_mops n Me), apply_bops RA b (mscatter_bops n be)).
  Proof.
    unfold mscatter, mscatter_mops, mscatter_bops. cbn [fold_left Nat.leb].
    unfold maddto. cbn [apply_mops apply_bops fold_left apply_mop apply_bop]. ra_simpl.
    reflexivity.
  Qed.

  Lemma melem_row_identity n Me be V i : distinct3 n ->
    lsum (fun o => mop_row V o i) (mscatter_mops n Me) - lsum (fun o => bop_entry o i) (mscatter_bops n be)
    = - ((if Nat.eqb (tri_get n 0) i then local_resid Me be n V 0 else 0)
         + (if Nat.eqb (tri_get n 1) i then local_resid Me be n V 1 else 0)
         + (if Nat.eqb (tri_get n 2) i then local_resid Me be n V 2 else 0)).
  Proof.
    intros (D01 & D12 & D02).
    unfold mscatter_mops, mscatter_bops.
    cbn [lsum mop_row bop_entry]. unfold local_resid, usym. cbn [Nat.leb].
    destruct n as [[n0 n1] n2]. cbn [tri_get] in *.
    destruct (Nat.eqb_spec n0 i); destruct (Nat.eqb_spec n1 i); destruct (Nat.eqb_spec n2 i);
      destruct (Nat.eqb_spec n0 n1); destruct (Nat.eqb_spec n1 n2); destruct (Nat.eqb_spec n0 n2);
      destruct (Nat.eqb_spec n0 n0); destruct (Nat.eqb_spec n1 n1); destruct (Nat.eqb_spec n2 n2);
      cbn [andb negb]; subst; try congruence; try lra.
  Qed.
End Scatter.

(* ------------------------------------------------------------------------------------------ *)
Section Loop.
  Variables (P : probR) (res : list (nat * R * R)).
  Implicit Type M : matrixT R.

  Definition elem_okM (len : nat) (el : elemR) : Prop :=
    distinct3 (mp el) /\
    (tri_get (mp el) 0 < len)%nat /\ (tri_get (mp el) 1 < len)%nat /\ (tri_get (mp el) 2 < len)%nat.

  Definition el_resid (el : elemR) (U : vecT R) (i : nat) : R :=
    let r := melem_matrices RA P res el in
    let Me := fst (fst r) in let be := snd (fst r) in
    (if Nat.eqb (tri_get (mp el) 0) i then local_resid Me be (mp el) U 0 else 0)
    + (if Nat.eqb (tri_get (mp el) 1) i then local_resid Me be (mp el) U 1 else 0)
    + (if Nat.eqb (tri_get (mp el) 2) i then local_resid Me be (mp el) U 2 else 0).

  Definition mloop_resid (els : list elemR) (U : vecT R) (i : nat) : R := lsum (fun el => el_resid el U i) els.

  Lemma melem_step_rows M (b : vecT R) el U :
    mat_wf M -> length b = length M -> elem_okM (length M) el ->
    let s' := melem_step RA P res (M, b) el in
    mat_wf (fst s') /\ length (fst s') = length M /\ length (snd s') = length b /\
    forall i, (i < length M)%nat ->
      Ax (fst s') U i - vgetR (snd s') i = (Ax M U i - vgetR b i) - el_resid el U i.
  Proof.
    intros Hwf Hb (Hd & H0 & H1 & H2) s'. unfold s', melem_step, el_resid.
    destruct (melem_matrices RA P res el) as [[Me be] mu]. cbn [fst snd].
    rewrite mscatter_as_ops. cbn [fst snd].
    assert (Hm : mops_in_range (length M) (mscatter_mops (mp el) Me)).
    { unfold mscatter_mops. repeat constructor; cbn [fst snd]; auto. }
    assert (Hbo : bops_in_range (length b) (mscatter_bops (mp el) be)).
    { unfold mscatter_bops. rewrite Hb. repeat constructor; cbn [fst snd]; auto. }
    destruct (assembled_rows M b _ _ U Hwf Hm Hbo) as (W & L1 & L2 & HR).
    split; [exact W|]. split; [exact L1|]. split; [exact L2|].
    intros i Hi. rewrite (HR i Hi).
    pose proof (melem_row_identity (mp el) Me be U i Hd) as G. lra.
  Qed.

  (* the element loop of Static2D: every row of the residual is minus the sum of the local
     residuals  sum_b Me[a][b] U[n_b] - be[a]  of the element rows assembled into it *)
  Theorem mloop_rows U : forall els M (b : vecT R),
    mat_wf M -> length b = length M -> Forall (elem_okM (length M)) els ->
    let s' := fold_left (melem_step RA P res) els (M, b) in
    mat_wf (fst s') /\ length (fst s') = length M /\ length (snd s') = length b /\
    forall i, (i < length M)%nat ->
      Ax (fst s') U i - vgetR (snd s') i = (Ax M U i - vgetR b i) - mloop_resid els U i.
  Proof.
    induction els as [|el els IH]; intros M b Hwf Hb Hok.
    - cbn [fold_left fst snd]. split; [auto|]. split; [auto|]. split; [auto|]. intros; unfold mloop_resid; cbn [lsum]; lra.
    - apply Forall_cons_iff in Hok. destruct Hok as [Hel Hok].
      destruct (melem_step_rows M b el U Hwf Hb Hel) as (W1 & L1 & L2 & HR).
      cbn [fold_left].
      destruct (melem_step RA P res (M, b) el) as [M1 b1] eqn:E1. cbn [fst snd] in *.
      destruct (IH M1 b1 W1) as (W & L & Lb & HR2); [lia|rewrite L1; exact Hok|].
      split; [exact W|]. split; [lia|]. split; [lia|].
      intros i Hi. rewrite HR2 by lia. rewrite HR by auto. unfold mloop_resid. cbn [lsum]. lra.
  Qed.

  (* point currents:  L.b[i] += 0.01*I  at every node that carries a point property *)
  Definition point_bops (ns : list (nat * mnode (F:=R))) : list (nat * R) :=
    flat_map (fun in_ => match mbm (snd in_) with
                         | Some m => [(fst in_, e2 RA * pJre (nth m (mpoints P) (dmpoint RA)))]
                         | None => [] end) ns.

  Lemma point_currents_as_bops (b : vecT R) :
    point_currents RA P b = apply_bops RA b (point_bops (combine (seq 0 (length (mnodes P))) (mnodes P))).
  Proof.
    unfold point_currents. generalize (combine (seq 0 (length (mnodes P))) (mnodes P)). intros l. revert b.
    induction l as [|[i nd] l IH]; intros b; [reflexivity|].
    cbn [fold_left point_bops flat_map fst snd]. rewrite IH.
    destruct (mbm nd); cbn [app]; reflexivity.
  Qed.
End Loop.

(* ------------------------------------------------------------------------------------------ *)
Section Element.
  Variables (P : probR) (res : list (nat * R * R)).
  Implicit Type Me be : vecT R.

  (* P1 Galerkin matrix of curl(nu curl A) on one triangle, reluctivities nu_x = 1/mu_x (acting on
     B_x = dA/dy) and nu_y = 1/mu_y (acting on B_y = -dA/dx):
        area * (nu_y dphi_j/dx dphi_k/dx + nu_x dphi_j/dy dphi_k/dy),  grad phi_j = (p_j, q_j)/(2a) *)
  Definition dphidx (g : egeom) (j : nat) : R := vgetR (gp g) j / (2 * ga g).
  Definition dphidy (g : egeom) (j : nat) : R := vgetR (gq g) j / (2 * ga g).
  Definition curlcurl_K (nu_x nu_y : R) (g : egeom) (j k : nat) : R :=
    ga g * (nu_y * dphidx g j * dphidx g k + nu_x * dphidy g j * dphidy g k).

  Lemma xy_add_get Me K p0 p1 p2 q0 q1 q2 j k : length Me = 9%nat -> (j < 3)%nat -> (k < 3)%nat ->
    length (xy_add RA Me K [p0; p1; p2] [q0; q1; q2]) = 9%nat /\
    m3get RA (xy_add RA Me K [p0; p1; p2] [q0; q1; q2]) j k
      = m3get RA Me j k + K * (vgetR [p0; p1; p2] j * vgetR [q0; q1; q2] k + vgetR [p0; p1; p2] k * vgetR [q0; q1; q2] j).
  Proof.
    intros HL Hj Hk. destruct (len9_explicit Me HL) as (m0 & m1 & m2 & m3 & m4 & m5 & m6 & m7 & m8 & ->).
    split; [reflexivity|].
    destruct j as [|[|[|j]]]; try lia; destruct k as [|[|[|k]]]; try lia; cbn; ra_simpl; lra.
  Qed.

  Lemma combine_me_get Me Mx My Mxy mu1 mu2 j k :
    length Me = 9%nat -> length Mx = 9%nat -> length My = 9%nat -> length Mxy = 9%nat -> (j < 3)%nat -> (k < 3)%nat ->
    m3get RA (combine_me RA Me Mx My Mxy mu1 mu2) j k
      = m3get RA Me j k + (m3get RA Mx j k / mu2 + m3get RA My j k / mu1).
  Proof.
    intros H1 H2 H3 H4 Hj Hk.
    destruct (len9_explicit Me H1) as (a0 & a1 & a2 & a3 & a4 & a5 & a6 & a7 & a8 & ->).
    destruct (len9_explicit Mx H2) as (b0 & b1 & b2 & b3 & b4 & b5 & b6 & b7 & b8 & ->).
    destruct (len9_explicit My H3) as (c0 & c1 & c2 & c3 & c4 & c5 & c6 & c7 & c8 & ->).
    destruct (len9_explicit Mxy H4) as (d0 & d1 & d2 & d3 & d4 & d5 & d6 & d7 & d8 & ->).
    destruct j as [|[|[|j]]]; try lia; destruct k as [|[|[|k]]]; try lia; cbn; ra_simpl; lra.
  Qed.

  (* no edge of the element carries a mixed (BdryFormat 2) boundary condition; prescribed-A, periodic and
     unmarked edges do not enter the element matrices *)
  Definition no_mixed_edge (el : elemR) : Prop :=
    forall j, (j < 3)%nat ->
      match tri_get (me el) j with
      | Some s => mlfmt (nth s (mlines P) (dmline RA)) <> 2%nat
      | None => True end.

  Lemma no_mixed_edge_none el : me el = (None, None, None) -> no_mixed_edge el.
  Proof. intros He j Hj. rewrite He. destruct j as [|[|[|j]]]; try lia; exact I. Qed.

  Lemma mixed_none g el acc :
    no_mixed_edge el -> fold_left (mixed_step RA P g el) [0%nat; 1%nat; 2%nat] acc = acc.
  Proof.
    intros He. unfold mixed_step. cbn [fold_left].
    pose proof (He 0%nat ltac:(lia)) as H0. pose proof (He 1%nat ltac:(lia)) as H1. pose proof (He 2%nat ltac:(lia)) as H2.
    destruct (tri_get (me el) 0) as [s0|]; [apply Nat.eqb_neq in H0; rewrite H0|];
      (destruct (tri_get (me el) 1) as [s1|]; [apply Nat.eqb_neq in H1; rewrite H1|]);
      (destruct (tri_get (me el) 2) as [s2|]; [apply Nat.eqb_neq in H2; rewrite H2|]); reflexivity.
  Qed.

  (* one mixed-boundary edge j -> j+1:  Me += K [2 1; 1 2] on the edge's two nodes with
     K = -0.0001*c*c0*l/6 (the P1 edge mass matrix l/6 [2 1; 1 2] times c0),  be += 0.0001*c1*l/2 *)
  Definition on_edge (j a : nat) : bool := Nat.eqb a j || Nat.eqb a (nxt j).
  Theorem mixed_step_adds g el Me be j s :
    tri_get (me el) j = Some s -> mlfmt (nth s (mlines P) (dmline RA)) = 2%nat ->
    (j < 3)%nat -> length Me = 9%nat -> length be = 3%nat ->
    let lp := nth s (mlines P) (dmline RA) in
    let K := - e4 RA * c4pi RA * lc0re lp * vgetR (gl g) j / 6 in
    let r := mixed_step RA P g el (Me, be) j in
    (forall a b, (a < 3)%nat -> (b < 3)%nat ->
       m3get RA (fst r) a b = m3get RA Me a b
         + (if on_edge j a && on_edge j b then (if Nat.eqb a b then 2 * K else K) else 0)) /\
    (forall a, (a < 3)%nat ->
       vgetR (snd r) a = vgetR be a + (if on_edge j a then lc1re lp * vgetR (gl g) j / 2 * e4 RA else 0)).
  Proof.
    intros Hs Hf Hj HL HB lp K r. subst lp. unfold r, mixed_step. rewrite Hs. rewrite Hf. cbn [Nat.eqb].
    destruct (len9_explicit Me HL) as (m0 & m1 & m2 & m3 & m4 & m5 & m6 & m7 & m8 & ->).
    destruct be as [|b0 [|b1 [|b2 [|]]]]; try discriminate HB.
    unfold K. split.
    - intros a b Ha Hb. unfold on_edge.
      destruct j as [|[|[|j]]]; try lia; destruct a as [|[|[|a]]]; try lia; destruct b as [|[|[|b]]]; try lia;
        cbn; ra_simpl; lra.
    - intros a Ha. unfold on_edge.
      destruct j as [|[|[|j]]]; try lia; destruct a as [|[|[|a]]]; try lia; cbn; ra_simpl; lra.
  Qed.

  (* the magnet edge term  K = 0.0001*H_c*(cos t*(x_k-x_j) + sin t*(y_k-y_j))/2  of edge j -> j+1 *)
  Definition Kmag (el : elemR) (j : nat) : R :=
    let nd := fun t => nth (tri_get (mp el) t) (mnodes P) (dmnode RA) in
    let blk := nth (mblk el) (mblocks P) (dmblock RA) in
    e4 RA * bHc blk * (mcos el * (mx (nd (nxt j)) - mx (nd j)) + msin el * (my (nd (nxt j)) - my (nd j))) / 2.
  Definition prv (j : nat) : nat := match j with 0%nat => 2%nat | 1%nat => 0%nat | _ => 1%nat end.

  Lemma melem_matrices_noedge el :
    no_mixed_edge el ->
    let r := melem_matrices RA P res el in
    let g := mel_geom RA P el in
    let blk := nth (mblk el) (mblocks P) (dmblock RA) in
    let mu := el_mu RA blk in
    snd r = mu /\
    (forall j k, (j < 3)%nat -> (k < 3)%nat ->
       m3get RA (fst (fst r)) j k =
         -1 / (4 * ga g) * vgetR (gp g) j * vgetR (gp g) k / snd mu
         + -1 / (4 * ga g) * vgetR (gq g) j * vgetR (gq g) k / fst mu) /\
    (forall j, (j < 3)%nat ->
       vgetR (snd (fst r)) j = - (bJre blk + circ_t RA P res el) * ga g / 3 + Kmag el j + Kmag el (prv j)).
  Proof.
    intros He r g blk mu. unfold r, melem_matrices. cbv zeta.
    fold g. fold blk. rewrite mixed_none by exact He. fold mu.
    destruct mu as [mu1 mu2] eqn:Emu. cbn [fst snd].
    assert (Hgp : gp g = [vgetR (gp g) 0; vgetR (gp g) 1; vgetR (gp g) 2]) by reflexivity.
    assert (Hgq : gq g = [vgetR (gq g) 0; vgetR (gq g) 1; vgetR (gq g) 2]) by reflexivity.
    split; [reflexivity|]. split.
    - intros j k Hj Hk.
      set (K := aneg RA (aone RA) / (4 * ga g)).
      assert (Z9 : length (repeat (azero RA) 9) = 9%nat) by reflexivity.
      destruct (stiff_add_get (repeat (azero RA) 9) K (vgetR (gp g) 0) (vgetR (gp g) 1) (vgetR (gp g) 2) j k Z9 Hj Hk) as [Lx Gx].
      destruct (stiff_add_get (repeat (azero RA) 9) K (vgetR (gq g) 0) (vgetR (gq g) 1) (vgetR (gq g) 2) j k Z9 Hj Hk) as [Ly Gy].
      destruct (xy_add_get (repeat (azero RA) 9) K (vgetR (gp g) 0) (vgetR (gp g) 1) (vgetR (gp g) 2)
                           (vgetR (gq g) 0) (vgetR (gq g) 1) (vgetR (gq g) 2) j k Z9 Hj Hk) as [Lxy _].
      rewrite <- Hgp in Lx, Gx, Lxy. rewrite <- Hgq in Ly, Gy, Lxy.
      ra_simpl. fold K.
      rewrite combine_me_get by auto. rewrite Gx, Gy.
      replace (m3get RA (repeat 0 9) j k) with 0
        by (destruct j as [|[|[|j]]]; try lia; destruct k as [|[|[|k]]]; try lia; reflexivity).
      unfold K. ra_simpl. lra.
    - intros j Hj. unfold Kmag. subst blk.
      destruct j as [|[|[|j]]]; try lia; cbn; ra_simpl; field.
  Qed.

  (* (b) the element matrix is minus the linear-triangle Galerkin matrix of curl(nu curl A):
     the effective mu_x (mu1) goes with the y-derivatives (q q), the effective mu_y (mu2) with the
     x-derivatives (p p) *)
  Theorem Mel_is_curlcurl el j k :
    no_mixed_edge el -> (j < 3)%nat -> (k < 3)%nat ->
    let g := mel_geom RA P el in
    let mu := el_mu RA (nth (mblk el) (mblocks P) (dmblock RA)) in
    ga g <> 0 -> fst mu <> 0 -> snd mu <> 0 ->
    m3get RA (fst (fst (melem_matrices RA P res el))) j k = - curlcurl_K (1 / fst mu) (1 / snd mu) g j k.
  Proof.
    intros He Hj Hk g mu Ha H1 H2.
    destruct (melem_matrices_noedge el He) as (_ & HM & _). rewrite (HM j k Hj Hk).
    fold g. fold mu. unfold curlcurl_K, dphidx, dphidy. field. repeat split; assumption.
  Qed.

  (* (c) right-hand side: be_j = -( (J + t) a/3 + 0.0001 * integral of Hc x grad(phi_j) ), with
     Hc = H_c (cos, sin); L.b[n_j] -= be_j puts  + J a/3 + curl(Hc) load  on the right-hand side *)
  Theorem current_and_magnet_rhs el j :
    no_mixed_edge el -> (j < 3)%nat ->
    let g := mel_geom RA P el in
    let blk := nth (mblk el) (mblocks P) (dmblock RA) in
    ga g <> 0 ->
    vgetR (snd (fst (melem_matrices RA P res el))) j =
      - ((bJre blk + circ_t RA P res el) * ga g / 3
         + e4 RA * (ga g * (bHc blk * mcos el * dphidy g j - bHc blk * msin el * dphidx g j))).
  Proof.
    intros He Hj g blk Ha.
    destruct (melem_matrices_noedge el He) as (_ & _ & HB). rewrite (HB j Hj).
    fold g. fold blk. unfold Kmag, dphidx, dphidy. fold blk.
    unfold g, mel_geom, geom in *. cbn [gp gq ga] in *. unfold vget in *. cbn [nth] in Ha.
    destruct j as [|[|[|j]]]; try lia; cbn [nth nxt prv tri_get]; ra_simpl; field; intro Hz; apply Ha; lra.
  Qed.

  (* pure source current: no magnet *)
  Corollary current_rhs el j :
    no_mixed_edge el -> (j < 3)%nat ->
    let blk := nth (mblk el) (mblocks P) (dmblock RA) in
    bHc blk = 0 ->
    vgetR (snd (fst (melem_matrices RA P res el))) j = - (bJre blk + circ_t RA P res el) * ga (mel_geom RA P el) / 3.
  Proof.
    intros He Hj blk Hc.
    destruct (melem_matrices_noedge el He) as (_ & _ & HB). rewrite (HB j Hj).
    unfold Kmag. fold blk. rewrite Hc. lra.
  Qed.

  (* magnet_rhs_is_curl_Hc: the two edge terms a node receives are the Galerkin load of curl(Hc) *)
  Theorem magnet_rhs_is_curl_Hc el j :
    (j < 3)%nat -> let g := mel_geom RA P el in let blk := nth (mblk el) (mblocks P) (dmblock RA) in
    ga g <> 0 ->
    Kmag el j + Kmag el (prv j) = - (e4 RA * (ga g * (bHc blk * mcos el * dphidy g j - bHc blk * msin el * dphidx g j))).
  Proof.
    intros Hj g blk Ha. unfold Kmag, dphidx, dphidy. fold blk.
    unfold g, mel_geom, geom in *. cbn [gp gq ga] in *. unfold vget in *. cbn [nth] in Ha.
    destruct j as [|[|[|j]]]; try lia; cbn [nth nxt prv tri_get]; ra_simpl; field; intro Hz; apply Ha; lra.
  Qed.

  (* shape of the element matrices (what the loop theorem's local residual uses) *)
  Lemma melem_matrices_sym el :
    no_mixed_edge el -> forall j k, (j < 3)%nat -> (k < 3)%nat ->
    m3get RA (fst (fst (melem_matrices RA P res el))) j k = m3get RA (fst (fst (melem_matrices RA P res el))) k j.
  Proof.
    intros He j k Hj Hk. destruct (melem_matrices_noedge el He) as (_ & HM & _).
    rewrite (HM j k Hj Hk), (HM k j Hk Hj). lra.
  Qed.
End Element.

(* ------------------------------------------------------------------------------------------ *)
Section Lamination.
  (* (g) what Static2D computes for LamType 0/1/2 are the parallel / series mixtures of iron
     (fill) and air (1 - fill): mu_par = fill*mu + (1-fill), 1/mu_ser = fill/mu + (1-fill) *)
  Definition mu_par (fill mu : R) : R := fill * mu + (1 - fill).
  Definition mu_ser (fill mu : R) : R := / (fill / mu + (1 - fill)).

  Theorem lam_mixing_series_parallel (b : mblock (F:=R)) :
    (bLamType b = 0%nat -> el_mu RA b = (mu_par (bLamFill b) (bmux b), mu_par (bLamFill b) (bmuy b))) /\
    (bLamType b = 1%nat -> bmux b <> 0 -> bLamFill b + bmux b * (1 - bLamFill b) <> 0 ->
       el_mu RA b = (mu_par (bLamFill b) (bmux b), mu_ser (bLamFill b) (bmux b))) /\
    (bLamType b = 2%nat -> bmuy b <> 0 -> bLamFill b + bmuy b * (1 - bLamFill b) <> 0 ->
       el_mu RA b = (mu_ser (bLamFill b) (bmuy b), mu_par (bLamFill b) (bmuy b))) /\
    ((2 < bLamType b)%nat -> el_mu RA b = (1, 1)).
  Proof.
    unfold el_mu, mu_par, mu_ser. repeat split.
    - intros ->. cbn. ra_simpl. f_equal; ring.
    - intros -> Hm Hd. cbn. ra_simpl. f_equal; [ring|]. field.
      split; [exact Hm | intro Hz; apply Hd; lra].
    - intros -> Hm Hd. cbn. ra_simpl. f_equal; [|ring]. field.
      split; [exact Hm | intro Hz; apply Hd; lra].
    - intros H. destruct (bLamType b) as [|[|[|n]]]; try lia. reflexivity.
  Qed.
End Lamination.

(* ------------------------------------------------------------------------------------------ *)
Lemma e2_val : e2 RA = 1 / 100.
Proof. unfold e2, adec. cbn. reflexivity. Qed.
Lemma e4_val : e4 RA = 1 / 10000.
Proof. unfold e4, adec. cbn. reflexivity. Qed.

Section Circuits.
  Variable P : probR.

  Definition in_circ (el : elemR) (i : nat) : bool :=
    match lcirc (nth (mlbl el) (mlabels P) dmlabel) with Some c => Nat.eqb c i | None => false end.
  Definition el_area (el : elemR) : R := ga (mel_geom RA P el).
  Definition el_blk (el : elemR) : mblock (F:=R) := nth (mblk el) (mblocks P) (dmblock RA).
  Definition el_wound (el : elemR) : bool := is_wound RA P (nth (mlbl el) (mlabels P) dmlabel).

  (* sum over the elements of circuit i *)
  Definition csum (f : elemR -> R) (i : nat) (els : list elemR) : R :=
    lsum (fun el => if in_circ el i then f el else 0) els.

  Lemma csum_ext f g i els : (forall el, in_circ el i = true -> f el = g el) -> csum f i els = csum g i els.
  Proof.
    intros H. unfold csum. induction els as [|el els IH]; [reflexivity|]. cbn [lsum]. rewrite IH.
    destruct (in_circ el i) eqn:E; [rewrite (H el E)|]; reflexivity.
  Qed.
  Lemma csum_plus f g i els : csum (fun el => f el + g el) i els = csum f i els + csum g i els.
  Proof. unfold csum. induction els as [|el els IH]; cbn [lsum]; [lra|]. rewrite IH. destruct (in_circ el i); lra. Qed.
  Lemma csum_scal c f i els : csum (fun el => c * f el) i els = c * csum f i els.
  Proof. unfold csum. induction els as [|el els IH]; cbn [lsum]; [lra|]. rewrite IH. destruct (in_circ el i); lra. Qed.

  (* CircInt1, CircInt2, CircInt3 *)
  Definition I1 (i : nat) : R := csum el_area i (melems P).
  Definition I2 (i : nat) : R := csum (fun el => el_area el * (if el_wound el then 0 else bCduct (el_blk el))) i (melems P).
  Definition I3 (i : nat) : R := csum (fun el => bJre (el_blk el) * el_area el * 100) i (melems P).
  (* the conductivity integral WITHOUT the zeroing for wound regions *)
  Definition I2full (i : nat) : R := csum (fun el => el_area el * bCduct (el_blk el)) i (melems P).

  Lemma circ_step_spec (c1 c2 c3 : vecT R) el i :
    (i < length c1)%nat -> (i < length c2)%nat -> (i < length c3)%nat ->
    let r := circ_step RA P (c1, c2, c3) el in
    (length (fst (fst r)) = length c1 /\ length (snd (fst r)) = length c2 /\ length (snd r) = length c3) /\
    vgetR (fst (fst r)) i = vgetR c1 i + (if in_circ el i then el_area el else 0) /\
    vgetR (snd (fst r)) i = vgetR c2 i + (if in_circ el i then el_area el * (if el_wound el then 0 else bCduct (el_blk el)) else 0) /\
    vgetR (snd r) i = vgetR c3 i + (if in_circ el i then bJre (el_blk el) * el_area el * 100 else 0).
  Proof.
    intros H1 H2 H3. unfold circ_step, in_circ.
    fold (el_wound el). fold (el_blk el). fold (el_area el).
    destruct (lcirc (nth (mlbl el) (mlabels P) dmlabel)) as [ic|]; cbn [fst snd].
    - rewrite !vset_length. split; [auto|].
      destruct (Nat.eqb_spec ic i) as [->|Hne].
      + rewrite !(vget_vset_same RA) by auto. ra_simpl. destruct (el_wound el); repeat split; lra.
      + rewrite !(vget_vset_other RA) by auto. repeat split; lra.
    - split; [auto|]. repeat split; lra.
  Qed.

  Lemma circ_fold_spec els : forall (c1 c2 c3 : vecT R) i,
    (i < length c1)%nat -> (i < length c2)%nat -> (i < length c3)%nat ->
    let r := fold_left (circ_step RA P) els (c1, c2, c3) in
    vgetR (fst (fst r)) i = vgetR c1 i + csum el_area i els /\
    vgetR (snd (fst r)) i = vgetR c2 i + csum (fun el => el_area el * (if el_wound el then 0 else bCduct (el_blk el))) i els /\
    vgetR (snd r) i = vgetR c3 i + csum (fun el => bJre (el_blk el) * el_area el * 100) i els.
  Proof.
    induction els as [|el els IH]; intros c1 c2 c3 i H1 H2 H3.
    - cbv zeta. cbn [fold_left fst snd]. unfold csum. cbn [lsum]. repeat split; lra.
    - cbn [fold_left].
      destruct (circ_step_spec c1 c2 c3 el i H1 H2 H3) as ((L1 & L2 & L3) & S1 & S2 & S3).
      destruct (circ_step RA P (c1, c2, c3) el) as [[d1 d2] d3]. cbn [fst snd] in *.
      destruct (IH d1 d2 d3 i) as (G1 & G2 & G3); try lia.
      cbv zeta in *. rewrite G1, G2, G3, S1, S2, S3. unfold csum. cbn [lsum]. repeat split; lra.
  Qed.

  Lemma vget_repeat0 n i : vgetR (repeat 0 n) i = 0.
  Proof. unfold vget. revert i. induction n; intros [|i]; cbn; auto. Qed.

  Lemma circ_ints_spec i : (i < length (mcircs P))%nat ->
    let r := circ_ints RA P (length (mcircs P)) in
    vgetR (fst (fst r)) i = I1 i /\ vgetR (snd (fst r)) i = I2 i /\ vgetR (snd r) i = I3 i.
  Proof.
    intros Hi r. unfold r, circ_ints.
    destruct (circ_fold_spec (melems P) (repeat 0 (length (mcircs P))) (repeat 0 (length (mcircs P)))
                (repeat 0 (length (mcircs P))) i) as (G1 & G2 & G3); try (rewrite repeat_length; exact Hi).
    ra_simpl. rewrite G1, G2, G3, !vget_repeat0. unfold I1, I2, I3. repeat split; lra.
  Qed.

  Lemma nth_map_combine_seq {T U} (f : nat * T -> U) (l : list T) (d : T) (du : U) i :
    (i < length l)%nat -> nth i (map f (combine (seq 0 (length l)) l)) du = f (i, nth i l d).
  Proof.
    intros Hi.
    assert (G : forall (l : list T) a i, (i < length l)%nat ->
              nth i (map f (combine (seq a (length l)) l)) du = f ((a + i)%nat, nth i l d)).
    { clear. induction l as [|x l IH]; intros a i Hi; [cbn in Hi; lia|].
      destruct i as [|i]; cbn [length seq combine map nth].
      - rewrite Nat.add_0_r. reflexivity.
      - rewrite IH by (cbn in Hi; lia). f_equal. f_equal. lia. }
    apply (G l 0%nat i Hi).
  Qed.

  Lemma circ_results_nth i : (i < length (mcircs P))%nat ->
    nth i (circ_results RA P) (dres RA) = circ_case RA (nth i (mcircs P) (dmcirc RA)) (I1 i) (I2 i) (I3 i).
  Proof.
    intros Hi. unfold circ_results.
    destruct (circ_ints_spec i Hi) as (G1 & G2 & G3).
    destruct (circ_ints RA P (length (mcircs P))) as [[c1 c2] c3]. cbn [fst snd] in *.
    rewrite (nth_map_combine_seq _ (mcircs P) (dmcirc RA)) by exact Hi. cbn [fst snd].
    rewrite G1, G2, G3. reflexivity.
  Qed.

  (* the circuit part of the applied current density of an element of circuit i *)
  Lemma circ_t_in res el i : in_circ el i = true ->
    circ_t RA P res el =
      (let '(case, J, dV) := nth i res (dres RA) in
       if Nat.eqb case 0 then - dV * bCduct (el_blk el) else if Nat.eqb case 1 then J else 0).
  Proof.
    unfold in_circ, circ_t. destruct (lcirc (nth (mlbl el) (mlabels P) dmlabel)) as [c|]; [|discriminate].
    intros E. apply Nat.eqb_eq in E. subst c.
    destruct (nth i res (dres RA)) as [[case J] dV]. fold (el_blk el).
    destruct (Nat.eqb case 0); ra_simpl; reflexivity.
  Qed.

  (* (e) Case 1 — a circuit without (effective) conductivity carrying a prescribed current: the
     flat current density J makes the total of the applied density over the circuit's elements
     equal to the prescribed Amps (a in cm^2, J in MA/m^2:  J*a*100 is in Amps) *)
  Theorem circuit_current_reproduced i :
    (i < length (mcircs P))%nat ->
    let c := nth i (mcircs P) (dmcirc RA) in
    cType c = 0%nat -> I2 i = 0 -> I1 i <> 0 ->
    let res := circ_results RA P in
    fst (fst (nth i res (dres RA))) = 1%nat /\
    csum (fun el => (bJre (el_blk el) + circ_t RA P res el) * el_area el * 100) i (melems P) = cAre c.
  Proof.
    intros Hi c Ht H2 H1 res.
    assert (E : nth i res (dres RA) = (1%nat, e2 RA * (cAre c - I3 i) / I1 i, 0)).
    { unfold res. rewrite circ_results_nth by exact Hi. fold c. unfold circ_case. rewrite Ht. cbn [Nat.eqb].
      ra_simpl. rewrite H2. replace (Reqb 0 0) with true by (symmetry; apply Reqb_true; reflexivity).
      replace (Reqb (I1 i) 0) with false by (symmetry; apply Reqb_false; exact H1). reflexivity. }
    split; [rewrite E; reflexivity|].
    rewrite (csum_ext _ (fun el => bJre (el_blk el) * el_area el * 100
                                   + (e2 RA * (cAre c - I3 i) / I1 i * 100) * el_area el)).
    - match goal with |- csum (fun el => _ + ?K * _) _ _ = _ =>
        assert (Q : csum (fun el => bJre (el_blk el) * el_area el * 100 + K * el_area el) i (melems P) = I3 i + K * I1 i)
          by (rewrite csum_plus, csum_scal; reflexivity); rewrite Q end.
      rewrite e2_val. field. exact H1.
    - intros el Hin. rewrite (circ_t_in res el i Hin), E. cbn [Nat.eqb]. ring.
  Qed.

  (* Case 0 — conducting regions in parallel: a voltage gradient dV is applied.  CircInt2 leaves
     out the conductivity of wound regions, the right-hand side does not (static2d.cpp:497), so
     the total applied current is  I3 + (Amps - I3) * I2full / I2  *)
  Theorem circuit_current_case0 i :
    (i < length (mcircs P))%nat ->
    let c := nth i (mcircs P) (dmcirc RA) in
    cType c = 0%nat -> I2 i <> 0 ->
    let res := circ_results RA P in
    fst (fst (nth i res (dres RA))) = 0%nat /\
    csum (fun el => (bJre (el_blk el) + circ_t RA P res el) * el_area el * 100) i (melems P)
      = I3 i + (cAre c - I3 i) * I2full i / I2 i.
  Proof.
    intros Hi c Ht H2 res.
    assert (E : nth i res (dres RA) = (0%nat, 0, - e2 RA * (cAre c - I3 i) / I2 i)).
    { unfold res. rewrite circ_results_nth by exact Hi. fold c. unfold circ_case. rewrite Ht. cbn [Nat.eqb].
      ra_simpl. replace (Reqb (I2 i) 0) with false by (symmetry; apply Reqb_false; exact H2). reflexivity. }
    split; [rewrite E; reflexivity|].
    rewrite (csum_ext _ (fun el => bJre (el_blk el) * el_area el * 100
                                   + (e2 RA * (cAre c - I3 i) / I2 i * 100) * (el_area el * bCduct (el_blk el)))).
    - match goal with |- csum (fun el => _ + ?K * _) _ _ = _ =>
        assert (Q : csum (fun el => bJre (el_blk el) * el_area el * 100 + K * (el_area el * bCduct (el_blk el))) i (melems P)
                    = I3 i + K * I2full i)
          by (rewrite csum_plus, csum_scal; reflexivity); rewrite Q end.
      rewrite e2_val. field. exact H2.
    - intros el Hin. rewrite (circ_t_in res el i Hin), E. cbn [Nat.eqb]. field. exact H2.
  Qed.

  (* ... hence the prescribed current when no wound region of the circuit is conducting *)
  Corollary circuit_current_case0_reproduced i :
    (i < length (mcircs P))%nat ->
    let c := nth i (mcircs P) (dmcirc RA) in
    cType c = 0%nat -> I2 i <> 0 ->
    (forall el, In el (melems P) -> in_circ el i = true -> el_wound el = true -> bCduct (el_blk el) = 0) ->
    csum (fun el => (bJre (el_blk el) + circ_t RA P (circ_results RA P) el) * el_area el * 100) i (melems P) = cAre c.
  Proof.
    intros Hi c Ht H2 Hw.
    destruct (circuit_current_case0 i Hi Ht H2) as [_ G]. fold c in G. rewrite G.
    assert (EF : I2full i = I2 i).
    { unfold I2full, I2, csum. revert Hw. generalize (melems P). intros els Hw.
      induction els as [|el els IH]; [reflexivity|]. cbn [lsum].
      rewrite IH by (intros; apply Hw; auto; right; auto).
      destruct (in_circ el i) eqn:E; [|reflexivity].
      destruct (el_wound el) eqn:W; [|reflexivity].
      rewrite (Hw el (or_introl eq_refl) E W). lra. }
    rewrite EF. field. exact H2.
  Qed.

  (* every circuit result is Case 0 or Case 1 *)
  Lemma circ_case_01 c i1 i2 i3 : (fst (fst (circ_case RA c i1 i2 i3)) <= 1)%nat.
  Proof. unfold circ_case. destruct (Nat.eqb (cType c) 0); [destruct (aeqb RA i2 (azero RA))|]; cbn; lia. Qed.

  Lemma circ_results_01 k : (fst (fst (nth k (circ_results RA P) (dres RA))) <= 1)%nat.
  Proof.
    destruct (Nat.lt_ge_cases k (length (circ_results RA P))) as [Hk|Hk].
    - unfold circ_results in *. destruct (circ_ints RA P (length (mcircs P))) as [[c1 c2] c3].
      rewrite map_length, combine_length, seq_length, Nat.min_id in Hk.
      rewrite (nth_map_combine_seq _ (mcircs P) (dmcirc RA)) by exact Hk. apply circ_case_01.
    - rewrite nth_overflow by exact Hk. cbn. lia.
  Qed.

  (* what a reader of the solution file reconstructs from a label's line  (flag, value): the added
     current density is  value  for flag 1 and  -value*sigma  for flag 0 *)
  Definition applied_from_written (w : nat * R) (sigma : R) : R :=
    if Nat.eqb (fst w) 0 then - snd w * sigma else snd w.

  Theorem written_circuit_data_matches_applied el :
    let res := circ_results RA P in
    circ_t RA P res el
      = applied_from_written (written_label RA res (nth (mlbl el) (mlabels P) dmlabel)) (bCduct (el_blk el)).
  Proof.
    intros res. unfold circ_t, written_label, applied_from_written.
    destruct (lcirc (nth (mlbl el) (mlabels P) dmlabel)) as [k|]; [|reflexivity].
    pose proof (circ_results_01 k) as H01. fold res in H01.
    destruct (nth k res (dres RA)) as [[case J] dV]. cbn [fst snd] in *. fold (el_blk el).
    destruct case as [|[|case]]; [| |lia]; cbn [Nat.eqb fst snd]; ra_simpl; reflexivity.
  Qed.
  (* the same line as the postprocessor reads it (fpproc.cpp:3630-3650): a voltage gradient drives no bulk
     current in a wound region *)
  Definition applied_from_written_pp (w : nat * R) (sigma : R) (wound : bool) : R :=
    if Nat.eqb (fst w) 0 then (if wound then 0 else - snd w * sigma) else snd w.

  Theorem written_matches_postprocessor el :
    (el_wound el = false \/ bCduct (el_blk el) = 0) ->
    let res := circ_results RA P in
    circ_t RA P res el
      = applied_from_written_pp (written_label RA res (nth (mlbl el) (mlabels P) dmlabel)) (bCduct (el_blk el)) (el_wound el).
  Proof.
    intros H res. unfold res. rewrite written_circuit_data_matches_applied.
    unfold applied_from_written, applied_from_written_pp.
    destruct (Nat.eqb (fst _) 0); [|reflexivity].
    destruct H as [-> | ->]; [reflexivity|]. destruct (el_wound el); ring.
  Qed.

  Lemma circ_result_case0 i :
    (i < length (mcircs P))%nat -> cType (nth i (mcircs P) (dmcirc RA)) = 0%nat -> I2 i <> 0 ->
    nth i (circ_results RA P) (dres RA) = (0%nat, 0, - e2 RA * (cAre (nth i (mcircs P) (dmcirc RA)) - I3 i) / I2 i).
  Proof.
    intros Hi Ht H2. rewrite circ_results_nth by exact Hi. unfold circ_case. rewrite Ht. cbn [Nat.eqb].
    ra_simpl. replace (Reqb (I2 i) 0) with false by (symmetry; apply Reqb_false; exact H2). reflexivity.
  Qed.
End Circuits.

(* the wound-and-solid parallel circuit: the faithful model does not reproduce the prescribed current *)
Section Refuted.
  Definition Pw : probR :=
    mkMProb 2
      [mkMNode 0 0 None; mkMNode 1 0 None; mkMNode 0 1 None; mkMNode 1 1 None]
      [mkMElem (0, 1, 2)%nat (None, None, None) 0 0 1 0; mkMElem (1, 3, 2)%nat (None, None, None) 0 1 1 0]
      [mkMBlock 1 1 0 0 0 1 0 0 0 0 1] [] []
      [mkMCirc 0 1 0 0 0]
      [mkMLabel 0 (Some 0%nat) 2; mkMLabel 0 (Some 0%nat) 1] [].

  Theorem circuit_current_case0_refuted :
    exists (P : probR) (i : nat),
      (i < length (mcircs P))%nat /\ cType (nth i (mcircs P) (dmcirc RA)) = 0%nat /\ I2 P i <> 0 /\
      csum P (fun el => (bJre (el_blk P el) + circ_t RA P (circ_results RA P) el) * el_area P el * 100) i (melems P)
        <> cAre (nth i (mcircs P) (dmcirc RA)).
  Proof.
    exists Pw, 0%nat.
    assert (H2 : I2 Pw 0 = 1 / 2).
    { unfold I2, csum, in_circ, el_wound, el_blk, el_area, is_wound, mel_geom, geom. cbn. ra_simpl. lra. }
    assert (H2f : I2full Pw 0 = 1).
    { unfold I2full, csum, in_circ, el_blk, el_area, mel_geom, geom. cbn. ra_simpl. lra. }
    assert (H3 : I3 Pw 0 = 0).
    { unfold I3, csum, in_circ, el_blk, el_area, mel_geom, geom. cbn. ra_simpl. lra. }
    assert (Hi : (0 < length (mcircs Pw))%nat) by (cbn; lia).
    assert (Hn : I2 Pw 0 <> 0) by (rewrite H2; lra).
    split; [exact Hi|]. split; [reflexivity|]. split; [exact Hn|].
    destruct (circuit_current_case0 Pw 0 Hi eq_refl Hn) as [_ G]. rewrite G, H2, H2f, H3. cbn. lra.
  Qed.
  (* the wound element of that mesh gets 0.02 MA/m^2 from the voltage gradient, the postprocessor's reading
     of the written line says 0 *)
  Theorem written_matches_postprocessor_refuted :
    exists (P : probR) (el : elemR), In el (melems P) /\
      circ_t RA P (circ_results RA P) el
        <> applied_from_written_pp (written_label RA (circ_results RA P) (nth (mlbl el) (mlabels P) dmlabel))
                                   (bCduct (el_blk P el)) (el_wound P el).
  Proof.
    exists Pw, (mkMElem (0, 1, 2)%nat (None, None, None) 0 0 1 0). split; [left; reflexivity|].
    assert (H2 : I2 Pw 0 = 1 / 2).
    { unfold I2, csum, in_circ, el_wound, el_blk, el_area, is_wound, mel_geom, geom. cbn. ra_simpl. lra. }
    assert (H3 : I3 Pw 0 = 0).
    { unfold I3, csum, in_circ, el_blk, el_area, mel_geom, geom. cbn. ra_simpl. lra. }
    assert (E : nth 0 (circ_results RA Pw) (dres RA) = (0%nat, 0, - e2 RA * (1 - I3 Pw 0) / I2 Pw 0)).
    { apply (circ_result_case0 Pw 0); [cbn; lia|reflexivity|rewrite H2; lra]. }
    unfold circ_t, written_label, applied_from_written_pp, el_wound, el_blk, is_wound. cbn [mlbl mlabels Pw nth lcirc mblk mblocks].
    rewrite E. cbn [Nat.eqb fst snd lturns lblk bLamType bCduct Z.abs Z.ltb Z.compare Pos.compare Pos.compare_cont orb Nat.ltb Nat.leb].
    rewrite H2, H3, e2_val. ra_simpl. lra.
  Qed.
End Refuted.

(* ------------------------------------------------------------------------------------------ *)
Section Prescribed.
  Lemma c4pi_pos : c4pi RA > 0.
  Proof. unfold c4pi. ra_simpl. assert (H := PI_RGT_0). cbn. lra. Qed.

  Lemma vget_written V i : vgetR (written_A RA V) i = vgetR V i * c4pi RA.
  Proof.
    unfold written_A, vget. ra_simpl. replace 0 with (0 * c4pi RA) at 1 by ring.
    apply (map_nth (fun v => v * c4pi RA)).
  Qed.

  (* (f) L.SetValue(i, a/c): in every solution of the constrained system the potential written for
     node i is the prescribed a, and all other equations are the unconstrained ones *)
  Theorem setvalue_prescribes (L : lin (F:=R)) i a V :
    mat_wf (lM L) -> ln L = length (lM L) -> length (lb L) = length (lM L) ->
    (i < length (lM L))%nat -> sv_covered L i -> mgetR (lM L) i i <> 0 ->
    let L' := setvalue RA L i (a / c4pi RA) in
    (forall k, (k < length (lM L))%nat -> Ax (lM L') V k = vgetR (lb L') k) ->
    vgetR (written_A RA V) i = a /\
    forall k, (k < length (lM L))%nat -> k <> i -> Ax (lM L) V k = vgetR (lb L) k.
  Proof.
    intros Hwf Hn Hb Hi Hc Hd L' Hs.
    destruct (proj1 (setvalue_equiv L i (a / c4pi RA) V Hwf Hn Hb Hi Hc Hd) Hs) as [Hv Hr].
    split; [|exact Hr]. rewrite vget_written, Hv. field. pose proof c4pi_pos. lra.
  Qed.

  (* the position- and phase-dependent value of a BdryFormat-0 boundary: (A0 + A1 x + A2 y) cos(phi),
     x, y in the problem's length unit *)
  Theorem seg_value_formula (P : probR) lp nd :
    let u := nth (unit_idx P) (munits RA) 1 in
    seg_value RA P lp nd = (lA0 lp + mx nd / u * lA1 lp + my nd / u * lA2 lp) * lcosphi lp.
  Proof. reflexivity. Qed.
End Prescribed.

(* ------------------------------------------------------------------------------------------ *)
Section Galerkin.
  Variables (P : probR) (res : list (nat * R * R)).

  (* the local Galerkin equation of curl(nu curl A) = J + curl(Hc) for local node a of an element, in the
     solver's units (V = A/c, lengths in cm): stiffness row times the nodal values minus the load *)
  Definition galerkin_local (el : elemR) (U : vecT R) (a : nat) : R :=
    let g := mel_geom RA P el in
    let blk := nth (mblk el) (mblocks P) (dmblock RA) in
    let mu := el_mu RA blk in
    curlcurl_K (1 / fst mu) (1 / snd mu) g a 0 * vgetR U (tri_get (mp el) 0)
    + curlcurl_K (1 / fst mu) (1 / snd mu) g a 1 * vgetR U (tri_get (mp el) 1)
    + curlcurl_K (1 / fst mu) (1 / snd mu) g a 2 * vgetR U (tri_get (mp el) 2)
    - ((bJre blk + circ_t RA P res el) * ga g / 3
       + e4 RA * (ga g * (bHc blk * mcos el * dphidy g a - bHc blk * msin el * dphidx g a))).

  Definition el_regular (el : elemR) : Prop :=
    no_mixed_edge P el /\ ga (mel_geom RA P el) <> 0 /\
    fst (el_mu RA (nth (mblk el) (mblocks P) (dmblock RA))) <> 0 /\
    snd (el_mu RA (nth (mblk el) (mblocks P) (dmblock RA))) <> 0.

  Lemma curlcurl_K_sym nx ny g j k : curlcurl_K nx ny g j k = curlcurl_K nx ny g k j.
  Proof. unfold curlcurl_K. ring. Qed.

  Lemma local_resid_is_galerkin el U a : el_regular el -> (a < 3)%nat ->
    let r := melem_matrices RA P res el in
    local_resid (fst (fst r)) (snd (fst r)) (mp el) U a = - galerkin_local el U a.
  Proof.
    intros (He & Ha & H1 & H2) Hlt r. unfold local_resid, usym, galerkin_local.
    pose proof (fun j k Hj Hk => Mel_is_curlcurl P res el j k He Hj Hk Ha H1 H2) as HM. cbv zeta in HM.
    pose proof (current_and_magnet_rhs P res el a He Hlt Ha) as HB. cbv zeta in HB.
    unfold r. rewrite HB.
    destruct a as [|[|[|a]]]; try lia; cbn [Nat.leb];
      rewrite !HM by lia; rewrite ?(curlcurl_K_sym _ _ _ 1 0), ?(curlcurl_K_sym _ _ _ 2 0), ?(curlcurl_K_sym _ _ _ 2 1); ring.
  Qed.

  Definition el_galerkin (el : elemR) (U : vecT R) (i : nat) : R :=
    (if Nat.eqb (tri_get (mp el) 0) i then galerkin_local el U 0 else 0)
    + (if Nat.eqb (tri_get (mp el) 1) i then galerkin_local el U 1 else 0)
    + (if Nat.eqb (tri_get (mp el) 2) i then galerkin_local el U 2 else 0).

  Lemma mloop_resid_is_galerkin els U i : Forall el_regular els ->
    mloop_resid P res els U i = - lsum (fun el => el_galerkin el U i) els.
  Proof.
    intros H. unfold mloop_resid. induction els as [|el els IH]; cbn [lsum]; [lra|].
    apply Forall_cons_iff in H. destruct H as [Hel H]. rewrite (IH H).
    unfold el_resid, el_galerkin.
    rewrite !(local_resid_is_galerkin el U) by (auto; lia).
    destruct (Nat.eqb (tri_get (mp el) 0) i); destruct (Nat.eqb (tri_get (mp el) 1) i);
      destruct (Nat.eqb (tri_get (mp el) 2) i); lra.
  Qed.

  (* the assembled rows ARE the Galerkin equations: after the element loop, row i of M U - b is the initial
     row plus the sum over the elements around node i of their local Galerkin equations *)
  Theorem static_rows_are_galerkin U els (M : matrixT R) (b : vecT R) :
    mat_wf M -> length b = length M -> Forall (elem_okM (length M)) els -> Forall el_regular els ->
    let s' := fold_left (melem_step RA P res) els (M, b) in
    forall i, (i < length M)%nat ->
      Ax (fst s') U i - vgetR (snd s') i = (Ax M U i - vgetR b i) + lsum (fun el => el_galerkin el U i) els.
  Proof.
    intros Hwf Hb Hok Hreg s' i Hi.
    destruct (mloop_rows P res U els M b Hwf Hb Hok) as (_ & _ & _ & HR).
    unfold s'. rewrite (HR i Hi), (mloop_resid_is_galerkin els U i Hreg). lra.
  Qed.
End Galerkin.
