(* Properties_C19_energy.v — C19, "a stored energy equal to the integral of H dB, inside and beyond the table ... all flux
   densities, lamination types and fill factors", for the routines the magnetics post-processor really calls for the point
   value E and the block integrals of stored energy and coenergy: CMMaterialProp::DoEnergy / DoCoEnergy(double,double),
   nonlinear branch (model: BHEnergy.v; the table and GetEnergy are BH.v's).  Statements only. *)
From Coq Require Import ZArith List Bool Arith Reals.
Set Warnings "-ambiguous-paths".
From Coquelicot Require Import Coquelicot.
From XF Require Import Arith BH BHProofs BHEnergy BHEnergyProofs.
Import ListNotations.
Local Open Scope R_scope.

(* in-plane laminations (fill factor already inside the table): the energy density at (b1,b2) is the integral of the reported
   H from 0 to |b|, for every table, inside and beyond it *)
Theorem C19_post_energy_is_integral_of_H : forall (m : mat (F:=R)) t b1 b2,
  tbl_wf m -> (2 <= length (mB m))%nat -> hd 0 (mB m) = 0 ->
  is_RInt (fun x => fst (getH RA m x)) 0 (sqrt (b1 * b1 + b2 * b2)) (doEnergy RA m 0 t b1 b2).
Proof. exact doEnergy_lam0_is_RInt. Qed.
Print Assumptions C19_post_energy_is_integral_of_H.

Theorem C19_post_energy_isotropic : forall (m : mat (F:=R)) t b1 b2 c1 c2,
  b1 * b1 + b2 * b2 = c1 * c1 + c2 * c2 -> doEnergy RA m 0 t b1 b2 = doEnergy RA m 0 t c1 c2.
Proof. exact doEnergy_lam0_isotropic. Qed.
Print Assumptions C19_post_energy_isotropic.

Theorem C19_post_energy_plus_coenergy : forall (m : mat (F:=R)) t b1 b2,
  doEnergy RA m 0 t b1 b2 + doCoEnergy RA m 0 t b1 b2
  = sqrt (b1 * b1 + b2 * b2) * getH_base RA m (sqrt (b1 * b1 + b2 * b2)).
Proof. exact doEnergy_plus_doCoEnergy_lam0. Qed.
Print Assumptions C19_post_energy_plus_coenergy.

(* laminations on edge: the iron share is weighted with the fill factor once, the air share with its complement *)
Theorem C19_post_energy_on_edge_x : forall (m : mat (F:=R)) t b1 b2,
  doEnergy RA m 1 t b1 b2
  = t * getEnergy RA m (sqrt (b1 / t * (b1 / t) + b2 * b2)) + (1 - t) * b2 * b2 / (2 * mMuo m).
Proof. exact doEnergy_lam1. Qed.
Print Assumptions C19_post_energy_on_edge_x.

Theorem C19_post_energy_on_edge_y : forall (m : mat (F:=R)) t b1 b2,
  doEnergy RA m 2 t b1 b2
  = t * getEnergy RA m (sqrt (b2 / t * (b2 / t) + b1 * b1)) + (1 - t) * b1 * b1 / (2 * mMuo m).
Proof. exact doEnergy_lam2. Qed.
Print Assumptions C19_post_energy_on_edge_y.

Theorem C19_post_energy_fill_one : forall (m : mat (F:=R)) lt b1 b2, (lt <= 2)%nat ->
  doEnergy RA m lt 1 b1 b2 = getEnergy RA m (sqrt (b1 * b1 + b2 * b2)) /\
  doCoEnergy RA m lt 1 b1 b2 = getCoEnergy RA m (sqrt (b1 * b1 + b2 * b2)).
Proof. exact doEnergy_fill_one. Qed.
Print Assumptions C19_post_energy_fill_one.

Theorem C19_post_energy_on_edge_along_the_sheets : forall (m : mat (F:=R)) t b1, 0 < t ->
  doEnergy RA m 1 t b1 0 = t * getEnergy RA m (b1 / t).
Proof. exact doEnergy_lam1_at_zero_cross_flux. Qed.
Print Assumptions C19_post_energy_on_edge_along_the_sheets.

(* reduction to the linear case *)
Theorem C19_post_energy_straight_line : forall (k : R * R) Bd mux muo t b1 b2,
  incr Bd -> Bd <> [] -> hd 0 Bd = 0 ->
  doEnergy RA (line_mat k Bd mux muo) 0 t b1 b2 = fst k * (b1 * b1 + b2 * b2) / 2.
Proof. exact line_doEnergy_lam0. Qed.
Print Assumptions C19_post_energy_straight_line.

Theorem C19_post_energy_straight_line_on_edge : forall (k : R * R) Bd mux muo t b1 b2,
  incr Bd -> Bd <> [] -> hd 0 Bd = 0 -> t <> 0 ->
  doEnergy RA (line_mat k Bd mux muo) 1 t b1 b2
  = (b1 * b1 * (fst k / t) + b2 * b2 * (t * fst k + (1 - t) / muo)) / 2.
Proof. exact line_doEnergy_lam1. Qed.
Print Assumptions C19_post_energy_straight_line_on_edge.

(* the hypotheses are satisfiable: a three-point table H = 100 B *)
Example C19_post_energy_example :
  let m := line_mat (100, 0) [0; 1; 2] 1 1 in
  incr [0; 1; 2] /\ doEnergy RA m 0 (1 / 2) 3 4 = 1250.
Proof. exact post_energy_example. Qed.
