(* LoadMeshProofs.v — lemmas and proofs about the model of the three LoadMesh readers (LoadMesh.v).
   Theorem statements for the property files are at the end (suffix _thm). *)
From Coq Require Import ZArith List Bool Lia Arith.
From XF Require Import Arith Marker MarkerProofs LoadMesh.
From XF.gen Require Import MarkerConsts LoadConsts.
Import ListNotations.
Local Open Scope Z_scope.
Arguments dec_seg_z : simpl never.
Arguments dec_pt_z : simpl never.
Arguments dec_pt_mag_z : simpl never.
Arguments wrap32 : simpl never.

(* ------------------------------------------------------------------------------------------ *)
(* vocabulary of the statements                                                                 *)
(* ------------------------------------------------------------------------------------------ *)
Definition d_elem : elem := mkElem (0, 0, 0) (0, 0, 0) 0 0.

(* end nodes and boundary-condition entry of side k (k = 0,1,2; p[k] -> p[k+1 mod 3], e[k]) *)
Definition side (e : elem) (k : nat) : Z * Z :=
  let '(p0, p1, p2) := el_p e in
  match k with O => (p0, p1) | S O => (p1, p2) | _ => (p2, p0) end.
Definition smark (e : elem) (k : nat) : Z :=
  let '(e0, e1, e2) := el_e e in
  match k with O => e0 | S O => e1 | _ => e2 end.
Definition same_endsb (s : Z * Z) (a b : Z) : bool :=
  ((fst s =? a) && (snd s =? b)) || ((fst s =? b) && (snd s =? a)).
Definition same_ends (s : Z * Z) (a b : Z) : Prop :=
  (fst s = a /\ snd s = b) \/ (fst s = b /\ snd s = a).
Definition corner (e : elem) (k : Z) : Prop :=
  let '(p0, p1, p2) := el_p e in p0 = k \/ p1 = k \/ p2 = k.

Definition mk (n0 n1 j : Z) (e : elem) : elem := fst (mark6 n0 n1 j e).
Definition hit (n0 n1 : Z) (e : elem) : bool := snd (mark6 n0 n1 0 e).

Lemma same_endsb_spec s a b : same_endsb s a b = true <-> same_ends s a b.
Proof.
  unfold same_endsb, same_ends. rewrite orb_true_iff, !andb_true_iff, !Z.eqb_eq. tauto.
Qed.

(* ------------------------------------------------------------------------------------------ *)
(* lists                                                                                        *)
(* ------------------------------------------------------------------------------------------ *)
Lemma zidx_Some len k n : zidx len k = Some n <-> (0 <= k < Z.of_nat len /\ n = Z.to_nat k).
Proof.
  unfold zidx. destruct (Z.leb_spec 0 k) as [H0|H0], (Z.ltb_spec k (Z.of_nat len)) as [H1|H1]; simpl; split; intros HH;
    try discriminate; try (exfalso; lia).
  - inversion HH; subst. split; [lia|reflexivity].
  - destruct HH as [_ ->]. reflexivity.
Qed.

Lemma zidx_None len k : zidx len k = None <-> ~ (0 <= k < Z.of_nat len).
Proof.
  unfold zidx. destruct (Z.leb_spec 0 k) as [H0|H0], (Z.ltb_spec k (Z.of_nat len)) as [H1|H1]; simpl; split; intros HH;
    try discriminate; try lia; try reflexivity.
Qed.

Lemma zidx_lt len k n : zidx len k = Some n -> (n < len)%nat /\ Z.of_nat n = k.
Proof. intros H. apply zidx_Some in H. destruct H as [H ->]. split; lia. Qed.

Lemma lupd_length {T} (l : list T) i x : length (lupd l i x) = length l.
Proof. revert i; induction l; intros [|i]; simpl; auto. Qed.

Lemma nth_lupd {T} (l : list T) i k x d :
  nth k (lupd l i x) d = if (k =? i)%nat then (if (i <? length l)%nat then x else d) else nth k l d.
Proof.
  revert i k; induction l as [|y t IH]; intros [|i] [|k]; simpl; auto.
  - destruct (k =? i)%nat; reflexivity.
  - rewrite IH. reflexivity.
Qed.

Lemma nth_lupd_eq {T} (l : list T) i x d : (i < length l)%nat -> nth i (lupd l i x) d = x.
Proof. intros H. rewrite nth_lupd, Nat.eqb_refl. apply Nat.ltb_lt in H. now rewrite H. Qed.

Lemma nth_lupd_neq {T} (l : list T) i k x d : k <> i -> nth k (lupd l i x) d = nth k l d.
Proof. intros H. rewrite nth_lupd. apply Nat.eqb_neq in H. now rewrite H. Qed.

Lemma lupd_same {T} (l : list T) i d : lupd l i (nth i l d) = l.
Proof. revert i; induction l; intros [|i]; simpl; auto. now rewrite IHl. Qed.

Lemma map_lupd {T U} (f : T -> U) (l : list T) i x : map f (lupd l i x) = lupd (map f l) i (f x).
Proof. revert i; induction l; intros [|i]; simpl; auto. now rewrite IHl. Qed.

Lemma nth_error_nth_d {T} (l : list T) i d : (i < length l)%nat -> nth_error l i = Some (nth i l d).
Proof. revert i; induction l; intros [|i] H; simpl in *; try lia; auto. apply IHl. lia. Qed.

Lemma nth_error_Some_nth {T} (l : list T) i e d : nth_error l i = Some e -> (i < length l)%nat /\ nth i l d = e.
Proof.
  revert i; induction l; intros [|i] H; simpl in *; try discriminate.
  - inversion H. split; [lia|reflexivity].
  - apply IHl in H. destruct H. split; [lia|assumption].
Qed.

Lemma nth_repeat_nil {T} n k : nth k (repeat (@nil T) n) [] = [].
Proof. revert k; induction n; intros [|k]; simpl; auto. Qed.

(* ------------------------------------------------------------------------------------------ *)
(* the six tests                                                                                *)
(* ------------------------------------------------------------------------------------------ *)
Lemma mark6_snd n0 n1 j e : snd (mark6 n0 n1 j e) = hit n0 n1 e.
Proof. unfold hit, mark6. destruct (el_p e) as [[p0 p1] p2], (el_e e) as [[e0 e1] e2]. reflexivity. Qed.

Lemma mk_p n0 n1 j e : el_p (mk n0 n1 j e) = el_p e.
Proof. unfold mk, mark6. destruct (el_p e) as [[p0 p1] p2], (el_e e) as [[e0 e1] e2]. reflexivity. Qed.
Lemma mk_blk n0 n1 j e : el_blk (mk n0 n1 j e) = el_blk e.
Proof. unfold mk, mark6. destruct (el_p e) as [[p0 p1] p2], (el_e e) as [[e0 e1] e2]. reflexivity. Qed.
Lemma mk_lbl n0 n1 j e : el_lbl (mk n0 n1 j e) = el_lbl e.
Proof. unfold mk, mark6. destruct (el_p e) as [[p0 p1] p2], (el_e e) as [[e0 e1] e2]. reflexivity. Qed.

Lemma side_mk n0 n1 j e k : side (mk n0 n1 j e) k = side e k.
Proof. unfold side. now rewrite mk_p. Qed.

(* what the six ifs do to the three sides *)
Lemma smark_mk n0 n1 j e k : (k < 3)%nat ->
  smark (mk n0 n1 j e) k = if same_endsb (side e k) n0 n1 then j else smark e k.
Proof.
  intros Hk. unfold mk, mark6, smark, side, same_endsb.
  destruct (el_p e) as [[p0 p1] p2], (el_e e) as [[e0 e1] e2]. simpl.
  destruct k as [|[|[|k]]]; try lia; reflexivity.
Qed.

Lemma hit_sides n0 n1 e : hit n0 n1 e = same_endsb (side e 0) n0 n1 || same_endsb (side e 1) n0 n1 || same_endsb (side e 2) n0 n1.
Proof.
  unfold hit, mark6, side, same_endsb. destruct (el_p e) as [[p0 p1] p2], (el_e e) as [[e0 e1] e2]. reflexivity.
Qed.

Lemma mk_nohit n0 n1 j e : hit n0 n1 e = false -> mk n0 n1 j e = e.
Proof.
  unfold hit, mk, mark6. destruct e as [[[p0 p1] p2] [[e0 e1] e2] b l]. simpl.
  intros H. apply orb_false_iff in H. destruct H as [H H2]. apply orb_false_iff in H. destruct H as [H0 H1].
  rewrite H0, H1, H2. reflexivity.
Qed.

Lemma hit_mk n0 n1 j e : hit n0 n1 (mk n0 n1 j e) = hit n0 n1 e.
Proof. rewrite !hit_sides, !side_mk. reflexivity. Qed.

Lemma mk_idem n0 n1 j e : mk n0 n1 j (mk n0 n1 j e) = mk n0 n1 j e.
Proof.
  unfold mk, mark6. destruct e as [[[p0 p1] p2] [[e0 e1] e2] b l]. simpl.
  repeat match goal with |- context [if ?c then _ else _] => destruct c end; reflexivity.
Qed.

Lemma hit_corner n0 n1 e : hit n0 n1 e = true -> corner e n0.
Proof.
  unfold hit, mark6, corner. destruct (el_p e) as [[p0 p1] p2], (el_e e) as [[e0 e1] e2]. simpl.
  rewrite !orb_true_iff, !andb_true_iff, !Z.eqb_eq. intuition.
Qed.

(* ------------------------------------------------------------------------------------------ *)
(* nmbr / mbr                                                                                   *)
(* ------------------------------------------------------------------------------------------ *)
Definition occ (e : elem) (k : Z) (i : nat) : list nat :=
  let '(p0, p1, p2) := el_p e in
  (if p0 =? k then [i] else []) ++ (if p1 =? k then [i] else []) ++ (if p2 =? k then [i] else []).

Fixpoint members (els : list elem) (i : nat) (k : Z) : list nat :=
  match els with [] => [] | e :: t => occ e k i ++ members t (S i) k end.

Definition corners_in (N : nat) (e : elem) : Prop :=
  let '(p0, p1, p2) := el_p e in
  0 <= p0 < Z.of_nat N /\ 0 <= p1 < Z.of_nat N /\ 0 <= p2 < Z.of_nat N.

Lemma add_member_spec mbr k i m' : add_member mbr k i = Some m' ->
  length m' = length mbr /\ 0 <= k < Z.of_nat (length mbr) /\
  forall kk, nth kk m' [] = nth kk mbr [] ++ (if k =? Z.of_nat kk then [i] else []).
Proof.
  unfold add_member. destruct (zidx (length mbr) k) as [n|] eqn:E; [|discriminate].
  intros H; inversion H; subst m'; clear H. apply zidx_Some in E. destruct E as [Hr ->].
  split; [apply lupd_length|]. split; [assumption|]. intros kk.
  rewrite nth_lupd. destruct (Nat.eqb_spec kk (Z.to_nat k)) as [->|Hne].
  - assert (Hl : (Z.to_nat k <? length mbr)%nat = true) by (apply Nat.ltb_lt; lia). rewrite Hl.
    rewrite Z2Nat.id by lia. now rewrite Z.eqb_refl.
  - destruct (Z.eqb_spec k (Z.of_nat kk)); [exfalso; apply Hne; lia|]. now rewrite app_nil_r.
Qed.

Lemma add_member_total mbr k i : 0 <= k < Z.of_nat (length mbr) -> exists m', add_member mbr k i = Some m'.
Proof.
  intros H. unfold add_member. destruct (zidx (length mbr) k) eqn:E; [eauto|].
  apply zidx_None in E. contradiction.
Qed.

Lemma occ_app e k i :
  occ e k i = (let '(p0, p1, p2) := el_p e in
               ((if p0 =? k then [i] else []) ++ (if p1 =? k then [i] else [])) ++ (if p2 =? k then [i] else [])).
Proof. unfold occ. destruct (el_p e) as [[p0 p1] p2]. now rewrite app_assoc. Qed.

Lemma build_mbr_spec els : forall i mbr m', build_mbr els i mbr = Some m' ->
  length m' = length mbr /\ Forall (corners_in (length mbr)) els /\
  forall kk, nth kk m' [] = nth kk mbr [] ++ members els i (Z.of_nat kk).
Proof.
  induction els as [|e t IH]; intros i mbr m' H; simpl in H.
  - inversion H; subst. split; [reflexivity|]. split; [constructor|]. intros kk. simpl. now rewrite app_nil_r.
  - destruct (el_p e) as [[p0 p1] p2] eqn:Ep.
    destruct (add_member mbr p0 i) as [m1|] eqn:E1; [|discriminate].
    destruct (add_member m1 p1 i) as [m2|] eqn:E2; [|discriminate].
    destruct (add_member m2 p2 i) as [m3|] eqn:E3; [|discriminate].
    apply add_member_spec in E1. destruct E1 as (L1 & R1 & N1).
    apply add_member_spec in E2. destruct E2 as (L2 & R2 & N2).
    apply add_member_spec in E3. destruct E3 as (L3 & R3 & N3).
    apply IH in H. destruct H as (L4 & F4 & N4).
    split; [lia|]. split.
    + constructor; [unfold corners_in; rewrite Ep; lia|]. replace (length mbr) with (length m3) by lia. exact F4.
    + intros kk. rewrite N4, N3, N2, N1. simpl. rewrite occ_app, Ep. now rewrite <- !app_assoc.
Qed.

Lemma build_mbr_total els : forall i mbr, Forall (corners_in (length mbr)) els -> exists m', build_mbr els i mbr = Some m'.
Proof.
  induction els as [|e t IH]; intros i mbr H; simpl; [eauto|].
  inversion H as [|? ? He Ht]; subst. unfold corners_in in He. destruct (el_p e) as [[p0 p1] p2].
  destruct (add_member_total mbr p0 i) as [m1 E1]; [lia|]. rewrite E1.
  pose proof (add_member_spec _ _ _ _ E1) as (L1 & _ & _).
  destruct (add_member_total m1 p1 i) as [m2 E2]; [lia|]. rewrite E2.
  pose proof (add_member_spec _ _ _ _ E2) as (L2 & _ & _).
  destruct (add_member_total m2 p2 i) as [m3 E3]; [lia|]. rewrite E3.
  pose proof (add_member_spec _ _ _ _ E3) as (L3 & _ & _).
  apply IH. replace (length m3) with (length mbr) by lia. exact Ht.
Qed.

Lemma in_occ e k i x : In x (occ e k i) <-> x = i /\ corner e k.
Proof.
  unfold occ, corner. destruct (el_p e) as [[p0 p1] p2]. rewrite !in_app_iff.
  destruct (Z.eqb_spec p0 k), (Z.eqb_spec p1 k), (Z.eqb_spec p2 k); simpl; intuition; subst; auto.
Qed.

Lemma in_members els : forall i k x, In x (members els i k) <->
  exists off, x = (i + off)%nat /\ (off < length els)%nat /\ corner (nth off els d_elem) k.
Proof.
  induction els as [|e t IH]; intros i k x; simpl.
  - split; [tauto|]. intros (off & _ & H & _). lia.
  - rewrite in_app_iff, in_occ, IH. split.
    + intros [[-> Hc]|(off & -> & Hl & Hc)].
      * exists O. split; [lia|]. split; [lia|exact Hc].
      * exists (S off). split; [lia|]. split; [lia|exact Hc].
    + intros (off & -> & Hl & Hc). destruct off as [|off].
      * left. split; [lia|exact Hc].
      * right. exists off. split; [lia|]. split; [lia|exact Hc].
Qed.

Lemma members_ext els1 : forall els2 i k, map el_p els1 = map el_p els2 -> members els1 i k = members els2 i k.
Proof.
  induction els1 as [|e1 t1 IH]; intros [|e2 t2] i k H; simpl in *; try discriminate; auto.
  inversion H. unfold occ. rewrite H1. f_equal. now apply IH.
Qed.

(* ------------------------------------------------------------------------------------------ *)
(* the search loops                                                                             *)
(* ------------------------------------------------------------------------------------------ *)
Lemma loop_m_spec n0 n1 j L : forall els, (forall i, In i L -> (i < length els)%nat) ->
  exists els', loop_m n0 n1 j L els = Some els' /\ length els' = length els /\
    forall idx, nth idx els' d_elem =
                if existsb (Nat.eqb idx) L then mk n0 n1 j (nth idx els d_elem) else nth idx els d_elem.
Proof.
  induction L as [|i t IH]; intros els HL; simpl.
  - exists els. auto.
  - assert (Hi : (i < length els)%nat) by (apply HL; now left).
    rewrite (nth_error_nth_d els i d_elem Hi).
    destruct (IH (lupd els i (fst (mark6 n0 n1 j (nth i els d_elem))))) as (els' & E & Hl & Hn).
    { intros k Hk. rewrite lupd_length. apply HL. now right. }
    exists els'. split; [exact E|]. split; [now rewrite Hl, lupd_length|].
    intros idx. rewrite Hn. fold (mk n0 n1 j (nth i els d_elem)).
    destruct (Nat.eqb_spec idx i) as [->|Hne]; simpl.
    + rewrite nth_lupd_eq by assumption. destruct (existsb (Nat.eqb i) t); [apply mk_idem|reflexivity].
    + rewrite nth_lupd_neq by assumption. reflexivity.
Qed.

(* the loop over mbr[n0] = the six tests applied to EVERY element *)
Lemma loop_m_members n0 n1 j els :
  loop_m n0 n1 j (members els 0 n0) els = Some (map (mk n0 n1 j) els).
Proof.
  destruct (loop_m_spec n0 n1 j (members els 0 n0) els) as (els' & E & Hl & Hn).
  { intros i Hi. apply in_members in Hi. destruct Hi as (off & -> & H & _). lia. }
  rewrite E. f_equal. apply (nth_ext _ _ d_elem (mk n0 n1 j d_elem)).
  - now rewrite map_length.
  - intros idx Hidx. rewrite Hn, map_nth.
    destruct (existsb (Nat.eqb idx) (members els 0 n0)) eqn:Ex; [reflexivity|].
    symmetry. apply mk_nohit. destruct (hit n0 n1 (nth idx els d_elem)) eqn:Hh; [|reflexivity].
    exfalso. apply hit_corner in Hh.
    assert (In idx (members els 0 n0)) as Hin.
    { apply in_members. exists idx. split; [lia|]. split; [lia|exact Hh]. }
    assert (existsb (Nat.eqb idx) (members els 0 n0) = true) as Ht.
    { apply existsb_exists. exists idx. split; [exact Hin|apply Nat.eqb_refl]. }
    congruence.
Qed.

(* esolver / hsolver, boundary property j inside lineproplist and not of format 2: the same loop *)
Lemma loop_eh_plain stops fmts n0 n1 j jj L : zidx (length fmts) j = Some jj -> stopb stops (nth jj fmts 0) = false ->
  forall els h, loop_eh stops fmts n0 n1 j L els h = loop_m n0 n1 j L els.
Proof.
  intros Hj Hf. induction L as [|i t IH]; intros els h; simpl; [reflexivity|].
  destruct (nth_error els i); [|reflexivity]. rewrite Hj, Hf. simpl. apply IH.
Qed.

(* format 2: the loop ends after the first element of the list that carries the edge *)
Lemma loop_eh_fmt2 stops fmts n0 n1 j jj : zidx (length fmts) j = Some jj -> stopb stops (nth jj fmts 0) = true ->
  forall L els, (forall i, In i L -> (i < length els)%nat) ->
  loop_eh stops fmts n0 n1 j L els false =
  Some (match find (fun i => hit n0 n1 (nth i els d_elem)) L with
        | Some i => lupd els i (mk n0 n1 j (nth i els d_elem))
        | None => els
        end).
Proof.
  intros Hj Hf. induction L as [|i t IH]; intros els HL; simpl; [reflexivity|].
  assert (Hi : (i < length els)%nat) by (apply HL; now left).
  rewrite (nth_error_nth_d els i d_elem Hi), Hj, Hf, mark6_snd. simpl.
  destruct (hit n0 n1 (nth i els d_elem)) eqn:Hh; [reflexivity|].
  fold (mk n0 n1 j (nth i els d_elem)). rewrite (mk_nohit _ _ _ _ Hh), lupd_same.
  apply IH. intros k Hk. apply HL. now right.
Qed.

Fixpoint first_hit (n0 n1 : Z) (els : list elem) (i : nat) : option nat :=
  match els with
  | [] => None
  | e :: t => if hit n0 n1 e then Some i else first_hit n0 n1 t (S i)
  end.

Lemma find_members n0 n1 full : forall els pre, full = pre ++ els ->
  find (fun i => hit n0 n1 (nth i full d_elem)) (members els (length pre) n0) = first_hit n0 n1 els (length pre).
Proof.
  induction els as [|e t IH]; intros pre Hfull; simpl; [reflexivity|].
  assert (Hn : nth (length pre) full d_elem = e).
  { subst full. rewrite app_nth2 by lia. now rewrite Nat.sub_diag. }
  assert (Hrec : find (fun i => hit n0 n1 (nth i full d_elem)) (members t (S (length pre)) n0) = first_hit n0 n1 t (S (length pre))).
  { specialize (IH (pre ++ [e])). rewrite app_length in IH. simpl in IH. rewrite Nat.add_1_r in IH. apply IH.
    subst full. now rewrite <- app_assoc. }
  destruct (hit n0 n1 e) eqn:Hh.
  - pose proof (hit_corner _ _ _ Hh) as Hc.
    assert (exists r, occ e n0 (length pre) = length pre :: r) as [r Hr].
    { unfold occ, corner in *. destruct (el_p e) as [[p0 p1] p2].
      destruct (Z.eqb_spec p0 n0); [simpl; eauto|]. destruct (Z.eqb_spec p1 n0); [simpl; eauto|].
      destruct (Z.eqb_spec p2 n0); [simpl; eauto|]. exfalso; tauto. }
    rewrite Hr. simpl. now rewrite Hn, Hh.
  - assert (forall l, (forall x, In x l -> x = length pre) ->
                      find (fun i => hit n0 n1 (nth i full d_elem)) (l ++ members t (S (length pre)) n0) =
                      find (fun i => hit n0 n1 (nth i full d_elem)) (members t (S (length pre)) n0)) as Hskip.
    { induction l as [|x l IHl]; intros Hx; simpl; [reflexivity|].
      rewrite (Hx x) by now left. rewrite Hn, Hh. apply IHl. intros y Hy. apply Hx. now right. }
    rewrite Hskip; [exact Hrec|]. intros x Hx. apply in_occ in Hx. tauto.
Qed.

(* ------------------------------------------------------------------------------------------ *)
(* one .edge row                                                                                *)
(* ------------------------------------------------------------------------------------------ *)
(* mbr describes the elements *)
Definition mbr_of (mbr : list (list nat)) (els : list elem) : Prop :=
  forall kk, nth kk mbr [] = members els 0 (Z.of_nat kk).

Lemma mbr_of_ext mbr els els' : map el_p els' = map el_p els -> mbr_of mbr els -> mbr_of mbr els'.
Proof. intros H M kk. rewrite M. symmetry. now apply members_ext. Qed.

Lemma map_p_mk n0 n1 j els : map el_p (map (mk n0 n1 j) els) = map el_p els.
Proof. rewrite map_map. apply map_ext. intros e. apply mk_p. Qed.

(* what fsolver does with a row *)
Definition row_m (r : Z * Z * Z) (e : elem) : elem :=
  let '(n0, n1, m) := r in if m <? 0 then mk n0 n1 (wrap32 (- (m + dec_offset_mag))) e else e.
(* what esolver / hsolver do with a row whose boundary property is not of format 2 *)
Definition row_eh (r : Z * Z * Z) (e : elem) : elem :=
  let '(n0, n1, m) := r in let j := fst (dec_seg_z m) in if 0 <=? j then mk n0 n1 j e else e.

Section Steps.
  Context {F : Type} (A : Arith F).

  Lemma edge_step_m fmts mbr nds els r st' : mbr_of mbr els ->
    edge_step A VM fmts mbr (nds, els) r = Some st' -> st' = (nds, map (row_m r) els).
  Proof.
    intros M. destruct r as [[n0 n1] m]. simpl. unfold row_m.
    destruct (m <? 0).
    - destruct (zidx (length mbr) n0) as [k|] eqn:E; [|discriminate].
      apply zidx_lt in E. destruct E as [_ <-]. rewrite M, loop_m_members. intros H; inversion H. reflexivity.
    - intros H; inversion H. now rewrite map_id.
  Qed.

  Lemma edge_step_m_total fmts mbr nds els r : mbr_of mbr els ->
    (let '(n0, n1, m) := r in m < 0 -> 0 <= n0 < Z.of_nat (length mbr)) ->
    edge_step A VM fmts mbr (nds, els) r = Some (nds, map (row_m r) els).
  Proof.
    intros M. destruct r as [[n0 n1] m]. simpl. unfold row_m. intros Hr.
    destruct (Z.ltb_spec m 0).
    - destruct (zidx (length mbr) n0) as [k|] eqn:E.
      + apply zidx_lt in E. destruct E as [_ <-]. now rewrite M, loop_m_members.
      + apply zidx_None in E. exfalso. apply E. apply Hr. assumption.
    - now rewrite map_id.
  Qed.

  (* the conductor part of a row: both end nodes, nothing else *)
  Definition cond_row (r : Z * Z * Z) (i : nat) (c0 : Z) : Z :=
    let '(n0, n1, m) := r in
    let c := snd (dec_seg_z m) in
    if (0 <=? c) && ((Z.of_nat i =? n0) || (Z.of_nat i =? n1)) then c else c0.

  Definition d_node : node F := mkNode (azero A) (azero A) 0 0.

  Lemma set_cond_spec nds n0 n1 c nds' : set_cond A nds n0 n1 c = Some nds' ->
    length nds' = length nds /\ 0 <= n0 < Z.of_nat (length nds) /\ 0 <= n1 < Z.of_nat (length nds) /\
    forall i, nd_x (nth i nds' d_node) = nd_x (nth i nds d_node) /\
              nd_y (nth i nds' d_node) = nd_y (nth i nds d_node) /\
              nd_bm (nth i nds' d_node) = nd_bm (nth i nds d_node) /\
              nd_cond (nth i nds' d_node) = if (Z.of_nat i =? n0) || (Z.of_nat i =? n1) then c else nd_cond (nth i nds d_node).
  Proof.
    unfold set_cond. fold d_node.
    destruct (zidx (length nds) n0) as [k0|] eqn:E0; [|discriminate].
    rewrite lupd_length.
    destruct (zidx (length nds) n1) as [k1|] eqn:E1; [|discriminate].
    intros H; inversion H; subst nds'; clear H.
    apply zidx_lt in E0. destruct E0 as [L0 <-]. apply zidx_lt in E1. destruct E1 as [L1 <-].
    rewrite !lupd_length. split; [reflexivity|]. split; [lia|]. split; [lia|]. intros i.
    rewrite nth_lupd. rewrite lupd_length.
    assert (Hl1 : (k1 <? length nds)%nat = true) by (apply Nat.ltb_lt; lia). rewrite Hl1.
    destruct (Nat.eqb_spec i k1) as [->|N1].
    - simpl. rewrite Z.eqb_refl, orb_true_r.
      rewrite nth_lupd. assert (Hl0 : (k0 <? length nds)%nat = true) by (apply Nat.ltb_lt; lia). rewrite Hl0.
      destruct (Nat.eqb_spec k1 k0) as [->|N0]; simpl; auto.
    - rewrite nth_lupd. assert (Hl0 : (k0 <? length nds)%nat = true) by (apply Nat.ltb_lt; lia). rewrite Hl0.
      destruct (Nat.eqb_spec i k0) as [->|N0]; simpl.
      + rewrite Z.eqb_refl. simpl. auto.
      + destruct (Z.eqb_spec (Z.of_nat i) (Z.of_nat k0)); [lia|].
        destruct (Z.eqb_spec (Z.of_nat i) (Z.of_nat k1)); [lia|]. simpl. auto.
  Qed.

  Definition nodes_after_row (r : Z * Z * Z) (nds nds' : list (node F)) : Prop :=
    length nds' = length nds /\
    forall i, nd_x (nth i nds' d_node) = nd_x (nth i nds d_node) /\
              nd_y (nth i nds' d_node) = nd_y (nth i nds d_node) /\
              nd_bm (nth i nds' d_node) = nd_bm (nth i nds d_node) /\
              nd_cond (nth i nds' d_node) = cond_row r i (nd_cond (nth i nds d_node)).

  Lemma cond_part_spec nds n0 n1 m nds' :
    (if 0 <=? snd (dec_seg_z m) then set_cond A nds n0 n1 (snd (dec_seg_z m)) else Some nds) = Some nds' ->
    nodes_after_row (n0, n1, m) nds nds'.
  Proof.
    unfold nodes_after_row, cond_row. destruct (0 <=? snd (dec_seg_z m)) eqn:Ec.
    - intros H. apply set_cond_spec in H. destruct H as (L & _ & _ & Hn). split; [exact L|].
      intros i. simpl. exact (Hn i).
    - intros H; inversion H; subst. split; [reflexivity|]. intros i. simpl. auto.
  Qed.

  (* esolver / hsolver: what happens to the elements in one row *)
  Definition eh_elems_after_row (stops fmts : list Z) (r : Z * Z * Z) (els els' : list elem) : Prop :=
    let '(n0, n1, m) := r in
    let j := fst (dec_seg_z m) in
    if 0 <=? j then
      if stopb stops (nth (Z.to_nat j) fmts 0) then
        els' = match first_hit n0 n1 els 0 with
               | Some i => lupd els i (mk n0 n1 j (nth i els d_elem))
               | None => els
               end
      else els' = map (mk n0 n1 j) els
    else els' = els.

  Lemma edge_step_eh v fmts mbr nds els r nds' els' : v <> VM -> mbr_of mbr els ->
    edge_step A v fmts mbr (nds, els) r = Some (nds', els') ->
    nodes_after_row r nds nds' /\ eh_elems_after_row (stops_of v) fmts r els els'.
  Proof.
    intros Hv M. destruct r as [[n0 n1] m]. unfold eh_elems_after_row.
    assert (edge_step A v fmts mbr (nds, els) (n0, n1, m) =
            let '(j, c) := dec_seg_z m in
            match (if 0 <=? c then set_cond A nds n0 n1 c else Some nds) with
            | None => None
            | Some nds' =>
              if 0 <=? j then
                match zidx (length mbr) n0 with
                | None => None
                | Some k => match loop_eh (stops_of v) fmts n0 n1 j (nth k mbr []) els false with
                            | None => None | Some els' => Some (nds', els') end
                end
              else Some (nds', els)
            end) as ->
      by (destruct v; [contradiction|reflexivity|reflexivity]). destruct (dec_seg_z m) as [j c] eqn:Ed. cbn [fst snd].
    pose proof (cond_part_spec nds n0 n1 m) as CP. rewrite Ed in CP. cbn [fst snd] in CP.
    destruct (if 0 <=? c then set_cond A nds n0 n1 c else Some nds) as [nds1|] eqn:Ec; [|discriminate].
    specialize (CP nds1 eq_refl). clear Ec. rename CP into Ec.
    destruct (Z.leb_spec 0 j) as [Hj|Hj].
    - destruct (zidx (length mbr) n0) as [k|] eqn:E; [|discriminate].
      apply zidx_lt in E. destruct E as [_ <-]. rewrite M.
      destruct (members els 0 (Z.of_nat k)) as [|i0 t] eqn:EL.
      + (* no element has n0 as a corner: nothing is touched, lineproplist is not read *)
        simpl. intros H; inversion H; subst. split; [exact Ec|].
        assert (Hnone : forall e, In e els' -> hit (Z.of_nat k) n1 e = false).
        { intros e He. destruct (hit (Z.of_nat k) n1 e) eqn:Hh; [|reflexivity]. exfalso.
          apply hit_corner in Hh. apply In_nth with (d := d_elem) in He. destruct He as (off & Hoff & <-).
          assert (In off (members els' 0 (Z.of_nat k))) as Hin
            by (apply in_members; exists off; split; [lia|]; split; assumption).
          rewrite EL in Hin. destruct Hin. }
        assert (Hfh : forall l i, (forall e, In e l -> hit (Z.of_nat k) n1 e = false) -> first_hit (Z.of_nat k) n1 l i = None).
        { induction l as [|e l IHl]; intros i Hl; simpl; [reflexivity|].
          rewrite (Hl e) by now left. apply IHl. intros e' He'. apply Hl. now right. }
        rewrite (Hfh els' O Hnone).
        assert (Hmap : map (mk (Z.of_nat k) n1 j) els' = els').
        { rewrite <- (map_id els') at 2. apply map_ext_in. intros e He. apply mk_nohit. now apply Hnone. }
        rewrite Hmap. destruct (stopb (stops_of v) (nth (Z.to_nat j) fmts 0)); reflexivity.
      + rewrite <- EL.
        destruct (zidx (length fmts) j) as [jj|] eqn:Ej.
        * pose proof Ej as Ej'. apply zidx_Some in Ej'. destruct Ej' as [_ ->].
          destruct (stopb (stops_of v) (nth (Z.to_nat j) fmts 0)) eqn:Ef.
          -- rewrite (loop_eh_fmt2 _ _ _ _ _ _ Ej Ef).
             2:{ intros i Hi. apply in_members in Hi. destruct Hi as (off & -> & H & _). lia. }
             pose proof (find_members (Z.of_nat k) n1 els els [] eq_refl) as FM. simpl in FM. rewrite FM.
             intros H; inversion H; subst. split; [exact Ec|reflexivity].
          -- rewrite (loop_eh_plain _ _ _ _ _ _ _ Ej Ef), loop_m_members.
             intros H; inversion H; subst. split; [exact Ec|reflexivity].
        * (* lineproplist[j] outside the vector, read in the first pass of the loop *)
          rewrite EL. simpl.
          assert (Hi0 : In i0 (members els 0 (Z.of_nat k))) by (rewrite EL; now left).
          apply in_members in Hi0. destruct Hi0 as (off & -> & Hoff & _). simpl.
          rewrite (nth_error_nth_d els off d_elem Hoff), Ej. discriminate.
    - intros H; inversion H; subst. split; [exact Ec|reflexivity].
  Qed.
End Steps.

(* ------------------------------------------------------------------------------------------ *)
(* the element table                                                                            *)
(* ------------------------------------------------------------------------------------------ *)
Definition row_p (r : Z * Z * Z * Z) : Z * Z * Z := let '(p0, p1, p2, a) := r in (p0, p1, p2).
Definition row_a (r : Z * Z * Z * Z) : Z := let '(p0, p1, p2, a) := r in a.
Definition d_row : Z * Z * Z * Z := (0, 0, 0, 0).
(* the label index an attribute stands for *)
Definition label_of (labels : list (bool * Z)) (a : Z) : Z := if a - 1 <? 0 then default_label labels else a - 1.
Definition core (e : elem) : (Z * Z * Z) * Z * Z := (el_p e, el_blk e, el_lbl e).
Definition side_p (p : Z * Z * Z) (k : nat) : Z * Z :=
  let '(p0, p1, p2) := p in match k with O => (p0, p1) | S O => (p1, p2) | _ => (p2, p0) end.

Lemma side_side_p e k : side e k = side_p (el_p e) k.
Proof. reflexivity. Qed.

Definition elem_reads (labels : list (bool * Z)) (r : Z * Z * Z * Z) (e : elem) : Prop :=
  el_p e = row_p r /\ el_e e = (-1, -1, -1) /\ el_lbl e = label_of labels (row_a r) /\
  0 <= el_lbl e < Z.of_nat (length labels) /\
  el_blk e = snd (nth (Z.to_nat (el_lbl e)) labels (false, 0)).

Lemma read_elem_ok labels r e : read_elem labels (default_label labels) r = EOk e -> elem_reads labels r e.
Proof.
  destruct r as [[[p0 p1] p2] a]. unfold read_elem, elem_reads, label_of, row_p, row_a.
  set (l := if a - 1 <? 0 then default_label labels else a - 1).
  destruct (Z.ltb_spec l 0) as [Hl|Hl]; [discriminate|].
  destruct (zidx (length labels) l) as [k|] eqn:E; [|discriminate].
  intros HH; inversion HH; subst e; clear HH. simpl.
  apply zidx_Some in E. destruct E as [Hr ->]. repeat split; try reflexivity; lia.
Qed.

Lemma read_elems_ok labels rows : forall els, read_elems labels (default_label labels) rows = inl els ->
  length els = length rows /\ forall i, (i < length rows)%nat -> elem_reads labels (nth i rows d_row) (nth i els d_elem).
Proof.
  induction rows as [|r t IH]; intros els H; simpl in H.
  - inversion H. split; [reflexivity|]. intros i Hi. simpl in Hi. lia.
  - destruct (read_elem labels (default_label labels) r) as [e| |] eqn:Er; try discriminate.
    destruct (read_elems labels (default_label labels) t) as [es|c] eqn:Et; [|discriminate].
    inversion H; subst els; clear H. destruct (IH es eq_refl) as [L N]. split; [simpl; lia|].
    intros [|i] Hi; simpl in *; [now apply read_elem_ok|apply N; lia].
Qed.

Lemma read_elems_code labels rows c : read_elems labels (default_label labels) rows = inr c ->
  c = err_missingmatprops \/ c = err_elmlabeltoobig.
Proof.
  induction rows as [|r t IH]; simpl; [discriminate|].
  destruct (read_elem labels (default_label labels) r); try (intros H; inversion H; auto; fail).
  destruct (read_elems labels (default_label labels) t); [discriminate|]. intros H; inversion H; subst. now apply IH.
Qed.

(* ------------------------------------------------------------------------------------------ *)
(* the whole .edge table                                                                        *)
(* ------------------------------------------------------------------------------------------ *)
Definition en0 (r : Z * Z * Z) : Z := fst (fst r).
Definition en1 (r : Z * Z * Z) : Z := snd (fst r).
(* the boundary-property index a row writes, if it writes one *)
Definition wj_m (r : Z * Z * Z) : option Z :=
  if snd r <? 0 then Some (wrap32 (- (snd r + dec_offset_mag))) else None.
Definition wj_eh (r : Z * Z * Z) : option Z :=
  let j := fst (dec_seg_z (snd r)) in if 0 <=? j then Some j else None.
Definition row_gen (wj : Z * Z * Z -> option Z) (r : Z * Z * Z) (e : elem) : elem :=
  match wj r with Some j => mk (en0 r) (en1 r) j e | None => e end.

Lemma row_m_gen r e : row_m r e = row_gen wj_m r e.
Proof. destruct r as [[n0 n1] m]. unfold row_m, row_gen, wj_m, en0, en1. cbn [fst snd]. destruct (m <? 0); reflexivity. Qed.
Lemma row_eh_gen r e : row_eh r e = row_gen wj_eh r e.
Proof. destruct r as [[n0 n1] m]. unfold row_eh, row_gen, wj_eh, en0, en1. cbn [fst snd]. destruct (0 <=? fst (dec_seg_z m)); reflexivity. Qed.

Lemma mk_core n0 n1 j e : core (mk n0 n1 j e) = core e.
Proof. unfold core. now rewrite mk_p, mk_blk, mk_lbl. Qed.
Lemma row_gen_core wj r e : core (row_gen wj r e) = core e.
Proof. unfold row_gen. destruct (wj r); [apply mk_core|reflexivity]. Qed.

Lemma core_p els els' : map core els' = map core els -> map el_p els' = map el_p els.
Proof.
  intros H. assert (forall l, map el_p l = map (fun c => fst (fst c)) (map core l)) as Hm
    by (intros l; rewrite map_map; reflexivity).
  now rewrite !Hm, H.
Qed.

(* the side entry after the whole table: the last row with these end nodes that writes *)
Definition last_mark (wj : Z * Z * Z -> option Z) (rows : list (Z * Z * Z)) (s : Z * Z) (init : Z) : Z :=
  fold_left (fun acc r => match wj r with
                          | Some j => if same_endsb s (en0 r) (en1 r) then j else acc
                          | None => acc end) rows init.

Lemma fold_map_rows {R} (f : R -> elem -> elem) rows : forall els,
  fold_left (fun acc r => map (f r) acc) rows els = map (fun e => fold_left (fun e r => f r e) rows e) els.
Proof.
  induction rows as [|r t IH]; intros els; simpl; [now rewrite map_id|].
  rewrite IH, map_map. reflexivity.
Qed.

Lemma fold_rows_side wj rows : forall e k, (k < 3)%nat ->
  side (fold_left (fun e r => row_gen wj r e) rows e) k = side e k /\
  smark (fold_left (fun e r => row_gen wj r e) rows e) k = last_mark wj rows (side e k) (smark e k).
Proof.
  unfold last_mark. induction rows as [|r t IH]; intros e k Hk; simpl; [auto|].
  destruct (IH (row_gen wj r e) k Hk) as [S1 S2]. rewrite S1, S2. unfold row_gen.
  destruct (wj r) as [j|]; [|auto]. rewrite side_mk, smark_mk by assumption. auto.
Qed.

Lemma fold_rows_core wj rows : forall e, core (fold_left (fun e r => row_gen wj r e) rows e) = core e.
Proof. induction rows as [|r t IH]; intros e; simpl; [reflexivity|]. now rewrite IH, row_gen_core. Qed.

Definition norm (r : Z * Z * Z) : Z * Z := (Z.min (en0 r) (en1 r), Z.max (en0 r) (en1 r)).

Lemma same_ends_norm s r r' : same_ends s (en0 r) (en1 r) -> same_ends s (en0 r') (en1 r') -> norm r = norm r'.
Proof. unfold same_ends, norm. intros [[A B]|[A B]] [[C D]|[C D]]; f_equal; lia. Qed.

Lemma last_mark_unlisted wj rows s : forall init,
  (forall r, In r rows -> ~ same_ends s (en0 r) (en1 r)) -> last_mark wj rows s init = init.
Proof.
  unfold last_mark. induction rows as [|r t IH]; intros init H; simpl; [reflexivity|].
  rewrite IH by (intros r' Hr'; apply H; now right).
  destruct (wj r); [|reflexivity].
  destruct (same_endsb s (en0 r) (en1 r)) eqn:E; [|reflexivity].
  apply same_endsb_spec in E. exfalso. apply (H r); [now left|exact E].
Qed.

Lemma last_mark_app wj l1 l2 s init : last_mark wj (l1 ++ l2) s init = last_mark wj l2 s (last_mark wj l1 s init).
Proof. unfold last_mark. apply fold_left_app. Qed.

Lemma last_mark_listed wj rows s r init : NoDup (map norm rows) -> In r rows -> same_ends s (en0 r) (en1 r) ->
  last_mark wj rows s init = match wj r with Some j => j | None => init end.
Proof.
  intros ND Hin Hs. apply in_split in Hin. destruct Hin as (l1 & l2 & ->).
  rewrite map_app in ND. simpl in ND. apply NoDup_remove_2 in ND.
  assert (forall l, (forall x, In x l -> In (norm x) (map norm l1 ++ map norm l2)) ->
                    forall r', In r' l -> ~ same_ends s (en0 r') (en1 r')) as Hnot.
  { intros l Hl r' Hr' Hs'. apply ND. rewrite (same_ends_norm s r r' Hs Hs'). now apply Hl. }
  rewrite last_mark_app. change (r :: l2) with ([r] ++ l2). rewrite last_mark_app.
  rewrite (last_mark_unlisted wj l1).
  2:{ apply (Hnot l1). intros x Hx. apply in_or_app. left. now apply in_map. }
  rewrite (last_mark_unlisted wj l2).
  2:{ apply (Hnot l2). intros x Hx. apply in_or_app. right. now apply in_map. }
  unfold last_mark. simpl. destruct (wj r); [|reflexivity].
  apply same_endsb_spec in Hs. now rewrite Hs.
Qed.

(* rows of esolver / hsolver whose boundary property is not of format 2 *)
Definition plain_rows (stops fmts : list Z) (rows : list (Z * Z * Z)) : Prop :=
  forall r, In r rows -> forall j, wj_eh r = Some j -> stopb stops (nth (Z.to_nat j) fmts 0) = false.

(* a row touches an element with the six tests or not at all *)
Definition touched (wj : Z * Z * Z -> option Z) (r : Z * Z * Z) (e e' : elem) : Prop :=
  e' = e \/ exists j, wj r = Some j /\ e' = mk (en0 r) (en1 r) j e.

Lemma nth_lupd_cases {T} (l : list T) i x k d : nth k (lupd l i x) d = nth k l d \/ ((i < length l)%nat /\ k = i /\ nth k (lupd l i x) d = x).
Proof.
  destruct (Nat.eq_dec k i) as [->|N]; [|left; now apply nth_lupd_neq].
  destruct (Nat.lt_ge_cases i (length l)) as [H|H].
  - right. split; [assumption|]. split; [reflexivity|]. now apply nth_lupd_eq.
  - left. rewrite nth_lupd, Nat.eqb_refl. pose proof H as H'. apply Nat.ltb_ge in H'. rewrite H'. symmetry. now apply nth_overflow.
Qed.

Section Stage.
  Context {F : Type} (A : Arith F).

  Lemma eh_after_row_touched stops fmts r els els' : eh_elems_after_row stops fmts r els els' ->
    length els' = length els /\ forall i, touched wj_eh r (nth i els d_elem) (nth i els' d_elem).
  Proof.
    destruct r as [[n0 n1] m]. unfold eh_elems_after_row, touched, wj_eh, en0, en1. cbn [fst snd].
    destruct (0 <=? fst (dec_seg_z m)).
    - destruct (stopb stops (nth (Z.to_nat (fst (dec_seg_z m))) fmts 0)).
      + destruct (first_hit n0 n1 els 0) as [i0|]; intros ->; [|split; auto].
        split; [apply lupd_length|]. intros i.
        destruct (nth_lupd_cases els i0 (mk n0 n1 (fst (dec_seg_z m)) (nth i0 els d_elem)) i d_elem) as [H|(_ & -> & H)];
          rewrite H; [now left|]. right. eauto.
      + intros ->. split; [apply map_length|]. intros i.
        destruct (Nat.lt_ge_cases i (length els)) as [H|H].
        * right. exists (fst (dec_seg_z m)). split; [reflexivity|].
          rewrite (nth_indep _ d_elem (mk n0 n1 (fst (dec_seg_z m)) d_elem)) by now rewrite map_length.
          apply map_nth.
        * left. rewrite !nth_overflow; [reflexivity|assumption|now rewrite map_length].
    - intros ->. split; auto.
  Qed.

  Lemma touched_core wj r e e' : touched wj r e e' -> core e' = core e.
  Proof. intros [->|(j & _ & ->)]; [reflexivity|apply mk_core]. Qed.

  Lemma pointwise_core els els' : length els' = length els ->
    (forall i, core (nth i els' d_elem) = core (nth i els d_elem)) -> map core els' = map core els.
  Proof.
    intros L H. apply (nth_ext _ _ (core d_elem) (core d_elem)); [now rewrite !map_length|].
    intros i _. now rewrite !map_nth.
  Qed.

  (* fsolver: the whole table *)
  Lemma edge_stage_m fmts mbr rows : forall nds els st', mbr_of mbr els ->
    edge_stage A VM fmts mbr (nds, els) rows = Some st' ->
    st' = (nds, map (fun e => fold_left (fun e r => row_gen wj_m r e) rows e) els).
  Proof.
    induction rows as [|r t IH]; intros nds els st' M; simpl.
    - intros H; inversion H. now rewrite map_id.
    - destruct (edge_step A VM fmts mbr (nds, els) r) as [st1|] eqn:E; [|discriminate].
      apply (edge_step_m A) in E; [|assumption]. subst st1. intros H. apply IH in H.
      + rewrite H, map_map. f_equal. apply map_ext. intros e. now rewrite row_m_gen.
      + apply (mbr_of_ext mbr els); [|assumption]. apply core_p.
        rewrite map_map. apply map_ext. intros e. rewrite row_m_gen. apply row_gen_core.
  Qed.

  Definition conds_after (rows : list (Z * Z * Z)) (i : nat) (c0 : Z) : Z :=
    fold_left (fun c r => cond_row r i c) rows c0.

  (* esolver / hsolver: the whole table *)
  Lemma edge_stage_eh v fmts mbr rows : v <> VM -> forall nds els nds' els', mbr_of mbr els ->
    edge_stage A v fmts mbr (nds, els) rows = Some (nds', els') ->
    length nds' = length nds /\
    (forall i, nd_x (nth i nds' (d_node A)) = nd_x (nth i nds (d_node A)) /\
               nd_y (nth i nds' (d_node A)) = nd_y (nth i nds (d_node A)) /\
               nd_bm (nth i nds' (d_node A)) = nd_bm (nth i nds (d_node A)) /\
               nd_cond (nth i nds' (d_node A)) = conds_after rows i (nd_cond (nth i nds (d_node A)))) /\
    map core els' = map core els /\
    (plain_rows (stops_of v) fmts rows -> els' = map (fun e => fold_left (fun e r => row_gen wj_eh r e) rows e) els) /\
    (forall i k, (k < 3)%nat -> smark (nth i els' d_elem) k = smark (nth i els d_elem) k \/
        exists r, In r rows /\ wj_eh r = Some (smark (nth i els' d_elem) k) /\
                  same_ends (side (nth i els d_elem) k) (en0 r) (en1 r)).
  Proof.
    intros Hv. induction rows as [|r t IH]; intros nds els nds' els' M; simpl.
    - intros H; inversion H; subst. split; [reflexivity|]. split; [intros i; auto|]. split; [reflexivity|].
      split; [intros _; now rewrite map_id|]. intros i k Hk. now left.
    - destruct (edge_step A v fmts mbr (nds, els) r) as [[nds1 els1]|] eqn:E; [|discriminate].
      apply (edge_step_eh A) in E; try assumption. destruct E as [[L1 N1] E1].
      pose proof (eh_after_row_touched (stops_of v) fmts r els els1 E1) as [Le T1].
      assert (C1 : map core els1 = map core els).
      { apply pointwise_core; [assumption|]. intros i. apply (touched_core wj_eh r). apply T1. }
      intros H. apply IH in H.
      2:{ apply (mbr_of_ext mbr els); [|assumption]. now apply core_p. }
      destruct H as (L2 & N2 & C2 & P2 & S2).
      split; [lia|]. split.
      { intros i. destruct (N2 i) as (X2 & Y2 & B2 & D2). destruct (N1 i) as (X1 & Y1 & B1 & D1).
        rewrite X2, Y2, B2, D2, X1, Y1, B1, D1. unfold conds_after. simpl. auto. }
      split; [now rewrite C2|]. split.
      { intros PR. rewrite P2 by (intros r' Hr'; apply PR; now right).
        assert (els1 = map (row_gen wj_eh r) els) as ->.
        { destruct r as [[n0 n1] m]. unfold eh_elems_after_row in E1. unfold row_gen, wj_eh, en0, en1. cbn [fst snd].
          destruct (Z.leb_spec 0 (fst (dec_seg_z m))) as [Hj|Hj].
          - assert (stopb (stops_of v) (nth (Z.to_nat (fst (dec_seg_z m))) fmts 0) = false) as Hf.
            { apply (PR (n0, n1, m)); [now left|]. unfold wj_eh. cbn [fst snd].
              destruct (Z.leb_spec 0 (fst (dec_seg_z m))); [reflexivity|lia]. }
            rewrite Hf in E1. exact E1.
          - rewrite E1. symmetry. apply map_id. }
        rewrite map_map. reflexivity. }
      intros i k Hk.
      assert (Hside : side (nth i els1 d_elem) k = side (nth i els d_elem) k).
      { unfold side. assert (core (nth i els1 d_elem) = core (nth i els d_elem)) as Hc
          by (apply (touched_core wj_eh r); apply T1). unfold core in Hc. inversion Hc. now rewrite H0. }
      destruct (S2 i k Hk) as [Hs|(r' & Hr' & W & Hse)].
      + destruct (T1 i) as [Ht|(j & Wj & Ht)].
        * left. now rewrite Hs, Ht.
        * destruct (same_endsb (side (nth i els d_elem) k) (en0 r) (en1 r)) eqn:Es.
          -- right. exists r. split; [now left|]. split; [|now apply same_endsb_spec].
             rewrite Hs, Ht, smark_mk, Es by assumption. exact Wj.
          -- left. rewrite Hs, Ht, smark_mk, Es by assumption. reflexivity.
      + right. exists r'. split; [now right|]. split; [exact W|]. now rewrite <- Hside.
  Qed.
End Stage.

(* ------------------------------------------------------------------------------------------ *)
(* LoadMesh as a whole                                                                          *)
(* ------------------------------------------------------------------------------------------ *)
Definition d_nrow {F} (A : Arith F) : F * F * Z := (azero A, azero A, 0).
Definition nrow_x {F} (r : F * F * Z) : F := fst (fst r).
Definition nrow_y {F} (r : F * F * Z) : F := snd (fst r).
Definition nrow_m {F} (r : F * F * Z) : Z := snd r.
Definition rows_in_range (N : nat) (eles : list (Z * Z * Z * Z)) : Prop :=
  Forall (fun r => let '(p0, p1, p2) := row_p r in
                   0 <= p0 < Z.of_nat N /\ 0 <= p1 < Z.of_nat N /\ 0 <= p2 < Z.of_nat N) eles.
Definition wj (v : variant) : Z * Z * Z -> option Z := match v with VM => wj_m | _ => wj_eh end.
(* rows whose boundary property makes esolver / hsolver stop at the first owner *)
Definition no_format2 (v : variant) (fmts : list Z) (rows : list (Z * Z * Z)) : Prop :=
  match v with VM => True | _ => plain_rows (stops_of v) fmts rows end.

Section Whole.
  Context {F : Type} (A : Arith F).

  Lemma load_inv v del units labels fmts nodes pbcs ages eles edges m :
    load_mesh A v del units labels fmts nodes pbcs ages eles edges = Loaded m ->
    exists cf els0 mbr,
      unit_factor A v units = Some cf /\
      read_elems labels (default_label labels) eles = inl els0 /\
      build_mbr els0 O (repeat [] (length nodes)) = Some mbr /\
      edge_stage A v fmts mbr (map (read_node A v cf) nodes, els0) edges = Some (m_nodes m, m_elems m) /\
      m_pbcs m = pbcs /\ m_ages m = (match v with VM => ages | _ => [] end).
  Proof.
    unfold load_mesh. destruct (unit_factor A v units) as [cf|]; [|discriminate].
    destruct (existsb (existsb quad_negative) match v with VM => ages | _ => [] end); [discriminate|].
    destruct (read_elems labels (default_label labels) eles) as [els0|c] eqn:Er; [|discriminate].
    destruct (build_mbr els0 0 (repeat [] (length nodes))) as [mbr|] eqn:Eb; [|discriminate].
    destruct (edge_stage A v fmts mbr (map (read_node A v cf) nodes, els0) edges) as [[nds els]|] eqn:Es; [|discriminate].
    intros H; inversion H; subst m; clear H. exists cf, els0, mbr. simpl. repeat split; auto.
  Qed.

  Lemma build_mbr_of els0 N mbr : build_mbr els0 O (repeat [] N) = Some mbr ->
    mbr_of mbr els0 /\ Forall (corners_in N) els0 /\ length mbr = N.
  Proof.
    intros H. apply build_mbr_spec in H. destruct H as (L & Fa & Nn). rewrite repeat_length in *.
    split; [|split; assumption]. intros kk. now rewrite Nn, nth_repeat_nil.
  Qed.

  (* the element part of a loaded mesh *)
  Lemma load_elems v del units labels fmts nodes pbcs ages eles edges m :
    load_mesh A v del units labels fmts nodes pbcs ages eles edges = Loaded m ->
    exists els0, read_elems labels (default_label labels) eles = inl els0 /\
      length els0 = length eles /\
      (forall i, (i < length eles)%nat -> elem_reads labels (nth i eles d_row) (nth i els0 d_elem)) /\
      Forall (corners_in (length nodes)) els0 /\
      map core (m_elems m) = map core els0 /\
      (no_format2 v fmts edges ->
       m_elems m = map (fun e => fold_left (fun e r => row_gen (wj v) r e) edges e) els0) /\
      (forall i k, (k < 3)%nat -> smark (nth i (m_elems m) d_elem) k = smark (nth i els0 d_elem) k \/
         exists r, In r edges /\ wj v r = Some (smark (nth i (m_elems m) d_elem) k) /\
                   same_ends (side (nth i els0 d_elem) k) (en0 r) (en1 r)).
  Proof.
    intros H. apply load_inv in H. destruct H as (cf & els0 & mbr & _ & Er & Eb & Es & _ & _).
    exists els0. split; [exact Er|]. destruct (read_elems_ok _ _ _ Er) as [L R].
    apply build_mbr_of in Eb. destruct Eb as (M & Fa & Lm).
    split; [exact L|]. split; [exact R|]. split; [exact Fa|].
    destruct v.
    - apply (edge_stage_m A) in Es; [|assumption]. inversion Es as [[Hn He]]. clear Es.
      rewrite He. change (wj VM) with wj_m.
      assert (Hc : map core (map (fun e => fold_left (fun e r => row_gen wj_m r e) edges e) els0) = map core els0).
      { rewrite map_map. apply map_ext. intros e. apply fold_rows_core. }
      split; [exact Hc|]. split; [intros _; reflexivity|].
      intros i k Hk. destruct (Nat.lt_ge_cases i (length els0)) as [Hi|Hi].
      + rewrite (nth_indep _ d_elem (fold_left (fun e r => row_gen wj_m r e) edges d_elem)) by now rewrite map_length.
        rewrite (map_nth (fun e => fold_left (fun e r => row_gen wj_m r e) edges e)).
        generalize (nth i els0 d_elem). intros e. clear -Hk.
        assert (forall rows e0 e, side e k = side e0 k ->
                 (smark e k = smark e0 k \/ exists r, In r rows /\ wj_m r = Some (smark e k) /\ same_ends (side e0 k) (en0 r) (en1 r)) ->
                 forall rest, (forall r, In r rows \/ In r rest -> In r edges) ->
                 let e' := fold_left (fun e r => row_gen wj_m r e) rest e in
                 smark e' k = smark e0 k \/ exists r, In r edges /\ wj_m r = Some (smark e' k) /\ same_ends (side e0 k) (en0 r) (en1 r)) as G.
        { intros rows e0 e1 Hs Hinv rest. revert rows e1 Hs Hinv. induction rest as [|r t IH]; intros rows e1 Hs Hinv Hsub; simpl.
          - destruct Hinv as [Hinv|(r & Hr & W & Se)]; [now left|]. right. exists r. split; [apply Hsub; now left|]. auto.
          - apply (IH (r :: rows)).
            + unfold row_gen. destruct (wj_m r); [now rewrite side_mk|assumption].
            + unfold row_gen. destruct (wj_m r) as [j|] eqn:W.
              * rewrite smark_mk by assumption. rewrite Hs.
                destruct (same_endsb (side e0 k) (en0 r) (en1 r)) eqn:Es.
                -- right. exists r. split; [now left|]. split; [exact W|now apply same_endsb_spec].
                -- destruct Hinv as [Hinv|(r' & Hr' & W' & Se)]; [now left|]. right. exists r'. split; [now right|]. auto.
              * destruct Hinv as [Hinv|(r' & Hr' & W' & Se)]; [now left|]. right. exists r'. split; [now right|]. auto.
            + intros r' [[<-|Hr']|Hr']; apply Hsub; [right; now left|now left|right; now right]. }
        apply (G [] e e eq_refl); [now left|]. intros r [[]|Hr]. exact Hr.
      + left. rewrite !nth_overflow; [reflexivity|assumption|now rewrite map_length].
    - apply (edge_stage_eh A) in Es; [|discriminate|assumption]. destruct Es as (_ & _ & C & P & S). auto.
    - apply (edge_stage_eh A) in Es; [|discriminate|assumption]. destruct Es as (_ & _ & C & P & S). auto.
  Qed.

  (* --- statements ------------------------------------------------------------------------ *)
  (* block labels: attribute - 1, or the default label; index in range; block type of that label *)
  Lemma load_labels_thm v del units labels fmts nodes pbcs ages eles edges m :
    load_mesh A v del units labels fmts nodes pbcs ages eles edges = Loaded m ->
    length (m_elems m) = length eles /\
    forall i, (i < length eles)%nat ->
      let e := nth i (m_elems m) d_elem in let r := nth i eles d_row in
      el_p e = row_p r /\ el_lbl e = label_of labels (row_a r) /\
      0 <= el_lbl e < Z.of_nat (length labels) /\
      el_blk e = snd (nth (Z.to_nat (el_lbl e)) labels (false, 0)).
  Proof.
    intros H. apply load_elems in H. destruct H as (els0 & _ & L & R & _ & C & _ & _).
    assert (Hl : length (m_elems m) = length els0).
    { rewrite <- (map_length core), C. apply map_length. }
    split; [lia|]. intros i Hi. simpl.
    assert (Hc : core (nth i (m_elems m) d_elem) = core (nth i els0 d_elem)).
    { rewrite <- !(map_nth core). now rewrite C. }
    unfold core in Hc. inversion Hc as [[Hp Hb Hlb]]. destruct (R i Hi) as (R1 & _ & R3 & R4 & R5).
    rewrite Hp, Hb, Hlb. auto.
  Qed.

  (* an attribute that names no label is never accepted *)
  Lemma load_bad_attribute_thm v del units labels fmts nodes pbcs ages eles edges :
    (exists r, In r eles /\ ~ 0 <= label_of labels (row_a r) < Z.of_nat (length labels)) ->
    load_mesh A v del units labels fmts nodes pbcs ages eles edges = UB \/
    exists c rm, load_mesh A v del units labels fmts nodes pbcs ages eles edges = Failed c rm /\
                 (c = err_badpbcfile \/ c = err_missingmatprops \/ c = err_elmlabeltoobig).
  Proof.
    intros (r & Hr & Hbad). unfold load_mesh.
    destruct (unit_factor A v units) as [cf|]; [|now left]. right.
    destruct (existsb (existsb quad_negative) match v with VM => ages | _ => [] end); [eauto|].
    destruct (read_elems labels (default_label labels) eles) as [els0|c] eqn:Er.
    - exfalso. destruct (read_elems_ok _ _ _ Er) as [L R]. apply In_nth with (d := d_row) in Hr.
      destruct Hr as (i & Hi & <-). destruct (R i Hi) as (_ & _ & R3 & R4 & _). apply Hbad. now rewrite <- R3.
    - apply read_elems_code in Er. eauto.
  Qed.

  (* every corner index of a loaded mesh is a node index *)
  Lemma load_in_range_thm v del units labels fmts nodes pbcs ages eles edges m :
    load_mesh A v del units labels fmts nodes pbcs ages eles edges = Loaded m ->
    rows_in_range (length nodes) eles.
  Proof.
    intros H. apply load_elems in H. destruct H as (els0 & _ & L & R & Fa & _).
    unfold rows_in_range. apply Forall_forall. intros r Hr. apply In_nth with (d := d_row) in Hr.
    destruct Hr as (i & Hi & <-). destruct (R i Hi) as (R1 & _). rewrite <- R1.
    rewrite Forall_forall in Fa. apply (Fa (nth i els0 d_elem)). apply nth_In. lia.
  Qed.

  (* element sides: the last row of the .edge table with the same end nodes that writes *)
  Lemma load_side_mark_thm v del units labels fmts nodes pbcs ages eles edges m :
    load_mesh A v del units labels fmts nodes pbcs ages eles edges = Loaded m ->
    no_format2 v fmts edges ->
    forall i k, (i < length eles)%nat -> (k < 3)%nat ->
      smark (nth i (m_elems m) d_elem) k = last_mark (wj v) edges (side_p (row_p (nth i eles d_row)) k) (-1).
  Proof.
    intros H NF i k Hi Hk. apply load_elems in H. destruct H as (els0 & _ & L & R & _ & _ & P & _).
    rewrite (P NF).
    rewrite (nth_indep _ d_elem (fold_left (fun e r => row_gen (wj v) r e) edges d_elem)) by (rewrite map_length; lia).
    rewrite (map_nth (fun e => fold_left (fun e r => row_gen (wj v) r e) edges e)).
    destruct (fold_rows_side (wj v) edges (nth i els0 d_elem) k Hk) as [_ ->].
    destruct (R i Hi) as (R1 & R2 & _). rewrite side_side_p, R1. f_equal.
    unfold smark. rewrite R2. destruct k as [|[|k]]; reflexivity.
  Qed.

  (* no side is marked unless a row of the .edge table with its end nodes assigns that value (all variants, all formats) *)
  Lemma load_marked_side_is_listed_thm v del units labels fmts nodes pbcs ages eles edges m :
    load_mesh A v del units labels fmts nodes pbcs ages eles edges = Loaded m ->
    forall i k, (i < length eles)%nat -> (k < 3)%nat ->
      smark (nth i (m_elems m) d_elem) k = -1 \/
      exists r, In r edges /\ wj v r = Some (smark (nth i (m_elems m) d_elem) k) /\
                same_ends (side_p (row_p (nth i eles d_row)) k) (en0 r) (en1 r).
  Proof.
    intros H i k Hi Hk. apply load_elems in H. destruct H as (els0 & _ & L & R & _ & _ & _ & S).
    destruct (R i Hi) as (R1 & R2 & _).
    destruct (S i k Hk) as [Hs|(r & Hr & W & Se)].
    - left. rewrite Hs. unfold smark. rewrite R2. destruct k as [|[|k]]; reflexivity.
    - right. exists r. split; [exact Hr|]. split; [exact W|]. now rewrite <- R1, <- side_side_p.
  Qed.

  (* node table *)
  Lemma load_nodes_thm v del units labels fmts nodes pbcs ages eles edges m :
    load_mesh A v del units labels fmts nodes pbcs ages eles edges = Loaded m ->
    exists cf, unit_factor A v units = Some cf /\
    length (m_nodes m) = length nodes /\
    forall i, (i < length nodes)%nat ->
      let nd := nth i (m_nodes m) (d_node A) in let r := nth i nodes (d_nrow A) in
      nd_x nd = amul A (nrow_x r) cf /\ nd_y nd = amul A (nrow_y r) cf /\
      nd_bm nd = fst (node_marks v (nrow_m r)) /\
      nd_cond nd = match v with
                   | VM => -1
                   | _ => conds_after edges i (snd (dec_pt_z (nrow_m r)))
                   end.
  Proof.
    intros H. apply load_inv in H. destruct H as (cf & els0 & mbr & Eu & Er & Eb & Es & _ & _).
    exists cf. split; [exact Eu|]. apply build_mbr_of in Eb. destruct Eb as (M & _ & _).
    assert (Hrd : forall i, (i < length nodes)%nat ->
              nth i (map (read_node A v cf) nodes) (d_node A) = read_node A v cf (nth i nodes (d_nrow A))).
    { intros i Hi. rewrite (nth_indep _ (d_node A) (read_node A v cf (d_nrow A))) by now rewrite map_length. apply map_nth. }
    destruct v.
    - apply (edge_stage_m A) in Es; [|assumption]. inversion Es as [[Hn He]]. clear Es.
      rewrite Hn. split; [apply map_length|]. intros i Hi. simpl. rewrite (Hrd i Hi).
      destruct (nth i nodes (d_nrow A)) as [[x y] n]. simpl. auto.
    - apply (edge_stage_eh A) in Es; [|discriminate|assumption]. destruct Es as (L & N & _).
      split; [now rewrite L, map_length|]. intros i Hi. simpl. destruct (N i) as (X & Y & B & C).
      rewrite X, Y, B, C, (Hrd i Hi). destruct (nth i nodes (d_nrow A)) as [[x y] n]. simpl. auto.
    - apply (edge_stage_eh A) in Es; [|discriminate|assumption]. destruct Es as (L & N & _).
      split; [now rewrite L, map_length|]. intros i Hi. simpl. destruct (N i) as (X & Y & B & C).
      rewrite X, Y, B, C, (Hrd i Hi). destruct (nth i nodes (d_nrow A)) as [[x y] n]. simpl. auto.
  Qed.

  Lemma conds_after_untouched rows i c0 :
    (forall r, In r rows -> snd (dec_seg_z (snd r)) < 0 \/ (en0 r <> Z.of_nat i /\ en1 r <> Z.of_nat i)) ->
    conds_after rows i c0 = c0.
  Proof.
    unfold conds_after. revert c0. induction rows as [|r t IH]; intros c0 H; simpl; [reflexivity|].
    rewrite IH by (intros r' Hr'; apply H; now right).
    destruct r as [[n0 n1] mk0]. unfold cond_row. specialize (H (n0, n1, mk0) (or_introl eq_refl)).
    unfold en0, en1 in H. cbn [fst snd] in H.
    destruct (Z.leb_spec 0 (snd (dec_seg_z mk0))); cbn [andb]; [|reflexivity].
    destruct H as [H|[H1 H2]]; [lia|].
    destruct (Z.eqb_spec (Z.of_nat i) n0); [congruence|]. destruct (Z.eqb_spec (Z.of_nat i) n1); [congruence|]. reflexivity.
  Qed.

  (* pbc pairs and air-gap quad nodes are copied *)
  Lemma load_pbc_thm v del units labels fmts nodes pbcs ages eles edges m :
    load_mesh A v del units labels fmts nodes pbcs ages eles edges = Loaded m ->
    m_pbcs m = pbcs /\ m_ages m = (match v with VM => ages | _ => [] end) /\
    (v = VM -> forall a q, In a ages -> In q a -> quad_negative q = false).
  Proof.
    intros H. pose proof (load_inv _ _ _ _ _ _ _ _ _ _ _ H) as (cf & els0 & mbr & _ & _ & _ & _ & Hp & Ha).
    split; [exact Hp|]. split; [exact Ha|]. intros -> a q Hin Hq.
    unfold load_mesh in H. destruct (unit_factor A VM units); [|discriminate].
    destruct (existsb (existsb quad_negative) ages) eqn:E; [discriminate|].
    destruct (quad_negative q) eqn:Eq; [|reflexivity]. exfalso.
    assert (existsb (existsb quad_negative) ages = true); [|congruence].
    apply existsb_exists. exists a. split; [exact Hin|]. apply existsb_exists. exists q. auto.
  Qed.
End Whole.

(* ------------------------------------------------------------------------------------------ *)
(* composition with the codec (MarkerProofs.v) and the "listed once" reading                    *)
(* ------------------------------------------------------------------------------------------ *)
Lemma dec_pt_z_enc p c : prop_ok p -> cond_ok c -> dec_pt_z (enc_pt p c) = (o2z p, o2z c).
Proof. intros Hp Hc. unfold dec_pt_z. now rewrite (dec_enc_pt p c Hp Hc). Qed.

Lemma dec_seg_z_enc p c : prop_ok p -> cond_ok c -> dec_seg_z (enc_seg p c) = (o2z p, o2z c).
Proof. intros Hp Hc. unfold dec_seg_z. now rewrite (dec_enc_seg p c Hp Hc). Qed.

Lemma wj_eh_enc a b p c : prop_ok p -> cond_ok c -> wj_eh (a, b, enc_seg p c) = p.
Proof.
  intros Hp Hc. unfold wj_eh. cbn [snd]. rewrite (dec_seg_z_enc p c Hp Hc). cbn [fst].
  destruct p as [j|]; simpl in *; [|reflexivity]. destruct (Z.leb_spec 0 j); [reflexivity|lia].
Qed.

Definition prop_ok_mag (p : option Z) : Prop := match p with Some j => 0 <= j < 2 ^ 31 - 2 | None => True end.

Lemma wj_m_enc a b p : prop_ok_mag p -> wj_m (a, b, enc_seg_mag p) = p.
Proof.
  intros Hp. unfold wj_m, enc_seg_mag, oz, enc_offset, dec_offset_mag. cbn [snd].
  destruct p as [j|]; simpl in Hp.
  - rewrite (wrap32_small (- (j + 2))) by lia. destruct (Z.ltb_spec (- (j + 2)) 0); [|lia].
    f_equal. replace (- (- (j + 2) + 2)) with j by lia. apply wrap32_small. lia.
  - reflexivity.
Qed.

Section Composed.
  Context {F : Type} (A : Arith F).

  (* esolver / hsolver: the node carries the point property and the conductor the mesher encoded *)
  Lemma load_node_codec_eh_thm v del units labels fmts nodes pbcs ages eles edges m i p c :
    v <> VM -> load_mesh A v del units labels fmts nodes pbcs ages eles edges = Loaded m ->
    (i < length nodes)%nat -> nrow_m (nth i nodes (d_nrow A)) = enc_pt p c -> prop_ok p -> cond_ok c ->
    nd_bm (nth i (m_nodes m) (d_node A)) = o2z p /\
    nd_cond (nth i (m_nodes m) (d_node A)) = conds_after edges i (o2z c) /\
    ((forall r, In r edges -> snd (dec_seg_z (snd r)) < 0 \/ (en0 r <> Z.of_nat i /\ en1 r <> Z.of_nat i)) ->
     nd_cond (nth i (m_nodes m) (d_node A)) = o2z c).
  Proof.
    intros Hv H Hi Hm Hp Hc. apply load_nodes_thm in H. destruct H as (cf & _ & _ & N).
    destruct (N i Hi) as (_ & _ & B & C). rewrite Hm in B, C.
    assert (node_marks v (enc_pt p c) = dec_pt_z (enc_pt p c)) as Hnm by (destruct v; [contradiction| |]; reflexivity).
    rewrite Hnm, (dec_pt_z_enc p c Hp Hc) in B. rewrite (dec_pt_z_enc p c Hp Hc) in C. cbn [fst snd] in *.
    assert (nd_cond (nth i (m_nodes m) (d_node A)) = conds_after edges i (o2z c)) as C'
      by (destruct v; [contradiction| |]; exact C).
    split; [exact B|]. split; [exact C'|]. intros Hu. rewrite C'. now apply conds_after_untouched.
  Qed.

  (* fsolver *)
  Lemma load_node_codec_m_thm del units labels fmts nodes pbcs ages eles edges m i p :
    load_mesh A VM del units labels fmts nodes pbcs ages eles edges = Loaded m ->
    (i < length nodes)%nat -> nrow_m (nth i nodes (d_nrow A)) = enc_pt_mag p -> prop_ok_mag p ->
    nd_bm (nth i (m_nodes m) (d_node A)) = o2z p /\ nd_cond (nth i (m_nodes m) (d_node A)) = -1.
  Proof.
    intros H Hi Hm Hp. apply load_nodes_thm in H. destruct H as (cf & _ & _ & N).
    destruct (N i Hi) as (_ & _ & B & C). rewrite Hm in B. split; [|exact C].
    rewrite B. cbn [node_marks fst]. unfold dec_pt_mag_z. now rewrite (dec_enc_pt_mag p Hp).
  Qed.

  (* every edge listed once: a side carries what the row with its end nodes assigns, and nothing otherwise *)
  Lemma load_side_iff_thm v del units labels fmts nodes pbcs ages eles edges m :
    load_mesh A v del units labels fmts nodes pbcs ages eles edges = Loaded m ->
    no_format2 v fmts edges -> NoDup (map norm edges) ->
    forall i k, (i < length eles)%nat -> (k < 3)%nat ->
      let s := side_p (row_p (nth i eles d_row)) k in
      (forall r, In r edges -> same_ends s (en0 r) (en1 r) ->
         smark (nth i (m_elems m) d_elem) k = match wj v r with Some j => j | None => -1 end) /\
      ((forall r, In r edges -> ~ same_ends s (en0 r) (en1 r)) -> smark (nth i (m_elems m) d_elem) k = -1).
  Proof.
    intros H NF ND i k Hi Hk s. rewrite (load_side_mark_thm A _ _ _ _ _ _ _ _ _ _ _ H NF i k Hi Hk). fold s. split.
    - intros r Hr Hs. now apply last_mark_listed.
    - intros Hn. now apply last_mark_unlisted.
  Qed.

  (* esolver / hsolver, one row with a format-2 property: only the first element that owns the edge *)
  Lemma load_format2_thm v del units labels fmts nodes pbcs ages eles n0 n1 mk0 j m :
    v <> VM -> load_mesh A v del units labels fmts nodes pbcs ages eles [(n0, n1, mk0)] = Loaded m ->
    wj_eh (n0, n1, mk0) = Some j -> stopb (stops_of v) (nth (Z.to_nat j) fmts 0) = true ->
    exists els0, read_elems labels (default_label labels) eles = inl els0 /\
      m_elems m = match first_hit n0 n1 els0 0 with
                  | Some i => lupd els0 i (mk n0 n1 j (nth i els0 d_elem))
                  | None => els0
                  end.
  Proof.
    intros Hv H W Hf. apply load_inv in H. destruct H as (cf & els0 & mbr & _ & Er & Eb & Es & _ & _).
    exists els0. split; [exact Er|]. apply build_mbr_of in Eb. destruct Eb as (M & _ & _).
    cbn [edge_stage] in Es. destruct (edge_step A v fmts mbr (map (read_node A v cf) nodes, els0) (n0, n1, mk0)) as [[nds1 els1]|] eqn:E;
      [|discriminate].
    inversion Es; subst; clear Es. apply (edge_step_eh A) in E; try assumption. destruct E as [_ E].
    unfold eh_elems_after_row in E. unfold wj_eh in W. cbn [snd] in W.
    destruct (0 <=? fst (dec_seg_z mk0)); [|discriminate].
    apply (f_equal (fun o => match o with Some x => x | None => 0 end)) in W. cbv beta iota in W.
    rewrite W in E. rewrite Hf in E. exact E.
  Qed.
End Composed.

(* ------------------------------------------------------------------------------------------ *)
(* witnesses                                                                                    *)
(* ------------------------------------------------------------------------------------------ *)
Section Witnesses.
  Context {F : Type} (A : Arith F).
  Let z := azero A.

  (* nmbr[meshele[i].p[j]]++ with a corner index outside meshnode: no check *)
  Lemma ub_element_corner_thm : exists v nodes eles,
    ~ rows_in_range (length nodes) eles /\
    load_mesh A v false 1 [(false, 0)] [] nodes [] [] eles [] = UB.
  Proof.
    exists VE, [(z, z, 0)], [(0, 1, 0, 1)]. split; [|reflexivity].
    intros H. inversion H as [|? ? H1 _]; subst. simpl in H1. lia.
  Qed.

  (* lineproplist[j] with the boundary-property index of an .edge marker: no check *)
  Lemma ub_lineprop_index_thm : exists v fmts nodes eles edges,
    rows_in_range (length nodes) eles /\
    (forall r, In r edges -> 0 <= en0 r < Z.of_nat (length nodes) /\ 0 <= en1 r < Z.of_nat (length nodes)) /\
    load_mesh A v false 1 [(false, 0)] fmts nodes [] [] eles edges = UB.
  Proof.
    exists VE, [0], [(z, z, 0); (z, z, 0); (z, z, 0)], [(0, 1, 2, 1)], [(0, 1, -3)].
    split; [repeat constructor; simpl; lia|]. split; [|reflexivity].
    intros r [<-|[]]. unfold en0, en1. simpl. lia.
  Qed.

  (* meshnode[n1].InConductor=n with a node index of the .edge file: no check *)
  Lemma ub_edge_node_thm : exists v nodes eles edges,
    rows_in_range (length nodes) eles /\
    load_mesh A v false 1 [(false, 0)] [0] nodes [] [] eles edges = UB.
  Proof.
    exists VH, [(z, z, 0); (z, z, 0); (z, z, 0)], [(0, 1, 2, 1)], [(0, 7, -65536)].
    split; [repeat constructor; simpl; lia|reflexivity].
  Qed.

  Lemma ub_edge_node_mag_thm : exists nodes eles edges,
    rows_in_range (length nodes) eles /\
    load_mesh A VM false 1 [(false, 0)] [] nodes [] [] eles edges = UB.
  Proof.
    exists [(z, z, 0); (z, z, 0); (z, z, 0)], [(0, 1, 2, 1)], [(5, 0, -2)].
    split; [repeat constructor; simpl; lia|reflexivity].
  Qed.

  (* a point in conductor 1 at the end of a line in conductor 0 ends up in conductor 0 *)
  Lemma segment_conductor_overrides_point_thm : exists nodes eles edges m,
    nrow_m (nth 0 nodes (d_nrow A)) = enc_pt None (Some 1) /\
    In (0, 1, enc_seg None (Some 0)) edges /\
    load_mesh A VE false 1 [(false, 0)] [0] nodes [] [] eles edges = Loaded m /\
    nd_cond (nth 0 (m_nodes m) (d_node A)) = 0.
  Proof.
    exists [(z, z, enc_pt None (Some 1)); (z, z, 0); (z, z, 0)], [(0, 1, 2, 1)], [(0, 1, enc_seg None (Some 0))].
    eexists. split; [reflexivity|]. split; [now left|]. split; reflexivity.
  Qed.

  (* format 2 on an edge shared by two elements: the second owner stays unmarked *)
  Lemma format2_second_owner_unmarked_thm : exists v nodes eles edges m,
    side_p (row_p (nth 0 eles d_row)) 0 = (0, 1) /\ side_p (row_p (nth 1 eles d_row)) 0 = (1, 0) /\
    edges = [(0, 1, enc_seg (Some 0) None)] /\
    load_mesh A v false 1 [(false, 0)] [2] nodes [] [] eles edges = Loaded m /\
    smark (nth 0 (m_elems m) d_elem) 0 = 0 /\ smark (nth 1 (m_elems m) d_elem) 0 = -1.
  Proof.
    exists VH, [(z, z, 0); (z, z, 0); (z, z, 0); (z, z, 0)], [(0, 1, 2, 1); (1, 0, 3, 1)], [(0, 1, enc_seg (Some 0) None)].
    eexists. repeat split; reflexivity.
  Qed.

  (* fsolver: a later row with marker -1 for the same edge erases the assignment *)
  Lemma mag_minus_one_erases_thm : exists nodes eles edges m,
    edges = [(0, 1, enc_seg_mag (Some 1)); (1, 0, -1)] /\
    load_mesh A VM false 1 [(false, 0)] [] nodes [] [] eles edges = Loaded m /\
    side_p (row_p (nth 0 eles d_row)) 0 = (0, 1) /\ smark (nth 0 (m_elems m) d_elem) 0 = -1.
  Proof.
    exists [(z, z, 0); (z, z, 0); (z, z, 0)], [(0, 1, 2, 1)], [(0, 1, enc_seg_mag (Some 1)); (1, 0, -1)].
    eexists. repeat split; reflexivity.
  Qed.
End Witnesses.
