(* ContourInt.v — executable model of the contour bookkeeping and of the contour (line) integrals of the
   three post-processors.

   Mirrors, statement by statement,
     cfemm/libfemm/PostProcessor.cpp : PostProcessor::addContourPoint, PostProcessor::bendContour
                                       (== FPProc::BendContour, == the push_back of femmcli's mo_addcontour)
     cfemm/epproc/epproc.cpp         : ElectrostaticsPostProcessor::lineIntegral, inttype 0..4
     cfemm/hpproc/hpproc.cpp         : HPProc::lineIntegral, inttype 0..3
     cfemm/fpproc/fpproc.cpp         : FPProc::LineIntegral, inttype 0..5 (static and harmonic branches)

   The sampled integrals have the same loop in every copy:
       for(k=1;k<contour.size();k++){
         dz=abs(contour[k]-contour[k-1])/((double) NumPlotPoints);
         for(i=0,elm=-1;i<NumPlotPoints;i++){
           u=(((double) i)+0.5)/((double) NumPlotPoints);
           pt=contour[k-1] + u*(contour[k] - contour[k-1]);
           t=contour[k]-contour[k-1];  t/=abs(t);  n=I*t;  pt+=n*1.e-06;      (HPProc inttype 3: no shift)
           <element lookup: elm>          [lookup]
           if(elm>=0) flag=getPointValues(pt.re,pt.im,elm,v); else flag=false;
           if(flag) <accumulate>  } }
   The model splits this into
     - the run of the lookup ([contour_run]: sample point and element index of every sample, threading
       `elm` along a segment and the function-local `static int k` of InTriangle along the whole run), and
     - the accumulation ([cont_sum] of a per-sample term), which reads the point values of the samples from a
       table [tab] (one row per segment, one entry per sample, None = flag false).  The point values
       themselves (getPointValues: smoothing, materials, AECF) are Locate.v's subject and enter as data.
   The accumulators of one loop are independent of each other, so each is modelled as its own sum.
   No proofs in this file. *)
From Coq Require Import ZArith List Bool Arith.
From XF Require Import Arith Locate.
Import ListNotations.

(* ---------------------------------------------------------------------------------------------------- *)
(* generic: sums over the samples of a contour                                                          *)
(* ---------------------------------------------------------------------------------------------------- *)
Section Sums.
  Context {P T V : Type} (add : T -> T -> T).

  (* consecutive pairs (contour[k-1], contour[k]), k = 1 .. size-1 *)
  Fixpoint pairs (c : list P) : list (P * P) :=
    match c with
    | a :: ((b :: _) as r) => (a, b) :: pairs r
    | _ => []
    end.

  (* the i-loop: i = 0 .. N-1; vs = point values of the samples of this segment (None: flag == false) *)
  Definition seg_sum (N : nat) (term : nat -> V -> T) (vs : list (option V)) (acc : T) : T :=
    fold_left (fun acc i => match nth i vs None with
                            | None => acc
                            | Some v => add acc (term i v)
                            end) (seq 0 N) acc.

  (* the k-loop *)
  Fixpoint cont_sum (N : nat) (term : P -> P -> nat -> V -> T) (ps : list (P * P))
           (tab : list (list (option V))) (acc : T) : T :=
    match ps with
    | [] => acc
    | (a, b) :: r => cont_sum N term r (tl tab) (seg_sum N (term a b) (hd [] tab) acc)
    end.
End Sums.

Section Contour.
  Context {F : Type} (A : Arith F).
  Local Notation "x +. y" := (aadd A x y) (at level 50, left associativity).
  Local Notation "x -. y" := (asub A x y) (at level 50, left associativity).
  Local Notation "x *. y" := (amul A x y) (at level 40, left associativity).
  Local Notation "x /. y" := (adiv A x y) (at level 40, left associativity).
  Local Notation zero := (azero A).
  Local Notation one := (aone A).
  Local Notation C := (F * F)%type.
  Local Notation "# z" := (aofZ A z) (at level 5).

  Definition czero : C := (zero, zero).
  (* operator*( double x, const CComplex& y ) : ( x*y.re, x*y.im ) *)
  Definition dmulc (d : F) (z : C) : C := (d *. fst z, d *. snd z).
  (* CComplex::operator*( double z ) : (re*z, im*z) ; CComplex::operator/( double ) = cdivr *)
  Definition cmuld (z : C) (d : F) : C := (fst z *. d, snd z *. d).
  (* `I` is the macro CComplex(0,1); I*t is CComplex*CComplex *)
  Definition cI : C := (zero, one).

  (* ------------------------------------------------------------------------------------------------ *)
  (* contour bookkeeping                                                                              *)
  (* ------------------------------------------------------------------------------------------------ *)
  (* PostProcessor::addContourPoint: if (contour.empty() || p!=contour.back()) contour.push_back(p);
     (CComplex::operator!= : (z.re!=re) || (z.im!=im)) *)
  Definition add_contour_point (c : list C) (p : C) : list C :=
    match rev c with
    | [] => [p]
    | l :: _ => if ceqb A p l then c else c ++ [p]
    end.

  (* PostProcessor::bendContour(angle, anglestep) / FPProc::BendContour.  The libm values enter as data:
       n     = (int) ceil(fabs(angle/anglestep))            (after `if (anglestep==0) anglestep=1;`)
       sn    = sin(fabs(tta/2.))                             tta = angle*PI/180.
       e0    = exp(I*(PI-tta)/2.)  resp.  exp(-I*(PI+tta)/2.)
       es[k-1] = exp(k * I * dtta), k = 1..n                 dtta = tta/((double) n)
     `pos` says whether tta>0.  The early exits (angle==0, fewer than two points, |angle|>180) return the
     contour unchanged. *)
  Definition bend_contour (c : list C) (angle : F) (sn : F) (e0 : C) (es : list C) : list C :=
    if aeqb A angle zero then c
    else
      match rev c with
      | a1 :: a0 :: r =>
          if altb A angle (aneg A #180) || altb A #180 angle then c
          else
            let d := cabsf A (csub A a1 a0) in                        (* d = abs(a1-a0) *)
            let R := d /. (#2 *. sn) in                               (* R = d / ( 2. * sin(fabs(tta/2.)) ) *)
            (* c = a0 + (R/d) * (a1-a0) * exp(...) : ((R/d)*(a1-a0)) * e0, then a0 + ... *)
            let ctr := cadd A a0 (cmul A (dmulc (R /. d) (csub A a1 a0)) e0) in
            (* contour.push_back( c + (a0 - c) * exp(k * I * dtta) ) *)
            rev (a0 :: r) ++ map (fun e => cadd A ctr (cmul A (csub A a0 ctr) e)) es
      | _ => c
      end.

  (* ------------------------------------------------------------------------------------------------ *)
  (* geometry of one sample                                                                           *)
  (* ------------------------------------------------------------------------------------------------ *)
  Section Sampling.
    Variable N : nat.                                   (* NumPlotPoints = d_LineIntegralPoints *)
    Definition NF : F := # (Z.of_nat N).                (* ((double) NumPlotPoints) *)

    (* dz=abs(contour[k]-contour[k-1])/((double) NumPlotPoints); *)
    Definition seg_dz (a b : C) : F := cabsf A (csub A b a) /. NF.
    (* u=(((double) i)+0.5)/((double) NumPlotPoints); *)
    Definition samp_u (i : nat) : F := (# (Z.of_nat i) +. adec A 5 (-1)) /. NF.
    (* pt=contour[k-1] + u*(contour[k] - contour[k-1]); *)
    Definition samp_base (a b : C) (i : nat) : C := cadd A a (dmulc (samp_u i) (csub A b a)).
    (* t=contour[k]-contour[k-1]; t/=abs(t); *)
    Definition seg_t (a b : C) : C := let t := csub A b a in cdivr A t (cabsf A t).
    (* n=I*t; *)
    Definition seg_n (a b : C) : C := cmul A cI (seg_t a b).
    (* pt+=n*1.e-06; *)
    Definition samp_pt (a b : C) (i : nat) : C := cadd A (samp_base a b i) (cmuld (seg_n a b) (adec A 1 (-6))).

    (* ---------------------------------------------------------------------------------------------- *)
    (* element lookup                                                                                 *)
    (* ---------------------------------------------------------------------------------------------- *)
    Variable M : mesh F.
    Variable test : mesh F -> F -> F -> Z -> bool.      (* InTriangleTest of the class at hand *)
    Variable con : list (list Z).                       (* ConList[node][0 .. NumList[node]-1] *)

    Definition conl (nd : nat) : list Z := nth nd con [].
    (* meshelems[elm]->p[j] *)
    Definition enode (elm : Z) (j : nat) : nat :=
      let e := gete A (elems M) elm in
      match j with 0 => p0 e | 1 => p1 e | _ => p2 e end.

    (*  flag=false;
        for(j=0;j<3;j++)
          for(m=0;j<3 && m<NumList[meshelems[elm]->p[j]];m++){
            elm=ConList[meshelems[elm]->p[j]][m];
            if (InTriangleTest(pt.re,pt.im,elm)) { flag=true; m=100; j=3; } }
        NOTE: `elm` is overwritten inside the loop, so the node whose list is walked and the loop bound
        change as the walk proceeds (the elements visited are not "the neighbours of the old element");
        modelled as written.  FPProc::LineIntegral inttype 5 has the inner loop without `j<3 &&`: after a
        hit it evaluates NumList[meshelem[elm].p[3]] (one past the array p[3]) before leaving; the model
        takes the exit that the other copies take.  Returns (elm, flag). *)
    Fixpoint nwalk (fuel : nat) (x y : F) (elm : Z) (j m : nat) : Z * bool :=
      match fuel with
      | O => (elm, false)
      | S f =>
          if Nat.ltb j 3 then
            let l := conl (enode elm j) in
            if Nat.ltb m (length l) then
              let elm' := nth m l (-1)%Z in
              if test M x y elm' then (elm', true) else nwalk f x y elm' j (S m)
            else nwalk f x y elm (S j) 0
          else (elm, false)
      end.
    (* every step increases m (bounded by the longest list) or j (bounded by 3) *)
    Definition nwalk_fuel : nat := 3 * S (fold_right Nat.max 0 (map (@length Z) con)) + 1.

    (*  if (elm<0) elm=InTriangle(pt.re,pt.im);
        else if (!InTriangleTest(pt.re,pt.im,elm)) { <walk>; if (!flag) elm=InTriangle(pt.re,pt.im); }
        state: (elm, static k of InTriangle) *)
    Definition lookup (st : Z * Z) (pt : C) : Z * Z :=
      let '(elm, k) := st in
      if (elm <? 0)%Z then in_triangle A test M k (fst pt) (snd pt)
      else if test M (fst pt) (snd pt) elm then (elm, k)
      else
        let '(e', flag) := nwalk nwalk_fuel (fst pt) (snd pt) elm 0 0 in
        if flag then (e', k) else in_triangle A test M k (fst pt) (snd pt).

    (* one segment: samples i = 0..N-1 starting from elm = -1; returns the (pt, elm) of every sample and
       the static k afterwards.  shift = false: HPProc inttype 3 (no `pt+=n*1.e-06`) *)
    Definition seg_run (shift : bool) (a b : C) (k : Z) : list (C * Z) * Z :=
      let r := fold_left (fun (s : list (C * Z) * (Z * Z)) i =>
                            let pt := if shift then samp_pt a b i else samp_base a b i in
                            let st := lookup (snd s) pt in
                            ((pt, fst st) :: fst s, st)) (seq 0 N) ([], ((-1)%Z, k)) in
      (rev (fst r), snd (snd r)).

    Fixpoint contour_run (shift : bool) (ps : list (C * C)) (k : Z) : list (list (C * Z)) :=
      match ps with
      | [] => []
      | (a, b) :: r => let '(row, k') := seg_run shift a b k in row :: contour_run shift r k'
      end.

    (* flag of a sample: elm >= 0 (getPointValues(x,y,k,v) returns true in HPProc / FPProc, is void in
       ElectrostaticsPostProcessor) *)
    Definition mask_row {V : Type} (row : list (C * Z)) (vs : list V) : list (option V) :=
      map (fun pv => if (snd (fst pv) <? 0)%Z then None else Some (snd pv)) (combine row vs).
    Definition mask_tab {V : Type} (run : list (list (C * Z))) (vals : list (list V)) : list (list (option V)) :=
      map (fun rv => mask_row (fst rv) (snd rv)) (combine run vals).

    (* ---------------------------------------------------------------------------------------------- *)
    (* problem data the integrands read                                                               *)
    (* ---------------------------------------------------------------------------------------------- *)
    Variable axi : bool.                  (* problemType==AXISYMMETRIC *)
    Variable lc : F.                      (* LengthConv[LengthUnits] *)
    Variable depth : F.                   (* Depth *)

    (* d of inttype 1 (epproc, hpproc) and HPProc 3:
         AXISYMMETRIC: d=2.*PI*pt.re*sqr(LengthConv);   else d=Depth*LengthConv; *)
    Definition surf_d (pt : C) : F :=
      if axi then #2 *. api A *. fst pt *. (lc *. lc) else depth *. lc.

    (* contour length / swept area (inttype 2 of all three; the l of FPProc inttype 0, 1, 5) *)
    Definition len_sum (c : list C) : F :=
      fold_left (fun s p => s +. cabsf A (csub A (snd p) (fst p))) (pairs c) zero.
    (* results[1]+=(PI*(contour[i].re+contour[i+1].re)*abs(contour[i+1]-contour[i])); *)
    Definition area_sum (c : list C) : F :=
      fold_left (fun s p => s +. api A *. (fst (fst p) +. fst (snd p)) *. cabsf A (csub A (snd p) (fst p))) (pairs c) zero.
    (* inttype 2: results[0]=sum*LengthConv; results[1]= axisymmetric ? area_sum*sqr(LengthConv) : results[0]*Depth
       (hpproc / fpproc write pow(LengthConv,2.), which g++ evaluates as a product) *)
    Definition line_length (c : list C) : F * F :=
      let l := len_sum c *. lc in
      (l, if axi then area_sum c *. (lc *. lc) else l *. depth).

    (* ============================== electrostatics ================================================ *)
    (* point values of a sample: (D, E) *)
    Local Notation EV := (C * C)%type.

    (* inttype 1: Dn = Re(v.D/n); results[0]+=(Dn*dz*d); results[1]+=dz*d; *)
    Definition e_dn_term (a b : C) (i : nat) (v : EV) : F :=
      fst (cdiv A (fst v) (seg_n a b)) *. seg_dz a b *. surf_d (samp_pt a b i).
    Definition wt_term {V : Type} (a b : C) (i : nat) (v : V) : F := seg_dz a b *. surf_d (samp_pt a b i).

    (* the Maxwell stress of inttype 3 / 4:
         Hn= Re(v.E/n); Bn= Re(v.D/n); BH= Re(v.D*conj(v.E));
         dF1=v.E.re*Bn + v.D.re*Hn - n.re*BH;   dF2=v.E.im*Bn + v.D.im*Hn - n.im*BH;   *)
    Definition e_dF (a b : C) (v : EV) : F * F :=
      let n := seg_n a b in
      let D := fst v in let E := snd v in
      let Hn := fst (cdiv A E n) in
      let Bn := fst (cdiv A D n) in
      let BH := fst (cmul A D (cconj A E)) in
      (fst E *. Bn +. fst D *. Hn -. fst n *. BH, snd E *. Bn +. snd D *. Hn -. snd n *. BH).
    (* dza=dz*LengthConv; AXISYMMETRIC: dza*=2.*PI*pt.re*LengthConv; dF1=0;  else dza*=Depth; *)
    Definition force_dza (a b : C) (i : nat) : F :=
      let dza := seg_dz a b *. lc in
      if axi then dza *. (#2 *. api A *. fst (samp_pt a b i) *. lc) else dza *. depth.
    (* results[0]+=(dF1*dza/2.); results[1]+=(dF2*dza/2.); *)
    Definition e_f1_term (a b : C) (i : nat) (v : EV) : F :=
      (if axi then zero else fst (e_dF a b v)) *. force_dza a b i /. #2.
    Definition e_f2_term (a b : C) (i : nat) (v : EV) : F := snd (e_dF a b v) *. force_dza a b i /. #2.
    (* dT= pt.re*dF2 - dF1*pt.im; dza=dz*sqr(LengthConv); results[0]+=(dT*dza*Depth/2.); *)
    Definition e_tq_term (a b : C) (i : nat) (v : EV) : F :=
      let pt := samp_pt a b i in
      let dF := e_dF a b v in
      (fst pt *. snd dF -. fst dF *. snd pt) *. (seg_dz a b *. (lc *. lc)) *. depth /. #2.

    Definition rsum {V : Type} (term : C -> C -> nat -> V -> F) (c : list C) (tab : list (list (option V))) : F :=
      cont_sum (aadd A) N term (pairs c) tab zero.

    (* ElectrostaticsPostProcessor::lineIntegral(intType, results); V0, V1 = u.V of getPointValues at
       contour[0] and contour[k-1] (inttype 0); results start as {0,0} (femmcli) *)
    Definition e_line (t : nat) (c : list C) (tab : list (list (option EV))) (V0 V1 : F) : F * F :=
      match t with
      | 0 => (V0 -. V1, zero)
      | 1 => let r0 := rsum e_dn_term c tab in
             let r1 := rsum wt_term c tab in
             (r0, r0 /. r1)                                      (* results[1]=results[0]/results[1]; *)
      | 2 => line_length c
      | 3 => (rsum e_f1_term c tab, rsum e_f2_term c tab)
      | 4 => (rsum e_tq_term c tab, zero)
      | _ => (zero, zero)
      end.

    (* ================================= heat flow ================================================== *)
    (* point values of a sample: (F, T) *)
    Local Notation HV := (C * F)%type.
    (* inttype 1: Fn = Re(v.F/n); z[0]+=(Fn*dz*d); z[1]+=dz*d; *)
    Definition h_fn_term (a b : C) (i : nat) (v : HV) : F :=
      fst (cdiv A (fst v) (seg_n a b)) *. seg_dz a b *. surf_d (samp_pt a b i).
    (* inttype 3 (samples NOT shifted): z[0]+=(v.T*dz*d); z[1]+=dz*d; *)
    Definition h_t_term (a b : C) (i : nat) (v : HV) : F := snd v *. seg_dz a b *. surf_d (samp_base a b i).
    Definition h_w_term (a b : C) (i : nat) (v : HV) : F := seg_dz a b *. surf_d (samp_base a b i).

    Definition h_line (t : nat) (c : list C) (tab : list (list (option HV))) (T0 T1 : F) : F * F :=
      match t with
      | 0 => (T0 -. T1, zero)
      | 1 => let r0 := rsum h_fn_term c tab in
             let r1 := rsum wt_term c tab in
             (r0, r0 /. r1)                                      (* z[1]=z[0]/z[1]; *)
      | 2 => line_length c
      | 3 => let r0 := rsum h_t_term c tab in
             let r1 := rsum h_w_term c tab in
             (r0 /. r1, r1)                                      (* z[0]=z[0]/z[1]; *)
      | _ => (zero, zero)
      end.

    (* ================================= magnetics ================================================== *)
    (* point values of a sample: ((B1, B2), (H1, H2)), all complex *)
    Local Notation MV := ((C * C) * (C * C))%type.
    Variable harmonic : bool.             (* Frequency!=0 *)

    Definition csum {V : Type} (term : C -> C -> nat -> V -> C) (c : list C) (tab : list (list (option V))) : C :=
      cont_sum (cadd A) N term (pairs c) tab czero.

    (* inttype 1: Ht = t.re*v.H1 + t.im*v.H2;  z[0]+=(Ht*dz*LengthConv); *)
    Definition m_ht_term (a b : C) (i : nat) (v : MV) : C :=
      let t := seg_t a b in
      let Ht := cadd A (dmulc (fst t) (fst (snd v))) (dmulc (snd t) (snd (snd v))) in
      cmuld (cmuld Ht (seg_dz a b)) lc.
    (* inttype 5: Ht = n.re*B1 + n.im*B2;  z[0] += (Ht * Ht.Conj() * dz * LengthConv); *)
    Definition m_bn (a b : C) (v : MV) : C :=
      let n := seg_n a b in cadd A (dmulc (fst n) (fst (fst v))) (dmulc (snd n) (snd (fst v))).
    Definition m_bn2_term (a b : C) (i : nat) (v : MV) : C :=
      let Ht := m_bn a b v in
      cmuld (cmuld (cmul A Ht (cconj A Ht)) (seg_dz a b)) lc.

    (* Hn= n.re*v.H1 + n.im*v.H2; Bn= n.re*v.B1 + n.im*v.B2; BH= v.B1*v.H1 + v.B2*v.H2;
       dF1=v.H1*Bn + v.B1*Hn - n.re*BH;  dF2=v.H2*Bn + v.B2*Hn - n.im*BH; *)
    Definition m_Hn (a b : C) (v : MV) : C :=
      let n := seg_n a b in cadd A (dmulc (fst n) (fst (snd v))) (dmulc (snd n) (snd (snd v))).
    Definition m_dF (a b : C) (v : MV) : C * C :=
      let n := seg_n a b in
      let '((B1, B2), (H1, H2)) := v in
      let Hn := m_Hn a b v in
      let Bn := m_bn a b v in
      let BH := cadd A (cmul A B1 H1) (cmul A B2 H2) in
      (csub A (cadd A (cmul A H1 Bn) (cmul A B1 Hn)) (dmulc (fst n) BH),
       csub A (cadd A (cmul A H2 Bn) (cmul A B2 Hn)) (dmulc (snd n) BH)).
    (* the second (conjugated) stress of the harmonic branch:
       BH  = v.B1*v.H1.Conj() +v.B2*v.H2.Conj();
       dF1 = v.H1*Bn.Conj() + v.B1*Hn.Conj() - n.re*BH;   dF2=  v.H2*Bn.Conj() + v.B2*Hn.Conj() - n.im*BH; *)
    Definition m_dFc (a b : C) (v : MV) : C * C :=
      let n := seg_n a b in
      let '((B1, B2), (H1, H2)) := v in
      let Hn := m_Hn a b v in
      let Bn := m_bn a b v in
      let BH := cadd A (cmul A B1 (cconj A H1)) (cmul A B2 (cconj A H2)) in
      (csub A (cadd A (cmul A H1 (cconj A Bn)) (cmul A B1 (cconj A Hn))) (dmulc (fst n) BH),
       csub A (cadd A (cmul A H2 (cconj A Bn)) (cmul A B2 (cconj A Hn))) (dmulc (snd n) BH)).
    (* z[0]+=(dF1*dza/2.) (static) resp. /4. (harmonic); AXISYMMETRIC: dF1=0 *)
    Definition m_den : F := if harmonic then #4 else #2.
    Definition m_f1_term (a b : C) (i : nat) (v : MV) : C :=
      cdivr A (cmuld (if axi then czero else fst (m_dF a b v)) (force_dza a b i)) m_den.
    Definition m_f2_term (a b : C) (i : nat) (v : MV) : C :=
      cdivr A (cmuld (snd (m_dF a b v)) (force_dza a b i)) m_den.
    (* harmonic z[2], z[3]: `if (problemType!=AXISYMMETRIC) dF1 = ...` — in an axisymmetric problem dF1 keeps
       the 0 assigned above *)
    Definition m_f3_term (a b : C) (i : nat) (v : MV) : C :=
      cdivr A (cmuld (if axi then czero else fst (m_dFc a b v)) (force_dza a b i)) #4.
    Definition m_f4_term (a b : C) (i : nat) (v : MV) : C :=
      cdivr A (cmuld (snd (m_dFc a b v)) (force_dza a b i)) #4.
    (* dT= pt.re*dF2 - dF1*pt.im; dza=dz*LengthConv*LengthConv; z[0]+=(dT*dza*Depth/2.) resp. /4. *)
    Definition m_tq_of (dF : C * C) (a b : C) (i : nat) (den : F) : C :=
      let pt := samp_pt a b i in
      let dT := csub A (dmulc (fst pt) (snd dF)) (cmuld (fst dF) (snd pt)) in
      cdivr A (cmuld (cmuld dT (seg_dz a b *. lc *. lc)) depth) den.
    Definition m_tq_term (a b : C) (i : nat) (v : MV) : C := m_tq_of (m_dF a b v) a b i m_den.
    Definition m_tqc_term (a b : C) (i : nat) (v : MV) : C := m_tq_of (m_dFc a b v) a b i #4.

    (* FPProc::LineIntegral(inttype, z): z[0..3]; A0, A1 = u.A of GetPointValues at contour[0], contour[k-1];
       zin = the caller's z (entries the function does not assign keep their value) *)
    Definition m_line (t : nat) (c : list C) (tab : list (list (option MV))) (A0 A1 : C) (zin : C * C * C * C)
      : C * C * C * C :=
      let '(z0i, z1i, z2i, z3i) := zin in
      match t with
      | 0 => if axi then
               let l := area_sum c *. (lc *. lc) in
               let z0 := csub A A1 A0 in
               (z0, if aeqb A l zero then z1i else cdivr A z0 l, z2i, z3i)
             else
               let l := len_sum c *. lc in
               let z0 := cmuld (csub A A0 A1) depth in
               (z0, if aeqb A l zero then z1i else cdivr A z0 (l *. depth), z2i, z3i)
      | 1 => let z0 := csum m_ht_term c tab in
             let l := len_sum c *. lc in
             (* the average is (re)computed after every segment: no segment, no assignment *)
             (z0, match pairs c with [] => z1i | _ => if aeqb A l zero then z1i else cdivr A z0 l end, z2i, z3i)
      | 2 => (line_length c, z1i, z2i, z3i)
      | 3 => if harmonic then (csum m_f1_term c tab, csum m_f2_term c tab, csum m_f3_term c tab, csum m_f4_term c tab)
             else (csum m_f1_term c tab, csum m_f2_term c tab, czero, czero)
      | 4 => if harmonic then (csum m_tq_term c tab, csum m_tqc_term c tab, z2i, z3i)
             else (csum m_tq_term c tab, czero, z2i, z3i)
      | 5 => let z0 := csum m_bn2_term c tab in
             let l := len_sum c *. lc in
             (z0, match pairs c with [] => z1i | _ => if aeqb A l zero then z1i else cdivr A z0 l end, z2i, z3i)
      | _ => zin
      end.
  End Sampling.
End Contour.
