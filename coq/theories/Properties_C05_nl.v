(* Properties_C05_nl.v — C05 part of the nonlinear magnetostatic model (AsmMNL.v; overview in Properties_C19_nl.v): what one
   Newton pass of FSolver::Static2D solves (secant matrix = curl-curl with the stored permeabilities, tangent term, right-hand
   side), and that a fixed point of the pass satisfies the nonlinear discrete field equations nu(|B|) at the rows of the
   element loop.  Statements only. *)
From Coq Require Import ZArith List Bool Arith Lia Reals Lra.
From XF Require Import Arith Sparse SparseProofs AsmOps AsmOpsProofs AsmE AsmEProofs AsmM AsmMProofs BH.
Set Warnings "-ambiguous-paths".
From Coquelicot Require Import Coquelicot.
From XF Require Import BHProofs AsmMNL AsmMNLProofs AsmMNLDeriv.
Import ListNotations.
Local Open Scope R_scope.

Theorem C05_nl_pass_is_newton_step :
  forall (P : mprob (F:=R)) (mats : list (mat (F:=R))) (res : list (nat * R * R)) (iter : nat) (V U : vecT R)
         (el : melem (F:=R)) (mu_old : R * R) (a : nat),
  (a < 3)%nat ->
  let r := nl_elem_matrices RA P mats res iter V el mu_old in
  let Me := fst (fst r) in let be := snd (fst r) in let mu := snd r in
  let S := secant_matrices P res el mu in
  local_resid Me be (mp el) U a
    = local_resid (fst S) (snd S) (mp el) V a + (tangent_row Me (mp el) U a - tangent_row Me (mp el) V a).
Proof. exact newton_step_element. Qed.
Print Assumptions C05_nl_pass_is_newton_step.

Theorem C05_nl_secant_matrix_is_curlcurl :
  forall (P : mprob (F:=R)) (res : list (nat * R * R)) (el : melem (F:=R)) (mu : R * R) (j k : nat),
  no_mixed_edge P el -> (j < 3)%nat -> (k < 3)%nat ->
  let g := mel_geom RA P el in
  ga g <> 0 -> fst mu <> 0 -> snd mu <> 0 ->
  m3get RA (fst (secant_matrices P res el mu)) j k = - curlcurl_K (1 / fst mu) (1 / snd mu) g j k.
Proof. exact secant_is_curlcurl. Qed.
Print Assumptions C05_nl_secant_matrix_is_curlcurl.

Theorem C05_nl_secant_rhs_is_linear_rhs :
  forall (P : mprob (F:=R)) (res : list (nat * R * R)) (el : melem (F:=R)) (mu : R * R),
  snd (secant_matrices P res el mu) = snd (fst (melem_matrices RA P res el)).
Proof. exact secant_rhs. Qed.
Print Assumptions C05_nl_secant_rhs_is_linear_rhs.

Theorem C05_nl_element_loop_rows :
  forall (P : mprob (F:=R)) (mats : list (mat (F:=R))) (res : list (nat * R * R)) (iter : nat) (V U : vecT R)
         (ems : list (melem (F:=R) * (R * R))) (M : matrixT R) (b : vecT R) (rmus : list (R * R)),
  mat_wf M -> length b = length M -> List.Forall (fun em => elem_okM (length M) (fst em)) ems ->
  let s' := fold_left (nl_elem_step RA P mats res iter V) ems (M, b, rmus) in
  mat_wf (fst (fst s')) /\ length (fst (fst s')) = length M /\ length (snd (fst s')) = length b /\
  forall i, (i < length M)%nat ->
    Ax (fst (fst s')) U i - vget RA (snd (fst s')) i
      = (Ax M U i - vget RA b i) - lsum (fun em => nl_el_resid P mats res iter V em U i) ems.
Proof. exact nl_loop_rows. Qed.
Print Assumptions C05_nl_element_loop_rows.

Theorem C05_nl_fixed_point_satisfies_nonlinear_equations :
  forall (P : mprob (F:=R)) (mats : list (mat (F:=R))) (res : list (nat * R * R)) (iter : nat) (V : vecT R)
         (ems : list (melem (F:=R) * (R * R))) (M : matrixT R) (b : vecT R) (rmus : list (R * R)) (i : nat),
  mat_wf M -> length b = length M -> List.Forall (fun em => elem_okM (length M) (fst em)) ems ->
  (i < length M)%nat -> Ax M V i = 0 -> vget RA b i = 0 ->
  let s' := fold_left (nl_elem_step RA P mats res iter V) ems (M, b, rmus) in
  Ax (fst (fst s')) V i = vget RA (snd (fst s')) i <-> lsum (fun em => secant_el_resid P mats res iter V em i) ems = 0.
Proof. exact nl_fixed_point_row. Qed.
Print Assumptions C05_nl_fixed_point_satisfies_nonlinear_equations.

Theorem C05_nl_tangent_term_lam0 :
  forall (P : mprob (F:=R)) (m : mat (F:=R)) (blk : mblock (F:=R)) (el : melem (F:=R)) (mu : R * R) (v0 v1 v2 : R) (j w : nat),
  bLamType blk = 0%nat -> fst mu = snd mu -> (0 < bhpoints m)%nat -> (j < 3)%nat -> (w < 3)%nat ->
  let g := mel_geom RA P el in
  ga g <> 0 ->
  let K := aneg RA (aone RA) / (aofZ RA 4 * ga g) in
  let Mx := stiff_add RA (repeat (azero RA) 9) K (gp g) in
  let My := stiff_add RA (repeat (azero RA) 9) K (gq g) in
  let V3 := [v0; v1; v2] in
  let B := nl_Bmag RA (ga g) (sum3 RA (fun j => vget RA V3 j * vget RA (gq g) j)) (sum3 RA (fun j => vget RA V3 j * vget RA (gp g) j)) in
  let r := nl_update RA m blk g Mx My V3 mu in
  fst r = (fst (nl_mu_of RA m B), fst (nl_mu_of RA m B)) /\
  m3get RA (snd r) j w
    = c4pi RA / 100 * snd (nl_mu_of RA m B) * dBsq g v0 v1 v2 w
      * sum3 RA (fun u => (m3get RA Mx j u + m3get RA My j u) * vget RA V3 u).
Proof. exact tangent_term_lam0. Qed.
Print Assumptions C05_nl_tangent_term_lam0.

Theorem C05_nl_dBsq_is_gradient_of_Bsq : forall (g : egeom (F:=R)) (v0 v1 v2 : R), ga g <> 0 ->
  is_derive (fun x => Bsq g x v1 v2) v0 (dBsq g v0 v1 v2 0) /\
  is_derive (fun x => Bsq g v0 x v2) v1 (dBsq g v0 v1 v2 1) /\
  is_derive (fun x => Bsq g v0 v1 x) v2 (dBsq g v0 v1 v2 2).
Proof. exact Bsq_is_derive. Qed.
Print Assumptions C05_nl_dBsq_is_gradient_of_Bsq.
