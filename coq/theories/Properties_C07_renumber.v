(* Properties_C07_renumber.v — C07 ((anti)periodic boundaries pair the right nodes): the pairs of
   pbclist survive the renumbering between LoadMesh and assembly.

   THE GUARD.  [renumber_guard N edges] is   2 <= N  /\  every index of the edge list is below N.
   Every mesh written by fmesher satisfies it: a mesh has at least one triangle (3 nodes) and the
   .edge file is written by Triangle (switch -e) with indices of the .node file.  Nodes without any
   edge are allowed (the periodic path of fmesher runs Triangle without -j and keeps points drawn
   outside every meshed region in the .node file; Cuthill's restart branch numbers them), and so
   are meshes with fewer lines than nodes.  (Until /repo commit e99587c the start-node search could
   loop forever when NumNodes > n_lines + 1; the guard then also needed N <= S (length edges).)
   [mesh_guard N M]: meshnode has N entries and every node index held by an element, a pbc pair or
   an air-gap quad node is below N (LoadMesh reads them from the same Triangle output).
   Model: Renumber.v (FEASolver::Cuthill, SortElements, the three SortNodes overrides); proofs:
   RenumberProofs.v; correspondence with the real solver classes: tools/props/xcm.py through
   harness/h_cuthill.cpp.  Statements only. *)
From Coq Require Import List Arith Bool ZArith Lia Permutation Sorted.
From XF Require Import Renumber RenumberProofs.
Import ListNotations.

(* pbclist (and the quad nodes of the air-gap elements) keep their order, their t flag / weights,
   and refer to the same physical nodes (node records) after the renumbering *)
Theorem C07_renumber_pbc_pairs_refer_to_the_same_physical_nodes :
  forall (Nd P T W : Type) (d : Nd) (N : nat) (edges : list (nat * nat)) (M : mesh Nd P T W) (r : result Nd P T W),
    renumber_guard N edges -> mesh_guard N M -> cuthill N edges M = Ok r ->
    map (pbc_view d (m_nodes (r_mesh r))) (m_pbcs (r_mesh r)) = map (pbc_view d (m_nodes M)) (m_pbcs M) /\
    map (map (age_view d (m_nodes (r_mesh r)))) (m_ages (r_mesh r)) = map (map (age_view d (m_nodes M))) (m_ages M).
Proof. exact renumber_pbc_pairs_refer_to_the_same_physical_nodes_thm. Qed.
Print Assumptions C07_renumber_pbc_pairs_refer_to_the_same_physical_nodes.

(* the pbc list itself: entry k is (newnum[x], newnum[y], t) of the old entry k *)
Theorem C07_renumber_pbc_list_is_remapped_entrywise :
  forall (Nd P T W : Type) (N : nat) (edges : list (nat * nat)) (M : mesh Nd P T W) (r : result Nd P T W),
    renumber_guard N edges -> mesh_guard N M -> cuthill N edges M = Ok r ->
    m_pbcs (r_mesh r) = map (remap_pbc_spec (r_newnum r)) (m_pbcs M).
Proof. exact renumber_pbc_list_is_remapped_entrywise_thm. Qed.
Print Assumptions C07_renumber_pbc_list_is_remapped_entrywise.

(* the hypotheses are satisfiable (the example mesh has one pbc pair and one air-gap quad node) *)
Example C07_renumber_guards_satisfiable : renumber_guard 4 ex_edges /\ mesh_guard 4 ex_mesh.
Proof. exact ex_guards. Qed.
