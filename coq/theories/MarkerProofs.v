(* MarkerProofs.v — round-trip theorems for the marker codec (Marker.v), for the constants
   regenerated from the sources.  If an encoder or decoder constant changes on one side only,
   these proofs no longer go through. *)
From Coq Require Import ZArith List Bool Lia.
From XF.gen Require Import MarkerConsts.
From XF Require Import Marker.
Local Open Scope Z_scope.

Lemma wrap32_small z : - 2 ^ 31 <= z < 2 ^ 31 -> wrap32 z = z.
Proof. intros H. unfold wrap32. rewrite Z.mod_small; lia. Qed.

Lemma land_mask n : 0 <= n -> Z.land n 65535 = n mod 65536.
Proof. intros H. change 65535 with (Z.ones 16). rewrite Z.land_ones by lia. reflexivity. Qed.

Definition prop_ok (p : option Z) : Prop := match p with Some j => 0 <= j < 65534 | None => True end.
Definition cond_ok (c : option Z) : Prop := match c with Some k => 0 <= k < 32767 | None => True end.

Ltac codec :=
  unfold enc_pt, enc_seg, enc_pt_mag, enc_seg_mag, dec_pt, dec_seg, dec_pt_mag, dec_seg_mag, oz, onat,
         enc_offset, enc_cond_mul, dec_mask, dec_offset, dec_cond_div, dec_offset_mag.

Theorem dec_enc_pt p c : prop_ok p -> cond_ok c -> dec_pt (enc_pt p c) = (p, c).
Proof.
  intros Hp Hc. destruct p as [j|], c as [k|]; simpl in Hp, Hc; codec.
  - rewrite wrap32_small by lia.
    destruct (Z.ltb_spec 1 (j + 2 + (k + 1) * 65536)); [|lia].
    rewrite land_mask by lia.
    replace ((j + 2 + (k + 1) * 65536) mod 65536) with (j + 2)
      by (rewrite Z.add_mod, Z.mod_mul, Z.add_0_r, Z.mod_mod, Z.mod_small by lia; reflexivity).
    replace (j + 2 + (k + 1) * 65536 - (j + 2)) with ((k + 1) * 65536) by lia.
    rewrite Z.quot_mul by lia.
    destruct (Z.ltb_spec (j + 2 - 2) 0); [lia|]. destruct (Z.ltb_spec (k + 1 - 1) 0); [lia|].
    f_equal; f_equal; lia.
  - rewrite wrap32_small by lia. rewrite Z.add_0_r.
    destruct (Z.ltb_spec 1 (j + 2)); [|lia].
    rewrite land_mask by lia. rewrite Z.mod_small by lia.
    replace (j + 2 - (j + 2)) with 0 by lia. rewrite Z.quot_0_l by lia.
    destruct (Z.ltb_spec (j + 2 - 2) 0); [lia|]. simpl. f_equal. f_equal. lia.
  - rewrite wrap32_small by lia. rewrite Z.add_0_l.
    destruct (Z.ltb_spec 1 ((k + 1) * 65536)); [|lia].
    rewrite land_mask by lia. rewrite Z.mod_mul by lia. rewrite Z.sub_0_r, Z.quot_mul by lia.
    simpl. destruct (Z.ltb_spec (k + 1 - 1) 0); [lia|]. f_equal. f_equal. lia.
  - reflexivity.
Qed.

Theorem dec_enc_seg p c : prop_ok p -> cond_ok c -> dec_seg (enc_seg p c) = (p, c).
Proof.
  intros Hp Hc. destruct p as [j|], c as [k|]; simpl in Hp, Hc; codec.
  - rewrite wrap32_small by lia.
    destruct (Z.ltb_spec (- (j + 2) - (k + 1) * 65536) 0); [|lia].
    replace (- (- (j + 2) - (k + 1) * 65536)) with (j + 2 + (k + 1) * 65536) by lia.
    rewrite wrap32_small by lia. rewrite land_mask by lia.
    replace ((j + 2 + (k + 1) * 65536) mod 65536) with (j + 2)
      by (rewrite Z.add_mod, Z.mod_mul, Z.add_0_r, Z.mod_mod, Z.mod_small by lia; reflexivity).
    replace (j + 2 + (k + 1) * 65536 - (j + 2)) with ((k + 1) * 65536) by lia.
    rewrite Z.quot_mul by lia.
    destruct (Z.ltb_spec (j + 2 - 2) 0); [lia|]. destruct (Z.ltb_spec (k + 1 - 1) 0); [lia|].
    f_equal; f_equal; lia.
  - rewrite wrap32_small by lia. rewrite Z.sub_0_r.
    destruct (Z.ltb_spec (- (j + 2)) 0); [|lia].
    rewrite Z.opp_involutive, wrap32_small by lia. rewrite land_mask by lia. rewrite Z.mod_small by lia.
    replace (j + 2 - (j + 2)) with 0 by lia. rewrite Z.quot_0_l by lia.
    destruct (Z.ltb_spec (j + 2 - 2) 0); [lia|]. simpl. f_equal. f_equal. lia.
  - rewrite wrap32_small by lia. rewrite Z.sub_0_l.
    destruct (Z.ltb_spec (- ((k + 1) * 65536)) 0); [|lia].
    rewrite Z.opp_involutive, wrap32_small by lia.
    rewrite land_mask by lia. rewrite Z.mod_mul by lia. rewrite Z.sub_0_r, Z.quot_mul by lia.
    simpl. destruct (Z.ltb_spec (k + 1 - 1) 0); [lia|]. f_equal. f_equal. lia.
  - reflexivity.
Qed.

Theorem dec_enc_pt_mag p : (match p with Some j => 0 <= j < 2 ^ 31 - 2 | None => True end) ->
  dec_pt_mag (enc_pt_mag p) = p.
Proof.
  intros Hp. destruct p as [j|]; simpl in Hp; codec; [|reflexivity].
  rewrite wrap32_small by lia. destruct (Z.ltb_spec 1 (j + 2)); [|lia]. f_equal. lia.
Qed.

Theorem dec_enc_seg_mag p : (match p with Some j => 0 <= j < 2 ^ 31 - 2 | None => True end) ->
  dec_seg_mag (enc_seg_mag p) = p.
Proof.
  intros Hp. destruct p as [j|]; simpl in Hp; codec; [|reflexivity].
  rewrite wrap32_small by lia. destruct (Z.ltb_spec (- (j + 2)) 0); [|lia].
  replace (- (- (j + 2) + 2)) with j by lia. rewrite wrap32_small by lia.
  destruct (Z.ltb_spec j 0); [lia|reflexivity].
Qed.

(* the guard is sharp: with 65534 point properties the last one is lost and moves the conductor *)
Theorem dec_enc_pt_refuted : exists p c, ~ prop_ok p /\ dec_pt (enc_pt p c) <> (p, c).
Proof. exists (Some 65534), None. split; [simpl; lia|]. vm_compute. discriminate. Qed.

(* markers Triangle itself produces (0, 1 on the hull; segment markers inherited by vertices are
   negative) never decode to an assignment *)
Theorem triangle_marks_ignored_pt n : n <= 1 -> dec_pt n = (None, None).
Proof. intros H. unfold dec_pt. destruct (Z.ltb_spec 1 n); [lia|reflexivity]. Qed.
Theorem triangle_marks_ignored_seg n : 0 <= n -> dec_seg n = (None, None).
Proof. intros H. unfold dec_seg. destruct (Z.ltb_spec n 0); [lia|reflexivity]. Qed.

Example codec_nonvacuous : prop_ok (Some 3) /\ cond_ok (Some 1) /\ enc_pt (Some 3) (Some 1) = 131077.
Proof. simpl. repeat split; lia. Qed.
