(* AsmMAxiProofs.v — theorems about the model of FSolver::StaticAxisymmetric (real reading). *)
From Coq Require Import ZArith List Bool Arith Lia Reals Lra.
From XF Require Import Arith Sparse SparseProofs AsmOps AsmOpsProofs AsmE AsmEProofs AsmM AsmMProofs ClosedFormProofs AsmMAxi.
Import ListNotations.
Local Open Scope R_scope.

Local Notation vgetR := (vget RA).
Local Notation mgetR := (mget RA).
Local Notation probR := (mprob (F:=R)).
Local Notation aprobR := (aprob (F:=R)).
Local Notation elemR := (melem (F:=R)).
Local Notation alogsR := (alogs (F:=R)).

(* ------------------------------------------------------------------------------------------ *)
Section Scatter.
  Implicit Type M : matrixT R.
  Implicit Type V b Me be : vecT R.

  (* L.Put(L.Get(n[j],n[k])-Me[j][k],n[j],n[k]); L.b[n[j]]-=be[j]  are "+= contribution" operations,
     the same ones as Static2D's  L.AddTo(-Me[j][k],...) *)
  Lemma ascatter_as_ops n Me be M b :
    ascatter RA n Me be M b = (apply_mops RA M (mscatter_mops n Me), apply_bops RA b (mscatter_bops n be)).
  Proof.
    unfold ascatter, mscatter_mops, mscatter_bops. cbn [fold_left Nat.leb].
    unfold msub. cbn [apply_mops apply_bops fold_left apply_mop apply_bop]. ra_simpl.
    reflexivity.
  Qed.
End Scatter.

(* ------------------------------------------------------------------------------------------ *)
Section Loop.
  Variables (AP : aprobR) (extRo extRi extZo : R) (res : list (nat * R * R)).
  Implicit Type M : matrixT R.
  Local Notation elaR := (elemR * alogsR)%type.

  Definition ael_resid (ela : elaR) (U : vecT R) (i : nat) : R :=
    let r := amelem_matrices RA AP extRo extRi extZo res ela in
    let Me := fst (fst r) in let be := snd (fst r) in
    let n := mp (fst ela) in
    (if Nat.eqb (tri_get n 0) i then local_resid Me be n U 0 else 0)
    + (if Nat.eqb (tri_get n 1) i then local_resid Me be n U 1 else 0)
    + (if Nat.eqb (tri_get n 2) i then local_resid Me be n U 2 else 0).

  Definition aloop_resid (els : list elaR) (U : vecT R) (i : nat) : R := lsum (fun ela => ael_resid ela U i) els.

  Lemma amelem_step_rows M (b : vecT R) (ela : elaR) U :
    mat_wf M -> length b = length M -> elem_okM (length M) (fst ela) ->
    let s' := amelem_step RA AP extRo extRi extZo res (M, b) ela in
    mat_wf (fst s') /\ length (fst s') = length M /\ length (snd s') = length b /\
    forall i, (i < length M)%nat ->
      Ax (fst s') U i - vgetR (snd s') i = (Ax M U i - vgetR b i) - ael_resid ela U i.
  Proof.
    intros Hwf Hb (Hd & H0 & H1 & H2) s'. unfold s', amelem_step, ael_resid.
    destruct (amelem_matrices RA AP extRo extRi extZo res ela) as [[Me be] mu]. cbn [fst snd].
    rewrite ascatter_as_ops. cbn [fst snd].
    assert (Hm : mops_in_range (length M) (mscatter_mops (mp (fst ela)) Me)).
    { unfold mscatter_mops. repeat constructor; cbn [fst snd]; auto. }
    assert (Hbo : bops_in_range (length b) (mscatter_bops (mp (fst ela)) be)).
    { unfold mscatter_bops. rewrite Hb. repeat constructor; cbn [fst snd]; auto. }
    destruct (assembled_rows M b _ _ U Hwf Hm Hbo) as (W & L1 & L2 & HR).
    split; [exact W|]. split; [exact L1|]. split; [exact L2|].
    intros i Hi. rewrite (HR i Hi).
    pose proof (melem_row_identity (mp (fst ela)) Me be U i Hd) as G. lra.
  Qed.

  (* the element loop of StaticAxisymmetric: every row of the residual is minus the sum of the local
     residuals  sum_b Me[a][b] U[n_b] - be[a]  of the element rows assembled into it *)
  Theorem aloop_rows U : forall (els : list elaR) M (b : vecT R),
    mat_wf M -> length b = length M -> Forall (fun ela => elem_okM (length M) (fst ela)) els ->
    let s' := fold_left (amelem_step RA AP extRo extRi extZo res) els (M, b) in
    mat_wf (fst s') /\ length (fst s') = length M /\ length (snd s') = length b /\
    forall i, (i < length M)%nat ->
      Ax (fst s') U i - vgetR (snd s') i = (Ax M U i - vgetR b i) - aloop_resid els U i.
  Proof.
    induction els as [|el els IH]; intros M b Hwf Hb Hok.
    - cbn [fold_left fst snd]. split; [auto|]. split; [auto|]. split; [auto|]. intros; unfold aloop_resid; cbn [lsum]; lra.
    - apply Forall_cons_iff in Hok. destruct Hok as [Hel Hok].
      destruct (amelem_step_rows M b el U Hwf Hb Hel) as (W1 & L1 & L2 & HR).
      cbn [fold_left].
      destruct (amelem_step RA AP extRo extRi extZo res (M, b) el) as [M1 b1] eqn:E1. cbn [fst snd] in *.
      destruct (IH M1 b1 W1) as (W & L & Lb & HR2); [lia|rewrite L1; exact Hok|].
      split; [exact W|]. split; [lia|]. split; [lia|].
      intros i Hi. rewrite HR2 by lia. rewrite HR by auto. unfold aloop_resid. cbn [lsum]. lra.
  Qed.

  (* point currents:  L.b[i] += 0.01*I*2*r  at every node that carries a point property *)
  Definition apoint_bops (P : probR) (ns : list (nat * mnode (F:=R))) : list (nat * R) :=
    flat_map (fun in_ => match mbm (snd in_) with
                         | Some m => [(fst in_, e2 RA * pJre (nth m (mpoints P) (dmpoint RA)) * 2 * mx (snd in_))]
                         | None => [] end) ns.

  Lemma apoint_currents_as_bops (P : probR) (b : vecT R) :
    apoint_currents RA P b = apply_bops RA b (apoint_bops P (combine (seq 0 (length (mnodes P))) (mnodes P))).
  Proof.
    unfold apoint_currents. generalize (combine (seq 0 (length (mnodes P))) (mnodes P)). intros l. revert b.
    induction l as [|[i nd] l IH]; intros b; [reflexivity|].
    cbn [fold_left apoint_bops flat_map fst snd]. rewrite IH.
    destruct (mbm nd); cbn [app]; reflexivity.
  Qed.
End Loop.

(* ------------------------------------------------------------------------------------------ *)
Section Shape.
  Implicit Type Me be : vecT R.

  Definition vec3 (a b c : R) : vecT R := [a; b; c].

  (* Mx: every entry except the diagonal entries of on-axis nodes is K p_j r_j p_k r_k *)
  Lemma mx_get tol K p0 p1 p2 r0 r1 r2 j k : (j < 3)%nat -> (k < 3)%nat ->
    (j <> k \/ on_axis RA tol [r0; r1; r2] j = false) ->
    m3get RA (mirror3 RA (axis_diag RA tol [r0; r1; r2] (mx_upper RA K [p0; p1; p2] [r0; r1; r2]))) j k
      = K * vgetR [p0; p1; p2] j * vgetR [r0; r1; r2] j * vgetR [p0; p1; p2] k * vgetR [r0; r1; r2] k.
  Proof.
    intros Hj Hk Hax. unfold mirror3, axis_diag, mx_upper, upper6, on_axis in *. cbn [fold_left] in *.
    unfold vget in *. cbn [nth] in *. ra_simpl.
    destruct (Rltb r0 tol) eqn:E0; destruct (Rltb r1 tol) eqn:E1; destruct (Rltb r2 tol) eqn:E2;
      destruct j as [|[|[|j]]]; try lia; destruct k as [|[|[|k]]]; try lia;
      cbn [nth] in Hax; try (exfalso; destruct Hax as [Hax|Hax]; [apply Hax; reflexivity | congruence]);
      cbn; ra_simpl; lra.
  Qed.

  Lemma mx_sym tol K p0 p1 p2 r0 r1 r2 :
    sym9 (mirror3 RA (axis_diag RA tol [r0; r1; r2] (mx_upper RA K [p0; p1; p2] [r0; r1; r2]))).
  Proof.
    unfold mirror3, axis_diag, mx_upper, upper6, on_axis. cbn [fold_left].
    unfold vget. cbn [nth]. ra_simpl.
    destruct (Rltb r0 tol); destruct (Rltb r1 tol); destruct (Rltb r2 tol); cbn; do 6 eexists; reflexivity.
  Qed.

  Lemma my_get K q0 q1 q2 r0 r1 r2 g0 g1 g2 Rc j k : (j < 3)%nat -> (k < 3)%nat ->
    m3get RA (mirror3 RA (my_upper RA K [q0; q1; q2] [r0; r1; r2] [g0; g1; g2] Rc)) j k
      = K * (vgetR [q0; q1; q2] j * vgetR [r0; r1; r2] j) * (vgetR [q0; q1; q2] k * vgetR [r0; r1; r2] k)
        * (vgetR [g0; g1; g2] j / Rc) * (vgetR [g0; g1; g2] k / Rc).
  Proof.
    intros Hj Hk. unfold mirror3, my_upper, upper6. cbn [fold_left].
    destruct j as [|[|[|j]]]; try lia; destruct k as [|[|[|k]]]; try lia; cbn; ra_simpl; lra.
  Qed.

  Lemma my_sym K q0 q1 q2 r0 r1 r2 g0 g1 g2 Rc :
    sym9 (mirror3 RA (my_upper RA K [q0; q1; q2] [r0; r1; r2] [g0; g1; g2] Rc)).
  Proof. unfold mirror3, my_upper, upper6. cbn. do 6 eexists. reflexivity. Qed.

  Lemma mxy_sym K p0 p1 p2 q0 q1 q2 r0 r1 r2 g0 g1 g2 Rc :
    sym9 (mirror3 RA (mxy_upper RA K [p0; p1; p2] [q0; q1; q2] [r0; r1; r2] [g0; g1; g2] Rc)).
  Proof. unfold mirror3, mxy_upper, upper6. cbn. do 6 eexists. reflexivity. Qed.

  Lemma sym9_len Me : sym9 Me -> length Me = 9%nat.
  Proof. intros (m00 & m01 & m02 & m11 & m12 & m22 & ->). reflexivity. Qed.

  Lemma sym9_get Me j k : sym9 Me -> (j < 3)%nat -> (k < 3)%nat -> m3get RA Me j k = m3get RA Me k j.
  Proof.
    intros (m00 & m01 & m02 & m11 & m12 & m22 & ->) Hj Hk.
    destruct j as [|[|[|j]]]; try lia; destruct k as [|[|[|k]]]; try lia; reflexivity.
  Qed.

  Lemma combine_me_sym Me Mx My Mxy mu1 mu2 :
    sym9 Me -> sym9 Mx -> sym9 My -> sym9 Mxy -> sym9 (combine_me RA Me Mx My Mxy mu1 mu2).
  Proof.
    intros (a00 & a01 & a02 & a11 & a12 & a22 & ->) (b00 & b01 & b02 & b11 & b12 & b22 & ->)
           (c00 & c01 & c02 & c11 & c12 & c22 & ->) (d00 & d01 & d02 & d11 & d12 & d22 & ->).
    unfold combine_me. cbn. do 6 eexists. reflexivity.
  Qed.
End Shape.

(* ------------------------------------------------------------------------------------------ *)
Section Element.
  Variables (AP : aprobR) (extRo extRi extZo : R) (res : list (nat * R * R)).
  Local Notation P := (ap AP).
  Implicit Type Me be : vecT R.

  (* the shape data of an element as the code names them: rn[], z, p[], q[], g[], R, a_hat, R_hat, vol *)
  Definition e_r (el : elemR) (j : nat) : R := vgetR (el_rn RA P el) j.
  Definition e_z (el : elemR) (j : nat) : R := vgetR (el_zn RA P el) j.
  Definition e_p (el : elemR) (j : nat) : R := vgetR (gp (mel_geom RA P el)) j.
  Definition e_q (el : elemR) (j : nat) : R := vgetR (gq (mel_geom RA P el)) j.
  Definition e_g (el : elemR) (j : nat) : R := vgetR (mid_radii RA (el_rn RA P el)) j.
  Definition e_R (el : elemR) : R := gr (mel_geom RA P el).
  Definition e_a (el : elemR) : R := ga (mel_geom RA P el).
  Definition e_ah (el : elemR) : R := a_hat_of RA (el_rn RA P el) (gp (mel_geom RA P el)) (e_R el).
  Definition e_Rh (el : elemR) (lg : alogsR) : R :=
    r_hat_of RA (atol RA P) (el_rn RA P el) (gq (mel_geom RA P el)) (e_R el) lg.
  Definition e_vol (el : elemR) : R := 2 * e_R el * e_ah el.
  Definition e_axis (el : elemR) (j : nat) : bool := on_axis RA (atol RA P) (el_rn RA P el) j.
  Definition e_mu (el : elemR) : R * R := ael_mu RA AP extRo extRi extZo el (e_R el) (el_zn RA P el).

  Lemma el_rn_explicit el : el_rn RA P el = [e_r el 0; e_r el 1; e_r el 2].
  Proof. reflexivity. Qed.
  Lemma el_zn_explicit el : el_zn RA P el = [e_z el 0; e_z el 1; e_z el 2].
  Proof. reflexivity. Qed.
  Lemma gp_explicit el : gp (mel_geom RA P el) = [e_p el 0; e_p el 1; e_p el 2].
  Proof. reflexivity. Qed.
  Lemma gq_explicit el : gq (mel_geom RA P el) = [e_q el 0; e_q el 1; e_q el 2].
  Proof. reflexivity. Qed.
  Lemma mid_explicit el : mid_radii RA (el_rn RA P el) = [e_g el 0; e_g el 1; e_g el 2].
  Proof. reflexivity. Qed.

  (* the three geometric matrices *)
  Lemma ael_shape_spec el lg :
    let s := ael_shape RA P el lg in
    let Mx := fst (fst s) in let My := snd (fst s) in let Mxy := snd s in
    sym9 Mx /\ sym9 My /\ sym9 Mxy /\
    (forall j k, (j < 3)%nat -> (k < 3)%nat -> (j <> k \/ e_axis el j = false) ->
       m3get RA Mx j k = -1 / (2 * e_ah el * e_R el) * e_p el j * e_r el j * e_p el k * e_r el k) /\
    (forall j k, (j < 3)%nat -> (k < 3)%nat ->
       m3get RA My j k = -1 / (2 * e_ah el * e_Rh el lg) * (e_q el j * e_r el j) * (e_q el k * e_r el k)
                         * (e_g el j / e_R el) * (e_g el k / e_R el)).
  Proof.
    unfold ael_shape. cbv zeta. cbn [fst snd].
    fold (e_R el). fold (e_ah el). fold (e_Rh el lg).
    rewrite (mid_explicit el), (gp_explicit el), (gq_explicit el), (el_rn_explicit el).
    split; [apply mx_sym|]. split; [apply my_sym|]. split; [apply mxy_sym|]. split.
    - intros j k Hj Hk Hax. unfold e_axis in Hax. rewrite (el_rn_explicit el) in Hax.
      rewrite (mx_get _ _ _ _ _ _ _ _ j k Hj Hk Hax). ra_simpl. reflexivity.
    - intros j k Hj Hk. rewrite (my_get _ _ _ _ _ _ _ _ _ _ _ j k Hj Hk). ra_simpl. reflexivity.
  Qed.

  (* mixed-boundary edges keep the element matrix symmetric *)
  Lemma amixed_step_shape g rn el Me be j : (j < 3)%nat -> sym9 Me -> len3 be ->
    let r := amixed_step RA P g rn el (Me, be) j in sym9 (fst r) /\ len3 (snd r).
  Proof.
    intros Hj (m00 & m01 & m02 & m11 & m12 & m22 & ->) (b0 & b1 & b2 & ->).
    unfold amixed_step. destruct (tri_get (me el) j) as [e|]; [|cbn; split; [do 6 eexists|do 3 eexists]; reflexivity].
    destruct (Nat.eqb (mlfmt (nth e (mlines P) (dmline RA))) 2);
      [|cbn; split; [do 6 eexists|do 3 eexists]; reflexivity].
    destruct j as [|[|[|j]]]; [| | |lia]; cbn; (split; [do 6 eexists|do 3 eexists]; reflexivity).
  Qed.

  Lemma amixed_fold_shape g rn el Me be : sym9 Me -> len3 be ->
    let r := fold_left (amixed_step RA P g rn el) [0%nat; 1%nat; 2%nat] (Me, be) in sym9 (fst r) /\ len3 (snd r).
  Proof.
    intros S0 B0. cbn [fold_left].
    destruct (amixed_step_shape g rn el Me be 0%nat ltac:(lia) S0 B0) as [S1 B1].
    destruct (amixed_step RA P g rn el (Me, be) 0%nat) as [Me1 be1]. cbn [fst snd] in S1, B1.
    destruct (amixed_step_shape g rn el Me1 be1 1%nat ltac:(lia) S1 B1) as [S2 B2].
    destruct (amixed_step RA P g rn el (Me1, be1) 1%nat) as [Me2 be2]. cbn [fst snd] in S2, B2.
    destruct (amixed_step_shape g rn el Me2 be2 2%nat ltac:(lia) S2 B2) as [S3 B3].
    destruct (amixed_step RA P g rn el (Me2, be2) 2%nat) as [Me3 be3]. cbn [fst snd] in S3, B3.
    split; assumption.
  Qed.

  (* the element matrix of EVERY element (also with mixed-boundary edges, on-axis nodes, exterior region)
     is symmetric *)
  Theorem amelem_matrices_sym ela :
    sym9 (fst (fst (amelem_matrices RA AP extRo extRi extZo res ela))).
  Proof.
    destruct ela as [el lg]. unfold amelem_matrices. cbv zeta.
    destruct (ael_shape_spec el lg) as (Sx & Sy & Sxy & _).
    destruct (ael_shape RA P el lg) as [[Mx My] Mxy]. cbn [fst snd] in Sx, Sy, Sxy.
    assert (S0 : sym9 (repeat (azero RA) 9)) by (cbn; do 6 eexists; reflexivity).
    assert (B0 : len3 (repeat (azero RA) 3)) by (cbn; do 3 eexists; reflexivity).
    destruct (amixed_fold_shape (mel_geom RA P el) (el_rn RA P el) el _ _ S0 B0) as [S1 B1].
    destruct (fold_left (amixed_step RA P (mel_geom RA P el) (el_rn RA P el) el) [0%nat; 1%nat; 2%nat]
                        (repeat (azero RA) 9, repeat (azero RA) 3)) as [Me be].
    cbn [fst snd] in S1, B1.
    destruct (ael_mu RA AP extRo extRi extZo el (gr (mel_geom RA P el)) (el_zn RA P el)) as [mu1 mu2].
    cbn [fst snd]. apply combine_me_sym; assumption.
  Qed.

  Corollary amelem_matrices_sym_get ela j k : (j < 3)%nat -> (k < 3)%nat ->
    m3get RA (fst (fst (amelem_matrices RA AP extRo extRi extZo res ela))) j k
    = m3get RA (fst (fst (amelem_matrices RA AP extRo extRi extZo res ela))) k j.
  Proof. intros Hj Hk. apply sym9_get; [apply amelem_matrices_sym|assumption|assumption]. Qed.

  Lemma amixed_none g rn el acc :
    no_mixed_edge P el -> fold_left (amixed_step RA P g rn el) [0%nat; 1%nat; 2%nat] acc = acc.
  Proof.
    intros He. unfold amixed_step. cbn [fold_left].
    pose proof (He 0%nat ltac:(lia)) as H0. pose proof (He 1%nat ltac:(lia)) as H1. pose proof (He 2%nat ltac:(lia)) as H2.
    destruct (tri_get (me el) 0) as [s0|]; [apply Nat.eqb_neq in H0; rewrite H0|];
      (destruct (tri_get (me el) 1) as [s1|]; [apply Nat.eqb_neq in H1; rewrite H1|]);
      (destruct (tri_get (me el) 2) as [s2|]; [apply Nat.eqb_neq in H2; rewrite H2|]); reflexivity.
  Qed.

  (* the magnet edge term  K = -0.0001*r*H_c*(cos t*(r_k-r_j) + sin t*(z_k-z_j))  of edge j -> j+1, r the
     mid-side radius *)
  Definition aKmag (el : elemR) (j : nat) : R :=
    let k := nxt j in
    let blk := nth (mblk el) (mblocks P) (dmblock RA) in
    - e4 RA * ((e_r el j + e_r el k) / 2) * bHc blk
      * (mcos el * (e_r el k - e_r el j) + msin el * (e_z el k - e_z el j)).

  (* element matrices of an element without mixed-boundary edge *)
  Lemma amelem_matrices_noedge el lg :
    no_mixed_edge P el ->
    let r := amelem_matrices RA AP extRo extRi extZo res (el, lg) in
    let s := ael_shape RA P el lg in
    let blk := nth (mblk el) (mblocks P) (dmblock RA) in
    snd r = e_mu el /\
    (forall j k, (j < 3)%nat -> (k < 3)%nat ->
       m3get RA (fst (fst r)) j k = m3get RA (fst (fst s)) j k / snd (e_mu el) + m3get RA (snd (fst s)) j k / fst (e_mu el)) /\
    (forall j, (j < 3)%nat ->
       vgetR (snd (fst r)) j = -2 * e_R el * (bJre blk + acirc_t RA P res el (e_R el)) * e_a el / 3
                               + aKmag el j + aKmag el (prv j)).
  Proof.
    intros He r s blk. unfold r, amelem_matrices. cbv zeta.
    destruct (ael_shape_spec el lg) as (Sx & Sy & Sxy & _). fold s in Sx, Sy, Sxy. fold s.
    destruct s as [[Mx My] Mxy]. cbn [fst snd] in *.
    rewrite amixed_none by exact He.
    fold (e_R el). unfold e_mu.
    destruct (ael_mu RA AP extRo extRi extZo el (e_R el) (el_zn RA P el)) as [mu1 mu2]. cbn [fst snd].
    split; [reflexivity|]. split.
    - intros j k Hj Hk.
      rewrite combine_me_get by first [reflexivity | assumption | apply sym9_len; assumption].
      replace (m3get RA (repeat (azero RA) 9) j k) with 0
        by (destruct j as [|[|[|j]]]; try lia; destruct k as [|[|[|k]]]; try lia; reflexivity).
      lra.
    - intros j Hj. unfold aKmag, e_a. fold blk.
      rewrite (el_rn_explicit el), (el_zn_explicit el).
      destruct j as [|[|[|j]]]; try lia; cbn; ra_simpl; unfold e4, adec; cbn; ra_simpl; subst blk; field.
  Qed.
End Element.

(* ------------------------------------------------------------------------------------------ *)
Section ModifiedPotential.
  Variables (AP : aprobR) (extRo extRi extZo : R) (res : list (nat * R * R)).
  Local Notation P := (ap AP).

  (* FEMM's axisymmetric element: u = r*A is interpolated affinely in (s, z) with s = r^2.  On the straight
     triangle with vertices (r_j^2, z_j) the shape function of node j has  dN_j/ds = p_j / (2 vol),
     dN_j/dz = (s_{j+2} - s_{j+1}) / (2 vol) = q_j g_j / vol,  where vol = (sum_j r_j^2 p_j)/2 is that
     triangle's area (the code's  vol = 2 R a_hat).  Hence for nodal values A_j
        B_z = (1/r) d(rA)/dr = 2 du/ds   = sum_j bz_j A_j,   bz_j = p_j r_j / vol      (constant)
        B_r = -dA/dz = -(1/r) du/dz      = -(1/r) sum_j br_j A_j,  br_j = q_j g_j r_j / vol. *)
  Definition e_bz (el : elemR) (j : nat) : R := e_p AP el j * e_r AP el j / e_vol AP el.
  Definition e_br (el : elemR) (j : nat) : R := e_q AP el j * e_g AP el j * e_r AP el j / e_vol AP el.

  Lemma e_vol_formula el : e_R AP el <> 0 ->
    e_vol AP el = (e_r AP el 0 * e_r AP el 0 * e_p AP el 0 + e_r AP el 1 * e_r AP el 1 * e_p AP el 1
                   + e_r AP el 2 * e_r AP el 2 * e_p AP el 2) / 2.
  Proof.
    intros HR. unfold e_vol, e_ah, a_hat_of. cbn [fold_left].
    fold (e_r AP el 0%nat) (e_r AP el 1%nat) (e_r AP el 2%nat) (e_p AP el 0%nat) (e_p AP el 1%nat) (e_p AP el 2%nat).
    ra_simpl. field. exact HR.
  Qed.

  (* the mid-side radii and q in terms of the nodal radii: q_j g_j = (s_{j+2} - s_{j+1}) / 2 *)
  Lemma e_qg el :
    e_q AP el 0 * e_g AP el 0 = (e_r AP el 2 * e_r AP el 2 - e_r AP el 1 * e_r AP el 1) / 2 /\
    e_q AP el 1 * e_g AP el 1 = (e_r AP el 0 * e_r AP el 0 - e_r AP el 2 * e_r AP el 2) / 2 /\
    e_q AP el 2 * e_g AP el 2 = (e_r AP el 1 * e_r AP el 1 - e_r AP el 0 * e_r AP el 0) / 2.
  Proof.
    unfold e_q, e_g, e_r, mel_geom, geom, mid_radii, el_rn. cbn [gq map]. unfold vget. cbn [nth]. ra_simpl.
    repeat split; field.
  Qed.

  (* THE IDENTITY THE CODE IMPLEMENTS.  Every entry of the element matrix except the diagonal entry of an
     on-axis node (which receives the extra "scaling" term of staticaxi.cpp:278-279 and belongs to a row
     that SetValue(i,0) replaces) is
        Me[j][k] = -( vol * bz_j bz_k / mu2  +  vol/(R R_hat) * br_j br_k / mu1 ),
     i.e. minus [ nu_z B_z(N_j) B_z(N_k) * vol  +  nu_r (r B_r)(N_j) (r B_r)(N_k) * vol/(R R_hat) ]:
     the energy of the modified-potential interpolation with the weights
        integral of r dr dz        -> vol/2           (exact value: R*a;   vol = 2 R a_hat),
        integral of (1/r) dr dz    -> vol/(2 R R_hat) (exact value: a/R_hat when 1/R_hat is the mean of 1/r),
     the whole equation multiplied by 2.  (The textbook Galerkin form with A itself piecewise linear would be
     integral of nu (grad(rN_j)/r).(grad(rN_k)/r) r dr dz, which has no closed polynomial form and is singular
     at r = 0; FEMM's form is exact for A = B0 r/2, see [axi_row_on_uniform_Bz].) *)
  Theorem Mel_is_modified_potential_form el lg j k :
    no_mixed_edge P el -> (j < 3)%nat -> (k < 3)%nat -> (j <> k \/ e_axis AP el j = false) ->
    e_ah AP el <> 0 -> e_R AP el <> 0 -> e_Rh AP el lg <> 0 ->
    let mu := e_mu AP extRo extRi extZo el in
    fst mu <> 0 -> snd mu <> 0 ->
    m3get RA (fst (fst (amelem_matrices RA AP extRo extRi extZo res (el, lg)))) j k
      = - (e_vol AP el * e_bz el j * e_bz el k / snd mu
           + e_vol AP el / (e_R AP el * e_Rh AP el lg) * e_br el j * e_br el k / fst mu).
  Proof.
    intros He Hj Hk Hax Hah HR HRh mu H1 H2.
    destruct (amelem_matrices_noedge AP extRo extRi extZo res el lg He) as (_ & HM & _).
    rewrite (HM j k Hj Hk). fold mu.
    destruct (ael_shape_spec AP el lg) as (_ & _ & _ & HX & HY).
    rewrite (HX j k Hj Hk Hax), (HY j k Hj Hk).
    unfold e_bz, e_br, e_vol. field. repeat split; assumption.
  Qed.

  (* ---- uniform axial flux density: A = B0 r / 2 ---- *)
  Lemma my_row_on_r (K q0 q1 q2 r0 r1 r2 Rc h B0 : R) j :
    (j < 3)%nat ->
    let q := [r2 - r1; r0 - r2; r1 - r0] in
    let g := [(r2 + r1) * h; (r0 + r2) * h; (r1 + r0) * h] in
    let rn := [r0; r1; r2] in
    let My := fun k => K * (vgetR q j * vgetR rn j) * (vgetR q k * vgetR rn k) * (vgetR g j * Rc) * (vgetR g k * Rc) in
    My 0%nat * (B0 * r0 * h) + My 1%nat * (B0 * r1 * h) + My 2%nat * (B0 * r2 * h) = 0.
  Proof.
    intros Hj q g rn My. unfold My, q, g, rn, vget.
    destruct j as [|[|[|j]]]; try lia; cbn [nth]; ring.
  Qed.

  (* the row of an off-axis node of ANY element applied to the nodal values of A = B0 r/2 is -B0 p_j r_j / mu2:
     the radial-flux part vanishes identically (whatever R_hat and mu1 are), the axial part is exact *)
  Theorem axi_row_on_uniform_Bz el lg B0 j :
    no_mixed_edge P el -> (j < 3)%nat -> e_axis AP el j = false ->
    e_ah AP el <> 0 -> e_R AP el <> 0 ->
    let Me := fst (fst (amelem_matrices RA AP extRo extRi extZo res (el, lg))) in
    let Av := fun k => B0 * e_r AP el k / 2 in
    m3get RA Me j 0 * Av 0%nat + m3get RA Me j 1 * Av 1%nat + m3get RA Me j 2 * Av 2%nat
      = - B0 * e_p AP el j * e_r AP el j / snd (e_mu AP extRo extRi extZo el).
  Proof.
    intros He Hj Hax Hah HR Me Av.
    destruct (amelem_matrices_noedge AP extRo extRi extZo res el lg He) as (_ & HM & _).
    unfold Me. rewrite !HM by (auto; lia).
    destruct (ael_shape_spec AP el lg) as (_ & _ & _ & HX & HY).
    rewrite !HX by (auto; lia). rewrite !HY by (auto; lia).
    set (mu1 := fst (e_mu AP extRo extRi extZo el)). set (mu2 := snd (e_mu AP extRo extRi extZo el)).
    unfold Av.
    assert (HMy : forall K,
      K * (e_q AP el j * e_r AP el j) * (e_q AP el 0 * e_r AP el 0) * (e_g AP el j / e_R AP el) * (e_g AP el 0 / e_R AP el) * (B0 * e_r AP el 0 / 2)
      + K * (e_q AP el j * e_r AP el j) * (e_q AP el 1 * e_r AP el 1) * (e_g AP el j / e_R AP el) * (e_g AP el 1 / e_R AP el) * (B0 * e_r AP el 1 / 2)
      + K * (e_q AP el j * e_r AP el j) * (e_q AP el 2 * e_r AP el 2) * (e_g AP el j / e_R AP el) * (e_g AP el 2 / e_R AP el) * (B0 * e_r AP el 2 / 2) = 0).
    { intros K.
      pose proof (my_row_on_r K 0 0 0 (e_r AP el 0) (e_r AP el 1) (e_r AP el 2) (/ e_R AP el) (/ 2) B0 j Hj) as G.
      cbv zeta in G. rewrite <- G.
      unfold e_q, e_g, e_r, mel_geom, geom, mid_radii, el_rn. cbn [gq map]. unfold vget.
      destruct j as [|[|[|j]]]; try lia; cbn [nth]; ra_simpl; unfold Rdiv; ring. }
    assert (HV : e_r AP el 0 * e_r AP el 0 * e_p AP el 0 + e_r AP el 1 * e_r AP el 1 * e_p AP el 1
                 + e_r AP el 2 * e_r AP el 2 * e_p AP el 2 = 4 * e_R AP el * e_ah AP el).
    { pose proof (e_vol_formula el HR) as G. unfold e_vol in G. lra. }
    specialize (HMy (-1 / (2 * e_ah AP el * e_Rh AP el lg) / mu1)).
    match goal with |- ?L = _ =>
      replace L with
        ((-1 / (2 * e_ah AP el * e_R AP el) * e_p AP el j * e_r AP el j / mu2 * (B0 / 2))
          * (e_r AP el 0 * e_r AP el 0 * e_p AP el 0 + e_r AP el 1 * e_r AP el 1 * e_p AP el 1
             + e_r AP el 2 * e_r AP el 2 * e_p AP el 2)
         + (-1 / (2 * e_ah AP el * e_Rh AP el lg) / mu1 * (e_q AP el j * e_r AP el j) * (e_q AP el 0 * e_r AP el 0) * (e_g AP el j / e_R AP el) * (e_g AP el 0 / e_R AP el) * (B0 * e_r AP el 0 / 2)
            + -1 / (2 * e_ah AP el * e_Rh AP el lg) / mu1 * (e_q AP el j * e_r AP el j) * (e_q AP el 1 * e_r AP el 1) * (e_g AP el j / e_R AP el) * (e_g AP el 1 / e_R AP el) * (B0 * e_r AP el 1 / 2)
            + -1 / (2 * e_ah AP el * e_Rh AP el lg) / mu1 * (e_q AP el j * e_r AP el j) * (e_q AP el 2 * e_r AP el 2) * (e_g AP el j / e_R AP el) * (e_g AP el 2 / e_R AP el) * (B0 * e_r AP el 2 / 2)))
        by (unfold Rdiv; ring) end.
    rewrite HMy, HV. unfold Rdiv. generalize (/ mu2). intros im. field. split; assumption.
  Qed.
End ModifiedPotential.

(* ------------------------------------------------------------------------------------------ *)
Section UniformField.
  (* around ANY closed fan of elements with one permeability the rows of the (off-axis) centre node,
     -B0 p r_c / mu2 each, cancel: sum of p = sum of (z_i - z_{i+1}) = 0 *)
  Theorem axi_fan_row_zero (ring : list (R * R)) (rc B0 mu2 : R) :
    lsumR (fun pq => - B0 * (snd (fst pq) - snd (snd pq)) * rc / mu2) (ring_pairs ring) = 0.
  Proof.
    assert (G : forall l : list ((R * R) * (R * R)),
              lsumR (fun pq => - B0 * (snd (fst pq) - snd (snd pq)) * rc / mu2) l
              = - B0 * rc / mu2 * lsumR (fun pq => snd (fst pq) - snd (snd pq)) l).
    { induction l as [|x t IH]; simpl; [lra|]. rewrite IH. unfold Rdiv. ring. }
    rewrite G, (ring_sum_zero snd ring). ring.
  Qed.

  Variables (AP : aprobR) (extRo extRi extZo : R) (res : list (nat * R * R)).
  Local Notation P := (ap AP).

  Lemma lsum_map_lsumR {T} (f : T -> (R * R) * (R * R)) (g : (R * R) * (R * R) -> R) (l : list T) :
    lsum (fun x => g (f x)) l = lsumR g (map f l).
  Proof. induction l as [|x t IH]; simpl; [reflexivity|]. rewrite IH. reflexivity. Qed.

  Lemma lsum_ext {T} (f g : T -> R) (l : list T) : (forall x, In x l -> f x = g x) -> lsum f l = lsum g l.
  Proof.
    induction l as [|x t IH]; intros H; simpl; [reflexivity|].
    rewrite (H x (or_introl eq_refl)), IH; [reflexivity|]. intros y Hy. apply H. right. exact Hy.
  Qed.

  (* the row of local node 0 of an element applied to A = B0 r/2 *)
  Definition row0_on_uniform (B0 : R) (ela : elemR * alogsR) : R :=
    let Me := fst (fst (amelem_matrices RA AP extRo extRi extZo res ela)) in
    let el := fst ela in
    m3get RA Me 0 0 * (B0 * e_r AP el 0 / 2) + m3get RA Me 0 1 * (B0 * e_r AP el 1 / 2)
    + m3get RA Me 0 2 * (B0 * e_r AP el 2 / 2).

  (* MODEL-LEVEL FAN THEOREM: a closed fan of elements (c, a_i, a_{i+1}) of any valence and any coordinates
     around an off-axis node c, all with the same effective axial permeability: the assembled row of c
     vanishes on the nodal values of A = B0 r/2 (uniform axial flux density B0) *)
  Theorem axi_fan_rows_vanish (els : list (elemR * alogsR)) (ring : list (R * R)) (c : nat) (B0 mu2 : R) :
    (forall ela, In ela els ->
       tri_get (mp (fst ela)) 0 = c /\ no_mixed_edge P (fst ela) /\ e_axis AP (fst ela) 0 = false /\
       e_ah AP (fst ela) <> 0 /\ e_R AP (fst ela) <> 0 /\ snd (e_mu AP extRo extRi extZo (fst ela)) = mu2) ->
    map (fun ela : elemR * alogsR =>
           ((e_r AP (fst ela) 1, e_z AP (fst ela) 1), (e_r AP (fst ela) 2, e_z AP (fst ela) 2))) els = ring_pairs ring ->
    lsum (row0_on_uniform B0) els = 0.
  Proof.
    intros Hel Hring.
    set (rc := mx (nth c (mnodes P) (dmnode RA))).
    rewrite (lsum_ext _ (fun ela => (fun pq : (R * R) * (R * R) => - B0 * (snd (fst pq) - snd (snd pq)) * rc / mu2)
                                      ((e_r AP (fst ela) 1, e_z AP (fst ela) 1), (e_r AP (fst ela) 2, e_z AP (fst ela) 2)))).
    - rewrite (lsum_map_lsumR (fun ela : elemR * alogsR =>
                 ((e_r AP (fst ela) 1, e_z AP (fst ela) 1), (e_r AP (fst ela) 2, e_z AP (fst ela) 2)))
                 (fun pq => - B0 * (snd (fst pq) - snd (snd pq)) * rc / mu2)).
      rewrite Hring. apply axi_fan_row_zero.
    - intros [el lg] Hin. destruct (Hel _ Hin) as (Hc & He & Hax & Hah & HR & Hmu). cbn [fst snd] in *.
      unfold row0_on_uniform. cbn [fst].
      rewrite (axi_row_on_uniform_Bz AP extRo extRi extZo res el lg B0 0 He ltac:(lia) Hax Hah HR).
      rewrite Hmu.
      replace (e_p AP el 0) with (e_z AP el 1 - e_z AP el 2) by reflexivity.
      replace (e_r AP el 0) with rc by (unfold rc, e_r, el_rn; cbn [map]; unfold vget; cbn [nth]; rewrite Hc; reflexivity).
      unfold Rdiv. ring.
  Qed.
End UniformField.

(* ------------------------------------------------------------------------------------------ *)
Section Scaling.
  Lemma Rltb_scale s a b : 0 < s -> Rltb (s * a) (s * b) = Rltb a b.
  Proof.
    intros Hs. destruct (Rltb a b) eqn:E.
    - apply Rltb_true. apply Rltb_true in E. apply Rmult_lt_compat_l; assumption.
    - apply Rltb_false. apply Rltb_false in E. intro H. apply E. apply Rmult_lt_reg_l with s; assumption.
  Qed.

  Lemma mx_scale s tol K K' p0 p1 p2 r0 r1 r2 : 0 < s -> K = K' * (s * s * s) ->
    mirror3 RA (axis_diag RA (s * tol) [s * r0; s * r1; s * r2] (mx_upper RA K' [s * p0; s * p1; s * p2] [s * r0; s * r1; s * r2]))
    = map (Rmult s) (mirror3 RA (axis_diag RA tol [r0; r1; r2] (mx_upper RA K [p0; p1; p2] [r0; r1; r2]))).
  Proof.
    intros Hs ->. unfold mirror3, axis_diag, mx_upper, upper6, on_axis. cbn [fold_left].
    unfold vget. cbn [nth]. ra_simpl. rewrite !(Rltb_scale s) by exact Hs.
    destruct (Rltb r0 tol); destruct (Rltb r1 tol); destruct (Rltb r2 tol); cbn; ra_simpl;
      repeat (f_equal; try ring).
  Qed.

  Lemma my_scale s K K' q0 q1 q2 r0 r1 r2 g0 g1 g2 Rc : s <> 0 -> Rc <> 0 -> K = K' * (s * s * s) ->
    mirror3 RA (my_upper RA K' [s * q0; s * q1; s * q2] [s * r0; s * r1; s * r2] [s * g0; s * g1; s * g2] (s * Rc))
    = map (Rmult s) (mirror3 RA (my_upper RA K [q0; q1; q2] [r0; r1; r2] [g0; g1; g2] Rc)).
  Proof.
    intros Hs HR ->. unfold mirror3, my_upper, upper6. cbn. ra_simpl.
    repeat (f_equal; try (field; split; assumption)).
  Qed.

  Lemma mxy_scale s K K' p0 p1 p2 q0 q1 q2 r0 r1 r2 g0 g1 g2 Rc : s <> 0 -> Rc <> 0 -> K = K' * (s * s * s) ->
    mirror3 RA (mxy_upper RA K' [s * p0; s * p1; s * p2] [s * q0; s * q1; s * q2] [s * r0; s * r1; s * r2]
                          [s * g0; s * g1; s * g2] (s * Rc))
    = map (Rmult s) (mirror3 RA (mxy_upper RA K [p0; p1; p2] [q0; q1; q2] [r0; r1; r2] [g0; g1; g2] Rc)).
  Proof.
    intros Hs HR ->. unfold mirror3, mxy_upper, upper6. cbn. ra_simpl.
    repeat (f_equal; try (field; split; assumption)).
  Qed.

  Variables (AP AP' : aprobR) (s : R) (el : elemR) (lg lg' : alogsR).
  Local Notation P := (ap AP).
  Local Notation P' := (ap AP').
  Hypothesis Hs : 0 < s.
  (* the same drawing declared in another length unit: the solver's centimetre coordinates and
     units[LengthUnits] (hence every tolerance units[LengthUnits]*1.e-06) carry the factor s *)
  Hypothesis Hx : forall t, (t < 3)%nat -> e_r AP' el t = s * e_r AP el t.
  Hypothesis Hy : forall t, (t < 3)%nat -> e_z AP' el t = s * e_z AP el t.
  Hypothesis Hu : aunit RA P' = s * aunit RA P.
  Hypothesis HR : e_R AP el <> 0.
  Hypothesis Hah : e_ah AP el <> 0.
  Hypothesis HRh : e_Rh AP el lg <> 0.
  (* R_hat is a length: see [r_hat_default_scaling] for the generic branch *)
  Hypothesis Hrh : e_Rh AP' el lg' = s * e_Rh AP el lg.

  Lemma atol_scaled : atol RA P' = s * atol RA P.
  Proof. unfold atol. rewrite Hu. ra_simpl. ring. Qed.

  Lemma geom_scaled_axi :
    (forall t, (t < 3)%nat -> e_p AP' el t = s * e_p AP el t) /\
    (forall t, (t < 3)%nat -> e_q AP' el t = s * e_q AP el t) /\
    (forall t, (t < 3)%nat -> e_g AP' el t = s * e_g AP el t) /\
    e_R AP' el = s * e_R AP el /\ e_a AP' el = s * s * e_a AP el /\ e_ah AP' el = s * s * e_ah AP el.
  Proof.
    pose proof (Hx 0%nat ltac:(lia)) as X0. pose proof (Hx 1%nat ltac:(lia)) as X1. pose proof (Hx 2%nat ltac:(lia)) as X2.
    pose proof (Hy 0%nat ltac:(lia)) as Y0. pose proof (Hy 1%nat ltac:(lia)) as Y1. pose proof (Hy 2%nat ltac:(lia)) as Y2.
    assert (HR' := HR).
    unfold e_ah, e_p, e_q, e_g, e_R, e_a, e_r, e_z, a_hat_of, mid_radii, el_rn, el_zn, mel_geom, geom in *.
    cbn [gp gq ga gr map fold_left] in *. unfold vget in *. cbn [nth] in *. ra_simpl.
    repeat split.
    - intros t Ht. destruct t as [|[|[|t]]]; try lia; cbn [nth]; rewrite ?Y0, ?Y1, ?Y2; ring.
    - intros t Ht. destruct t as [|[|[|t]]]; try lia; cbn [nth]; rewrite ?X0, ?X1, ?X2; ring.
    - intros t Ht. destruct t as [|[|[|t]]]; try lia; cbn [nth]; rewrite ?X0, ?X1, ?X2; field.
    - rewrite X0, X1, X2. field.
    - rewrite X0, X1, X2, Y0, Y1, Y2. field.
    - rewrite X0, X1, X2, Y0, Y1, Y2. field.
      assert (Hsum : mx (nth (tri_get (mp el) 0) (mnodes P) (dmnode RA)) + mx (nth (tri_get (mp el) 1) (mnodes P) (dmnode RA))
                     + mx (nth (tri_get (mp el) 2) (mnodes P) (dmnode RA)) <> 0) by (intro Hz; apply HR'; rewrite Hz; lra).
      split; [exact Hsum|]. intro Hz. apply Hsum. apply Rmult_eq_reg_l with s; [|lra]. lra.
  Qed.

  (* the three geometric matrices scale with s *)
  Theorem shape_scaling :
    ael_shape RA P' el lg' =
      (map (Rmult s) (fst (fst (ael_shape RA P el lg))), map (Rmult s) (snd (fst (ael_shape RA P el lg))),
       map (Rmult s) (snd (ael_shape RA P el lg))).
  Proof.
    destruct geom_scaled_axi as (Gp & Gq & Gg & GR & Ga & Gah).
    unfold ael_shape. cbv zeta. cbn [fst snd].
    fold (e_R AP' el) (e_R AP el) (e_ah AP' el) (e_ah AP el) (e_Rh AP' el lg') (e_Rh AP el lg).
    rewrite (mid_explicit AP' el), (gp_explicit AP' el), (gq_explicit AP' el), (el_rn_explicit AP' el).
    rewrite (mid_explicit AP el), (gp_explicit AP el), (gq_explicit AP el), (el_rn_explicit AP el).
    rewrite !Gp, !Gq, !Gg, !Hx, GR, Gah, Hrh, atol_scaled by lia.
    assert (Hs0 : s <> 0) by lra.
    rewrite (mx_scale s (atol RA P) (aneg RA (aone RA) / (aofZ RA 2 * e_ah AP el * e_R AP el))) by first [exact Hs | ra_simpl; field; repeat split; assumption].
    rewrite (my_scale s (aneg RA (aone RA) / (aofZ RA 2 * e_ah AP el * e_Rh AP el lg))) by first [assumption | ra_simpl; field; repeat split; assumption].
    rewrite (mxy_scale s (aneg RA (aone RA) / (aofZ RA 2 * e_ah AP el * e_Rh AP el lg))) by first [assumption | ra_simpl; field; repeat split; assumption].
    reflexivity.
  Qed.
End Scaling.

Section ScalingElement.
  Variables (AP AP' : aprobR) (extRo extRi extZo extRo' extRi' extZo' : R) (res res' : list (nat * R * R))
            (s : R) (el : elemR) (lg lg' : alogsR).
  Local Notation P := (ap AP).
  Local Notation P' := (ap AP').
  Hypothesis Hs : 0 < s.
  Hypothesis Hx : forall t, (t < 3)%nat -> e_r AP' el t = s * e_r AP el t.
  Hypothesis Hy : forall t, (t < 3)%nat -> e_z AP' el t = s * e_z AP el t.
  Hypothesis Hu : aunit RA P' = s * aunit RA P.
  Hypothesis HR : e_R AP el <> 0.
  Hypothesis Hah : e_ah AP el <> 0.
  Hypothesis HRh : e_Rh AP el lg <> 0.
  Hypothesis Hrh : e_Rh AP' el lg' = s * e_Rh AP el lg.
  Hypothesis He : no_mixed_edge P el.
  Hypothesis He' : no_mixed_edge P' el.
  (* same materials; the permeabilities (incl. the exterior-region factor, a ratio of lengths) and the
     circuit part of the current density are those of the original problem *)
  Hypothesis Hblk : nth (mblk el) (mblocks P') (dmblock RA) = nth (mblk el) (mblocks P) (dmblock RA).
  Hypothesis Hmu : e_mu AP' extRo' extRi' extZo' el = e_mu AP extRo extRi extZo el.
  Hypothesis Ht : acirc_t RA P' res' el (e_R AP' el) = acirc_t RA P res el (e_R AP el).

  Lemma m3get_map_scale (M : vecT R) j k : length M = 9%nat -> (j < 3)%nat -> (k < 3)%nat ->
    m3get RA (map (Rmult s) M) j k = s * m3get RA M j k.
  Proof.
    intros HL Hj Hk. destruct (len9_explicit M HL) as (m0 & m1 & m2 & m3 & m4 & m5 & m6 & m7 & m8 & ->).
    destruct j as [|[|[|j]]]; try lia; destruct k as [|[|[|k]]]; try lia; reflexivity.
  Qed.

  (* C10: the element stiffness scales with s; the source-current load with s^3, the magnet load with s^2 *)
  Theorem axi_element_scaling j k : (j < 3)%nat -> (k < 3)%nat ->
    let r := amelem_matrices RA AP extRo extRi extZo res (el, lg) in
    let r' := amelem_matrices RA AP' extRo' extRi' extZo' res' (el, lg') in
    let blk := nth (mblk el) (mblocks P) (dmblock RA) in
    m3get RA (fst (fst r')) j k = s * m3get RA (fst (fst r)) j k /\
    vgetR (snd (fst r')) j
      = s * s * s * (-2 * e_R AP el * (bJre blk + acirc_t RA P res el (e_R AP el)) * e_a AP el / 3)
        + s * s * (aKmag AP el j + aKmag AP el (prv j)).
  Proof.
    intros Hj Hk r r' blk.
    destruct (amelem_matrices_noedge AP extRo extRi extZo res el lg He) as (_ & HM & HB).
    destruct (amelem_matrices_noedge AP' extRo' extRi' extZo' res' el lg' He') as (_ & HM' & HB').
    destruct (geom_scaled_axi AP AP' s el Hs Hx Hy HR) as (Gp & Gq & Gg & GR & Ga & Gah).
    destruct (ael_shape_spec AP el lg) as (Sx & Sy & _).
    unfold r, r'. split.
    - rewrite (HM' j k Hj Hk), (HM j k Hj Hk), Hmu.
      rewrite (shape_scaling AP AP' s el lg lg' Hs Hx Hy Hu HR Hah HRh Hrh). cbn [fst snd].
      rewrite !m3get_map_scale by (try apply sym9_len; assumption). unfold Rdiv. ring.
    - rewrite (HB' j Hj), Ht, GR, Ga, Hblk. fold blk.
      assert (KM : forall t, (t < 3)%nat -> aKmag AP' el t = s * s * aKmag AP el t).
      { intros t Ht3. unfold aKmag. rewrite Hblk.
        destruct t as [|[|[|t]]]; try lia; cbn [nxt]; rewrite !Hx, !Hy by lia; unfold Rdiv; ring. }
      rewrite !KM by (destruct j as [|[|[|j]]]; cbn [prv]; lia). unfold Rdiv. ring.
  Qed.
End ScalingElement.

(* R_hat of the generic branch (no node on the axis, no vertical side) is a length: scaling the radii by s
   (the logarithms of the radii shift by ln s, those of the ratios do not change) multiplies it by s *)
Section RhatScaling.
  Theorem r_hat_default_scaling (s lam tol : R) (r0 r1 r2 l0 l1 l2 m0 m1 m2 : R) :
    0 < s ->
    let rn := [r0; r1; r2] in let rn' := [s * r0; s * r1; s * r2] in
    let q := [r2 - r1; r0 - r2; r1 - r0] in let q' := [s * (r2 - r1); s * (r0 - r2); s * (r1 - r0)] in
    let Rc := (r0 + r1 + r2) / 3 in
    let lg := mkALogs (l0, l1, l2) (m0, m1, m2) in
    let lg' := mkALogs (l0 + lam, l1 + lam, l2 + lam) (m0, m1, m2) in
    - (r0 - r2) + r0 * m0 <> 0 -> - (r1 - r0) + r1 * m1 <> 0 -> - (r2 - r1) + r2 * m2 <> 0 ->
    (r2 - r1) * r0 * l0 + (r0 - r2) * r1 * l1 + (r1 - r0) * r2 * l2 <> 0 ->
    r_hat_default RA (s * tol) rn' q' (s * Rc) lg' = s * r_hat_default RA tol rn q Rc lg.
  Proof.
    intros Hs rn rn' q q' Rc lg lg' D0 D1 D2 D3.
    unfold r_hat_default, rn, rn', q, q', lg, lg'. cbn [lgn lgr tri_get]. unfold vget. cbn [nth]. ra_simpl.
    assert (A : forall x, Rabs (s * x) = s * Rabs x) by (intros x; rewrite Rabs_mult, (Rabs_pos_eq s) by lra; reflexivity).
    rewrite !A, !(Rltb_scale s) by exact Hs.
    assert (Hs0 : s <> 0) by lra.
    replace (- (s * (r0 - r2)) + s * r0 * m0) with (s * (- (r0 - r2) + r0 * m0)) by ring.
    replace (- (s * (r1 - r0)) + s * r1 * m1) with (s * (- (r1 - r0) + r1 * m1)) by ring.
    replace (- (s * (r2 - r1)) + s * r2 * m2) with (s * (- (r2 - r1) + r2 * m2)) by ring.
    replace (s * (r2 - r1) * (s * r0) * (l0 + lam) + s * (r0 - r2) * (s * r1) * (l1 + lam) + s * (r1 - r0) * (s * r2) * (l2 + lam))
      with (s * s * ((r2 - r1) * r0 * l0 + (r0 - r2) * r1 * l1 + (r1 - r0) * r2 * l2)) by ring.
    generalize dependent (- (r0 - r2) + r0 * m0). generalize dependent (- (r1 - r0) + r1 * m1).
    generalize dependent (- (r2 - r1) + r2 * m2).
    generalize dependent ((r2 - r1) * r0 * l0 + (r0 - r2) * r1 * l1 + (r1 - r0) * r2 * l2).
    intros d3 D3 d2 D2 d1 D1 d0 D0.
    destruct (Rltb (Rabs (r2 - r1)) tol); destruct (Rltb (Rabs (r0 - r2)) tol); destruct (Rltb (Rabs (r1 - r0)) tol);
      cbn [andb]; try (unfold Rc; field; fail); field; split; assumption.
  Qed.
End RhatScaling.

(* ------------------------------------------------------------------------------------------ *)
Section Prescribed.
  (* what WriteStatic2D prints for an axisymmetric problem: the flux 2 pi r A (r in metres), A = V*c *)
  Lemma written_flux_nth (P : probR) (V : vecT R) i : length V = length (mnodes P) -> (i < length V)%nat ->
    nth i (written_flux RA P V) 0
      = vgetR (written_A RA V) i * (mx (nth i (mnodes P) (dmnode RA)) * e2 RA * 2 * PI).
  Proof.
    intros HL Hi. unfold written_flux. rewrite vget_written.
    set (f := fun vn : R * mnode (F:=R) => aadd RA 0 0 * 0 + fst vn * c4pi RA * (mx (snd vn) * e2 RA * 2 * PI)).
    rewrite (map_ext _ f) by (intros [v n]; unfold f; ra_simpl; ring).
    replace 0 with (f (0, dmnode RA)) at 1 by (unfold f; cbn; ra_simpl; ring).
    rewrite map_nth, combine_nth by exact HL. unfold f. cbn [fst snd]. unfold vget. ra_simpl. ring.
  Qed.

  (* L.SetValue(i, a/c) (points with a prescribed A, boundary segments) and L.SetValue(i, 0) (nodes on the
     axis): in every solution of the constrained system the written flux of node i is 2 pi r a (r in
     metres), hence 0 on the axis, and all other equations are the unconstrained ones *)
  Theorem axi_setvalue_prescribes (P : probR) (L : lin (F:=R)) i a V :
    mat_wf (lM L) -> ln L = length (lM L) -> length (lb L) = length (lM L) ->
    (i < length (lM L))%nat -> sv_covered L i -> mgetR (lM L) i i <> 0 ->
    length V = length (mnodes P) -> (i < length V)%nat ->
    let L' := setvalue RA L i (a / c4pi RA) in
    (forall k, (k < length (lM L))%nat -> Ax (lM L') V k = vgetR (lb L') k) ->
    nth i (written_flux RA P V) 0 = a * (mx (nth i (mnodes P) (dmnode RA)) * e2 RA * 2 * PI) /\
    forall k, (k < length (lM L))%nat -> k <> i -> Ax (lM L) V k = vgetR (lb L) k.
  Proof.
    intros Hwf Hn Hb Hi Hc Hd HL HiV L' Hs.
    destruct (setvalue_prescribes L i a V Hwf Hn Hb Hi Hc Hd Hs) as [Hv Hr].
    split; [|exact Hr]. rewrite written_flux_nth by assumption. rewrite Hv. reflexivity.
  Qed.

  Corollary axi_axis_node_zero (P : probR) (L : lin (F:=R)) i V :
    mat_wf (lM L) -> ln L = length (lM L) -> length (lb L) = length (lM L) ->
    (i < length (lM L))%nat -> sv_covered L i -> mgetR (lM L) i i <> 0 ->
    let L' := setvalue RA L i (azero RA) in
    (forall k, (k < length (lM L))%nat -> Ax (lM L') V k = vgetR (lb L') k) ->
    vgetR V i = 0.
  Proof.
    intros Hwf Hn Hb Hi Hc Hd L' Hs.
    exact (proj1 (proj1 (setvalue_equiv L i (azero RA) V Hwf Hn Hb Hi Hc Hd) Hs)).
  Qed.
End Prescribed.

(* ------------------------------------------------------------------------------------------ *)
Section RhatMeaning.
  (* what the logarithm formula of the generic branch computes: with l_j the logarithms of the nodal radii,
     1/R_hat is the mean of 1/r over the element — the integral of 1/r over the triangle is, by Green's theorem,
     the contour integral of ln r dz, which over a straight edge a -> b equals
     (z_b - z_a) * ((r_b l_b - r_a l_a)/(r_b - r_a) - 1).  (Pure algebra in the atoms l_j.) *)
  Definition edge_ln_r_dz (ra za la rb zb lb : R) : R := (zb - za) * ((rb * lb - ra * la) / (rb - ra) - 1).

  Theorem r_hat_generic_is_mean_inverse_radius (tol r0 r1 r2 z0 z1 z2 l0 l1 l2 m0 m1 m2 : R) :
    let rn := [r0; r1; r2] in let q := [r2 - r1; r0 - r2; r1 - r0] in
    let a := ((z1 - z2) * (r0 - r2) - (z2 - z0) * (r2 - r1)) / 2 in
    let contour := edge_ln_r_dz r0 z0 l0 r1 z1 l1 + edge_ln_r_dz r1 z1 l1 r2 z2 l2 + edge_ln_r_dz r2 z2 l2 r0 z0 l0 in
    Rltb (Rabs (r2 - r1)) tol = false -> Rltb (Rabs (r0 - r2)) tol = false -> Rltb (Rabs (r1 - r0)) tol = false ->
    r2 - r1 <> 0 -> r0 - r2 <> 0 -> r1 - r0 <> 0 ->
    (r2 - r1) * r0 * l0 + (r0 - r2) * r1 * l1 + (r1 - r0) * r2 * l2 <> 0 -> contour <> 0 ->
    r_hat_default RA tol rn q ((r0 + r1 + r2) / 3) (mkALogs (l0, l1, l2) (m0, m1, m2)) = a / contour.
  Proof.
    intros rn q a contour T0 T1 T2 Q0 Q1 Q2 HD HC.
    unfold r_hat_default, rn, q. cbn [lgn lgr tri_get]. unfold vget. cbn [nth]. ra_simpl.
    rewrite T0, T1, T2. cbn [andb].
    set (D := (r2 - r1) * r0 * l0 + (r0 - r2) * r1 * l1 + (r1 - r0) * r2 * l2) in *.
    assert (E : contour = - (2 * a * D) / ((r2 - r1) * (r0 - r2) * (r1 - r0))).
    { unfold contour, edge_ln_r_dz, a, D. field. repeat split; assumption. }
    assert (Ha : a <> 0).
    { intro Hz. apply HC. rewrite E, Hz. unfold Rdiv. ring. }
    rewrite E. field. repeat split; assumption.
  Qed.
End RhatMeaning.
