(* PropRefsProofs.v — lemmas about the model of PropRefs.v (C15). *)
From Coq Require Import List String Bool Arith Lia Permutation.
From XF Require Import PropRefs.
Import ListNotations.
Local Open Scope string_scope.
Local Open Scope list_scope.

(* ---------------------------------------------------------------------------------------- *)
(* small facts                                                                               *)
Lemma kind_eqb_refl : forall k, kind_eqb k k = true.
Proof. destruct k; reflexivity. Qed.
Lemma kind_eqb_eq : forall a b, kind_eqb a b = true <-> a = b.
Proof. destruct a, b; simpl; split; intro H; try reflexivity; try discriminate. Qed.
Lemma ety_eqb_refl : forall t, ety_eqb t t = true.
Proof. destruct t; reflexivity. Qed.
Lemma ety_eqb_eq : forall a b, ety_eqb a b = true <-> a = b.
Proof. destruct a, b; simpl; split; intro H; try reflexivity; try discriminate. Qed.

Lemma upd_same : forall A (f : kind -> A) k v, upd f k v k = v.
Proof. intros. unfold upd. rewrite kind_eqb_refl. reflexivity. Qed.
Lemma upd_other : forall A (f : kind -> A) k k' v, k <> k' -> upd f k v k' = f k'.
Proof.
  intros. unfold upd. destruct (kind_eqb k k') eqn:E; [apply kind_eqb_eq in E; contradiction|reflexivity].
Qed.
Lemma updt_same : forall A (f : ety -> A) t v, updt f t v t = v.
Proof. intros. unfold updt. rewrite ety_eqb_refl. reflexivity. Qed.
Lemma updt_other : forall A (f : ety -> A) t t' v, t <> t' -> updt f t v t' = f t'.
Proof.
  intros. unfold updt. destruct (ety_eqb t t') eqn:E; [apply ety_eqb_eq in E; contradiction|reflexivity].
Qed.

Lemma mem_In : forall n l, mem n l = true <-> In n l.
Proof.
  intros. unfold mem. rewrite existsb_exists. split.
  - intros [x [Hx E]]. apply String.eqb_eq in E. subst. exact Hx.
  - intro H. exists n. split; [exact H|apply String.eqb_refl].
Qed.
Lemma mem_false : forall n l, mem n l = false <-> ~ In n l.
Proof.
  intros. split; intro H.
  - intro HI. apply mem_In in HI. congruence.
  - destruct (mem n l) eqn:E; [exfalso; apply H; apply mem_In; exact E|reflexivity].
Qed.
Lemma mem_app : forall n l1 l2, mem n (l1 ++ l2) = mem n l1 || mem n l2.
Proof. intros. unfold mem. apply existsb_app. Qed.

(* ---------------------------------------------------------------------------------------- *)
(* the std::map model: lookup in the rebuilt map = index of the last occurrence               *)
Lemma map_find_set : forall m n i n',
  map_find (map_set m n i) n' = if String.eqb n n' then Some i else map_find m n'.
Proof.
  induction m as [|[k v] m IH]; intros; simpl.
  - reflexivity.
  - destruct (String.eqb k n) eqn:E; simpl.
    + apply String.eqb_eq in E. subst k. destruct (String.eqb n n'); reflexivity.
    + rewrite IH. destruct (String.eqb k n') eqn:E2; [|reflexivity].
      apply String.eqb_eq in E2. subst k. rewrite String.eqb_sym, E. reflexivity.
Qed.

Lemma map_find_build_from : forall l i m n,
  map_find (build_from l i m) n = last_index_from l n i (map_find m n).
Proof.
  induction l as [|p l IH]; intros; simpl.
  - reflexivity.
  - rewrite IH, map_find_set. reflexivity.
Qed.

Lemma map_find_build : forall l n, map_find (build_map l) n = last_index l n.
Proof. intros. unfold build_map, last_index. rewrite map_find_build_from. reflexivity. Qed.

Lemma last_index_from_some : forall l n i acc j,
  last_index_from l n i acc = Some j ->
  acc = Some j \/ exists k, j = i + k /\ nth_error l k = Some n.
Proof.
  induction l as [|p l IH]; intros n i acc j H; simpl in H.
  - left; exact H.
  - apply IH in H. destruct H as [H|[k [Hj Hk]]].
    + destruct (String.eqb p n) eqn:E.
      * right. exists 0. inversion H; subst. split; [lia|]. apply String.eqb_eq in E. subst. reflexivity.
      * left; exact H.
    + right. exists (S k). split; [lia|exact Hk].
Qed.

Lemma last_index_from_none : forall l n i acc,
  last_index_from l n i acc = None -> acc = None /\ mem n l = false.
Proof.
  induction l as [|p l IH]; intros n i acc H; simpl in H.
  - split; [exact H|reflexivity].
  - apply IH in H. destruct H as [H1 H2]. unfold mem in *. simpl. rewrite H2.
    destruct (String.eqb p n) eqn:E; [discriminate|].
    rewrite String.eqb_sym, E. split; [exact H1|reflexivity].
Qed.

Lemma last_index_from_mem : forall l n i acc,
  mem n l = true -> exists j, last_index_from l n i acc = Some j.
Proof.
  intros. destruct (last_index_from l n i acc) eqn:E; [eexists; reflexivity|].
  apply last_index_from_none in E. destruct E as [_ E]. rewrite E in H. discriminate.
Qed.

Lemma last_index_some : forall l n j, last_index l n = Some j -> nth_error l j = Some n.
Proof.
  intros l n j H. apply last_index_from_some in H. destruct H as [H|[k [Hj Hk]]]; [discriminate|].
  simpl in Hj. subst. exact Hk.
Qed.
Lemma last_index_none : forall l n, last_index l n = None -> mem n l = false.
Proof. intros l n H. apply last_index_from_none in H. apply H. Qed.
Lemma last_index_mem : forall l n, mem n l = true -> exists j, last_index l n = Some j.
Proof. intros. apply last_index_from_mem. exact H. Qed.

Lemma nth_error_mem : forall l j n, nth_error l j = Some n -> mem n l = true.
Proof. intros. apply mem_In. eapply nth_error_In; eauto. Qed.

(* resolving the index of the last occurrence gives the name iff some property carries it *)
Lemma resolve_last_index : forall l n, resolve l (last_index l n) = of_assoc (name_meaning l n).
Proof.
  intros. unfold name_meaning. destruct (last_index l n) eqn:E; simpl.
  - pose proof (last_index_some _ _ _ E) as H. rewrite H. rewrite (nth_error_mem _ _ _ H). reflexivity.
  - rewrite (last_index_none _ _ E). reflexivity.
Qed.

Lemma rd_wr : forall r, rd (wr r) = ridx r.
Proof. intros [[i|] n]; reflexivity. Qed.

Lemma rename_first_absent : forall l n n', mem n l = false -> rename_first l n n' = l.
Proof.
  induction l as [|p l IH]; intros; simpl; [reflexivity|].
  unfold mem in H. simpl in H. apply orb_false_iff in H. destruct H as [H1 H2].
  rewrite H1. f_equal. apply IH. exact H2.
Qed.

Lemma In_rename_first : forall l n n' x, In x (rename_first l n n') -> x = n' \/ In x l.
Proof.
  induction l as [|p l IH]; intros; simpl in *; [contradiction|].
  destruct (String.eqb n p).
  - destruct H; [left; symmetry; exact H|right; right; exact H].
  - destruct H; [right; left; exact H|]. apply IH in H. destruct H; [left|right; right]; assumption.
Qed.
Lemma In_set_nth : forall l i v x, In x (set_nth l i v) -> x = v \/ In x l.
Proof.
  induction l as [|p l IH]; intros; simpl in *; [destruct i; contradiction|].
  destruct i; simpl in H.
  - destruct H; [left; symmetry; exact H|right; right; exact H].
  - destruct H; [right; left; exact H|]. apply IH in H. destruct H; [left|right; right]; assumption.
Qed.
Lemma In_erase_named : forall l n x, In x (erase_named l n) -> In x l.
Proof. intros. unfold erase_named in H. apply filter_In in H. apply H. Qed.

(* ---------------------------------------------------------------------------------------- *)
(* abstraction of a document to the name-level document                                       *)
Definition strip (e : ent) : aent := mkaent (eid e) (esel e) (rname (er1 e)) (rname (er2 e)) (en0 e) (en1 e).

Definition Sim (d : doc) (a : adoc) : Prop :=
  (forall k, props d k = aprops a k) /\ (forall t, map strip (ents d t) = aents a t) /\ nextid d = anext a.

(* every stored index is right for the stored name *)
Definition ref_sound (l : list string) (r : ref) : Prop :=
  match ridx r with
  | Some j => nth_error l j = Some (rname r)
  | None => mem (rname r) l = false
  end.
Definition ents_sound (d : doc) : Prop :=
  forall t e, In e (ents d t) -> ref_sound (props d (k1 t)) (er1 e) /\ ref_sound (props d KCirc) (er2 e).

(* identifiers are unique and below the counter *)
Definition uniq (d : doc) : Prop :=
  forall t, NoDup (map eid (ents d t)) /\ forall e, In e (ents d t) -> eid e < nextid d.

Lemma find_map_fent : forall ph t l id,
  find_fent (map (wr_ent ph t) l) id = option_map (wr_ent ph t) (find_ent l id).
Proof.
  intros. unfold find_fent, find_ent. induction l as [|e l IH]; simpl; [reflexivity|].
  unfold has_id at 1. simpl. destruct (Nat.eqb (eid e) id); [reflexivity|exact IH].
Qed.

Lemma find_map_strip : forall l id,
  find (fun e => Nat.eqb (aid e) id) (map strip l) = option_map strip (find_ent l id).
Proof.
  intros. unfold find_ent. induction l as [|e l IH]; simpl; [reflexivity|].
  unfold has_id at 1. destruct (Nat.eqb (eid e) id); [reflexivity|exact IH].
Qed.

Lemma find_ent_In : forall l id e, find_ent l id = Some e -> In e l /\ eid e = id.
Proof.
  intros. unfold find_ent in H. apply find_some in H. destruct H as [H1 H2].
  split; [exact H1|]. unfold has_id in H2. apply Nat.eqb_eq in H2. exact H2.
Qed.

Lemma find_filter_keep : forall (p q : ent -> bool) l e,
  find p l = Some e -> q e = true -> find p (filter q l) = Some e.
Proof.
  induction l as [|x l IH]; intros e H Hq; simpl in *; [discriminate|].
  destruct (p x) eqn:Px.
  - inversion H; subst. rewrite Hq. simpl. rewrite Px. reflexivity.
  - destruct (q x); simpl; [rewrite Px|]; apply IH; assumption.
Qed.

Lemma find_filter_none_uniq : forall (q : ent -> bool) l e id,
  NoDup (map eid l) -> find (has_id id) l = Some e -> q e = false -> find (has_id id) (filter q l) = None.
Proof.
  induction l as [|x l IH]; intros e id Hn H Hq; simpl in *; [discriminate|].
  inversion Hn as [|? ? Hnotin Hn']; subst.
  destruct (has_id id x) eqn:Px.
  - inversion H; subst. rewrite Hq.
    (* no other element has this id *)
    destruct (find (has_id id) (filter q l)) eqn:F; [|reflexivity].
    apply find_some in F. destruct F as [F1 F2]. apply filter_In in F1. destruct F1 as [F1 _].
    unfold has_id in *. apply Nat.eqb_eq in Px. apply Nat.eqb_eq in F2.
    exfalso. apply Hnotin. rewrite Px, <- F2. apply in_map. exact F1.
  - destruct (q x); simpl; [rewrite Px|]; eapply IH; eauto.
Qed.

Lemma find_none_filter : forall (p q : ent -> bool) l, find p l = None -> find p (filter q l) = None.
Proof.
  intros. destruct (find p (filter q l)) eqn:F; [|reflexivity].
  apply find_some in F. destruct F as [F1 F2]. apply filter_In in F1. destruct F1 as [F1 _].
  eapply find_none in H; eauto. rewrite H in F2. discriminate.
Qed.

(* ---------------------------------------------------------------------------------------- *)
(* soundness of the stored indices  ==>  the saved file says what the name-level document says *)
Lemma resolve_sound : forall l r, ref_sound l r -> resolve l (ridx r) = of_assoc (name_meaning l (rname r)).
Proof.
  intros l r H. unfold ref_sound in H. unfold name_meaning. destruct (ridx r) eqn:E; simpl.
  - rewrite H. rewrite (nth_error_mem _ _ _ H). reflexivity.
  - rewrite H. reflexivity.
Qed.

Lemma is_hole_ahole : forall d a e, Sim d a -> ref_sound (props d KBlock) (er1 e) -> is_hole e = ahole a (strip e).
Proof.
  intros d a e [Hp _] H. unfold is_hole, ahole, ref_sound in *. simpl. rewrite <- Hp.
  destruct (ridx (er1 e)); [rewrite (nth_error_mem _ _ _ H)|rewrite H]; reflexivity.
Qed.

Lemma saved_meaning_sound : forall ph d a t id s,
  ents_sound d -> uniq d -> Sim d a -> has_slot ph t s = true ->
  saved_meaning ph d t id s = of_assoc (aassoc a t id s).
Proof.
  intros ph d a t id s Hs Hu HS Hslot.
  pose proof HS as [Hp [He _]].
  unfold saved_meaning, aassoc, afind. rewrite <- He, find_map_strip.
  assert (Hent : forall e, In e (ents d t) ->
            fent_meaning (save ph d) t s (wr_ent ph t e) =
            of_assoc (name_meaning (aprops a (slot_kind t s)) (if s then rname (er2 e) else rname (er1 e)))).
  { intros e Hin. destruct (Hs t e Hin) as [S1 S2]. unfold fent_meaning. simpl.
    destruct s; simpl.
    - unfold col2. rewrite Hslot. rewrite rd_wr, <- Hp. apply resolve_sound. exact S2.
    - rewrite rd_wr, <- Hp. apply resolve_sound. exact S1. }
  destruct t; simpl.
  - rewrite find_map_fent. destruct (find_ent (ents d TNode) id) eqn:F; simpl; [|reflexivity].
    apply find_ent_In in F. destruct F as [F _]. rewrite (Hent e F). destruct s; reflexivity.
  - rewrite find_map_fent. destruct (find_ent (ents d TSeg) id) eqn:F; simpl; [|reflexivity].
    apply find_ent_In in F. destruct F as [F _]. rewrite (Hent e F). destruct s; reflexivity.
  - rewrite find_map_fent. destruct (find_ent (ents d TArc) id) eqn:F; simpl; [|reflexivity].
    apply find_ent_In in F. destruct F as [F _]. rewrite (Hent e F). destruct s; reflexivity.
  - rewrite find_map_fent. destruct (find_ent (ents d TLabel) id) eqn:F; simpl.
    + pose proof (find_ent_In _ _ _ F) as [Fin _].
      destruct (Hs TLabel e Fin) as [S1 _]. simpl in S1.
      pose proof (is_hole_ahole d a e HS S1) as Hh.
      destruct (is_hole e) eqn:Eh.
      * (* written in the hole section *)
        unfold find_ent. rewrite (find_filter_none_uniq (fun e => negb (is_hole e)) _ e id (proj1 (Hu TLabel)) F);
          [|rewrite Eh; reflexivity].
        simpl. rewrite <- Hh.
        destruct s; [reflexivity|].
        unfold name_meaning. unfold ahole in Hh. simpl in Hh. apply (f_equal negb) in Hh. rewrite negb_involutive in Hh.
        simpl in Hh. rewrite <- Hh. reflexivity.
      * unfold find_ent. rewrite (find_filter_keep _ (fun e => negb (is_hole e)) _ e F); [|rewrite Eh; reflexivity].
        simpl. rewrite (Hent e Fin). rewrite <- Hh. destruct s; reflexivity.
    + unfold find_ent in *. rewrite (find_none_filter _ _ _ F). reflexivity.
Qed.

(* ---------------------------------------------------------------------------------------- *)
(* invariants of the repaired variant                                                        *)
Definition fresh (d : doc) : Prop := forall k, maps d k = build_map (props d k).
Definition ord_props (d : doc) : Prop := forall k n, In n (props d k) -> special n = false.
Definition ref_ok (m : smap) (r : ref) : Prop := ridx r = map_find m (rname r).
(* generic shape of the invariants: a predicate on every stored reference, which may look at
   the property lists and the maps *)
Definition rpred := (kind -> list string) -> (kind -> smap) -> kind -> ref -> Prop.
Definition ent_R (R : rpred) (d : doc) (t : ety) (e : ent) : Prop :=
  R (props d) (maps d) (k1 t) (er1 e) /\ R (props d) (maps d) KCirc (er2 e).
Definition GI (R : rpred) (d : doc) : Prop :=
  fresh d /\ ord_props d /\ (forall t e, In e (ents d t) -> ent_R R d t e) /\ uniq d.
(* repaired variant: the stored index is what the (fresh) map gives for the stored name *)
Definition Rfix : rpred := fun _ m k r => ref_ok (m k) r.
Definition ent_ok_at (d : doc) (t : ety) (e : ent) : Prop := ent_R Rfix d t e.
Definition ents_ok (d : doc) : Prop := forall t e, In e (ents d t) -> ent_ok_at d t e.
Definition Inv (d : doc) : Prop := GI Rfix d.

Lemma last_index_absent : forall l n, mem n l = false -> last_index l n = None.
Proof.
  intros. destruct (last_index l n) eqn:E; [|reflexivity].
  apply last_index_some in E. apply nth_error_mem in E. congruence.
Qed.

Lemma ref_ok_sound : forall l r, ref_ok (build_map l) r -> ref_sound l r.
Proof.
  intros l r H. unfold ref_ok in H. rewrite map_find_build in H. unfold ref_sound. rewrite H.
  destruct (last_index l (rname r)) eqn:E; [apply last_index_some|apply last_index_none]; exact E.
Qed.

Lemma Inv_sound : forall d, Inv d -> ents_sound d.
Proof.
  intros d [Hf [_ [Ho _]]] t e Hin. destruct (Ho t e Hin) as [H1 H2]. unfold Rfix in H1, H2.
  rewrite Hf in H1, H2. split; apply ref_ok_sound; assumption.
Qed.

Lemma special_absent : forall d k n, ord_props d -> special n = true -> mem n (props d k) = false.
Proof.
  intros. apply mem_false. intro HI. apply H in HI. congruence.
Qed.

Lemma map_find_special : forall d k n, fresh d -> ord_props d -> special n = true -> map_find (maps d k) n = None.
Proof.
  intros. rewrite H, map_find_build. apply last_index_absent. eapply special_absent; eauto.
Qed.

Lemma Inv_init : Inv init.
Proof.
  repeat split; simpl; try reflexivity; try contradiction; try constructor.
  intros k n H. contradiction.
Qed.
Lemma Sim_init : Sim init ainit.
Proof. repeat split. Qed.

(* -- the repair ------------------------------------------------------------------------- *)
Lemma strip_reres_ent : forall m1 m2 e, strip (reres_ent m1 m2 e) = strip e.
Proof. intros. destruct e as [i s [i1 n1] [i2 n2] a b]. reflexivity. Qed.

Lemma refresh_Inv : forall d, ord_props d -> uniq d -> Inv (refresh d).
Proof.
  intros d Ho Hu. unfold Inv. split; [|split; [|split]].
  - intro k. reflexivity.
  - exact Ho.
  - intros t e Hin. simpl in Hin. apply in_map_iff in Hin. destruct Hin as [e0 [He _]]. subst e.
    split; reflexivity.
  - intro t. destruct (Hu t) as [H1 H2]. simpl. rewrite map_map.
    rewrite (map_ext _ eid) by (intro; reflexivity). split; [exact H1|].
    intros e Hin. apply in_map_iff in Hin. destruct Hin as [e0 [He Hin]]. subst e. simpl. apply H2. exact Hin.
Qed.

Lemma refresh_Sim : forall d a, Sim d a -> Sim (refresh d) a.
Proof.
  intros d a [Hp [He Hn]]. split; [|split]; simpl.
  - exact Hp.
  - intro t. rewrite map_map. rewrite <- He. apply map_ext. intro. apply strip_reres_ent.
  - exact Hn.
Qed.

(* changing one property list and refreshing *)
Lemma prop_step : forall d a k l rb,
  Inv d -> Sim d a -> (forall n, In n l -> special n = false) ->
  Inv (refresh (with_props d k l rb)) /\
  Sim (refresh (with_props d k l rb)) (mkadoc (upd (aprops a) k l) (aents a) (anext a)).
Proof.
  intros d a k l rb [Hf [Ho [Hok Hu]]] [Hp [He Hn]] Hl. split.
  - apply refresh_Inv.
    + intros k' n Hin. simpl in Hin. unfold upd in Hin. destruct (kind_eqb k k'); [apply Hl; exact Hin|eapply Ho; eauto].
    + exact Hu.
  - apply refresh_Sim. split; [|split]; simpl.
    + intro k'. unfold upd. destruct (kind_eqb k k'); [reflexivity|apply Hp].
    + exact He.
    + exact Hn.
Qed.

Lemma Sim_same_props : forall d a k,
  Sim d a -> Sim d (mkadoc (upd (aprops a) k (aprops a k)) (aents a) (anext a)).
Proof.
  intros d a k [Hp [He Hn]]. split; [|split]; simpl; auto.
  intro k'. unfold upd. destruct (kind_eqb k k') eqn:E; [apply kind_eqb_eq in E; subst|]; apply Hp.
Qed.

(* -- entity-list steps (generic in the reference predicate) ------------------------------ *)
Section Generic.
Variable R : rpred.

Lemma sim_updt : forall (f : ety -> list ent) (g : ety -> list aent) t l l',
  (forall t', map strip (f t') = g t') -> map strip l = l' ->
  forall t', map strip (updt f t l t') = updt g t l' t'.
Proof. intros. unfold updt. destruct (ety_eqb t t'); auto. Qed.

Lemma Inv_with_ents : forall d t l n',
  GI R d -> (forall e, In e l -> ent_R R d t e) ->
  NoDup (map eid l) -> (forall e, In e l -> eid e < n') -> nextid d <= n' ->
  GI R (mkdoc (props d) (maps d) (updt (ents d) t l) n').
Proof.
  intros d t l n' [Hf [Ho [Hok Hu]]] Hl Hnd Hlt Hle. split; [|split; [|split]].
  - exact Hf.
  - exact Ho.
  - intros t' e Hin. simpl in Hin. unfold updt in Hin. destruct (ety_eqb t t') eqn:E.
    + apply ety_eqb_eq in E. subst t'. apply Hl. exact Hin.
    + apply (Hok t' e Hin).
  - intro t'. simpl. unfold updt. destruct (ety_eqb t t') eqn:E.
    + split; assumption.
    + destruct (Hu t') as [H1 H2]. split; [exact H1|]. intros e Hin. specialize (H2 e Hin). lia.
Qed.

(* a step that maps every entity to one with the same id and the same references *)
Definition keeps (f : ent -> ent) : Prop := forall e, eid (f e) = eid e /\ er1 (f e) = er1 e /\ er2 (f e) = er2 e.

Lemma Inv_map_all : forall d (f : ety -> ent -> ent),
  GI R d -> (forall t, keeps (f t)) ->
  GI R (mkdoc (props d) (maps d) (fun t => map (f t) (ents d t)) (nextid d)).
Proof.
  intros d f [Hf [Ho [Hok Hu]]] Hk. split; [|split; [|split]]; try assumption.
  - intros t e Hin. simpl in Hin. apply in_map_iff in Hin. destruct Hin as [e0 [He Hin]]. subst e.
    destruct (Hk t e0) as [_ [K1 K2]]. unfold ent_R. simpl. rewrite K1, K2. apply (Hok t e0 Hin).
  - intro t. simpl. destruct (Hu t) as [H1 H2]. rewrite map_map.
    rewrite (map_ext _ eid) by (intro e; apply (Hk t e)). split; [exact H1|].
    intros e Hin. apply in_map_iff in Hin. destruct Hin as [e0 [He Hin]]. subst e.
    rewrite (proj1 (Hk t e0)). apply H2. exact Hin.
Qed.

Lemma keeps_set_sel : forall b, keeps (set_sel b).
Proof. intros b e. repeat split. Qed.

Lemma unselect_Inv : forall d, GI R d -> GI R (unselect_all d).
Proof. intros. apply (Inv_map_all d (fun _ => set_sel false)); [assumption|intro; apply keeps_set_sel]. Qed.
Lemma unselect_Sim : forall d a, Sim d a -> Sim (unselect_all d) (aunselect a).
Proof.
  intros d a [Hp [He Hn]]. split; [|split]; simpl; auto.
  intro t. rewrite <- He, !map_map. apply map_ext. intro e. reflexivity.
Qed.

Lemma In_map_cond : forall (c : ent -> bool) (f : ent -> ent) l e',
  In e' (map (fun e => if c e then f e else e) l) -> exists e, In e l /\ (e' = f e \/ e' = e).
Proof.
  intros. apply in_map_iff in H. destruct H as [e [He Hin]]. exists e. split; [exact Hin|].
  destruct (c e); [left|right]; symmetry; exact He.
Qed.

Lemma map_eid_cond : forall (c : ent -> bool) (f : ent -> ent) l,
  (forall e, eid (f e) = eid e) -> map eid (map (fun e => if c e then f e else e) l) = map eid l.
Proof.
  intros. rewrite map_map. apply map_ext. intro e. destruct (c e); [apply H|reflexivity].
Qed.

(* replacing the entities of one type by conditionally modified ones *)
Lemma Inv_cond : forall d t (c : ent -> bool) (f : ent -> ent),
  GI R d -> (forall e, eid (f e) = eid e) -> (forall e, In e (ents d t) -> ent_R R d t (f e)) ->
  GI R (with_ents d t (map (fun e => if c e then f e else e) (ents d t))).
Proof.
  intros d t c f HI Hid Hf. pose proof HI as [_ [_ [Hok Hu]]]. apply Inv_with_ents; auto.
  - intros e' Hin. apply In_map_cond in Hin. destruct Hin as [e [Hin [E|E]]]; subst e'; [apply Hf|apply Hok]; exact Hin.
  - rewrite map_eid_cond by exact Hid. apply (Hu t).
  - intros e' Hin. apply In_map_cond in Hin. destruct Hin as [e [Hin [E|E]]]; subst e'; [rewrite Hid|]; apply (Hu t); exact Hin.
Qed.

Lemma rname_arg_ref : forall m a dflt, rname (arg_ref m a dflt) = arg_name a dflt.
Proof. intros. destruct a; reflexivity. Qed.

Lemma Sim_cond : forall d a t (c : ent -> bool) (f : ent -> ent) (af : aent -> aent),
  Sim d a -> (forall e, strip (if c e then f e else e) = if asel (strip e) then af (strip e) else strip e) ->
  Sim (with_ents d t (map (fun e => if c e then f e else e) (ents d t))) (aset_selected a t af).
Proof.
  intros d a t c f af [Hp [He Hn]] Hf. split; [|split]; simpl; auto.
  apply sim_updt; [exact He|]. rewrite <- He, !map_map. apply map_ext. exact Hf.
Qed.

(* -- copies ----------------------------------------------------------------------------- *)
Lemma nodup_app : forall (l1 l2 : list nat),
  NoDup l1 -> NoDup l2 -> (forall x, In x l1 -> In x l2 -> False) -> NoDup (l1 ++ l2).
Proof.
  induction l1 as [|x l1 IH]; intros l2 H1 H2 Hd; simpl; [exact H2|].
  inversion H1; subst. constructor.
  - intro Hin. apply in_app_or in Hin. destruct Hin; [contradiction|]. apply (Hd x); [left; reflexivity|exact H].
  - apply IH; auto. intros y Hy1 Hy2. apply (Hd y); [right; exact Hy1|exact Hy2].
Qed.

Definition same_refs (c e : ent) : Prop := er1 c = er1 e /\ er2 c = er2 e.

Lemma copy_simple_spec : forall l nid cs n',
  copy_simple l nid = (cs, n') ->
  acopy_simple (map strip l) nid = (map strip cs, n') /\
  (forall c, In c cs -> exists e, In e l /\ same_refs c e) /\
  nid <= n' /\ (forall c, In c cs -> nid <= eid c < n') /\ NoDup (map eid cs).
Proof.
  induction l as [|e l IH]; intros nid cs n' H; simpl in H.
  - inversion H; subst. simpl. repeat split; try contradiction; try lia. constructor.
  - simpl. destruct (esel e) eqn:Es.
    + destruct (copy_simple l (S nid)) as [cs0 n0] eqn:E. inversion H; subst. clear H.
      destruct (IH _ _ _ E) as [A [B [C [D F]]]]. rewrite A. simpl. split; [reflexivity|]. split; [|split; [|split]].
      * intros c [Hc|Hc]; [subst c; exists e; split; [left; reflexivity|split; reflexivity]|].
        destruct (B c Hc) as [e0 [He0 Hs]]. exists e0. split; [right; exact He0|exact Hs].
      * lia.
      * intros c [Hc|Hc]; [subst c; simpl; lia|]. specialize (D c Hc). lia.
      * simpl. constructor; [|exact F]. intro Hin. apply in_map_iff in Hin. destruct Hin as [c [Hc Hin]].
        specialize (D c Hin). lia.
    + destruct (IH _ _ _ H) as [A [B [C [D F]]]]. rewrite A. split; [reflexivity|]. split; [|split; [|split]]; auto.
      intros c Hc. destruct (B c Hc) as [e0 [He0 Hs]]. exists e0. split; [right; exact He0|exact Hs].
Qed.

Lemma clone_node_strip : forall nodes id nid,
  aclone_node (map strip nodes) id nid = map strip (clone_node nodes id nid).
Proof.
  intros. unfold aclone_node, clone_node. rewrite find_map_strip.
  destruct (find_ent nodes id); reflexivity.
Qed.
Lemma clone_node_spec : forall nodes id nid c,
  In c (clone_node nodes id nid) -> eid c = nid /\ exists e, In e nodes /\ same_refs c e.
Proof.
  intros. unfold clone_node in H. destruct (find_ent nodes id) eqn:F; [|contradiction].
  destruct H as [H|[]]. subst c. split; [reflexivity|]. apply find_ent_In in F. exists e. split; [apply F|split; reflexivity].
Qed.

Lemma copy_lines_spec : forall nodes l nid ns cs n',
  copy_lines nodes l nid = (ns, cs, n') ->
  acopy_lines (map strip nodes) (map strip l) nid = (map strip ns, map strip cs, n') /\
  (forall c, In c ns -> exists e, In e nodes /\ same_refs c e) /\
  (forall c, In c cs -> exists e, In e l /\ same_refs c e) /\
  nid <= n' /\ (forall c, In c ns -> nid <= eid c < n') /\ (forall c, In c cs -> nid <= eid c < n') /\
  NoDup (map eid ns) /\ NoDup (map eid cs).
Proof.
  induction l as [|e l IH]; intros nid ns cs n' H; simpl in H.
  - inversion H; subst. simpl. repeat split; try contradiction; try lia; constructor.
  - simpl. destruct (esel e) eqn:Es.
    + destruct (copy_lines nodes l (nid + 3)) as [[ns0 cs0] n0] eqn:E. inversion H; subst. clear H.
      destruct (IH _ _ _ _ E) as [A [B [C [D [F [G [I J]]]]]]]. rewrite A. simpl.
      rewrite !clone_node_strip. split; [rewrite !map_app; reflexivity|].
      split; [|split; [|split; [|split; [|split; [|split]]]]].
      * intros c Hc. apply in_app_or in Hc. destruct Hc as [Hc|Hc]; [apply clone_node_spec in Hc; apply Hc|].
        apply in_app_or in Hc. destruct Hc as [Hc|Hc]; [apply clone_node_spec in Hc; apply Hc|apply B; exact Hc].
      * intros c [Hc|Hc]; [subst c; exists e; split; [left; reflexivity|split; reflexivity]|].
        destruct (C c Hc) as [e0 [He0 Hs]]. exists e0. split; [right; exact He0|exact Hs].
      * lia.
      * intros c Hc. apply in_app_or in Hc. destruct Hc as [Hc|Hc]; [apply clone_node_spec in Hc; destruct Hc as [Hc _]; lia|].
        apply in_app_or in Hc. destruct Hc as [Hc|Hc]; [apply clone_node_spec in Hc; destruct Hc as [Hc _]; lia|].
        specialize (F c Hc). lia.
      * intros c [Hc|Hc]; [subst c; simpl; lia|]. specialize (G c Hc). lia.
      * rewrite !map_app. apply nodup_app; [|apply nodup_app|].
        -- unfold clone_node. destruct (find_ent nodes (en0 e)); simpl; repeat constructor. intros [].
        -- unfold clone_node. destruct (find_ent nodes (en1 e)); simpl; repeat constructor. intros [].
        -- exact I.
        -- intros x H1 H2. apply in_map_iff in H1. destruct H1 as [c1 [E1 H1]]. apply clone_node_spec in H1. destruct H1 as [H1 _].
           apply in_map_iff in H2. destruct H2 as [c2 [E2 H2]]. specialize (F c2 H2). lia.
        -- intros x H1 H2. apply in_map_iff in H1. destruct H1 as [c1 [E1 H1]]. apply clone_node_spec in H1. destruct H1 as [H1 _].
           apply in_app_or in H2. destruct H2 as [H2|H2]; apply in_map_iff in H2; destruct H2 as [c2 [E2 H2]].
           ++ apply clone_node_spec in H2. destruct H2 as [H2 _]. lia.
           ++ specialize (F c2 H2). lia.
      * simpl. constructor; [|exact J]. intro Hin. apply in_map_iff in Hin. destruct Hin as [c [Hc Hin]].
        specialize (G c Hin). lia.
    + destruct (IH _ _ _ _ H) as [A [B [C [D [F [G [I J]]]]]]]. rewrite A. split; [reflexivity|].
      split; [exact B|]. split; [|split; [exact D|split; [exact F|split; [exact G|split; [exact I|exact J]]]]].
      intros c Hc. destruct (C c Hc) as [e0 [He0 Hs]]. exists e0. split; [right; exact He0|exact Hs].
Qed.

Lemma Inv_append : forall d t cs n',
  GI R d -> (forall c, In c cs -> exists t0 e, In e (ents d t0) /\ k1 t0 = k1 t /\ same_refs c e) ->
  nextid d <= n' -> (forall c, In c cs -> eid c < n') ->
  (forall c e, In c cs -> In e (ents d t) -> eid e < eid c) -> NoDup (map eid cs) ->
  GI R (mkdoc (props d) (maps d) (updt (ents d) t (ents d t ++ cs)) n').
Proof.
  intros d t cs n' HI Hc Hle Hid Hlo Hnd. pose proof HI as [_ [_ [Hok Hu]]]. apply Inv_with_ents; auto.
  - intros e Hin. apply in_app_or in Hin. destruct Hin as [Hin|Hin]; [apply Hok; exact Hin|].
    destruct (Hc e Hin) as [t0 [e0 [Hin0 [Hk [S1 S2]]]]]. destruct (Hok t0 e0 Hin0) as [O1 O2].
    unfold ent_R in *. rewrite S1, S2, <- Hk. split; assumption.
  - rewrite map_app. apply nodup_app; [apply (Hu t)|exact Hnd|].
    intros x H1 H2. apply in_map_iff in H1. destruct H1 as [e1 [E1 H1]].
    apply in_map_iff in H2. destruct H2 as [e2 [E2 H2]]. specialize (Hlo e2 e1 H2 H1). lia.
  - intros e Hin. apply in_app_or in Hin. destruct Hin as [Hin|Hin]; [apply (Hu t) in Hin; lia|apply Hid; exact Hin].
Qed.

Lemma set_step : forall d a t (r1 r2 : ref) (keep2 : bool) n1 n2,
  GI R d -> Sim d a ->
  R (props d) (maps d) (k1 t) r1 -> (keep2 = false -> R (props d) (maps d) KCirc r2) -> rname r1 = n1 -> rname r2 = n2 ->
  let d' := set_selected d t (fun e => set_refs r1 (if keep2 then er2 e else r2) e) in
  GI R d' /\
  Sim d' (aset_selected a t (fun e => mkaent (aid e) (asel e) n1 (if keep2 then an2 e else n2) (aa e) (ab e))).
Proof.
  intros d a t r1 r2 keep2 n1 n2 HI HS O1 O2 E1 E2 d'. split.
  - subst d'. unfold set_selected. apply Inv_cond; auto.
    intros e Hin. destruct HI as [_ [_ [Hok _]]]. split; simpl; [exact O1|].
    destruct keep2; [apply (Hok t e Hin)|apply O2; reflexivity].
  - subst d'. unfold set_selected. apply Sim_cond; auto.
    intro e. destruct e as [i s q1 q2 x y]. unfold strip. simpl. destruct s; simpl; [|reflexivity].
    rewrite E1. destruct keep2; [|rewrite E2]; reflexivity.
Qed.

Lemma copy_simple_step : forall d a t cs n',
  GI R d -> Sim d a -> copy_simple (ents d t) (nextid d) = (cs, n') ->
  GI R (mkdoc (props d) (maps d) (updt (ents d) t (ents d t ++ cs)) n') /\
  Sim (mkdoc (props d) (maps d) (updt (ents d) t (ents d t ++ cs)) n')
      (let '(acs, an') := acopy_simple (aents a t) (anext a) in
       mkadoc (aprops a) (updt (aents a) t (aents a t ++ acs)) an').
Proof.
  intros d a t cs n' HI HS E. pose proof HS as [Hp [He Hn]]. pose proof HI as [_ [_ [_ Hu]]].
  destruct (copy_simple_spec _ _ _ _ E) as [A [B [C [D F]]]]. split.
  - apply Inv_append; auto.
    + intros c Hc. destruct (B c Hc) as [e [Hin Hs]]. exists t, e. auto.
    + intros c Hc. apply D. exact Hc.
    + intros c e Hc Hin. specialize (D c Hc). apply (Hu t) in Hin. lia.
  - rewrite <- He, <- Hn, A. split; [|split]; simpl; auto.
    apply sim_updt; [exact He|]. rewrite map_app. reflexivity.
Qed.

Lemma copy_lines_step : forall d a t ns cs n',
  t <> TNode -> GI R d -> Sim d a -> copy_lines (ents d TNode) (ents d t) (nextid d) = (ns, cs, n') ->
  GI R (mkdoc (props d) (maps d) (updt (updt (ents d) TNode (ents d TNode ++ ns)) t (ents d t ++ cs)) n') /\
  Sim (mkdoc (props d) (maps d) (updt (updt (ents d) TNode (ents d TNode ++ ns)) t (ents d t ++ cs)) n')
      (let '(ans, acs, an') := acopy_lines (aents a TNode) (aents a t) (anext a) in
       mkadoc (aprops a) (updt (updt (aents a) TNode (aents a TNode ++ ans)) t (aents a t ++ acs)) an').
Proof.
  intros d a t ns cs n' Ht HI HS E. pose proof HS as [Hp [He Hn]]. pose proof HI as [_ [_ [_ Hu]]].
  destruct (copy_lines_spec _ _ _ _ _ _ E) as [A [B [C [D [F [G [I J]]]]]]]. split.
  - assert (H1 : GI R (mkdoc (props d) (maps d) (updt (ents d) TNode (ents d TNode ++ ns)) n')).
    { apply Inv_append; auto.
      + intros c Hc. destruct (B c Hc) as [e [Hin Hs]]. exists TNode, e. auto.
      + intros c Hc. apply F. exact Hc.
      + intros c e Hc Hin. specialize (F c Hc). apply (Hu TNode) in Hin. lia. }
    assert (Ho : updt (ents d) TNode (ents d TNode ++ ns) t = ents d t) by (apply updt_other; auto).
    pose proof (Inv_append _ t cs n' H1) as H2. simpl in H2. rewrite Ho in H2. apply H2; auto.
    + intros c Hc. destruct (C c Hc) as [e [Hin Hs]]. exists t, e. rewrite Ho. auto.
    + intros c Hc. apply G. exact Hc.
    + intros c e Hc Hin. specialize (G c Hc). apply (Hu t) in Hin. lia.
  - rewrite <- !He, <- Hn, A. split; [|split]; simpl; auto.
    apply sim_updt; [|rewrite map_app; reflexivity].
    apply sim_updt; [exact He|rewrite map_app; reflexivity].
Qed.

Definition is_entity_op (o : op) : bool :=
  match o with Add _ _ | Del _ _ | Rename _ _ _ | Reopen => false | _ => true end.
Definition args_ok (ph : phys) (d : doc) (o : op) : Prop :=
  match o with
  | SetNode p c => R (props d) (maps d) KPoint (arg_ref (maps d KPoint) p sNone) /\
                   (is_mag ph = false -> R (props d) (maps d) KCirc (arg_ref (maps d KCirc) c sNone))
  | SetSeg b c => R (props d) (maps d) KBdry (arg_ref (maps d KBdry) b sNone) /\
                  (is_mag ph = false -> R (props d) (maps d) KCirc (arg_ref (maps d KCirc) c sNone))
  | SetArc b c => R (props d) (maps d) KBdry (arg_ref (maps d KBdry) b sEmpty) /\
                  (is_mag ph = false -> R (props d) (maps d) KCirc (arg_ref (maps d KCirc) c sNone))
  | SetLabel m c => R (props d) (maps d) KBlock (arg_ref (maps d KBlock) m sNone) /\
                    (is_mag ph = true -> R (props d) (maps d) KCirc (arg_ref (maps d KCirc) c sNone))
  | AddEnt t _ _ => R (props d) (maps d) (k1 t) (default_r1 t) /\ R (props d) (maps d) KCirc dref
  | _ => True
  end.

(* every command that leaves the property lists alone (any variant: [post] is not involved) *)
Lemma entity_step : forall fx ph o d a,
  is_entity_op o = true -> args_ok ph d o -> GI R d -> Sim d a ->
  GI R (step fx ph o d) /\ Sim (step fx ph o d) (astep ph o a).
Proof.
  intros fx ph o d a Hent Hargs HI HS.
  pose proof HI as [Hf [Ho [Hok Hu]]]. pose proof HS as [Hp [He Hn]].
  destruct o; simpl in Hent; try discriminate; simpl in Hargs.
  - (* AddEnt *)
    assert (Hnew : ent_R R d t (mkent (nextid d) false (default_r1 t) dref
                     (match t with TSeg | TArc => a0 | _ => 0 end) (match t with TSeg | TArc => b | _ => 0 end))).
    { exact Hargs. }
    assert (H1 : GI R (mkdoc (props d) (maps d)
                   (updt (ents d) t (ents d t ++ [mkent (nextid d) false (default_r1 t) dref
                     (match t with TSeg | TArc => a0 | _ => 0 end) (match t with TSeg | TArc => b | _ => 0 end)])) (S (nextid d)))).
    { apply Inv_with_ents; auto.
      - intros e Hin. apply in_app_or in Hin. destruct Hin as [Hin|[Hin|[]]]; [apply Hok; exact Hin|subst e; exact Hnew].
      - rewrite map_app. apply nodup_app; [apply (Hu t)|simpl; repeat constructor; intros []|].
        intros x H1 [H2|[]]. subst x. apply in_map_iff in H1. destruct H1 as [e [E H1]]. apply (Hu t) in H1. simpl in E. lia.
      - intros e Hin. apply in_app_or in Hin. destruct Hin as [Hin|[Hin|[]]]; [apply (Hu t) in Hin; lia|subst e; simpl; lia]. }
    assert (S1 : Sim (mkdoc (props d) (maps d)
                   (updt (ents d) t (ents d t ++ [mkent (nextid d) false (default_r1 t) dref
                     (match t with TSeg | TArc => a0 | _ => 0 end) (match t with TSeg | TArc => b | _ => 0 end)])) (S (nextid d)))
                 (mkadoc (aprops a) (updt (aents a) t (aents a t ++ [mkaent (anext a) false (default_n1 t) sNone
                     (match t with TSeg | TArc => a0 | _ => 0 end) (match t with TSeg | TArc => b | _ => 0 end)])) (S (anext a)))).
    { split; [|split]; simpl; auto. apply sim_updt; [exact He|]. rewrite map_app, He, Hn. simpl. unfold strip. simpl.
      destruct t; reflexivity. }
    simpl. unfold do_addent. destruct t; simpl; (split; [try apply unselect_Inv; exact H1|try apply unselect_Sim; exact S1]).
  - (* Select *)
    simpl. unfold do_select. split.
    + apply (Inv_cond d t (has_id id) (fun e => set_sel (negb (esel e)) e)); auto. intros e Hin. apply (Hok t e Hin).
    + split; [|split]; simpl; auto. apply sim_updt; [exact He|]. rewrite <- He, !map_map. apply map_ext.
      intro e. unfold has_id, strip. simpl. destruct (Nat.eqb (eid e) id); reflexivity.
  - (* ClearSel *)
    simpl. split; [apply unselect_Inv|apply unselect_Sim]; assumption.
  - (* SetNode *)
    simpl. unfold do_setnode. destruct Hargs as [A1 A2].
    apply (set_step d a TNode (arg_ref (maps d KPoint) p sNone) (arg_ref (maps d KCirc) c sNone) (is_mag ph) (arg_name p sNone) (arg_name c sNone));
      auto; apply rname_arg_ref.
  - (* SetSeg *)
    simpl. unfold do_setseg. destruct Hargs as [A1 A2].
    apply (set_step d a TSeg (arg_ref (maps d KBdry) b sNone) (arg_ref (maps d KCirc) c sNone) (is_mag ph) (arg_name b sNone) (arg_name c sNone));
      auto; apply rname_arg_ref.
  - (* SetArc *)
    simpl. unfold do_setarc. destruct Hargs as [A1 A2].
    apply (set_step d a TArc (arg_ref (maps d KBdry) b sEmpty) (arg_ref (maps d KCirc) c sNone) (is_mag ph) (arg_name b sEmpty) (arg_name c sNone));
      auto; apply rname_arg_ref.
  - (* SetLabel *)
    simpl. unfold do_setlabel. destruct Hargs as [A1 A2].
    destruct (is_mag ph) eqn:Em.
    + apply (set_step d a TLabel (arg_ref (maps d KBlock) m sNone) (arg_ref (maps d KCirc) c sNone) false (arg_name m sNone) (arg_name c sNone));
        auto; apply rname_arg_ref.
    + apply (set_step d a TLabel (arg_ref (maps d KBlock) m sNone) (arg_ref (maps d KCirc) c sNone) true (arg_name m sNone) (arg_name c sNone));
        auto; try apply rname_arg_ref; try discriminate.
  - (* Copy *)
    simpl. unfold do_copy. destruct t.
    + destruct (copy_simple (ents d TNode) (nextid d)) as [cs n'] eqn:E.
      destruct (copy_simple_step d a TNode cs n' HI HS E) as [A B].
      destruct (acopy_simple (aents a TNode) (anext a)) as [acs an']. split; [apply unselect_Inv|apply unselect_Sim]; assumption.
    + destruct (copy_lines (ents d TNode) (ents d TSeg) (nextid d)) as [[ns cs] n'] eqn:E.
      destruct (copy_lines_step d a TSeg ns cs n' ltac:(discriminate) HI HS E) as [A B].
      destruct (acopy_lines (aents a TNode) (aents a TSeg) (anext a)) as [[ans acs] an']. split; [apply unselect_Inv|apply unselect_Sim]; assumption.
    + destruct (copy_lines (ents d TNode) (ents d TArc) (nextid d)) as [[ns cs] n'] eqn:E.
      destruct (copy_lines_step d a TArc ns cs n' ltac:(discriminate) HI HS E) as [A B].
      destruct (acopy_lines (aents a TNode) (aents a TArc) (anext a)) as [[ans acs] an']. split; [apply unselect_Inv|apply unselect_Sim]; assumption.
    + destruct (copy_simple (ents d TLabel) (nextid d)) as [cs n'] eqn:E.
      destruct (copy_simple_step d a TLabel cs n' HI HS E) as [A B].
      destruct (acopy_simple (aents a TLabel) (anext a)) as [acs an']. split; [apply unselect_Inv|apply unselect_Sim]; assumption.
  - (* Move *)
    simpl. split; [apply unselect_Inv|apply unselect_Sim]; assumption.
  - (* Save *)
    simpl. split; assumption.
Qed.

End Generic.

Lemma arg_ref_ok : forall d k a dflt,
  fresh d -> ord_props d -> special dflt = true -> ref_ok (maps d k) (arg_ref (maps d k) a dflt).
Proof.
  intros. unfold ref_ok. destruct a; simpl; [reflexivity|].
  symmetry. apply map_find_special; assumption.
Qed.

(* -- save + re-open (repaired variant) --------------------------------------------------- *)
Lemma reload_ref : forall d k r dflt,
  fresh d -> ord_props d -> ref_ok (maps d k) r -> special dflt = true ->
  ref_ok (build_map (props d k)) (mkref (ridx r) (name_of (props d k) (ridx r) dflt)) /\
  name_of (props d k) (ridx r) dflt = akeep (props d k) (rname r) dflt.
Proof.
  intros d k r dflt Hf Ho Hr Hs. unfold ref_ok in *. rewrite Hf, map_find_build in Hr. simpl.
  unfold akeep, name_of. rewrite Hr. destruct (last_index (props d k) (rname r)) eqn:E.
  - pose proof (last_index_some _ _ _ E) as Hn. rewrite Hn. rewrite (nth_error_mem _ _ _ Hn).
    split; [rewrite map_find_build; symmetry; exact E|reflexivity].
  - rewrite (last_index_none _ _ E). split; [|reflexivity].
    rewrite map_find_build. symmetry. apply last_index_absent. eapply special_absent; eauto.
Qed.

Lemma filter_partition_perm : forall (A : Type) (p : A -> bool) l,
  Permutation (filter p l ++ filter (fun x => negb (p x)) l) l.
Proof.
  induction l as [|x l IH]; simpl; [constructor|].
  destruct (p x); simpl.
  - constructor. exact IH.
  - eapply Permutation_trans; [apply Permutation_sym; apply Permutation_middle|]. constructor. exact IH.
Qed.

Lemma special_sNone : special sNone = true. Proof. reflexivity. Qed.
Lemma special_sNoMesh : special sNoMesh = true. Proof. reflexivity. Qed.
Lemma special_sEmpty : special sEmpty = true. Proof. reflexivity. Qed.
Lemma special_default_n1 : forall t, special (default_n1 t) = true. Proof. destruct t; reflexivity. Qed.

Lemma reload_ent : forall ph d a t e,
  Inv d -> Sim d a -> In e (ents d t) ->
  let e' := ld_ent true ph (save ph d) t (wr_ent ph t e) in
  eid e' = eid e /\
  (ref_ok (build_map (props d (k1 t))) (er1 e') /\ ref_ok (build_map (props d KCirc)) (er2 e')) /\
  strip e' = areopen_ent ph a t (strip e).
Proof.
  intros ph d a t e [Hf [Ho [Hok Hu]]] [Hp _] Hin e'.
  destruct (Hok t e Hin) as [O1 O2].
  destruct (reload_ref d (k1 t) (er1 e) (default_n1 t) Hf Ho O1 (special_default_n1 t)) as [A1 A2].
  destruct (reload_ref d KCirc (er2 e) sNone Hf Ho O2 special_sNone) as [B1 B2].
  assert (R1 : er1 e' = mkref (ridx (er1 e)) (name_of (props d (k1 t)) (ridx (er1 e)) (default_n1 t))).
  { subst e'. unfold ld_ent. simpl. rewrite rd_wr. destruct t; reflexivity. }
  assert (R2 : er2 e' = if has_slot ph t true
                        then mkref (ridx (er2 e)) (name_of (props d KCirc) (ridx (er2 e)) sNone)
                        else mkref None sNone).
  { subst e'. destruct t, ph; unfold ld_ent, wr_ent, col2; simpl; rewrite ?rd_wr; reflexivity. }
  split; [reflexivity|]. split.
  - rewrite R1, R2. split; [exact A1|]. destruct (has_slot ph t true); [exact B1|].
    unfold ref_ok. simpl. rewrite map_find_build. symmetry. apply last_index_absent. eapply special_absent; eauto.
  - unfold strip, areopen_ent. rewrite R1, R2. destruct (has_slot ph t true) eqn:Hs; simpl; rewrite <- !Hp, A2, ?B2; reflexivity.
Qed.

Lemma filter_map_strip : forall (p : ent -> bool) (q : aent -> bool) l,
  (forall e, In e l -> p e = q (strip e)) -> filter q (map strip l) = map strip (filter p l).
Proof.
  induction l as [|e l IH]; intros H; simpl; [reflexivity|].
  rewrite <- (H e (or_introl eq_refl)). destruct (p e); simpl; rewrite IH; auto; intros; apply H; right; assumption.
Qed.

Lemma reopen_Inv_Sim : forall ph d a,
  Inv d -> Sim d a ->
  Inv (load true ph (save ph d) (nextid d)) /\ Sim (load true ph (save ph d) (nextid d)) (areopen ph a).
Proof.
  intros ph d a HI HS. pose proof HI as [Hf [Ho [Hok Hu]]]. pose proof HS as [Hp [He Hn]].
  pose proof (Inv_sound d HI) as Hsound.
  assert (Hhole : forall e, In e (ents d TLabel) -> is_hole e = ahole a (strip e)).
  { intros e Hin. apply (is_hole_ahole d a e HS). apply (Hsound TLabel e Hin). }
  (* the entity lists after loading, type by type *)
  assert (Hsimple : forall t l, (forall e, In e l -> In e (ents d t)) ->
            (forall e', In e' (map (ld_ent true ph (save ph d) t) (map (wr_ent ph t) l)) ->
               exists e, In e l /\ eid e' = eid e /\
                 ref_ok (build_map (props d (k1 t))) (er1 e') /\ ref_ok (build_map (props d KCirc)) (er2 e')) /\
            map eid (map (ld_ent true ph (save ph d) t) (map (wr_ent ph t) l)) = map eid l /\
            map strip (map (ld_ent true ph (save ph d) t) (map (wr_ent ph t) l)) = map (areopen_ent ph a t) (map strip l)).
  { intros t l Hl. split; [|split].
    - intros e' Hin. rewrite map_map in Hin. apply in_map_iff in Hin. destruct Hin as [e [E Hin]]. subst e'.
      exists e. destruct (reload_ent ph d a t e HI HS (Hl e Hin)) as [A [B _]]. split; [exact Hin|split; [exact A|exact B]].
    - rewrite !map_map. apply map_ext_in. intros e Hin. apply (reload_ent ph d a t e HI HS (Hl e Hin)).
    - rewrite !map_map. apply map_ext_in. intros e Hin. apply (reload_ent ph d a t e HI HS (Hl e Hin)). }
  assert (Hholes : map strip (map ld_hole (map (wr_ent ph TLabel) (filter is_hole (ents d TLabel)))) =
                   map (fun e => mkaent (aid e) false sNoMesh sNone 0 0) (filter (ahole a) (aents a TLabel))).
  { rewrite <- He. rewrite (filter_map_strip is_hole (ahole a)) by exact Hhole.
    rewrite !map_map. apply map_ext. intro e. reflexivity. }
  split.
  - (* Inv *)
    split; [|split; [|split]].
    + intro k. reflexivity.
    + exact Ho.
    + intros t e' Hin. unfold ent_ok_at, ent_R, Rfix. simpl.
      destruct t; simpl in Hin.
      * destruct (Hsimple TNode (ents d TNode) (fun e H => H)) as [A _]. destruct (A e' Hin) as [e [_ [_ B]]]. exact B.
      * destruct (Hsimple TSeg (ents d TSeg) (fun e H => H)) as [A _]. destruct (A e' Hin) as [e [_ [_ B]]]. exact B.
      * destruct (Hsimple TArc (ents d TArc) (fun e H => H)) as [A _]. destruct (A e' Hin) as [e [_ [_ B]]]. exact B.
      * apply in_app_or in Hin. destruct Hin as [Hin|Hin].
        -- apply in_map_iff in Hin. destruct Hin as [f [E _]]. subst e'. simpl.
           unfold ref_ok. simpl. rewrite !map_find_build.
           split; symmetry; apply last_index_absent; eapply special_absent; eauto; reflexivity.
        -- destruct (Hsimple TLabel (filter (fun e => negb (is_hole e)) (ents d TLabel))) as [A _].
           { intros e H. apply filter_In in H. apply H. }
           destruct (A e' Hin) as [e [_ [_ B]]]. exact B.
    + intro t. simpl.
      destruct t; simpl.
      * destruct (Hsimple TNode (ents d TNode) (fun e H => H)) as [A [B _]]. rewrite B. split; [apply (Hu TNode)|].
        intros e' Hin. destruct (A e' Hin) as [e [Hin0 [E _]]]. rewrite E. apply (Hu TNode). exact Hin0.
      * destruct (Hsimple TSeg (ents d TSeg) (fun e H => H)) as [A [B _]]. rewrite B. split; [apply (Hu TSeg)|].
        intros e' Hin. destruct (A e' Hin) as [e [Hin0 [E _]]]. rewrite E. apply (Hu TSeg). exact Hin0.
      * destruct (Hsimple TArc (ents d TArc) (fun e H => H)) as [A [B _]]. rewrite B. split; [apply (Hu TArc)|].
        intros e' Hin. destruct (A e' Hin) as [e [Hin0 [E _]]]. rewrite E. apply (Hu TArc). exact Hin0.
      * destruct (Hsimple TLabel (filter (fun e => negb (is_hole e)) (ents d TLabel))) as [A [B _]].
        { intros e H. apply filter_In in H. apply H. }
        split.
        -- rewrite map_app, B. rewrite !map_map. simpl.
           rewrite (map_ext (fun x => eid x) eid) by reflexivity.
           rewrite <- map_app. eapply Permutation_NoDup; [|apply (Hu TLabel)].
           apply Permutation_sym. apply Permutation_map. apply filter_partition_perm.
        -- intros e' Hin. apply in_app_or in Hin. destruct Hin as [Hin|Hin].
           ++ rewrite map_map in Hin. apply in_map_iff in Hin. destruct Hin as [e [E Hin]]. subst e'. simpl.
              apply filter_In in Hin. apply (Hu TLabel). apply Hin.
           ++ destruct (A e' Hin) as [e [Hin0 [E _]]]. rewrite E. apply filter_In in Hin0. apply (Hu TLabel). apply Hin0.
  - (* Sim *)
    split; [|split]; simpl.
    + exact Hp.
    + intro t. destruct t; simpl.
      * destruct (Hsimple TNode (ents d TNode) (fun e H => H)) as [_ [_ C]]. rewrite C, He. reflexivity.
      * destruct (Hsimple TSeg (ents d TSeg) (fun e H => H)) as [_ [_ C]]. rewrite C, He. reflexivity.
      * destruct (Hsimple TArc (ents d TArc) (fun e H => H)) as [_ [_ C]]. rewrite C, He. reflexivity.
      * rewrite map_app, Hholes. f_equal.
        destruct (Hsimple TLabel (filter (fun e => negb (is_hole e)) (ents d TLabel))) as [_ [_ C]].
        { intros e H. apply filter_In in H. apply H. }
        rewrite C. f_equal. rewrite <- He. symmetry. apply filter_map_strip.
        intros e Hin. rewrite (Hhole e Hin). reflexivity.
    + exact Hn.
Qed.

(* -- one step of the repaired variant ---------------------------------------------------- *)
Lemma args_ok_fixed : forall ph d o, fresh d -> ord_props d -> args_ok Rfix ph d o.
Proof.
  intros ph d o Hf Ho. destruct o; simpl; auto; try (split; [|intros _]; unfold Rfix; apply arg_ref_ok; auto).
  destruct t; split; unfold Rfix, ref_ok; simpl; symmetry; apply map_find_special; auto.
Qed.

Lemma step_fixed : forall ph o d a,
  op_ordinary o = true -> Inv d -> Sim d a ->
  Inv (step true ph o d) /\ Sim (step true ph o d) (astep ph o a).
Proof.
  intros ph o d a Hord HI HS.
  pose proof HI as [Hf [Ho [Hok Hu]]]. pose proof HS as [Hp [He Hn]].
  destruct (is_entity_op o) eqn:Eo.
  { apply entity_step; auto. apply args_ok_fixed; auto. }
  destruct o; simpl in Eo; try discriminate; simpl in Hord.
  - (* Add *)
    simpl. unfold do_add, post. rewrite <- (Hp k). apply prop_step; auto.
    intros x Hin. apply in_app_or in Hin. destruct Hin as [Hin|[Hin|[]]]; [eapply Ho; eauto|subst x].
    apply negb_true_iff in Hord. exact Hord.
  - (* Del *)
    simpl. unfold do_del, post. rewrite <- (Hp k). apply prop_step; auto.
    intros x Hin. apply In_erase_named in Hin. eapply Ho; eauto.
  - (* Rename *)
    apply negb_true_iff in Hord.
    assert (Hfirst : forall rb, k <> KCirc ->
              (if mem n (props d k) then post true (with_props d k (rename_first (props d k) n n') rb) else d) = step true ph (Rename k n n') d ->
              Inv (step true ph (Rename k n n') d) /\ Sim (step true ph (Rename k n n') d) (astep ph (Rename k n n') a)).
    { intros rb Hk Heq. rewrite <- Heq. simpl. unfold arename. rewrite <- (Hp k).
      replace (match k with KCirc => rename_last (props d k) n n' | _ => rename_first (props d k) n n' end)
        with (rename_first (props d k) n n') by (destruct k; try reflexivity; contradiction).
      destruct (mem n (props d k)) eqn:Em.
      - unfold post. apply prop_step; auto. intros x Hin. apply In_rename_first in Hin.
        destruct Hin as [Hin|Hin]; [subst x; exact Hord|eapply Ho; eauto].
      - rewrite (rename_first_absent _ _ _ Em). split; [exact HI|]. rewrite (Hp k). apply Sim_same_props. exact HS. }
    destruct k.
    + apply (Hfirst true); [discriminate|reflexivity].
    + apply (Hfirst true); [discriminate|reflexivity].
    + apply (Hfirst false); [discriminate|reflexivity].
    + simpl. unfold do_rename, arename, rename_last. rewrite <- (Hp KCirc).
      rewrite (Hf KCirc), map_find_build.
      destruct (props d KCirc) as [|p0 l0] eqn:E.
      * unfold last_index. simpl. split; [exact HI|].
        pose proof (Sim_same_props d a KCirc HS) as H. rewrite <- (Hp KCirc), E in H. exact H.
      * destruct (last_index (p0 :: l0) n) eqn:El.
        -- unfold post. rewrite <- E. apply prop_step; auto. intros x Hin. apply In_set_nth in Hin.
           destruct Hin as [Hin|Hin]; [subst x; exact Hord|eapply Ho; eauto].
        -- split; [exact HI|].
           pose proof (Sim_same_props d a KCirc HS) as H. rewrite <- (Hp KCirc), E in H. exact H.
  - (* Reopen *)
    simpl. apply reopen_Inv_Sim; assumption.
Qed.

(* ---------------------------------------------------------------------------------------- *)
(* histories: the repaired variant                                                           *)
Lemma ordinary_cons : forall o h, ordinary (o :: h) = true -> op_ordinary o = true /\ ordinary h = true.
Proof. intros. unfold ordinary in *. simpl in H. apply andb_true_iff in H. exact H. Qed.

Lemma run_fixed : forall ph h d a,
  ordinary h = true -> Inv d -> Sim d a ->
  Inv (run_from true ph d h) /\ Sim (run_from true ph d h) (arun_from ph a h).
Proof.
  induction h as [|o h IH]; intros d a Hord HI HS; simpl; [split; assumption|].
  apply ordinary_cons in Hord. destruct Hord as [Ho Hh].
  destruct (step_fixed ph o d a Ho HI HS) as [HI' HS']. apply IH; assumption.
Qed.

Lemma save_assoc_fixed : forall ph h t id s,
  ordinary h = true -> has_slot ph t s = true ->
  saved_meaning ph (run true ph h) t id s = of_assoc (assoc ph h t id s).
Proof.
  intros ph h t id s Hord Hslot. unfold run, assoc, arun.
  destruct (run_fixed ph h init ainit Hord Inv_init Sim_init) as [HI HS].
  apply saved_meaning_sound; auto; [apply Inv_sound; exact HI|apply HI].
Qed.

(* what the analysis uses (block labels by index, the rest by name) *)
Lemma analysis_meaning_sound : forall ph d a t id s,
  ents_sound d -> Sim d a -> has_slot ph t s = true ->
  analysis_meaning ph d t id s = of_assoc (aassoc a t id s).
Proof.
  intros ph d a t id s Hs HS Hslot. pose proof HS as [Hp [He _]].
  unfold analysis_meaning, aassoc, afind. rewrite <- He, find_map_strip.
  destruct (find_ent (ents d t) id) eqn:F; simpl; [|reflexivity].
  apply find_ent_In in F. destruct F as [Fin _]. destruct (Hs t e Fin) as [S1 S2].
  destruct t; simpl.
  - rewrite Hslot. rewrite resolve_last_index. destruct s; simpl; rewrite Hp; reflexivity.
  - rewrite Hslot. rewrite resolve_last_index. destruct s; simpl; rewrite Hp; reflexivity.
  - rewrite Hslot. rewrite resolve_last_index. destruct s; simpl; rewrite Hp; reflexivity.
  - simpl in S1. rewrite <- (is_hole_ahole d a e HS S1).
    destruct (is_hole e) eqn:Eh.
    + destruct s; [reflexivity|]. simpl. rewrite <- Hp. unfold is_hole in Eh. unfold ref_sound in S1.
      destruct (ridx (er1 e)); [discriminate|]. unfold name_meaning. rewrite S1. reflexivity.
    + destruct s; simpl; rewrite <- Hp; apply resolve_sound; assumption.
Qed.

Lemma analysis_fixed : forall ph h t id s,
  ordinary h = true -> has_slot ph t s = true ->
  analysis_meaning ph (run true ph h) t id s = of_assoc (assoc ph h t id s).
Proof.
  intros ph h t id s Hord Hslot. unfold run, assoc, arun.
  destruct (run_fixed ph h init ainit Hord Inv_init Sim_init) as [HI HS].
  apply analysis_meaning_sound; auto. apply Inv_sound; exact HI.
Qed.

(* the association is the last assigned name or nothing — never another property *)
Lemma aassoc_last_assigned : forall ph h t id s n,
  assoc ph h t id s = Some n -> last_assigned ph h t id s = Some n.
Proof.
  intros ph h t id s n H. unfold assoc, aassoc, last_assigned in *.
  destruct (afind (arun ph h) t id); [|discriminate].
  unfold name_meaning in H.
  destruct s.
  - destruct t; try (destruct (mem (an2 a) (aprops (arun ph h) KCirc)); inversion H; reflexivity).
    destruct (ahole (arun ph h) a); [discriminate|].
    destruct (mem (an2 a) (aprops (arun ph h) KCirc)); inversion H; reflexivity.
  - destruct (mem (an1 a) (aprops (arun ph h) (k1 t))); inversion H; reflexivity.
Qed.

(* ---------------------------------------------------------------------------------------- *)
(* histories: the code as it is, without delete / rename / re-open and with defined names     *)
Definition ref_calm (l : list string) (r : ref) : Prop :=
  match ridx r with
  | Some j => nth_error l j = Some (rname r)
  | None => special (rname r) = true
  end.
Definition Rcalm : rpred := fun p _ k r => ref_calm (p k) r.
Definition InvC (d : doc) : Prop := GI Rcalm d.

Lemma InvC_sound : forall d, InvC d -> ents_sound d.
Proof.
  intros d [_ [Ho [Hok _]]] t e Hin. destruct (Hok t e Hin) as [H1 H2]. unfold Rcalm, ref_calm in *.
  split; unfold ref_sound.
  - destruct (ridx (er1 e)); [exact H1|eapply special_absent; eauto].
  - destruct (ridx (er2 e)); [exact H2|eapply special_absent; eauto].
Qed.

Lemma InvC_init : InvC init.
Proof.
  repeat split; simpl; try reflexivity; try contradiction; try constructor.
  intros k n H. contradiction.
Qed.

Lemma arg_ref_calm : forall d a k x dflt,
  fresh d -> Sim d a -> special dflt = true -> arg_defined (aprops a k) x = true ->
  ref_calm (props d k) (arg_ref (maps d k) x dflt).
Proof.
  intros d a k x dflt Hf [Hp _] Hs Hd. unfold ref_calm. destruct x as [n|]; simpl; [|exact Hs].
  simpl in Hd. rewrite <- Hp in Hd. rewrite Hf, map_find_build.
  destruct (last_index_mem _ _ Hd) as [j Hj]. rewrite Hj. apply last_index_some. exact Hj.
Qed.

Lemma args_ok_calm : forall ph d a o,
  fresh d -> Sim d a -> op_defined ph a o = true -> args_ok Rcalm ph d o.
Proof.
  intros ph d a o Hf HS Hd. destruct o; simpl; auto; simpl in Hd.
  - destruct t; split; reflexivity.
  - apply andb_true_iff in Hd. destruct Hd as [D1 D2]. split; [|intro Hm; rewrite Hm in D2; simpl in D2];
      unfold Rcalm; eapply arg_ref_calm; eauto.
  - apply andb_true_iff in Hd. destruct Hd as [D1 D2]. split; [|intro Hm; rewrite Hm in D2; simpl in D2];
      unfold Rcalm; eapply arg_ref_calm; eauto.
  - apply andb_true_iff in Hd. destruct Hd as [D1 D2]. split; [|intro Hm; rewrite Hm in D2; simpl in D2];
      unfold Rcalm; eapply arg_ref_calm; eauto.
  - apply andb_true_iff in Hd. destruct Hd as [D1 D2]. split; [|intro Hm; rewrite Hm in D2; simpl in D2];
      unfold Rcalm; eapply arg_ref_calm; eauto.
Qed.

Lemma step_calm : forall ph o d a,
  op_calm o = true -> op_ordinary o = true -> op_defined ph a o = true -> InvC d -> Sim d a ->
  InvC (step false ph o d) /\ Sim (step false ph o d) (astep ph o a).
Proof.
  intros ph o d a Hc Hord Hdef HI HS.
  pose proof HI as [Hf [Ho [Hok Hu]]]. pose proof HS as [Hp [He Hn]].
  destruct (is_entity_op o) eqn:Eo.
  { apply entity_step; auto. eapply args_ok_calm; eauto. }
  destruct o; simpl in Eo; try discriminate; simpl in Hc; try discriminate.
  (* Add *)
  simpl in Hord. apply negb_true_iff in Hord. simpl. unfold do_add, post, with_props. split.
  - split; [|split; [|split]]; simpl.
    + intro k'. simpl. unfold upd. destruct (kind_eqb k k'); [reflexivity|apply Hf].
    + intros k' x Hin. simpl in Hin. unfold upd in Hin. destruct (kind_eqb k k').
      * apply in_app_or in Hin. destruct Hin as [Hin|[Hin|[]]]; [eapply Ho; eauto|subst x; exact Hord].
      * eapply Ho; eauto.
    + intros t e Hin. destruct (Hok t e Hin) as [H1 H2]. unfold ent_R, Rcalm, ref_calm in *. simpl.
      assert (Happ : forall k' r, match ridx r with Some j => nth_error (props d k') j = Some (rname r) | None => special (rname r) = true end ->
                match ridx r with Some j => nth_error (upd (props d) k (props d k ++ [n]) k') j = Some (rname r) | None => special (rname r) = true end).
      { intros k' r H. destruct (ridx r); [|exact H]. unfold upd. destruct (kind_eqb k k') eqn:E; [|exact H].
        apply kind_eqb_eq in E. subst k'. rewrite nth_error_app1; [exact H|]. apply nth_error_Some. congruence. }
      split; apply Happ; assumption.
    + exact Hu.
  - split; [|split]; simpl; auto. intro k'. unfold upd. rewrite <- (Hp k). destruct (kind_eqb k k'); [reflexivity|apply Hp].
Qed.

Lemma run_calm : forall ph h d a,
  calm h = true -> ordinary h = true -> defined_from ph a h = true -> InvC d -> Sim d a ->
  InvC (run_from false ph d h) /\ Sim (run_from false ph d h) (arun_from ph a h).
Proof.
  induction h as [|o h IH]; intros d a Hc Hord Hdef HI HS; simpl; [split; assumption|].
  unfold calm in Hc. simpl in Hc. apply andb_true_iff in Hc. destruct Hc as [Hc1 Hc2].
  apply ordinary_cons in Hord. destruct Hord as [Ho Hh].
  simpl in Hdef. apply andb_true_iff in Hdef. destruct Hdef as [Hd1 Hd2].
  destruct (step_calm ph o d a Hc1 Ho Hd1 HI HS) as [HI' HS']. apply IH; assumption.
Qed.

Lemma save_assoc_calm : forall ph h t id s,
  calm h = true -> ordinary h = true -> sets_defined ph h = true -> has_slot ph t s = true ->
  saved_meaning ph (run false ph h) t id s = of_assoc (assoc ph h t id s).
Proof.
  intros ph h t id s Hc Hord Hdef Hslot. unfold run, assoc, arun.
  destruct (run_calm ph h init ainit Hc Hord Hdef InvC_init Sim_init) as [HI HS].
  apply saved_meaning_sound; auto; [apply InvC_sound; exact HI|apply HI].
Qed.

Lemma analysis_calm : forall ph h t id s,
  calm h = true -> ordinary h = true -> sets_defined ph h = true -> has_slot ph t s = true ->
  analysis_meaning ph (run false ph h) t id s = of_assoc (assoc ph h t id s).
Proof.
  intros ph h t id s Hc Hord Hdef Hslot. unfold run, assoc, arun.
  destruct (run_calm ph h init ainit Hc Hord Hdef InvC_init Sim_init) as [HI HS].
  apply analysis_meaning_sound; auto. apply InvC_sound; exact HI.
Qed.

(* ---------------------------------------------------------------------------------------- *)
(* the analysis gate: what consistencyCheckOK establishes, for any state of either variant    *)
Lemma ref_consistent_resolve : forall l r, ref_consistent l r = true -> resolve l (ridx r) = MName (rname r).
Proof.
  intros l r H. unfold ref_consistent in H. unfold resolve. destruct (ridx r); [|discriminate].
  destruct (nth_error l n); [|discriminate]. apply String.eqb_eq in H. subst. reflexivity.
Qed.
Lemma idx_consistent_resolve : forall l r, idx_consistent l r = true -> ridx r <> None -> resolve l (ridx r) = MName (rname r).
Proof.
  intros l r H Hn. unfold idx_consistent in H. destruct (ridx r) eqn:E; [|contradiction].
  rewrite <- E. apply ref_consistent_resolve. unfold ref_consistent. rewrite E.
  unfold ref_consistent in H. rewrite E in H. exact H.
Qed.

Lemma gate_checks : forall d, gate d = true ->
  (forall e, In e (ents d TLabel) -> has_block_type (rname (er1 e)) = true ->
     resolve (props d KBlock) (ridx (er1 e)) = MName (rname (er1 e))) /\
  (forall t e, t <> TLabel -> In e (ents d t) -> ridx (er1 e) <> None ->
     resolve (props d (k1 t)) (ridx (er1 e)) = MName (rname (er1 e))) /\
  (forall t e, In e (ents d t) -> ridx (er2 e) <> None ->
     resolve (props d KCirc) (ridx (er2 e)) = MName (rname (er2 e))).
Proof.
  intros d H. unfold gate in H. apply andb_true_iff in H. destruct H as [_ H].
  unfold consistency in H. repeat (apply andb_true_iff in H; destruct H as [H ?]).
  rewrite forallb_forall in *.
  split; [|split].
  - intros e Hin Hb. specialize (H e Hin). apply andb_true_iff in H. destruct H as [H _]. rewrite Hb in H.
    apply ref_consistent_resolve. exact H.
  - intros t e Ht Hin Hn. destruct t; try contradiction.
    + specialize (H2 e Hin). apply andb_true_iff in H2. apply idx_consistent_resolve; [apply H2|exact Hn].
    + specialize (H1 e Hin). apply andb_true_iff in H1. apply idx_consistent_resolve; [apply H1|exact Hn].
    + specialize (H0 e Hin). apply andb_true_iff in H0. apply idx_consistent_resolve; [apply H0|exact Hn].
  - intros t e Hin Hn. destruct t.
    + specialize (H2 e Hin). apply andb_true_iff in H2. apply idx_consistent_resolve; [apply H2|exact Hn].
    + specialize (H1 e Hin). apply andb_true_iff in H1. apply idx_consistent_resolve; [apply H1|exact Hn].
    + specialize (H0 e Hin). apply andb_true_iff in H0. apply idx_consistent_resolve; [apply H0|exact Hn].
    + specialize (H e Hin). apply andb_true_iff in H. apply idx_consistent_resolve; [apply H|exact Hn].
Qed.
