(* CSparseProofs.v — C09: the restart loop that ends CBigComplexLinProb::PBCGSolveMod.
   PBCGSolve stops on a recursively updated residual, which in binary64 can drift away from
   b - A V (observed: true relative residual 2.6 where 1e-8 was reported).  PBCGSolveMod now
   recomputes the true residual of the returned vector and restarts until it meets Precision or
   no longer halves.  The statements below hold for EVERY arithmetic (in particular for the
   binary64 reading FA), because they only follow the control flow of the loop. *)
From Coq Require Import ZArith List Bool Arith Lia.
From XF Require Import Arith Sparse CSparse.
Import ListNotations.

Section RestartLoop.
  Context {F : Type} (A : Arith F).

  (* a reported success of the restart loop means: the recomputed residual of the RETURNED vector
     passed the tolerance test, or it failed to halve the previous true residual (stagnation at the
     attainable accuracy) *)
  Lemma restart_loop_exit : forall (rfuel fuel : nat) (L : clin (F:=F)) V it last V' it',
    restart_loop A rfuel fuel L V it last = (V', it', 1) ->
    altb A (cprec L) (true_er A L V') = false \/
    exists l, altb A (true_er A L V') (amul A (adec A 5 (-1)) l) = false.
  Proof.
    induction rfuel as [|r IH]; intros fuel L V it last V' it' H.
    - cbn [restart_loop] in H. inversion H.
    - cbn [restart_loop] in H.
      destruct (altb A (cprec L) (true_er A L V)) eqn:E1; cbn [negb] in H.
      + destruct last as [l|].
        * destruct (altb A (true_er A L V) (amul A (adec A 5 (-1)) l)) eqn:E2; cbn [negb] in H.
          -- destruct (pbcg A fuel L V) as [[V1 it1] st1] eqn:Ep.
             destruct (Nat.eqb st1 1) eqn:Es.
             ++ eapply IH; exact H.
             ++ inversion H; subst. rewrite Nat.eqb_refl in Es. discriminate.
          -- inversion H; subst. right. exists l. exact E2.
        * destruct (pbcg A fuel L V) as [[V1 it1] st1] eqn:Ep.
          destruct (Nat.eqb st1 1) eqn:Es.
          -- eapply IH; exact H.
          -- inversion H; subst. rewrite Nat.eqb_refl in Es. discriminate.
      + inversion H; subst. left. exact E1.
  Qed.

  (* first exit only: when nothing stagnated (no previous true residual recorded, or every restart
     halved it), success means the tolerance test was passed by the true residual *)
  Lemma restart_loop_first_pass : forall (fuel : nat) (L : clin (F:=F)) V it,
    altb A (cprec L) (true_er A L V) = false ->
    forall r, restart_loop A (S r) fuel L V it None = (V, it, 1).
  Proof. intros fuel L V it H r. cbn [restart_loop]. rewrite H. reflexivity. Qed.

  (* PBCGSolveMod as a whole *)
  Theorem pbcgsolvemod_exit : forall (fuel : nat) (L : clin (F:=F)) (flag : bool) V it,
    pbcgsolvemod A fuel L flag = (V, it, 1) ->
    forallb (fun z => ceqb A z (azero (CA A))) (cb L) = true \/
    altb A (cprec L) (true_er A L V) = false \/
    exists l, altb A (true_er A L V) (amul A (adec A 5 (-1)) l) = false.
  Proof.
    intros fuel L flag V it H. unfold pbcgsolvemod in H.
    destruct (forallb (fun z => ceqb A z (azero (CA A))) (cb L)) eqn:Ez; [left; reflexivity|right].
    assert (Hr : forall V0, pbcg_restarted A fuel L V0 = (V, it, 1) ->
                 altb A (cprec L) (true_er A L V) = false \/
                 exists l, altb A (true_er A L V) (amul A (adec A 5 (-1)) l) = false).
    { intros V0 H0. unfold pbcg_restarted in H0.
      destruct (pbcg A fuel L V0) as [[V1 it1] st1] eqn:Ep.
      destruct (Nat.eqb st1 1) eqn:Es.
      - eapply restart_loop_exit; exact H0.
      - inversion H0; subst. rewrite Nat.eqb_refl in Es. discriminate. }
    destruct flag.
    - eapply Hr; exact H.
    - destruct (pcgsqstart A L) as [V0|]; [eapply Hr; exact H|inversion H].
  Qed.
End RestartLoop.
