(* Discretize.v — model of fmesher's own part of meshing: how drawn lines and arcs become the
   planar straight-line graph handed to Triangle (cfemm/fmesher/writepoly.cpp:
   averageLineLength, discretizeInputSegments, discretizeInputArcSegments; FemmProblem::getCircle,
   lengthOfLine; femmcomplex.cpp abs/operators).  Values that pass through libm (sin of the half
   angle, cos/sin of the step angle) and the integer results of ceil() are inputs of the model;
   the ceil results are validated inside the model by exact comparisons.  Model file. *)
From Coq Require Import ZArith List Bool Arith.
From XF Require Import Arith.
Import ListNotations.

Section Discretize.
  Context {F : Type} (A : Arith F).
  Local Notation C := (CA A).
  Local Notation cplx := (F * F)%type.
  Local Notation "x +. y" := (aadd A x y) (at level 50, left associativity).
  Local Notation "x -. y" := (asub A x y) (at level 50, left associativity).
  Local Notation "x *. y" := (amul A x y) (at level 40, left associativity).
  Local Notation "x /. y" := (adiv A x y) (at level 40, left associativity).
  Local Notation "'#' z" := (aofZ A z) (at level 9).

  Record dline := mkDLine { ln0 : nat; ln1 : nat; lmax : F; lparts : Z }.
  Record darc := mkDArc { an0 : nat; an1 : nat; alen : F; amax : F; aparts : Z;
                          asinh : F;            (* sin(tta/2), tta = ArcLength*PI/180 *)
                          aec : F; aes : F }.   (* cos and sin of ArcLength*PI/(numParts*180) *)

  Definition pget (nodes : list cplx) (i : nat) : cplx := nth i nodes (azero A, azero A).

  (* FemmProblem::lengthOfLine *)
  Definition line_length (nodes : list cplx) (l : dline) : F :=
    cabsf A (csub A (pget nodes (ln0 l)) (pget nodes (ln1 l))).

  (* FMesher::averageLineLength *)
  Definition average_line_length (nodes : list cplx) (lines : list dline) : F :=
    let n := # (Z.of_nat (length lines)) in
    fold_left (fun z l => z +. line_length nodes l /. n) lines (azero A).

  (* claimed n = ceil(x) for x > 0: n-1 < x <= n, compared exactly *)
  Definition is_ceil (x : F) (n : Z) : bool :=
    (1 <=? n)%Z && altb A (# (n - 1)) x && aleb A x (# n).

  Definition line_parts_ok (nodes : list cplx) (l : dline) : bool :=
    if aeqb A (lmax l) (aneg A (aone A)) then (lparts l =? 1)%Z
    else is_ceil (line_length nodes l /. lmax l) (lparts l).

  (* state: node list, emitted segments (n0, n1, cnt) *)
  Definition dstate := (list cplx * list (nat * nat * nat))%type.

  (* the loop  for j in 0..numParts-1  of the equal subdivision, as written *)
  Fixpoint subdivide (fuel : nat) (j : nat) (np : nat) (a0 a1 : cplx) (n0 n1 cnt : nat) (st : dstate) : dstate :=
    match fuel with
    | O => st
    | S f =>
        if Nat.ltb j np then
          let '(nodes, segs) := st in
          let a2 := cadd A a0 (cdivr A (cscale A (# (Z.of_nat (j + 1))) (csub A a1 a0)) (# (Z.of_nat np))) in
          let st' :=
            if Nat.eqb j 0 then
              let l := length nodes in (nodes ++ [a2], segs ++ [(n0, l, cnt)])
            else if Nat.eqb j (np - 1) then
              let l := length nodes - 1 in (nodes, segs ++ [(l, n1, cnt)])
            else
              let l := length nodes in (nodes ++ [a2], segs ++ [(l - 1, l, cnt)]) in
          subdivide f (S j) np a0 a1 n0 n1 cnt st'
        else st
    end.

  Definition rscale (d : F) (z : cplx) : cplx := (d *. fst z, d *. snd z).   (* operator*(double, CComplex) *)

  (* one drawn line, index i in the line list; [orig] = the drawn points *)
  Definition discretize_line (dosmart : bool) (dL : F) (orig : list cplx) (i : nat) (l : dline) (st : dstate) : dstate :=
    let a0 := pget orig (ln0 l) in
    let a1 := pget orig (ln1 l) in
    let len := line_length orig l in
    let np := Z.to_nat (lparts l) in
    if Nat.eqb np 1 then
      if altb A len (# 3 *. dL) || negb dosmart then
        (fst st, snd st ++ [(ln0 l, ln1 l, i)])
      else
        (* three parts: extra points at distance dL from both ends *)
        let '(nodes, segs) := st in
        let d := cabsf A (csub A a1 a0) in
        let p1 := cadd A a0 (cdivr A (rscale dL (csub A a1 a0)) d) in
        let p2 := cadd A a1 (cdivr A (rscale dL (csub A a0 a1)) d) in
        let k := length nodes in
        (nodes ++ [p1; p2], segs ++ [(ln0 l, k, i); (k, S k, i); (S k, ln1 l, i)])
    else subdivide np 0 np a0 a1 (ln0 l) (ln1 l) i st.

  (* FemmProblem::getCircle: centre and radius of an arc *)
  Definition get_circle (orig : list cplx) (a : darc) : cplx * F :=
    let a0 := pget orig (an0 a) in
    let a1 := pget orig (an1 a) in
    let d := cabsf A (csub A a1 a0) in
    let t := cdivr A (csub A a1 a0) d in
    let R := d /. (# 2 *. asinh a) in
    let h := asqrt A (R *. R -. d *. d /. # 4) in
    (cadd A a0 (cmul A (d /. # 2 +. azero A *. h, aone A *. h) t), R).

  Definition arc_parts_ok (a : darc) : bool := is_ceil (alen a /. amax a) (aparts a).

  Fixpoint arc_points (fuel : nat) (j np : nat) (c a1 a2 : cplx) (n0 n1 cnt : nat) (st : dstate) : dstate :=
    match fuel with
    | O => st
    | S f =>
        if Nat.ltb j np then
          let '(nodes, segs) := st in
          let a2' := cadd A (cmul A (csub A a2 c) a1) c in
          let l := length nodes in
          let st' :=
            if Nat.eqb j 0 then (nodes ++ [a2'], segs ++ [(n0, l, cnt)])
            else if Nat.eqb j (np - 1) then (nodes, segs ++ [(l - 1, n1, cnt)])
            else (nodes ++ [a2'], segs ++ [(l - 1, l, cnt)]) in
          arc_points f (S j) np c a1 a2' n0 n1 cnt st'
        else st
    end.

  Definition discretize_arc (orig : list cplx) (nlines : nat) (i : nat) (a : darc) (st : dstate) : dstate :=
    let np := Z.to_nat (aparts a) in
    let cnt := i + nlines in
    if Nat.eqb np 1 then (fst st, snd st ++ [(an0 a, an1 a, cnt)])
    else
      let '(c, _) := get_circle orig a in
      arc_points np 0 np c (aec a, aes a) (pget orig (an0 a)) (an0 a) (an1 a) cnt st.

  (* DoNonPeriodicBCTriangulation up to the call of Triangle: the PSLG points and segments;
     None when a claimed ceil() value is wrong *)
  Definition discretize (dosmart : bool) (orig : list cplx) (lines : list dline) (arcs : list darc)
    : option dstate :=
    if forallb (line_parts_ok orig) lines && forallb arc_parts_ok arcs then
      let dL := average_line_length orig lines /. adec A 5000 (-1) in
      let st := fold_left (fun st il => discretize_line dosmart dL orig (fst il) (snd il) st)
                          (combine (seq 0 (length lines)) lines) (orig, []) in
      Some (fold_left (fun st ia => discretize_arc orig (length lines) (fst ia) (snd ia) st)
                      (combine (seq 0 (length arcs)) arcs) st)
    else None.
End Discretize.
