(* Properties_C16.v — theorem statements for property C16 (geometry edits keep the drawing a
   planar line graph), each closed by [exact] of a lemma of DrawingProofs.v.

   Model: Drawing.v (nodes, straight segments, block labels; arcs are not modelled).  Theorems
   quantified over [G : Geo F] hold for EVERY instantiation of the geometric oracles (distance,
   distance to a segment, intersection, tolerances, transformations, the comparison <); the
   binary64 instance [geoA FA] is what the correspondence compares with the C++, [geoA RA] is the
   real-number reading.

   [fx] is the model's switch for deleteSelectedNodes (false: ToggleSelect, the code before
   findings/C16-F1-fix.diff; true: the repaired code).

   What the faithful model does NOT satisfy is stated as [_refuted] theorems with the witness
   command sequence (replayed on the real code by tools/props/c16.py):
   - (fx = false) a segment that is selected while one of its end points is deleted by
     mi_deleteselectednodes survives with a stale index (F1); with fx = true the invariant holds
     for all sequences (C16_inv_reachable_repaired);
   - a new point within the tolerance of two segments with a common end point splits both and
     the drawing then contains the same segment twice (F2);
   - "no two points closer than the snap tolerance" is not an invariant, the tolerance being
     recomputed from the bounding box by every command (F3); when all points handed to enforcePSLG
     coincide the tolerance is 0 and coincident points stay (F6).
   Not proved: planarity proper (no crossing, no point inside a segment, no label on a line) —
   these are metric statements about the oracles and are checked on the implementation by the
   exact-rational oracle only; termination of the recursive split of addSegment (fuel). *)
From Coq Require Import ZArith List Bool Arith Lia Reals Floats.
From XF Require Import Arith Drawing DrawingProofs.
Import ListNotations.

(* -- inv_init / inv_step / inv_reachable --------------------------------------------------------
   Inv2 st = every segment joins two DISTINCT EXISTING points  /\  (no segment is duplicated,
   unless the ghost flag d_dsplit records that some addNode split two segments with a common end) *)
Theorem C16_inv_init : forall (F : Type), Inv2 (@empty F).
Proof. exact (@Inv2_empty). Qed.
Print Assumptions C16_inv_init.

(* every command preserves the invariant; mi_deleteselectednodes needs [del_guard]: no selected
   segment has a selected end point (it always holds inside mi_deleteselected) *)
Theorem C16_inv_step : forall (F : Type) (G : Geo F) (fx : bool) (fuel : nat) (st : @drawing F) (o : @op F),
  Inv2 st -> op_guard G fx st o ->
  Inv2 (step G fx fuel st o) /\ (d_dsplit st = true -> d_dsplit (step G fx fuel st o) = true).
Proof. exact (@step_Inv2). Qed.
Print Assumptions C16_inv_step.

(* move / rotate / scale / copy / mirror end in enforcePSLG, which re-establishes the invariant
   from ANY drawing whatsoever *)
Theorem C16_enforcePSLG_establishes_invariant : forall (F : Type) (G : Geo F) (fuel : nat) (st : @drawing F),
  Inv2 (enforcePSLG G fuel st) /\ (d_dsplit st = true -> d_dsplit (enforcePSLG G fuel st) = true).
Proof. exact (@enforcePSLG_Inv2). Qed.
Print Assumptions C16_enforcePSLG_establishes_invariant.

(* all sequences, no length bound.  _partial: only sequences in which mi_deleteselectednodes is
   never issued while a selected segment has a selected end point (see the _refuted theorem) *)
Theorem C16_segments_join_distinct_existing_points_partial :
  forall (F : Type) (G : Geo F) (fx : bool) (fuel : nat) (ops : list (@op F)),
  guarded G fx fuel empty ops -> WF (run G fx fuel ops empty).
Proof. exact (@wf_reachable). Qed.
Print Assumptions C16_segments_join_distinct_existing_points_partial.

Theorem C16_segments_join_distinct_existing_points_without_deleteselectednodes :
  forall (F : Type) (G : Geo F) (fx : bool) (fuel : nat) (ops : list (@op F)),
  forallb (fun o => negb (is_delnodes o)) ops = true -> WF (run G fx fuel ops empty).
Proof. intros F G fx fuel ops H. apply wf_reachable, guarded_no_delnodes, H. Qed.
Print Assumptions C16_segments_join_distinct_existing_points_without_deleteselectednodes.

Theorem C16_deleteselectednodes_keeps_selected_segment_refuted :
  exists ops : list (@op float), ~ WF (run (geoA FA) false FUEL ops empty).
Proof. exact wf_unguarded_refuted. Qed.
Print Assumptions C16_deleteselectednodes_keeps_selected_segment_refuted.

(* with the one-line repair of deleteSelectedNodes (findings/C16-F1-fix.diff; fx = true in the model) the
   invariant holds for ALL sequences, without any guard *)
Theorem C16_inv_reachable_repaired :
  forall (F : Type) (G : Geo F) (fuel : nat) (ops : list (@op F)),
  WF (run G true fuel ops empty) /\
  (d_dsplit (run G true fuel ops empty) = false -> NoDupSeg (d_segs (run G true fuel ops empty))).
Proof. intros. apply inv_reachable_repaired. reflexivity. Qed.
Print Assumptions C16_inv_reachable_repaired.

(* no duplicated segment in any reachable drawing in which the double-split flag did not fire *)
Theorem C16_no_duplicate_segment_partial :
  forall (F : Type) (G : Geo F) (fx : bool) (fuel : nat) (ops : list (@op F)),
  guarded G fx fuel empty ops -> d_dsplit (run G fx fuel ops empty) = false ->
  NoDupSeg (d_segs (run G fx fuel ops empty)).
Proof. exact (@nodup_reachable). Qed.
Print Assumptions C16_no_duplicate_segment_partial.

Theorem C16_no_duplicate_segment_refuted :
  exists ops : list (@op float),
    guarded (geoA FA) false FUEL empty ops /\ ~ NoDupSeg (d_segs (run (geoA FA) false FUEL ops empty)).
Proof. exact nodup_unflagged_refuted. Qed.
Print Assumptions C16_no_duplicate_segment_refuted.

(* -- nothing remains selected after a completed command ---------------------------------------- *)
Theorem C16_commands_end_with_empty_selection :
  forall (F : Type) (G : Geo F) (fx : bool) (fuel : nat) (st : @drawing F) (o : @op F),
  clears_selection G o = true -> nosel (step G fx fuel st o).
Proof. exact (@step_clears_selection). Qed.
Print Assumptions C16_commands_end_with_empty_selection.

Theorem C16_addsegment_ends_with_empty_selection_or_no_change :
  forall (F : Type) (G : Geo F) (fx : bool) (fuel : nat) (st : @drawing F) (x0 y0 x1 y1 : F),
  step G fx (S fuel) st (OAddSegment x0 y0 x1 y1) = st \/ nosel (step G fx (S fuel) st (OAddSegment x0 y0 x1 y1)).
Proof. exact (@addsegment_clears_selection). Qed.
Print Assumptions C16_addsegment_ends_with_empty_selection_or_no_change.

(* -- metric statements, per call ------------------------------------------------------------------ *)
Theorem C16_addNode_respects_distance :
  forall (F : Type) (G : Geo F) (st : @drawing F) (nd : @node F) (d : F),
  length (d_nodes (addNode G st nd d)) <> length (d_nodes st) ->
  d_nodes (addNode G st nd d) = d_nodes st ++ [nd] /\
  (forall n, In n (d_nodes st) -> g_lt G (g_dist G (npt n) (npt nd)) d = false) /\
  (forall l, In l (d_labs st) -> g_lt G (g_dist G (lpt l) (npt nd)) d = false).
Proof. exact (@addNode_respects_distance). Qed.
Print Assumptions C16_addNode_respects_distance.

Theorem C16_addNode_min_distance_real :
  forall (st : @drawing R) (nd : @node R) (d : R),
  length (d_nodes (addNode (geoA RA) st nd d)) <> length (d_nodes st) ->
  (forall n, In n (d_nodes st) ->
     (d <= R_sqrt.sqrt ((nx n - nx nd) * (nx n - nx nd) + (ny n - ny nd) * (ny n - ny nd)))%R) /\
  (forall l, In l (d_labs st) ->
     (d <= R_sqrt.sqrt ((lx l - nx nd) * (lx l - nx nd) + (ly l - ny nd) * (ly l - ny nd)))%R).
Proof. exact addNode_min_distance_real. Qed.
Print Assumptions C16_addNode_min_distance_real.

(* what IS guaranteed about the snap tolerance: after a move / rotate / scale / copy / mirror command
   (they all end in enforcePSLG) all points are pairwise at least THAT command's tolerance apart
   (tolerance = that of the transformed drawing handed to enforcePSLG; earlier point tested against
   later point, as addNode tests it).  It is not an invariant across commands: see the _refuted
   theorem that follows. *)
Theorem C16_enforcePSLG_points_pairwise_apart :
  forall (F : Type) (G : Geo F) (fuel : nat) (st : @drawing F),
  g_is0 G (auto_tol G (d_nodes st)) = false ->
  far G (auto_tol G (d_nodes st)) (ptsof (enforcePSLG G fuel st)).
Proof. exact (@enforcePSLG_min_distance). Qed.
Print Assumptions C16_enforcePSLG_points_pairwise_apart.

Theorem C16_pairwise_apart_real_reading :
  forall (d : R) (pts : list (R * R)),
  far (geoA RA) d pts ->
  forall i j, i < j -> j < length pts ->
    (d <= R_sqrt.sqrt ((fst (nth i pts (0, 0)) - fst (nth j pts (0, 0))) * (fst (nth i pts (0, 0)) - fst (nth j pts (0, 0))) +
                       (snd (nth i pts (0, 0)) - snd (nth j pts (0, 0))) * (snd (nth i pts (0, 0)) - snd (nth j pts (0, 0)))))%R.
Proof. exact far_real. Qed.
Print Assumptions C16_pairwise_apart_real_reading.

Theorem C16_snap_tolerance_global_refuted :
  exists ops : list (@op float),
    guarded (geoA FA) false FUEL empty ops /\ snap_ok (run (geoA FA) false FUEL ops empty) = false.
Proof. exact snap_tolerance_global_refuted. Qed.
Print Assumptions C16_snap_tolerance_global_refuted.

(* the case excluded above (tolerance 0: all points handed to enforcePSLG coincide) does happen *)
Theorem C16_coincident_points_refuted :
  exists ops : list (@op float),
    guarded (geoA FA) false FUEL empty ops /\ (distinct_pts (run (geoA FA) false FUEL ops empty) = false) /\
    (length (d_segs (run (geoA FA) false FUEL ops empty)) = 0).
Proof. exact coincident_points_refuted. Qed.
Print Assumptions C16_coincident_points_refuted.

(* -- deletion renumbers consistently --------------------------------------------------------------- *)
Theorem C16_delete_keeps_exactly_the_unselected_points :
  forall (F : Type) (G : Geo F) (fx : bool) (st : @drawing F),
  d_nodes (deleteSelectedNodes G fx st) = filter unsel (d_nodes st).
Proof. exact (@deleteSelectedNodes_nodes). Qed.
Print Assumptions C16_delete_keeps_exactly_the_unselected_points.

Theorem C16_delete_renumbers_consistently :
  forall (F : Type) (G : Geo F) (fx : bool) (st : @drawing F),
  segs_unselected st ->
  cview G (deleteSelectedNodes G fx st) = filter ends_unselected (cview G st).
Proof. exact (@delete_renumbers_consistently). Qed.
Print Assumptions C16_delete_renumbers_consistently.

(* -- copies -------------------------------------------------------------------------------------------- *)
(* one pass of a copy command (mirror: the only pass; translate/rotate: one value of nc) *)
Theorem C16_copy_pass_appends_images :
  forall (F : Type) (G : Geo F) (fn : F * F -> F * F) (fl : @lab F -> @lab F) (m : nat) (st : @drawing F),
  sel_valid st ->
  let r := copy_pass G fn fl m st in
  d_nodes r = d_nodes st ++ node_block G fn m st /\
  (exists app, d_segs r = d_segs st ++ app /\
               map (resolve G (d_nodes r)) app = seg_block G fn m st /\
               (forall x, In x app -> s0 x < length (d_nodes r) /\ s1 x < length (d_nodes r) /\ ssel x = false)) /\
  d_labs r = d_labs st ++ lab_block fl m st.
Proof. exact (@copy_pass_spec). Qed.
Print Assumptions C16_copy_pass_appends_images.

Theorem C16_copies_at_transformed_coordinates :
  forall (dx dy : R) (n m : nat) (st : @drawing R),
  WF st ->
  let tr (nc : nat) (p : R * R) := (fst p + INR (S nc) * dx, snd p + INR (S nc) * dy)%R in
  let r := translateCopy_raw (geoA RA) dx dy n m st in
  d_nodes r = d_nodes st ++ flat_map (fun nc => node_block (geoA RA) (tr nc) m st) (seq 0 n) /\
  (exists app, d_segs r = d_segs st ++ app /\
               map (resolve (geoA RA) (d_nodes r)) app = flat_map (fun nc => seg_block (geoA RA) (tr nc) m st) (seq 0 n)) /\
  d_labs r = d_labs st ++ flat_map (fun nc => lab_block (fun l => lsetpt (tr nc (lpt l)) l) m st) (seq 0 n).
Proof. exact copies_at_transformed_coordinates. Qed.
Print Assumptions C16_copies_at_transformed_coordinates.

(* the entries of node_block / seg_block / lab_block: image coordinates, original group and properties *)
Theorem C16_copies_keep_properties :
  forall (F : Type) (fn : F * F -> F * F) (n : @node F) (l : @lab F),
  (npt (copy_node fn n) = fn (npt n) /\ ngrp (copy_node fn n) = ngrp n /\ nprop (copy_node fn n) = nprop n /\
   nsel (copy_node fn n) = false) /\
  (lpt (lsetsel false (lsetpt (fn (lpt l)) l)) = fn (lpt l) /\
   lgrp (lsetsel false (lsetpt (fn (lpt l)) l)) = lgrp l /\ lprop (lsetsel false (lsetpt (fn (lpt l)) l)) = lprop l /\
   larea (lsetsel false (lsetpt (fn (lpt l)) l)) = larea l /\ lsel (lsetsel false (lsetpt (fn (lpt l)) l)) = false).
Proof. intros. split; [apply copy_node_fields|apply copy_lab_fields]. Qed.
Print Assumptions C16_copies_keep_properties.

(* -- list-length bookkeeping ---------------------------------------------------------------------------- *)
Theorem C16_addNode_lengths :
  forall (F : Type) (G : Geo F) (st : @drawing F) (nd : @node F) (d : F),
  addNode G st nd d = st \/
  (length (d_nodes (addNode G st nd d)) = S (length (d_nodes st)) /\
   length (d_segs (addNode G st nd d)) =
     length (d_segs st) + length (filter (on_seg G (d_nodes st ++ [nd]) (npt nd) d) (d_segs st)) /\
   d_labs (addNode G st nd d) = d_labs st).
Proof. exact (@addNode_lengths). Qed.
Print Assumptions C16_addNode_lengths.

Theorem C16_deleteSelectedSegments_lengths :
  forall (F : Type) (st : @drawing F),
  length (d_segs (deleteSelectedSegments st)) + length (filter ssel (d_segs st)) = length (d_segs st) /\
  d_nodes (deleteSelectedSegments st) = d_nodes st /\ d_labs (deleteSelectedSegments st) = d_labs st.
Proof. exact (@deleteSelectedSegments_length). Qed.
Print Assumptions C16_deleteSelectedSegments_lengths.

(* -- non-vacuity ------------------------------------------------------------------------------------------- *)
(* a reachable drawing (binary64 reading) with 6 points and 5 segments built by add/select/copy:
   the guard holds along the whole sequence, the fuel is not exhausted, the flag did not fire *)
Example C16_hypotheses_satisfiable :
  guarded (geoA FA) false FUEL empty ops_ex /\
  length (d_segs (run (geoA FA) false FUEL ops_ex empty)) = 5 /\
  length (d_nodes (run (geoA FA) false FUEL ops_ex empty)) = 6 /\
  d_dsplit (run (geoA FA) false FUEL ops_ex empty) = false /\ d_oof (run (geoA FA) false FUEL ops_ex empty) = false.
Proof. exact example_reachable. Qed.

Example C16_hypotheses_satisfiable_2 :
  let st := run (geoA FA) false FUEL ops_ex empty in
  WF st /\ segs_unselected st /\ sel_valid st /\ g_is0 (geoA FA) (auto_tol (geoA FA) (d_nodes st)) = false.
Proof. exact example_hypotheses. Qed.

(* the witnesses of the refutations, as the model leaves them *)
Example C16_F1_witness_repaired :
  d_segs (run (geoA FA) true FUEL ops_F1 empty) = [] /\ length (d_nodes (run (geoA FA) true FUEL ops_F1 empty)) = 1.
Proof. exact F1_repaired_state. Qed.
Example C16_F1_witness_state :
  map (fun s => (s0 s, s1 s)) (d_segs (run (geoA FA) false FUEL ops_F1 empty)) = [(0, 0)] /\
  length (d_nodes (run (geoA FA) false FUEL ops_F1 empty)) = 1.
Proof. exact F1_final_state. Qed.
Example C16_F2_witness_state :
  map (fun s => (s0 s, s1 s)) (d_segs (run (geoA FA) false FUEL ops_F2 empty)) = [(0, 3); (0, 3); (3, 1); (3, 2)] /\
  d_dsplit (run (geoA FA) false FUEL ops_F2 empty) = true.
Proof. exact F2_final_state. Qed.
