(* Schema.v — generic model of the keyed blocks and positional lines of FEMM problem files
   (property C14).  NO proofs here (SchemaProofs.v).

   What is modelled (cfemm/libfemm):
   * the readers  CxxProp::fromStream / FemmReader::parse / XReader::handleToken /
     FEASolver::LoadProblemFile : a loop  nextToken (lower-cased) ; if (token == "<key>")
     { expectChar('='); parseValue / parseString (field) ; continue }  — unknown tokens are
     reported and skipped, a key that occurs twice overwrites, absent keys leave the
     constructor's default;
   * the writers  CxxProp::toStream / FemmProblem::writeProblemDescription : a fixed sequence
     of  out << "<Key> = " << field << "\n"  statements, some under a condition;
   * positional entity lines (points, segments, arcs, holes, block labels) are the same thing
     with the column number as key ("c0", "c1", ...): see tools/translate_schema.py.
   The schemas themselves (which keys, fields, kinds, transforms, defaults, conditions) are NOT
   written by hand: gen/Schemas.v is regenerated from the sources on every check.

   Not modelled: characters (lexing of numbers, quoting — see [quote]/[unquote] below for the
   string level), iostream failure states, the order of sections in a file. *)
From Coq Require Import String Ascii List ZArith Bool.
From XF Require Import Arith.
Import ListNotations.
Local Open Scope string_scope.

(* ---- schema data (independent of the number type) ------------------------------------- *)
Inductive kind :=
| KInt | KNum | KBool | KStr
| KTab (cap : option nat)              (* "<BHPoints> = n" followed by n rows of two numbers *)
| KEnum (m : list (string * string)).  (* parse side: word -> enumerator; print side: enumerator -> word *)

Inductive transform :=
| TId
| TOff (k : Z)        (* file value = field + k   (BoundaryMarker+1 / BoundaryMarker--) *)
| TMaxArea            (* file d ; field = 0 if d <= 0 else d*(PI*d/4) ; printed sqrt(4*A/PI) or -1 *)
| TNegM1              (* printed -1 if field < 0 else field ; read as is *)
| TBits (mask : Z).   (* field = file value & mask  (extDefault & 3 : IsExternal | IsDefault<<1) *)

Inductive dflt :=
| DInt (z : Z) | DDec (m e : Z) (* m * 10^e *) | DStr (s : string) | DTab | DSym (s : string).

(* parse-schema entry: key (lower case, as compared by the reader), field ("" = accepted and
   ignored), kind, transform, constructor default *)
Record pentry := mkPE { pe_key : string; pe_field : string; pe_kind : kind; pe_tf : transform; pe_dflt : dflt }.

Inductive cond :=
| CAlways
| CStrNonEmpty (f : string)
| CNumNonZero (f : string)
| CSymIs (f : string) (en : string)
| CNot (c : cond) | CAnd (a b : cond) | COr (a b : cond).

Inductive source := SField (f : string) | SConstInt (z : Z) | SConstDec (m e : Z) | SConstWord (w : string).

(* print-schema entry: key as written, where the value comes from, kind, transform, condition *)
Record wentry := mkWE { we_key : string; we_src : source; we_kind : kind; we_tf : transform; we_cond : cond }.

Definition parse_schema := list pentry.
Definition print_schema := list wentry.

(* ---- strings ---------------------------------------------------------------------------- *)
Definition lower_ascii (c : ascii) : ascii :=
  let n := nat_of_ascii c in
  if (Nat.leb 65 n && Nat.leb n 90)%bool then ascii_of_nat (n + 32) else c.
Fixpoint lower (s : string) : string :=
  match s with EmptyString => EmptyString | String c r => String (lower_ascii c) (lower r) end.

(* fparse.cpp parseString(istream&): text after the opening quote up to the LAST quote of the line *)
Fixpoint last_quote (s : string) : option nat :=       (* index of the last double quote *)
  match s with
  | EmptyString => None
  | String c r => match last_quote r with
                  | Some i => Some (S i)
                  | None => if Ascii.eqb c """"%char then Some 0%nat else None
                  end
  end.
Definition quote (s : string) : string := String """"%char (s ++ String """"%char EmptyString).
Definition unquote (l : string) : option string :=
  match l with
  | String c r => if Ascii.eqb c """"%char then
                    match last_quote r with Some i => Some (substring 0 i r) | None => None end
                  else None
  | EmptyString => None
  end.

(* the reader's if-chain: the first entry whose key equals the (lower-cased) token *)
Fixpoint find_pe (ps : parse_schema) (k : string) : option pentry :=
  match ps with
  | [] => None
  | e :: t => if String.eqb k (pe_key e) then Some e else find_pe t k
  end.
Fixpoint lookup (k : string) (m : list (string * string)) : option string :=
  match m with
  | [] => None
  | (a, b) :: t => if String.eqb k a then Some b else lookup k t
  end.
(* the field a written line lands in (None: not accepted, or accepted and ignored) *)
Definition lands (ps : parse_schema) (w : wentry) : option string :=
  match find_pe ps (lower (we_key w)) with
  | Some e => if String.eqb (pe_field e) "" then None else Some (pe_field e)
  | None => None
  end.

(* ---- values, lines, records -------------------------------------------------------------- *)
Section Model.
  Context {F : Type} (A : Arith F).

  Inductive value :=
  | VInt (z : Z) | VNum (x : F) | VStr (s : string) | VWord (w : string) | VTab (l : list (F * F)).

  Local Notation line := (string * value)%type.          (* key as written, value *)
  Local Notation record := (list (string * value)).      (* field name -> value *)

  Fixpoint get (f : string) (r : record) : option value :=
    match r with
    | [] => None
    | (g, v) :: t => if String.eqb f g then Some v else get f t
    end.
  Fixpoint set (f : string) (v : value) (r : record) : record :=
    match r with
    | [] => []
    | (g, w) :: t => if String.eqb f g then (g, v) :: t else (g, w) :: set f v t
    end.

  Definition dflt_value (k : kind) (d : dflt) : value :=
    match d with
    | DInt z => match k with KNum => VNum (aofZ A z) | _ => VInt z end
    | DDec m e => VNum (adec A m e)
    | DStr s => VStr s
    | DTab => VTab []
    | DSym s => VWord s
    end.

  (* ---- codecs --------------------------------------------------------------------------- *)
  (* what the writer puts on the line for a field value *)
  Definition tf_print (t : transform) (k : kind) (v : value) : value :=
    match t, v with
    | TId, _ => match k, v with
                | KEnum m, VWord en => match lookup en m with Some w => VWord w | None => VWord "" end
                | _, _ => v
                end
    | TOff d, VInt z => VInt (z + d)
    | TMaxArea, VNum a =>
        if altb A (azero A) a then VNum (asqrt A (adiv A (amul A (aofZ A 4) a) (api A)))
        else VNum (aneg A (aone A))
    | TNegM1, VNum x => if altb A x (azero A) then VNum (aneg A (aone A)) else VNum x
    | TBits _, _ => v
    | _, _ => v
    end.

  (* what parseValue / parseString / the enum chain stores for a line value; None = the reader
     reports an error and leaves the field untouched *)
  Definition conv (k : kind) (t : transform) (v : value) : option value :=
    match k, v with
    | KInt, VInt z =>
        match t with
        | TOff d => Some (VInt (z - d))
        | TBits m => Some (VInt (Z.land z m))
        | _ => Some (VInt z)
        end
    | KBool, VInt z => Some (VInt (if Z.eqb z 0 then 0 else 1))
    | KNum, VNum x =>
        match t with
        | TMaxArea => if aleb A x (azero A) then Some (VNum (azero A))
                      else Some (VNum (amul A x (adiv A (amul A (api A) x) (aofZ A 4))))
        | _ => Some (VNum x)
        end
    | KNum, VInt z => Some (VNum (aofZ A z))
    | KStr, VStr s => Some (VStr s)
    | KTab cap, VTab l => Some (VTab (match cap with Some n => firstn n l | None => l end))
    | KEnum m, VWord w => match lookup w m with Some en => Some (VWord en) | None => None end
    | _, _ => None
    end.

  (* ---- the reader ------------------------------------------------------------------------ *)
  Fixpoint has_field (f : string) (r : record) : bool :=
    match r with [] => false | (g, _) :: t => String.eqb f g || has_field f t end.

  (* constructor state: every field of the schema once, with its default, in schema order *)
  Fixpoint defaults_acc (ps : parse_schema) (acc : record) : record :=
    match ps with
    | [] => acc
    | e :: t =>
        if String.eqb (pe_field e) "" || has_field (pe_field e) acc then defaults_acc t acc
        else defaults_acc t (acc ++ [(pe_field e, dflt_value (pe_kind e) (pe_dflt e))])
    end.
  Definition defaults (ps : parse_schema) : record := defaults_acc ps [].

  Definition parse_line (ps : parse_schema) (r : record) (l : line) : record :=
    match find_pe ps (lower (fst l)) with
    | None => r                                   (* "unexpected token": skipped *)
    | Some e =>
        if String.eqb (pe_field e) "" then r      (* accepted and ignored *)
        else match conv (pe_kind e) (pe_tf e) (snd l) with
             | Some v => set (pe_field e) v r
             | None => r
             end
    end.
  Definition parse (ps : parse_schema) (b : list line) : record :=
    fold_left (parse_line ps) b (defaults ps).

  (* ---- the writer ------------------------------------------------------------------------ *)
  Definition is_zero (v : option value) : bool :=
    match v with
    | Some (VNum x) => aeqb A x (azero A)
    | Some (VInt z) => Z.eqb z 0
    | _ => true
    end.
  Fixpoint eval_cond (c : cond) (r : record) : bool :=
    match c with
    | CAlways => true
    | CStrNonEmpty f => match get f r with Some (VStr s) => negb (String.eqb s "") | _ => false end
    | CNumNonZero f => negb (is_zero (get f r))
    | CSymIs f en => match get f r with Some (VWord w) => String.eqb w en | _ => false end
    | CNot a => negb (eval_cond a r)
    | CAnd a b => eval_cond a r && eval_cond b r
    | COr a b => eval_cond a r || eval_cond b r
    end.

  Definition print_entry (r : record) (w : wentry) : list line :=
    if eval_cond (we_cond w) r then
      match we_src w with
      | SField f => match get f r with
                    | Some v => [(we_key w, tf_print (we_tf w) (we_kind w) v)]
                    | None => []
                    end
      | SConstInt z => [(we_key w, VInt z)]
      | SConstDec m e => [(we_key w, VNum (adec A m e))]
      | SConstWord s => [(we_key w, VWord s)]
      end
    else [].
  Definition print (pr : print_schema) (r : record) : list line := flat_map (print_entry r) pr.

  (* ---- domain of a record w.r.t. a pair of schemas ------------------------------------- *)
  Definition const_value (s : source) : option value :=
    match s with
    | SField _ => None
    | SConstInt z => Some (VInt z)
    | SConstDec m e => Some (VNum (adec A m e))
    | SConstWord w => Some (VWord w)
    end.

  (* (a) shape: the record has exactly the fields of the reader's constructor state;
     (b1) codec: the value of a written field, as written (tf_print) and as the accepting
          reader entry converts it (conv), is the value again — a condition on single values
          (ints in range, bools 0/1, MaxArea >= 0, tables within the reader's capacity ...);
     (b2) a constant line ("[Format] = 4.0") reads back as what the record holds there;
     (c)  a field on which no active print entry lands holds its constructor default
          (print conditions may only suppress defaults; gap fields are at their default). *)
  Definition in_domain (ps : parse_schema) (pr : print_schema) (r : record) : Prop :=
    map fst r = map fst (defaults ps) /\
    (forall w f v e, In w pr -> eval_cond (we_cond w) r = true -> we_src w = SField f ->
        get f r = Some v -> find_pe ps (lower (we_key w)) = Some e ->
        conv (pe_kind e) (pe_tf e) (tf_print (we_tf w) (we_kind w) v) = Some v) /\
    (forall w c e, In w pr -> eval_cond (we_cond w) r = true -> const_value (we_src w) = Some c ->
        find_pe ps (lower (we_key w)) = Some e -> String.eqb (pe_field e) "" = false ->
        exists v, conv (pe_kind e) (pe_tf e) c = Some v /\ get (pe_field e) r = Some v) /\
    (forall f, In f (map fst r) ->
        (forall w, In w pr -> eval_cond (we_cond w) r = true -> lands ps w <> Some f) ->
        get f r = get f (defaults ps)).
End Model.

Arguments VInt {F}. Arguments VNum {F}. Arguments VStr {F}. Arguments VWord {F}. Arguments VTab {F}.

(* ---- boolean compatibility of a parse schema with a print schema -------------------------- *)
Definition kind_eqb (a b : kind) : bool :=
  match a, b with
  | KInt, KInt | KNum, KNum | KBool, KBool | KStr, KStr => true
  | KTab c, KTab d => match c, d with
                      | Some n, Some m => Nat.eqb n m | None, None => true
                      | Some _, None => true          (* the reader's cap is a domain condition *)
                      | None, Some _ => false end
  | KEnum _, KEnum _ => true
  | _, _ => false
  end.
Definition tf_eqb (a b : transform) : bool :=
  match a, b with
  | TId, TId | TMaxArea, TMaxArea | TNegM1, TNegM1 => true
  | TOff k, TOff j => Z.eqb k j
  | TBits k, TBits j => Z.eqb k j
  | TNegM1, TId | TId, TNegM1 => false
  | _, _ => false
  end.
(* TNegM1 is a writer-side normalisation (reader: identity) *)
Definition tf_compat (p w : transform) : bool :=
  match p, w with
  | TId, TNegM1 => true
  | _, _ => tf_eqb p w
  end.

(* print mapping (enumerator -> word) is inverted by the parse mapping (word -> enumerator) *)
Definition enum_inverse (pm wm : list (string * string)) : bool :=
  forallb (fun ew => match lookup (snd ew) pm with Some en => String.eqb en (fst ew) | None => false end) wm.

Definition src_field (s : source) : option string := match s with SField f => Some f | _ => None end.

(* a printed line is accepted by the reader and lands in the field it came from *)
Definition entry_ok (ps : parse_schema) (w : wentry) : bool :=
  match find_pe ps (lower (we_key w)) with
  | None => false
  | Some e =>
      kind_eqb (pe_kind e) (we_kind w) && tf_compat (pe_tf e) (we_tf w) &&
      match we_src w with
      | SField f => String.eqb (pe_field e) f || String.eqb (pe_field e) ""
      | _ => true                                   (* constants: any accepting entry *)
      end &&
      match pe_kind e, we_kind w with
      | KEnum pm, KEnum wm => enum_inverse pm wm
      | _, _ => true
      end
  end.

Fixpoint nodupb (l : list string) : bool :=
  match l with [] => true | a :: t => negb (existsb (String.eqb a) t) && nodupb t end.

Definition wf_parse (ps : parse_schema) : bool :=
  nodupb (map pe_key ps) && forallb (fun e => String.eqb (pe_key e) (lower (pe_key e))) ps.
Definition wf_print (pr : print_schema) : bool :=
  (* the same key may be written by several entries only under conditions (enum branches) *)
  forallb (fun w => negb (String.eqb (we_key w) "")) pr.

(* keys the reader stores into a field that no print entry writes: the GAPS *)
Definition printed_fields (ps : parse_schema) (pr : print_schema) : list string :=
  flat_map (fun w => match find_pe ps (lower (we_key w)) with
                     | Some e => [pe_field e] | None => [] end) pr.
Definition gaps (ps : parse_schema) (pr : print_schema) : list string :=
  map pe_key (filter (fun e => negb (String.eqb (pe_field e) "") &&
                               negb (existsb (String.eqb (pe_field e)) (printed_fields ps pr))) ps).

Definition compatible_modulo_gaps (ps : parse_schema) (pr : print_schema) : bool :=
  wf_parse ps && wf_print pr && forallb (entry_ok ps) pr.
Definition compatible (ps : parse_schema) (pr : print_schema) : bool :=
  compatible_modulo_gaps ps pr && match gaps ps pr with [] => true | _ => false end.

(* a named pair (class name, reader, writer) *)
Definition named := (string * parse_schema * print_schema)%type.
Definition compatible_all (l : list named) : bool :=
  forallb (fun n => compatible (snd (fst n)) (snd n)) l.
Definition all_gaps (l : list named) : list (string * string) :=
  flat_map (fun n => map (fun k => (fst (fst n), k)) (gaps (snd (fst n)) (snd n))) l.
Definition pair_eqb (a b : string * string) : bool := String.eqb (fst a) (fst b) && String.eqb (snd a) (snd b).
Definition subsetb (a b : list (string * string)) : bool :=
  forallb (fun x => existsb (pair_eqb x) b) a.
(* everything is compatible except exactly the listed (class, key) gaps — in both directions:
   a listed gap that no longer exists fails the check as well as a new gap *)
Definition compatible_except (l : list named) (known : list (string * string)) : bool :=
  forallb (fun n => compatible_modulo_gaps (snd (fst n)) (snd n)) l &&
  subsetb (all_gaps l) known && subsetb known (all_gaps l).
