(* AsmEPoints.v — C03: the point-charge loop of ESolver::AnalyzeProblem (real reading).
   After the element loop the solver walks over all nodes: a node that carries a point property
   and is still marked "free" (Q[i] = -2: neither prescribed nor on a conductor) gets its point
   charge added to the right-hand side,
        b_i += 1e6 * Depth_i * c * qp ,    Depth_i = 2 pi r_i (axisymmetric)  |  Depth (planar),
   and is re-marked -1; a node on a conductor then has Q[i] set to the conductor's index.
   Theorem: the loop changes row i of the right-hand side by exactly that load, changes no other
   row, and a node that is prescribed or tied to a conductor receives no load. *)
From Coq Require Import ZArith List Bool Arith Lia Reals Lra.
From XF Require Import Arith Sparse SparseProofs AsmOps AsmOpsProofs AsmE.
Import ListNotations.
Local Open Scope R_scope.

Section Points.
  Local Notation vgetR := (vget RA).
  Implicit Type P : eprob (F:=R).

  Definition depth_at P (Depth : R) (n : enode (F:=R)) : R :=
    if axi P then 2 * PI * nx n else Depth.

  (* the load the loop adds to row i, given the flags Q as they are before the loop *)
  Definition point_load P (Depth : R) (Q : list Z) (i : nat) : R :=
    match nth_error (nodes P) i with
    | Some n =>
        match nbm n with
        | Some m => if Z.eqb (nth i Q 0%Z) (-2)%Z
                    then 1000000 * depth_at P Depth n * cconst RA P * pqp (nth m (points P) (dpoint RA))
                    else 0
        | None => 0
        end
    | None => 0
    end.

  Lemma nth_vsetZ (Q : list Z) i k v : k <> i -> nth k (vset Q i v) 0%Z = nth k Q 0%Z.
  Proof. revert i k; induction Q as [|q Q IH]; destruct i, k; simpl; intros; try lia; auto. Qed.

  Lemma vset_lengthZ (Q : list Z) i v : length (vset Q i v) = length Q.
  Proof. revert i; induction Q; destruct i; simpl; auto. Qed.

  Definition pc_body P :=
    (fun (acc : R * list R * list Z) (in_ : nat * enode (F:=R)) =>
      let '(Depth, b, Q) := acc in
      let '(i, n) := in_ in
      let '(Depth, b, Q) :=
        match nbm n with
        | Some m =>
            if Z.eqb (nth i Q 0%Z) (-2)%Z then
              let Depth := if axi P then aofZ RA 2 * api RA * nx n else Depth in
              let b := vset b i (vgetR b i + adec RA 1 6 * Depth * cconst RA P * pqp (nth m (points P) (dpoint RA))) in
              (Depth, b, vset Q i (-1)%Z)
            else (Depth, b, Q)
        | None => (Depth, b, Q)
        end in
      let Q := match ncond n with Some c => vset Q i (Z.of_nat c) | None => Q end in
      (Depth, b, Q)).

  Lemma point_charges_unfold P Depth b Q :
    point_charges RA P Depth b Q
    = fold_left (pc_body P) (combine (seq 0 (length (nodes P))) (nodes P)) (Depth, b, Q).
  Proof. reflexivity. Qed.

  (* loads of the nodes of a suffix  ns  of the node list that starts at index k *)
  Definition suffix_load P (Depth : R) (Q : list Z) (k : nat) (ns : list (enode (F:=R))) (i : nat) : R :=
    match nth_error ns (i - k) with
    | Some n =>
        if Nat.leb k i then
          match nbm n with
          | Some m => if Z.eqb (nth i Q 0%Z) (-2)%Z
                      then 1000000 * depth_at P Depth n * cconst RA P * pqp (nth m (points P) (dpoint RA))
                      else 0
          | None => 0
          end
        else 0
    | None => 0
    end.

  Lemma adec_1_6 : adec RA 1 6 = 1000000.
  Proof. unfold adec. cbn. lra. Qed.

  Lemma pc_fold P (planar_depth : R) :
    forall (ns : list (enode (F:=R))) (k : nat) (Depth : R) (b : list R) (Q : list Z),
      (k + length ns <= length b)%nat ->
      (axi P = false -> Depth = planar_depth) ->
      let '(D', b', Q') := fold_left (pc_body P) (combine (seq k (length ns)) ns) (Depth, b, Q) in
      length b' = length b /\
      (axi P = false -> D' = planar_depth) /\
      (forall i, vgetR b' i = vgetR b i + suffix_load P planar_depth Q k ns i) /\
      (forall i, (i < k)%nat -> nth i Q' 0%Z = nth i Q 0%Z).
  Proof.
    induction ns as [|n ns IH]; intros k Depth b Q Hlen HD.
    - cbn. repeat split; auto. intros i. unfold suffix_load. destruct (i - k)%nat; cbn; lra.
    - cbn [length seq combine fold_left].
      (* one step *)
      set (st := pc_body P (Depth, b, Q) (k, n)).
      assert (Hst : exists D1 b1 Q1, st = (D1, b1, Q1) /\ length b1 = length b /\
                (axi P = false -> D1 = planar_depth) /\
                (forall i, vgetR b1 i = vgetR b i +
                   (if Nat.eqb i k then
                      match nbm n with
                      | Some m => if Z.eqb (nth k Q 0%Z) (-2)%Z
                                  then 1000000 * depth_at P planar_depth n * cconst RA P * pqp (nth m (points P) (dpoint RA))
                                  else 0
                      | None => 0 end
                    else 0)) /\
                (forall i, i <> k -> nth i Q1 0%Z = nth i Q 0%Z)).
      { unfold st, pc_body.
        assert (Hk : (k < length b)%nat) by (cbn [length] in Hlen; lia).
        destruct (nbm n) as [m|] eqn:Em.
        - destruct (Z.eqb (nth k Q 0%Z) (-2)%Z) eqn:Eq.
          + eexists _, _, _. split; [reflexivity|]. split; [apply vset_length|]. split.
            * intros Hax. rewrite Hax. apply HD, Hax.
            * split.
              -- intros i. rewrite (vget_vset RA) by exact Hk.
                 destruct (Nat.eqb_spec i k) as [->|Hne]; [|lra].
                 rewrite adec_1_6. unfold depth_at.
                 destruct (axi P) eqn:Hax.
                 ++ change (aofZ RA 2) with (IZR 2). change (api RA) with PI. lra.
                 ++ rewrite (HD eq_refl). lra.
              -- intros i Hi. destruct (ncond n); [rewrite nth_vsetZ by exact Hi|]; apply nth_vsetZ; exact Hi.
          + eexists _, _, _. split; [reflexivity|]. split; [reflexivity|]. split; [exact HD|]. split.
            * intros i. destruct (Nat.eqb i k); lra.
            * intros i Hi. destruct (ncond n); [apply nth_vsetZ; exact Hi|reflexivity].
        - eexists _, _, _. split; [reflexivity|]. split; [reflexivity|]. split; [exact HD|]. split.
          + intros i. destruct (Nat.eqb i k); lra.
          + intros i Hi. destruct (ncond n); [apply nth_vsetZ; exact Hi|reflexivity]. }
      destruct Hst as (D1 & b1 & Q1 & Est & Hl1 & HD1 & Hb1 & HQ1).
      rewrite Est.
      specialize (IH (S k) D1 b1 Q1).
      assert (Hlen' : (S k + length ns <= length b1)%nat) by (rewrite Hl1; cbn [length] in Hlen; lia).
      specialize (IH Hlen' HD1).
      destruct (fold_left (pc_body P) (combine (seq (S k) (length ns)) ns) (D1, b1, Q1)) as [[D' b'] Q'].
      destruct IH as (Hl' & HD' & Hb' & HQ').
      split; [congruence|]. split; [exact HD'|]. split.
      + intros i. rewrite Hb', Hb1. unfold suffix_load.
        destruct (Nat.eqb_spec i k) as [->|Hne].
        * replace (k - k)%nat with 0%nat by lia. replace (k - S k)%nat with 0%nat by lia.
          cbn [nth_error]. rewrite Nat.leb_refl.
          replace (Nat.leb (S k) k) with false by (symmetry; apply Nat.leb_gt; lia).
          destruct ns; lra.
        * destruct (Nat.leb k i) eqn:Eki.
          -- apply Nat.leb_le in Eki. assert (Hlt : (S k <= i)%nat) by lia.
             replace (i - k)%nat with (S (i - S k)) by lia. cbn [nth_error].
             replace (Nat.leb (S k) i) with true by (symmetry; apply Nat.leb_le; lia).
             rewrite (HQ1 i Hne). lra.
          -- apply Nat.leb_gt in Eki.
             replace (Nat.leb (S k) i) with false by (symmetry; apply Nat.leb_gt; lia).
             replace (i - k)%nat with 0%nat by lia. replace (i - S k)%nat with 0%nat by lia.
             cbn [nth_error]. destruct ns; lra.
      + intros i Hi. rewrite HQ' by lia. apply HQ1. lia.
  Qed.

  Lemma suffix_load_whole P Depth Q i : suffix_load P Depth Q 0 (nodes P) i = point_load P Depth Q i.
  Proof.
    unfold suffix_load, point_load. rewrite Nat.sub_0_r. cbn [Nat.leb]. reflexivity.
  Qed.

  (* The point-charge loop adds to every row exactly the point load of its node and nothing else. *)
  Theorem point_charges_rows P Depth b Q :
    (length (nodes P) <= length b)%nat ->
    let '(D', b', Q') := point_charges RA P Depth b Q in
    length b' = length b /\
    forall i, vgetR b' i = vgetR b i + point_load P Depth Q i.
  Proof.
    intros Hlen. rewrite point_charges_unfold.
    pose proof (pc_fold P Depth (nodes P) 0 Depth b Q Hlen (fun _ => eq_refl)) as H.
    destruct (fold_left (pc_body P) (combine (seq 0 (length (nodes P))) (nodes P)) (Depth, b, Q)) as [[D' b'] Q'].
    destruct H as (Hl & _ & Hb & _). split; [exact Hl|].
    intros i. rewrite Hb, suffix_load_whole. reflexivity.
  Qed.

  (* rows that do not belong to a node (the conductor unknowns) are left alone *)
  Corollary point_charges_other_rows P Depth b Q i :
    (length (nodes P) <= length b)%nat -> (length (nodes P) <= i)%nat ->
    let '(D', b', Q') := point_charges RA P Depth b Q in vgetR b' i = vgetR b i.
  Proof.
    intros Hlen Hi. pose proof (point_charges_rows P Depth b Q Hlen) as H.
    destruct (point_charges RA P Depth b Q) as [[D' b'] Q']. destruct H as [_ H].
    rewrite H. unfold point_load.
    replace (nth_error (nodes P) i) with (@None (enode (F:=R))); [lra|].
    symmetry. apply nth_error_None. exact Hi.
  Qed.

  (* a node that is prescribed or tied to a conductor (flag other than -2) receives no point load *)
  Corollary point_load_only_on_free_nodes P Depth Q i :
    nth i Q 0%Z <> (-2)%Z -> point_load P Depth Q i = 0.
  Proof.
    intros H. unfold point_load. destruct (nth_error (nodes P) i); [|reflexivity].
    destruct (nbm e); [|reflexivity]. destruct (Z.eqb_spec (nth i Q 0%Z) (-2)%Z); [contradiction|reflexivity].
  Qed.
End Points.
