(* PointVals.v — executable model of the point-value code of the three post-processors beyond Locate.v
   (extension XPV of property C12):

     cfemm/fpproc/fpproc.cpp : FPProc::GetPointValues(x,y,k,u)  (2360-2770), both branches
                                 Frequency == 0 : A (planar: linear interpolant; axisymmetric: the quadratic
                                   "smarter" interpolation of the stored flux 2 pi r A through constructed mid-side
                                   values), mu (FPProc::GetMu(double..) -> CMMaterialProp::GetMu(double..), linear
                                   materials, lamination types 0,1,2 and wire types > 2, divided by AECF), H, Js
                                   (circuits: voltage-gradient / current-density cases, the 1/r weighting of
                                   axisymmetric problems), c, E (CMMaterialProp::DoEnergy, the permanent-magnet
                                   correction with d_ShiftH == true, the local energy of wire regions), Hc, ff
                                 Frequency != 0 : complex A, mu (mu_fdx / mu_fdy as OpenDocument computed them, or the
                                   label's effective mu for wire regions), H, Js, c, Je, E, Ph, Pe
                               FPProc::GetPointB with Smooth == false (the element's B of GetElementB: IntegralsM.im_B)
                               FPProc::AECF (IntegralsM.im_aecf)
     cfemm/epproc/epproc.cpp : ElectrostaticsPostProcessor::getPointValues(x,y,k,u) with the exterior-region
                               factor AECF(elem, x+I*y) (cfemm/libfemm/PostProcessor.cpp:882-893) at the point and
                               AECF(elem) at the centroid inside elem->D (IntegralsE.ie_D)
     cfemm/hpproc/hpproc.cpp : HPProc::getPointValues(x,y,k,u): T, K = GetK(T)/AECF(elem,p) (KT.getk: T-k tables),
                               F = elem->D (IntegralsH.ih_D), G

   statement by statement, every CComplex operator written out (femmcomplex.cpp), same operation order.
   NOT modelled: nonlinear (BH-curve) materials, incremental / frozen-permeability problems (bIncremental != 0),
   d_ShiftH == false, smoothing ON (GetNodalB / getNodalD).
   libm enters only through values the post-processor holds after OpenDocument: H_c*exp(I*PI*magdir/180) per
   element (im_hc), mu_fdx / mu_fdy per material, o / mu / FillFactor per label.
   Smooth == false: the point's B (D, F) is the element's.  No proofs in this file. *)
From Coq Require Import ZArith List Bool Arith.
From XF Require Import Arith Sparse AsmE KT Integrals IntegralsE IntegralsH IntegralsM.
Import ListNotations.

Section PointVals.
  Context {F : Type} (A : Arith F).
  Local Notation "x +. y" := (aadd A x y) (at level 50, left associativity).
  Local Notation "x -. y" := (asub A x y) (at level 50, left associativity).
  Local Notation "x *. y" := (amul A x y) (at level 40, left associativity).
  Local Notation "x /. y" := (adiv A x y) (at level 40, left associativity).
  Local Notation zero := (azero A).
  Local Notation one := (aone A).
  Local Notation "'#' z" := (aofZ A z) (at level 9).
  Local Notation cx := (F * F)%type.
  Local Notation "x +c y" := (cadd A x y) (at level 50, left associativity).
  Local Notation "x -c y" := (csub A x y) (at level 50, left associativity).
  Local Notation "x *c y" := (cmul A x y) (at level 40, left associativity).
  Local Notation "d *.c z" := (dmulc A d z) (at level 40, left associativity).   (* double * CComplex *)
  Local Notation "z *c. d" := (cmuld A z d) (at level 40, left associativity).   (* CComplex * double *)
  Local Notation "z /c. d" := (cdivr A z d) (at level 40, left associativity).   (* CComplex / double *)

  (* ------------------------------------------------------------------------------------------ *)
  (* the a, b, c coefficients and da (the same statements in the three getPointValues)            *)
  (* ------------------------------------------------------------------------------------------ *)
  Record shp := mkShp { sa : F * F * F; sb : F * F * F; sc : F * F * F; sda : F }.
  Definition shape (x0 y0 x1 y1 x2 y2 : F) : shp :=
    let b0 := y1 -. y2 in let b1 := y2 -. y0 in let b2 := y0 -. y1 in
    let c0 := x2 -. x1 in let c1 := x0 -. x2 in let c2 := x1 -. x0 in
    mkShp (x1 *. y2 -. x2 *. y1, x2 *. y0 -. x0 *. y2, x0 *. y1 -. x1 *. y0)
          (b0, b1, b2) (c0, c1, c2)
          (b0 *. c1 -. b1 *. c0).                              (* da=(b[0]*c[1]-b[1]*c[0]) *)
  (* a[i]+b[i]*x+c[i]*y *)
  Definition wgt (s : shp) (i : nat) (x y : F) : F :=
    tri_get (sa s) i +. tri_get (sb s) i *. x +. tri_get (sc s) i *. y.

  (* u=0; for i: u += v_i*(a[i]+b[i]*x+c[i]*y)/(da);     (V, T, A.re of planar static problems) *)
  Definition interp_r (s : shp) (v0 v1 v2 : F) (x y : F) : F :=
    zero +. v0 *. wgt s 0 x y /. sda s +. v1 *. wgt s 1 x y /. sda s +. v2 *. wgt s 2 x y /. sda s.
  (* u.A=0; for i: u.A+=meshnode[n[i]].A*(a[i]+b[i]*x+c[i]*y)/(da);   (CComplex*double, CComplex/double, +=) *)
  Definition interp_c (s : shp) (v0 v1 v2 : cx) (x y : F) : cx :=
    (zero, zero) +c v0 *c. wgt s 0 x y /c. sda s +c v1 *c. wgt s 1 x y /c. sda s +c v2 *c. wgt s 2 x y /c. sda s.

  (* ------------------------------------------------------------------------------------------ *)
  (* the axisymmetric potential: quadratic interpolation of the stored 2 pi r A                   *)
  (* ------------------------------------------------------------------------------------------ *)
  (* the same text is compiled for double v[] (Frequency == 0) and CComplex v[] (Frequency != 0):
     one model over the operations the text uses *)
  Record vsp (V : Type) := mkVsp { v_add : V -> V -> V; v_sub : V -> V -> V; v_smul : F -> V -> V; v_sdiv : V -> F -> V }.
  Arguments v_add {V}. Arguments v_sub {V}. Arguments v_smul {V}. Arguments v_sdiv {V}.
  Definition rV : vsp F := mkVsp F (aadd A) (asub A) (amul A) (adiv A).
  Definition cV : vsp cx := mkVsp cx (cadd A) (csub A) (dmulc A) (cdivr A).

  Section Quad.
    Context {V : Type} (S : vsp V).
    Local Notation "u +v w" := (v_add S u w) (at level 50, left associativity).
    Local Notation "u -v w" := (v_sub S u w) (at level 50, left associativity).
    Local Notation "d *v w" := (v_smul S d w) (at level 40, left associativity).
    Local Notation "u /v d" := (v_sdiv S u d) (at level 40, left associativity).

    (* if ((Ra<1.e-06) && (Rb<1.e-06)) (va+vb)/2.; else (Rb*(3.*va + vb) + Ra*(va + 3.*vb))/(4.*(Ra + Rb)) *)
    Definition mid (Ra Rb : F) (va vb : V) : V :=
      if altb A Ra (adec A 1 (-6)) && altb A Rb (adec A 1 (-6)) then (va +v vb) /v #2
      else (Rb *v (#3 *v va +v vb) +v Ra *v (va +v #3 *v vb)) /v (#4 *. (Ra +. Rb)).

    (* p=(b[1]*x+c[1]*y + a[1])/da;  q=(b[2]*x+c[2]*y + a[2])/da; *)
    Definition pq (s : shp) (i : nat) (x y : F) : F :=
      (tri_get (sb s) i *. x +. tri_get (sc s) i *. y +. tri_get (sa s) i) /. sda s.

    (* v[0] - p*(3.*v[0] - 4.*v[1] + v[2]) + 2.*p*p*(v[0] - 2.*v[1] + v[2]) - q*(3.*v[0] + v[4] - 4.*v[5]) +
       2.*q*q*(v[0] + v[4] - 2.*v[5]) + 4.*p*q*(v[0] - v[1] + v[3] - v[5]) *)
    Definition quad (p q : F) (v0 v1 v2 v3 v4 v5 : V) : V :=
      v0 -v p *v (#3 *v v0 -v #4 *v v1 +v v2)
         +v (#2 *. p *. p) *v (v0 -v #2 *v v1 +v v2)
         -v q *v (#3 *v v0 +v v4 -v #4 *v v5)
         +v (#2 *. q *. q) *v (v0 +v v4 -v #2 *v v5)
         +v (#4 *. p *. q) *v (v0 -v v1 +v v3 -v v5).

    (* R[i] = meshnode[n[i]].x; corner values v[0], v[2], v[4]; mid-side values v[1], v[3], v[5] *)
    Definition axi_A (s : shp) (R0 R1 R2 : F) (v0 v2 v4 : V) (x y : F) : V :=
      quad (pq s 1 x y) (pq s 2 x y) v0 (mid R0 R1 v0 v2) v2 (mid R1 R2 v2 v4) v4 (mid R2 R0 v4 v0).
  End Quad.

  (* ------------------------------------------------------------------------------------------ *)
  (* magnetics                                                                                    *)
  (* ------------------------------------------------------------------------------------------ *)
  (* what FPProc holds beyond IntegralsM.im_prob *)
  Record pm_prob := mkPMProb {
    pm_P : im_prob (F:=F);
    pm_freq : F;                         (* Frequency *)
    pm_mufd : list (cx * cx);            (* blockproplist[k].mu_fdx, mu_fdy (Frequency != 0, linear, LamType 0) *)
    pm_lmu : list cx;                    (* blocklist[k].mu (wire regions) *)
    pm_wirefix : bool }.                 (* which element the static local-energy term of wire regions reads:
                                            false = meshelem[i] with i == 3 (as shipped), true = meshelem[k] *)

  Definition im_delem : im_elem (F:=F) := mkIMElem (0, 0, 0) 0 0 (zero, zero).
  Definition pm_elem (Q : pm_prob) (k : nat) : im_elem := nth k (im_elems (pm_P Q)) im_delem.
  Definition pm_shape (P : im_prob) (el : im_elem) : shp :=
    shape (im_x (im_nd A P el 0)) (im_y (im_nd A P el 0)) (im_x (im_nd A P el 1)) (im_y (im_nd A P el 1))
          (im_x (im_nd A P el 2)) (im_y (im_nd A P el 2)).

  (* CMMaterialProp::GetMu(double b1, double b2, double &mu1, double &mu2), BHpoints == 0, MuMax == 0 *)
  Definition mat_mu_r (m : im_mat) (muo : F) : F * F :=
    let t := im_lamfill m in
    let '(mu1, mu2) :=
      match im_lamtype m with
      | 0 => ((one +. t *. (im_mux m -. one)) *. muo, (one +. t *. (im_muy m -. one)) *. muo)
      | 1 => ((one +. t *. (im_mux m -. one)) *. muo, one /. (t /. (im_muy m *. muo) +. (one -. t) /. muo))
      | 2 => (one /. (t /. (im_mux m *. muo) +. (one -. t) /. muo), (one +. t *. (im_muy m -. one)) *. muo)
      | _ => (muo, muo)                                       (* mu1=mu2=muo;  default *)
      end in
    (mu1 /. muo, mu2 /. muo).                                 (* convert to relative permeability *)

  (* the point-value object: CMPointVals as the harness prints it *)
  Record mpv := mkMPV {
    uA : cx; uB1 : cx; uB2 : cx; umu1 : cx; umu2 : cx; uH1 : cx; uH2 : cx; uJe : cx; uJs : cx;
    uc : F; uE : F; uPh : F; uPe : F; uHc : cx; uff : F }.
  Definition mpv_list (u : mpv) : list F :=
    [fst (uA u); snd (uA u); fst (uB1 u); snd (uB1 u); fst (uB2 u); snd (uB2 u);
     fst (umu1 u); snd (umu1 u); fst (umu2 u); snd (umu2 u); fst (uH1 u); snd (uH1 u); fst (uH2 u); snd (uH2 u);
     fst (uJe u); snd (uJe u); fst (uJs u); snd (uJs u); uc u; uE u; uPh u; uPe u; fst (uHc u); snd (uHc u); uff u].

  (* ravg = LengthConv*(x0+x1+x2)/3.;
     for tn: R[tn]=x_tn; if (R[tn]<1.e-6) R[tn]=ravg; else R[tn]*=LengthConv;
     for(ravg=0.,tn=0;tn<3;tn++) ravg+=(1./R[tn])*(a[tn]+b[tn]*x+c[tn]*y)/(da); *)
  Definition inv_r_weight (lc : F) (s : shp) (x0 x1 x2 : F) (x y : F) : F :=
    let ravg := lc *. (x0 +. x1 +. x2) /. #3 in
    let Rn := fun r => if altb A r (adec A 1 (-6)) then ravg else r *. lc in
    zero +. (one /. Rn x0) *. wgt s 0 x y /. sda s
         +. (one /. Rn x1) *. wgt s 1 x y /. sda s
         +. (one /. Rn x2) *. wgt s 2 x y /. sda s.

  (* ---- Frequency == 0 ---- *)
  Definition pm_static (Q : pm_prob) (k : nat) (x y : F) : mpv :=
    let P := pm_P Q in
    let el := pm_elem Q k in
    let lab := im_label_of A P el in
    let mat := im_mat_of A P el in
    let muo := im_muo P in
    let s := pm_shape P el in
    let n := fun j => im_nd A P el j in
    let '(B1, B2) := im_B A P el in                           (* GetPointB, Smooth==false: B1=elm.B1; B2=elm.B2 *)
    (* u.A = 0; planar: u.A.re += ...; axisymmetric: u.A.re = quadratic *)
    let Are :=
      if negb (im_axi P) then interp_r s (fst (im_A (n 0))) (fst (im_A (n 1))) (fst (im_A (n 2))) x y
      else axi_A rV s (im_x (n 0)) (im_x (n 1)) (im_x (n 2)) (fst (im_A (n 0))) (fst (im_A (n 1))) (fst (im_A (n 2))) x y in
    (* GetMu(u.B1.re, u.B2.re, u.mu1.re, u.mu2.re, k): material GetMu, then mu/=AECF(k); u.mu1.im = u.mu2.im = 0 *)
    let aecf := im_aecf A P el in
    let '(m1, m2) := mat_mu_r mat muo in
    let mu1 := m1 /. aecf in let mu2 := m2 /. aecf in
    (* u.H1 = u.B1 / (Re(u.mu1)*muo); *)
    let H1 := B1 /c. (mu1 *. muo) in
    let H2 := B2 /c. (mu2 *. muo) in
    (* u.Je=0; u.Js=blockproplist[blk].J.re; circuits *)
    let Js0 : cx := (fst (im_J mat), zero) in
    let Js :=
      match im_circ lab with
      | None => Js0
      | Some _ =>
          if Nat.eqb (im_case lab) 0 then
            if negb (im_axi P) then Js0 -c fst (im_o lab) *.c im_dvolts lab                   (* u.Js-=Re(o)*dVolts *)
            else Js0 -c fst (im_o lab) *.c im_dvolts lab *c. inv_r_weight (im_lc P) s (im_x (n 0)) (im_x (n 1)) (im_x (n 2)) x y
          else Js0 +c im_lJ lab                                                            (* u.Js+=blocklist[lbl].J *)
      end in
    let c := fst (im_o lab) in                                                             (* u.c=Re(o) *)
    let E := im_do_energy A (im_lamfix P) mat muo (fst B1) (fst B2) in                     (* DoEnergy(u.B1.re,u.B2.re) *)
    (* if (H_c!=0): u.Hc = H_c*exp(I*PI*magdir/180.); H1 = H1-Re(Hc); H2 = H2-Im(Hc);
       linear: u.E = 0.5*muo*(u.mu1.re*u.H1.re*u.H1.re + u.mu2.re*u.H2.re*u.H2.re);  d_ShiftH: Hc is kept *)
    let '(H1, H2, E, Hc) :=
      if aneb A (im_Hc mat) zero then
        let Hc := im_hc el in
        let H1 := (fst H1 -. fst Hc, snd H1) in
        let H2 := (fst H2 -. snd Hc, snd H2) in
        (H1, H2, adec A 5 (-1) *. muo *. (mu1 *. fst H1 *. fst H1 +. mu2 *. fst H2 *. fst H2), Hc)
      else (H1, H2, E, (zero, zero)) in
    (* if (LamType>2) { J=u.Js*1.e6; u.E+=Re(J*J)*Im(blocklist[meshelem[i].lbl].o)/2.; }    i == 3 after the loops *)
    let E :=
      if Nat.ltb 2 (im_lamtype mat) then
        let J := Js *c. adec A 1 6 in
        let lab' := if pm_wirefix Q then lab else im_label_of A P (pm_elem Q 3) in
        E +. fst (J *c J) *. snd (im_o lab') /. #2
      else E in
    mkMPV (Are, zero) B1 B2 (mu1, zero) (mu2, zero) H1 H2 (zero, zero) Js c E zero zero Hc (im_fill lab).

  (* ---- Frequency != 0 ---- *)
  Definition pm_harmonic (Q : pm_prob) (k : nat) (x y : F) : mpv :=
    let P := pm_P Q in
    let el := pm_elem Q k in
    let lab := im_label_of A P el in
    let mat := im_mat_of A P el in
    let muo := im_muo P in
    let f := pm_freq Q in
    let s := pm_shape P el in
    let n := fun j => im_nd A P el j in
    let '(B1, B2) := im_B A P el in
    let Ac :=
      if negb (im_axi P) then interp_c s (im_A (n 0)) (im_A (n 1)) (im_A (n 2)) x y
      else axi_A cV s (im_x (n 0)) (im_x (n 1)) (im_x (n 2)) (im_A (n 0)) (im_A (n 1)) (im_A (n 2)) x y in
    (* FPProc::GetMu(CComplex..): LamType>2: mu1=blocklist[lbl].mu; mu2=mu1; else material GetMu (linear: mu_fdx, mu_fdy);
       mu1/=aecf; mu2/=aecf *)
    let aecf := im_aecf A P el in
    let '(m1, m2) :=
      if Nat.ltb 2 (im_lamtype mat) then
        let m := nth (im_lbl el) (pm_lmu Q) (zero, zero) in (m, m)
      else nth (im_blk el) (pm_mufd Q) ((zero, zero), (zero, zero)) in
    let mu1 := m1 /c. aecf in let mu2 := m2 /c. aecf in
    (* u.H1 = u.B1/(u.mu1*muo); *)
    let H1 := cdiv A B1 (mu1 *c. muo) in
    let H2 := cdiv A B2 (mu2 *c. muo) in
    let Js0 := im_J mat in
    let Js :=
      match im_circ lab with
      | None => Js0
      | Some _ =>
          if Nat.eqb (im_case lab) 0 then
            if negb (im_axi P) then Js0 -c im_o lab *c im_dvolts lab                        (* u.Js-=o*dVolts *)
            else Js0 -c im_o lab *c im_dvolts lab *c. inv_r_weight (im_lc P) s (im_x (n 0)) (im_x (n 1)) (im_x (n 2)) x y
          else Js0 +c im_lJ lab
      end in
    (* if (Cduct!=0) u.c=1./Re(1./(o)); else u.c=0;  if (Lam_d!=0) u.c=0; *)
    let c := if aneb A (im_cduct mat) zero then one /. fst (dinvc A one (im_o lab)) else zero in
    let c := if aneb A (im_lamd mat) zero then zero else c in
    (* if (FillFactor<0) u.Je=-I*Frequency*2.*PI*u.c*u.A;     (u.Je is 0 in a fresh CMPointVals) *)
    let Je := if altb A (im_fill lab) zero
              then ((aneg A zero, aneg A one) *c. f *c. #2 *c. api A *c. c) *c Ac else (zero, zero) in
    (* if(problemType!=0){ if(x!=0) u.Je/=(2.*PI*x*LengthConv); else u.Je=0; } *)
    let Je := if im_axi P then (if aneb A x zero then Je /c. (#2 *. api A *. x *. im_lc P) else (zero, zero)) else Je in
    (* z=(u.H1*u.B1.Conj()) + (u.H2*u.B2.Conj());  u.E=0.25*z.re; *)
    let z := H1 *c cconj A B1 +c H2 *c cconj A B2 in
    let E := adec A 25 (-2) *. fst z in
    (* if (LamType>2) { J=u.Js*1.e6; u.E += Re(J*conj(J))*(Im(1./o)/(2.e6*PI*Frequency))/4.; } *)
    let E :=
      if Nat.ltb 2 (im_lamtype mat) then
        let J := Js *c. adec A 1 6 in
        E +. fst (J *c cconj A J) *. (snd (dinvc A one (im_o lab)) /. (adec A 2 6 *. api A *. f)) /. #4
      else E in
    let Ph := f *. api A *. snd z in                                                      (* u.Ph=Frequency*PI*z.im *)
    (* u.Pe=0; if (u.c!=0) { z=u.Js + u.Je; u.Pe=1.e06*(z.re*z.re + z.im*z.im)/(u.c*2.); } *)
    let Pe := if aneb A c zero then
                let z := Js +c Je in adec A 1 6 *. (fst z *. fst z +. snd z *. snd z) /. (c *. #2)
              else zero in
    mkMPV Ac B1 B2 mu1 mu2 H1 H2 Je Js c E Ph Pe (zero, zero) (im_fill lab).

  (* if (Frequency==0) {...return true;}  if(Frequency!=0) {...return true;} *)
  Definition pm_point (Q : pm_prob) (k : nat) (x y : F) : mpv :=
    if aeqb A (pm_freq Q) zero then pm_static Q k x y else pm_harmonic Q k x y.

  (* ------------------------------------------------------------------------------------------ *)
  (* electrostatics and heat flow: the exterior-region factor at the point                        *)
  (* ------------------------------------------------------------------------------------------ *)
  (* PostProcessor::AECF(elem, p):  r=abs(p-I*extZo); if (r==0) return AECF(elem); return (r*r)/(extRo*extRi);
     called with p = x+I*y = operator+(double, CComplex(0,1)*y) *)
  Definition pp_aecf_pt (axi ext : bool) (extZo extRo extRi : F) (ctr : cx) (x y : F) : F :=
    if negb axi then one
    else if negb ext then one
    else let r := cabsf A (csub A (dplusc A x (ci_times A y)) (ci_times A extZo)) in
         if aeqb A r zero then pp_aecf A axi ext extZo extRo extRi ctr
         else (r *. r) /. (extRo *. extRi).

  Definition ie_delem : ie_elem := mkIEElem (0, 0, 0) 0 0.
  Definition ie_shape (P : ie_prob) (el : ie_elem) : shp :=
    shape (ie_x (ie_nd A P el 0)) (ie_y (ie_nd A P el 0)) (ie_x (ie_nd A P el 1)) (ie_y (ie_nd A P el 1))
          (ie_x (ie_nd A P el 2)) (ie_y (ie_nd A P el 2)).
  Definition ie_aecf_pt (P : ie_prob) (el : ie_elem) (x y : F) : F :=
    pp_aecf_pt (ie_axi P) (nth (ie_lbl el) (ie_label_ext P) false) (ie_extZo P) (ie_extRo P) (ie_extRi P)
               (ie_ctr A P el) x y.

  (* ElectrostaticsPostProcessor::getPointValues(x,y,k,u), Smooth == false:
     [V; D.re; D.im; E.re; E.im; e.re; e.im; nrg] *)
  Definition pe_point (P : ie_prob) (k : nat) (x y : F) : list F :=
    let el := nth k (ie_elems P) ie_delem in
    let D := ie_D A P el in                                    (* getPointD: if(!Smooth){ D=elm.D; return; } *)
    let '(ex, ey) := ie_mat A P el in
    let e := dplusc A ex (ci_times A ey) /c. ie_aecf_pt P el x y in      (* u.e=prop->ex + I*prop->ey; u.e/=AECF(elem,x+I*y); *)
    let V := interp_r (ie_shape P el) (ie_V (ie_nd A P el 0)) (ie_V (ie_nd A P el 1)) (ie_V (ie_nd A P el 2)) x y in
    let Ex := fst D /. (fst e *. ie_eo P) in                   (* u.E.re = u.D.re/(u.e.re*eo); *)
    let Ey := snd D /. (snd e *. ie_eo P) in
    let nrg := (fst D *. Ex -. snd D *. aneg A Ey) /. #2 in    (* u.nrg=Re(u.D*conj(u.E))/2.; *)
    [V; fst D; snd D; Ex; Ey; fst e; snd e; nrg].

  (* HPProc::getPointValues(x,y,k,u), Smooth == false:  [T; F.re; F.im; G.re; G.im; K.re; K.im] *)
  Definition ph_point (P : ih_prob) (k : nat) (x y : F) : list F :=
    let V := ih_view A P in
    let el := nth k (ih_elems P) ie_delem in
    let Fl := ih_D A P el in
    let T := interp_r (ie_shape V el) (ih_T A P el 0) (ih_T A P el 1) (ih_T A P el 2) x y in
    let m := nth (ie_blk el) (ih_mats P) (ih_dmat A) in
    let K := getk A (ih_kx m) (ih_ky m) (ih_tk m) T /c. ie_aecf_pt V el x y in     (* u.K=mat->GetK(u.T); u.K/=AECF(elem,x+I*y); *)
    [T; fst Fl; snd Fl; fst Fl /. fst K; snd Fl /. snd K; fst K; snd K].
End PointVals.
