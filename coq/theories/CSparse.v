(* placeholder: complex sparse model, filled in below *)
From XF Require Import Arith Sparse.
