(* CSparse.v — executable model of CBigComplexLinProb (cfemm/libfemm/cspars.cpp) for the case
   the linear (non-Newton) assemblers use: k = 0, bNewton = false.  Put/Get/AddTo/MultA/MultPC/
   Periodicity/AntiPeriodicity/Wipe/Dot are the statements of spars.cpp with CComplex
   arithmetic, so they are the Sparse.v model read at the complex instance [CA A]; what differs
   (SetValue's scan range, the BiCG solver and its CGNE start) is modelled here. *)
From Coq Require Import ZArith List Bool Arith.
From XF Require Import Arith Sparse.
Import ListNotations.

Section CSparse.
  Context {F : Type} (A : Arith F).
  Local Notation C := (CA A).
  Local Notation cplx := (F * F)%type.
  Local Notation cmatrix := (list (list (nat * cplx))).
  Local Notation cvec := (list cplx).

  Record clin := mkCLin {
    cn : nat; cbdw : nat; cnodes : nat; cM : cmatrix; cb : cvec; cV : cvec; cprec : F; clam : F }.

  Definition ccreate (n bw nodes : nat) (prec lam : F) : clin :=
    mkCLin n bw nodes (mcreate C n) (vzero C n) (vzero C n) prec lam.
  Definition cwith (L : clin) M b := mkCLin (cn L) (cbdw L) (cnodes L) M b (cV L) (cprec L) (clam L).
  Definition cwithV (L : clin) V := mkCLin (cn L) (cbdw L) (cnodes L) (cM L) (cb L) V (cprec L) (clam L).

  (* CBigComplexLinProb::SetValue: rows fst..lst-1 and then NumNodes..n-1 *)
  Definition csv_rows (n bdw nodes i : nat) : list nat :=
    if Nat.eqb bdw 0 then seq 0 n
    else
      let fst := i - bdw in
      let lst := Nat.min (i + bdw) nodes in
      if Nat.leb fst lst && Nat.ltb lst n then seq fst (lst - fst) ++ seq nodes (n - nodes)
      else seq fst (n - fst).

  Definition csetvalue (L : clin) (i : nat) (x : cplx) : clin :=
    let '(M, b) := sv_loop C (csv_rows (cn L) (cbdw L) (cnodes L) i) i x (cM L) (cb L) in
    cwith L M (vset b i (amul C (mget C M i i) x)).

  (* Periodicity / AntiPeriodicity: with KLUDGE the loop runs over all rows *)
  Definition as_lin (L : clin) : lin (F:=cplx) :=
    mkLin (cn L) 0 (cM L) (cb L) (cV L) (cofR A (cprec L)) (cofR A (clam L)).
  Definition cperiodicity (L : clin) (i j : nat) : clin :=
    let L' := periodicity C (as_lin L) i j in cwith L (lM L') (lb L').
  Definition cantiperiodicity (L : clin) (i j : nat) : clin :=
    let L' := antiperiodicity C (as_lin L) i j in cwith L (lM L') (lb L').

  Definition cmultPC (L : clin) (X : cvec) : cvec := multPC C (cM L) (cofR A (clam L)) X.
  Definition cmultA (L : clin) (X : cvec) : cvec := multA C (cM L) X.
  Definition conjv (X : cvec) : cvec := map (cconj A) X.
  Definition cdot (X Y : cvec) : cplx := dot C X Y.
  Definition cconjdot (X Y : cvec) : cplx := dot C (conjv X) Y.
  Definition cnrm (X : cvec) : F := asqrt A (fst (cconjdot X X)).

  (* MultAPPA *)
  Definition multAPPA (L : clin) (X : cvec) : cvec :=
    let Z := cmultA L X in
    let Y := conjv (cmultPC L Z) in
    let Z := cmultPC L Y in
    conjv (cmultA L Z).

  Definition caxpy (a : cplx) (X Y : cvec) : cvec :=
    map (fun '(y, x) => cadd A y (cmul A a x)) (combine Y X).
  Definition caxmy (a : cplx) (X Y : cvec) : cvec :=
    map (fun '(y, x) => csub A y (cmul A a x)) (combine Y X).

  (* PCGSQStart: three CGNE steps from V = 0; result V (or None on the singular flag) *)
  Fixpoint sq_iter (k : nat) (L : clin) (V P R : cvec) (res : cplx) : cvec :=
    match k with
    | O => V
    | S k' =>
        (* "if((res.re==0) && (res.im==0)) break;" *)
        if ceqb A res (azero C) then V else
        let U := multAPPA L P in
        let pAp := cconjdot P U in
        let del := cdiv A res pAp in
        let V' := caxpy del P V in
        let R' := caxmy del U R in
        let res_new := cconjdot R' R' in
        let rho := cdiv A res_new res in
        let P' := map (fun '(r, p) => cadd A r (cmul A rho p)) (combine R' P) in
        sq_iter k' L V' P' R' res_new
    end.

  Definition pcgsqstart (L : clin) : option cvec :=
    if existsb (fun r => ceqb A (diag_of C r) (azero C)) (cM L) then None
    else
      let Z := conjv (cmultPC L (cb L)) in
      let P := cmultPC L Z in
      let Z := cmultA L P in
      let P := conjv Z in
      let V := vzero C (cn L) in
      let R := map (fun '(p, r) => csub A p r) (combine P (multAPPA L V)) in
      Some (sq_iter 3 L V R R (cconjdot R R)).

  Record bstate := mkB { bV : cvec; bP : cvec; bR : cvec; bres : cplx }.

  Definition bicg_step (L : clin) (s : bstate) : bstate :=
    let U := cmultA L (bP s) in
    let pAp := cdot (bP s) U in
    let del := cdiv A (bres s) pAp in
    let V' := caxpy del (bP s) (bV s) in
    let R' := caxmy del U (bR s) in
    let Z := cmultPC L R' in
    let res_new := cdot Z R' in
    let rho := cdiv A res_new (bres s) in
    let P' := map (fun '(z, p) => cadd A z (cmul A rho p)) (combine Z (bP s)) in
    mkB V' P' R' res_new.

  Fixpoint bicg_loop (fuel : nat) (L : clin) (normb : F) (s : bstate) (it : nat) : bstate * nat * bool :=
    match fuel with
    | O => (s, it, false)
    | S fuel' =>
        let s' := bicg_step L s in
        let er := adiv A (cnrm (bR s')) normb in
        if altb A (cprec L) er then bicg_loop fuel' L normb s' (S it) else (s', S it, true)
    end.

  (* PBCGSolve(flag) ; flag = false zeroes V *)
  Definition pbcg (fuel : nat) (L : clin) (V0 : cvec) : cvec * nat * nat :=
    let R0 := map (fun '(b, r) => csub A b r) (combine (cb L) (cmultA L V0)) in
    let normb := cnrm (cb L) in
    let er0 := adiv A (cnrm R0) normb in
    (* "if(!(er>Precision)) return 1;" *)
    if negb (altb A (cprec L) er0) then (V0, 0, 1) else
    let Z := cmultPC L R0 in
    let '(s, it, ok) := bicg_loop fuel L normb (mkB V0 Z R0 (cdot Z R0)) 0 in
    (bV s, it, if ok then 1 else 2).

  (* true relative residual |b - A V| / |b| as PBCGSolveMod recomputes it after PBCGSolve returned *)
  Definition true_er (L : clin) (V : cvec) : F :=
    adiv A (cnrm (map (fun '(b, r) => csub A b r) (combine (cb L) (cmultA L V)))) (cnrm (cb L)).

  (* the restart loop at the end of PBCGSolveMod: PBCGSolve's stopping test uses the recursively
     updated residual; the true residual of the returned vector is recomputed and the solver is
     restarted from that vector until the true residual meets Precision ("if(!(trueEr>Precision))
     break;") or no longer halves ("if((lastEr>=0) && !(trueEr<0.5*lastEr)) break;").
     rfuel bounds the number of restarts in the model (status 2 = out of fuel). *)
  Fixpoint restart_loop (rfuel fuel : nat) (L : clin) (V : cvec) (it : nat) (last : option F) : cvec * nat * nat :=
    match rfuel with
    | O => (V, it, 2)
    | S r =>
        let er := true_er L V in
        if negb (altb A (cprec L) er) then (V, it, 1)
        else if (match last with Some l => negb (altb A er (amul A (adec A 5 (-1)) l)) | None => false end) then (V, it, 1)
        else
          let '(V', it', st) := pbcg fuel L V in
          if Nat.eqb st 1 then restart_loop r fuel L V' (it + it') (Some er) else (V', it + it', st)
    end.

  Definition pbcg_restarted (fuel : nat) (L : clin) (V0 : cvec) : cvec * nat * nat :=
    let '(V, it, st) := pbcg fuel L V0 in
    if Nat.eqb st 1 then restart_loop 64 fuel L V it None else (V, it, st).

  (* PBCGSolveMod(flag): status 0 singular flag, 1 returned, 2 fuel exhausted *)
  Definition pbcgsolvemod (fuel : nat) (L : clin) (flag : bool) : cvec * nat * nat :=
    (* a zero right-hand side has the zero solution (guard at the top of PBCGSolveMod) *)
    if forallb (fun z => ceqb A z (azero C)) (cb L) then (vzero C (cn L), 0, 1)
    else if flag then pbcg_restarted fuel L (cV L)
    else match pcgsqstart L with
         | None => (cV L, 0, 0)
         | Some V0 => pbcg_restarted fuel L V0
         end.

  Inductive cop :=
  | CPut (v : cplx) (p q : nat) | CAddTo (v : cplx) (p q : nat) | CGet (p q : nat)
  | CSetB (i : nat) (v : cplx) | CSetValue (i : nat) (v : cplx)
  | CPeriodic (i j : nat) | CAntiPeriodic (i j : nat)
  | CMultA (X : cvec) | CMultPC (X : cvec) | CSolve (flag : bool) (fuel : nat) | CDump.

  Definition flat (X : cvec) : list F := concat (map (fun z => [fst z; snd z]) X).
  Definition cdump_rows (M : cmatrix) : list F :=
    concat (map (fun r => aofZ A (Z.of_nat (length r))
                          :: concat (map (fun '(c, x) => [aofZ A (Z.of_nat c); fst x; snd x]) r)) M).

  Definition cstep (L : clin) (o : cop) : clin * list F :=
    match o with
    | CPut v p q => (cwith L (mput (cM L) v p q) (cb L), [])
    | CAddTo v p q => (cwith L (maddto C (cM L) v p q) (cb L), [])
    | CGet p q => (L, flat [mget C (cM L) p q])
    | CSetB i v => (cwith L (cM L) (vset (cb L) i v), [])
    | CSetValue i v => (csetvalue L i v, [])
    | CPeriodic i j => (cperiodicity L i j, [])
    | CAntiPeriodic i j => (cantiperiodicity L i j, [])
    | CMultA X => (L, flat (cmultA L X))
    | CMultPC X => (L, flat (cmultPC L X))
    | CSolve flag fuel =>
        let '(V, it, st) := pbcgsolvemod fuel L flag in
        (cwithV L V, aofZ A (Z.of_nat st) :: aofZ A (Z.of_nat it) :: flat V)
    | CDump => (L, cdump_rows (cM L) ++ flat (cb L))
    end.

  Fixpoint crun (L : clin) (ops : list cop) : list (list F) :=
    match ops with
    | [] => []
    | o :: ops' => let '(L', out) := cstep L o in out :: crun L' ops'
    end.
End CSparse.
