(* AsmMAxi.v — executable model of the LINEAR path of FSolver::StaticAxisymmetric
   (cfemm/fsolver/staticaxi.cpp), statement by statement and in the same floating-point operation
   order, on the post-LoadMesh / post-Cuthill data the solver works on (lengths already in
   centimetres).  The solution is written by FSolver::WriteStatic2D (runSolver calls it for both
   problem types), whose per-label circuit lines are AsmM.written_label; the potentials it prints
   are  L.b[i] = L.V[i]*c * (x*0.01*2*PI)  (staticaxi.cpp:781-785), [written_flux] below.
   Reused because the C++ is literally the same statements: the records of AsmM, AsmE.geom
   (p, q, l, a, R = gr), AsmM.is_wound, AsmM.circ_case (staticaxi.cpp:113-136 = static2d.cpp),
   AsmM.el_mu (lamination formulas, staticaxi.cpp:433-454), AsmM.combine_me (line 625),
   AsmM.seg_value (lines 667-675), AsmM.mapply_pbcs, Sparse.setvalue, AsmE.msub.
   Different from Static2D and written out here: the circuit integral CircInt2 (100*a*Cduct/r),
   the modified-potential element matrices Mx, My, Mxy with a_hat, R_hat, the mid-side radii g[],
   the entries put on the diagonal of on-axis nodes, the 2*r factors of mixed boundaries, current
   density, magnetisation and point currents, the conformally mapped exterior region, SetValue(i,0)
   on the axis and the  x != 0  guard of prescribed-A segments; all tolerance tests are
   units[LengthUnits]*1.e-06.
   NOT modelled: the Newton branch for BH curves (BHpoints <> 0; with BHpoints = 0 the do-while
   runs once, Mn = 0 and  be[j] += Mn[j][k]*L.V[n[k]]  adds +0), previous-solution runs
   (bIncremental, Jprev), polar boundary coordinates (Coords = 1).
   libm values come from the implementation: cos/sin of the magnetisation direction per element
   (AsmM.mcos/msin), cos(phi*DEG) per boundary property, and per element the six logarithms
   log(rn[j]) and log(rn[0]/rn[2]), log(rn[1]/rn[0]), log(rn[2]/rn[1]) of staticaxi.cpp:231-260.
   No proofs in this file. *)
From Coq Require Import ZArith List Bool Arith.
From XF Require Import Arith Sparse AsmE AsmM.
Import ListNotations.

Section AsmMAxi.
  Context {F : Type} (A : Arith F).
  Local Notation "x +. y" := (aadd A x y) (at level 50, left associativity).
  Local Notation "x -. y" := (asub A x y) (at level 50, left associativity).
  Local Notation "x *. y" := (amul A x y) (at level 40, left associativity).
  Local Notation "x /. y" := (adiv A x y) (at level 40, left associativity).
  Local Notation zero := (azero A).
  Local Notation one := (aone A).
  Local Notation "'#' z" := (aofZ A z) (at level 9).

  (* lgn = (log(rn[0]), log(rn[1]), log(rn[2]));  lgr = (log(rn[0]/rn[2]), log(rn[1]/rn[0]), log(rn[2]/rn[1])) *)
  Record alogs := mkALogs { lgn : F * F * F; lgr : F * F * F }.
  Definition dalogs := mkALogs (zero, zero, zero) (zero, zero, zero).

  (* the planar record plus what only the axisymmetric solver reads: the logarithms per element,
     IsExternal per block label, and extRo, extRi, extZo as read from the file *)
  Record aprob := mkAProb { ap : mprob (F:=F); alg : list alogs; aext : list bool;
                            aRo_raw : F; aRi_raw : F; aZo_raw : F }.

  Definition aunit (P : mprob (F:=F)) : F := nth (unit_idx P) (munits A) one.
  (* units[LengthUnits]*1.e-06 *)
  Definition atol (P : mprob (F:=F)) : F := aunit P *. adec A 1 (-6).

  (* ---- circuit pre-pass (staticaxi.cpp:74-137) ---- *)
  Definition acirc_step (P : mprob (F:=F)) (acc : list F * list F * list F) (el : melem (F:=F))
    : list F * list F * list F :=
    let '(c1, c2, c3) := acc in
    let lab := nth (mlbl el) (mlabels P) dmlabel in
    match lcirc lab with
    | None => acc
    | Some ic =>
        let g := mel_geom A P el in
        let a := ga g in
        let r := gr g in
        let blk := nth (mblk el) (mblocks P) (dmblock A) in
        let Cduct := if is_wound A P lab then zero else bCduct blk in
        (vset c1 ic (vget A c1 ic +. a),
         vset c2 ic (vget A c2 ic +. #100 *. a *. Cduct /. r),
         vset c3 ic (vget A c3 ic +. bJre blk *. a *. #100))
    end.

  Definition acirc_ints (P : mprob (F:=F)) (nc : nat) : list F * list F * list F :=
    fold_left (acirc_step P) (melems P) (repeat zero nc, repeat zero nc, repeat zero nc).

  (* result per circuit: (Case, J, dV); the case analysis is that of Static2D *)
  Definition acirc_results (P : mprob (F:=F)) : list (nat * F * F) :=
    let nc := length (mcircs P) in
    let '(c1, c2, c3) := acirc_ints P nc in
    map (fun ic => circ_case A (snd ic) (vget A c1 (fst ic)) (vget A c2 (fst ic)) (vget A c3 (fst ic)))
        (combine (seq 0 nc) (mcircs P)).

  (* the circuit part  t  of the current density of an element (staticaxi.cpp:336-343) *)
  Definition acirc_t (P : mprob (F:=F)) (res : list (nat * F * F)) (el : melem (F:=F)) (R : F) : F :=
    match lcirc (nth (mlbl el) (mlabels P) dmlabel) with
    | None => zero
    | Some k =>
        let '(case, J, dV) := nth k res (dres A) in
        let t := if Nat.eqb case 1 then J else zero in
        if Nat.eqb case 0 then aneg A #100 *. dV *. bCduct (nth (mblk el) (mblocks P) (dmblock A)) /. R else t
    end.

  (* ---- shape data of an element (staticaxi.cpp:189-216) ---- *)
  Definition el_rn (P : mprob (F:=F)) (el : melem (F:=F)) : list F :=
    map (fun j => mx (nth (tri_get (mp el) j) (mnodes P) (dmnode A))) [0; 1; 2].
  Definition el_zn (P : mprob (F:=F)) (el : melem (F:=F)) : list F :=
    map (fun j => my (nth (tri_get (mp el) j) (mnodes P) (dmnode A))) [0; 1; 2].
  (* g[0]=(x2+x1)/2.; g[1]=(x0+x2)/2.; g[2]=(x1+x0)/2. *)
  Definition mid_radii (rn : list F) : list F :=
    [(vget A rn 2 +. vget A rn 1) /. #2; (vget A rn 0 +. vget A rn 2) /. #2; (vget A rn 1 +. vget A rn 0) /. #2].
  (* for(j=0,a_hat=0; j<3; j++) a_hat+=(rn[j]*rn[j]*p[j]/(4.*R)); *)
  Definition a_hat_of (rn p : list F) (R : F) : F :=
    fold_left (fun ah j => ah +. vget A rn j *. vget A rn j *. vget A p j /. (#4 *. R)) [0; 1; 2] zero.
  Definition on_axis (tol : F) (rn : list F) (j : nat) : bool := altb A (vget A rn j) tol.
  Definition axis_count (tol : F) (rn : list F) : nat :=
    fold_left (fun c j => if on_axis tol rn j then S c else c) [0; 1; 2] 0.

  (* R_hat (staticaxi.cpp:218-263) *)
  Definition r_hat_one (tol : F) (rn : list F) (lg : alogs) : F :=
    let r := vget A rn in
    let ln := tri_get (lgn lg) in
    let Rh := zero in
    let Rh := if altb A (r 0) tol then
                (if altb A (aabs A (r 1 -. r 2)) tol then r 2 /. #2
                 else (r 1 -. r 2) /. (#2 *. ln 1 -. #2 *. ln 2)) else Rh in
    let Rh := if altb A (r 1) tol then
                (if altb A (aabs A (r 2 -. r 0)) tol then r 0 /. #2
                 else (r 2 -. r 0) /. (#2 *. ln 2 -. #2 *. ln 0)) else Rh in
    if altb A (r 2) tol then
      (if altb A (aabs A (r 0 -. r 1)) tol then r 1 /. #2
       else (r 0 -. r 1) /. (#2 *. ln 0 -. #2 *. ln 1)) else Rh.

  Definition r_hat_default (tol : F) (rn q : list F) (R : F) (lg : alogs) : F :=
    let r := vget A rn in
    let qq := vget A q in
    let ln := tri_get (lgn lg) in
    let lr := tri_get (lgr lg) in
    let small := fun j => altb A (aabs A (qq j)) tol in
    if small 0 && small 1 && small 2 then R
    else if small 0 then (qq 1 *. qq 1) /. (#2 *. (aneg A (qq 1) +. r 0 *. lr 0))
    else if small 1 then (qq 2 *. qq 2) /. (#2 *. (aneg A (qq 2) +. r 1 *. lr 1))
    else if small 2 then (qq 0 *. qq 0) /. (#2 *. (aneg A (qq 0) +. r 2 *. lr 2))
    else aneg A (qq 0 *. qq 1 *. qq 2) /.
         (#2 *. (qq 0 *. r 0 *. ln 0 +. qq 1 *. r 1 *. ln 1 +. qq 2 *. r 2 *. ln 2)).

  Definition r_hat_of (tol : F) (rn q : list F) (R : F) (lg : alogs) : F :=
    match axis_count tol rn with
    | 2 => R
    | 1 => r_hat_one tol rn lg
    | _ => r_hat_default tol rn q R lg
    end.

  (* ---- element matrices ---- *)
  Definition upper6 : list (nat * nat) := [(0,0);(0,1);(0,2);(1,1);(1,2);(2,2)].

  (* for j, for k>=j:  Mx[j][k] += K*p[j]*rn[j]*p[k]*rn[k];  (staticaxi.cpp:268-271) *)
  Definition mx_upper (K : F) (p rn : list F) : list F :=
    fold_left (fun M jk => let '(j, k) := jk in
      m3add A M j k (K *. vget A p j *. vget A rn j *. vget A p k *. vget A rn k)) upper6 (repeat zero 9).
  (* for j: if (rn[j]<tol) Mx[j][j]+=Mx[0][0]+Mx[1][1]+Mx[2][2];  (lines 278-279) *)
  Definition axis_diag (tol : F) (rn : list F) (M : list F) : list F :=
    fold_left (fun M j => if on_axis tol rn j
                          then m3add A M j j (m3get A M 0 0 +. m3get A M 1 1 +. m3get A M 2 2) else M) [0; 1; 2] M.
  (* My[j][k] += K*(q[j]*rn[j])*(q[k]*rn[k])*(g[j]/R)*(g[k]/R);  (lines 284-288) *)
  Definition my_upper (K : F) (q rn g : list F) (R : F) : list F :=
    fold_left (fun M jk => let '(j, k) := jk in
      m3add A M j k (K *. (vget A q j *. vget A rn j) *. (vget A q k *. vget A rn k)
                     *. (vget A g j /. R) *. (vget A g k /. R))) upper6 (repeat zero 9).
  (* Mxy[j][k] += K*((q[j]*rn[j])*(g[j]/R))*(p[k]*rn[k]) + K*((q[k]*rn[k])*(g[k]/R))*(p[j]*rn[j]);  (293-296) *)
  Definition mxy_upper (K : F) (p q rn g : list F) (R : F) : list F :=
    fold_left (fun M jk => let '(j, k) := jk in
      m3add A M j k (K *. ((vget A q j *. vget A rn j) *. (vget A g j /. R)) *. (vget A p k *. vget A rn k)
                     +. K *. ((vget A q k *. vget A rn k) *. (vget A g k /. R)) *. (vget A p j *. vget A rn j)))
      upper6 (repeat zero 9).
  (* M[1][0]=M[0][1]; M[2][0]=M[0][2]; M[2][1]=M[1][2];  (lines 299-307) *)
  Definition mirror3 (M : list F) : list F :=
    m3set (m3set (m3set M 1 0 (m3get A M 0 1)) 2 0 (m3get A M 0 2)) 2 1 (m3get A M 1 2).

  (* contributions from derivative boundary conditions, BdryFormat 2 (lines 310-331) *)
  Definition amixed_step (P : mprob (F:=F)) (g : egeom) (rn : list F) (el : melem (F:=F))
    (acc : list F * list F) (j : nat) : list F * list F :=
    match tri_get (me el) j with
    | None => acc
    | Some s =>
        let lp := nth s (mlines P) (dmline A) in
        if Nat.eqb (mlfmt lp) 2 then
          let '(Me, be) := acc in
          let k := nxt j in
          let r := (vget A rn j +. vget A rn k) /. #2 in
          let K := aneg A (e4 A) *. c4pi A *. #2 *. r *. lc0re lp *. vget A (gl g) j /. #6 in
          let Me := m3add A Me j j (K *. #2) in
          let Me := m3add A Me k k (K *. #2) in
          let Me := m3add A Me j k K in
          let Me := m3add A Me k j K in
          let K := (lc1re lp *. vget A (gl g) j /. #2) *. e4 A *. #2 *. r in
          (Me, v3add A (v3add A be j K) k K)
        else acc
    end.

  (* contribution from magnetization (lines 415-427) *)
  Definition amagnet_step (P : mprob (F:=F)) (rn zn : list F) (el : melem (F:=F)) (be : list F) (j : nat) : list F :=
    let k := nxt j in
    let blk := nth (mblk el) (mblocks P) (dmblock A) in
    let r := (vget A rn j +. vget A rn k) /. #2 in
    let K := aneg A (e4 A) *. r *. bHc blk *.
             (mcos el *. (vget A rn k -. vget A rn j) +. msin el *. (vget A zn k -. vget A zn j)) in
    v3add A (v3add A be j K) k K.

  (* element permeabilities, Iter == 0 (lines 430-454), and the conformally mapped exterior
     region (lines 613-619); extRo, extRi, extZo already multiplied by units[LengthUnits] *)
  Definition ael_mu (AP : aprob) (extRo extRi extZo : F) (el : melem (F:=F)) (R : F) (zn : list F) : F * F :=
    let '(mu1, mu2) := el_mu A (nth (mblk el) (mblocks (ap AP)) (dmblock A)) in
    if nth (mlbl el) (aext AP) false then
      let Z := (vget A zn 0 +. vget A zn 1 +. vget A zn 2) /. #3 -. extZo in
      let kludge := (R *. R +. Z *. Z) *. extRi /. (extRo *. extRo *. extRo) in
      (mu1 /. kludge, mu2 /. kludge)
    else (mu1, mu2).

  (* the three geometric matrices (Mx, My, Mxy) of an element *)
  Definition ael_shape (P : mprob (F:=F)) (el : melem (F:=F)) (lg : alogs) : list F * list F * list F :=
    let g := mel_geom A P el in
    let rn := el_rn P el in
    let tol := atol P in
    let R := gr g in
    let gm := mid_radii rn in
    let ah := a_hat_of rn (gp g) R in
    let Rh := r_hat_of tol rn (gq g) R lg in
    let K := aneg A one /. (#2 *. ah *. R) in
    let Mx := axis_diag tol rn (mx_upper K (gp g) rn) in
    let K := aneg A one /. (#2 *. ah *. Rh) in
    let My := my_upper K (gq g) rn gm R in
    let Mxy := mxy_upper K (gp g) (gq g) rn gm R in
    (mirror3 Mx, mirror3 My, mirror3 Mxy).

  (* element matrices (Me, be) and the element's (mu1, mu2) *)
  Definition amelem_matrices (AP : aprob) (extRo extRi extZo : F) (res : list (nat * F * F))
    (ela : melem (F:=F) * alogs) : list F * list F * (F * F) :=
    let P := ap AP in
    let '(el, lg) := ela in
    let g := mel_geom A P el in
    let rn := el_rn P el in
    let zn := el_zn P el in
    let R := gr g in
    let blk := nth (mblk el) (mblocks P) (dmblock A) in
    let '(Mx, My, Mxy) := ael_shape P el lg in
    let '(Me, be) := fold_left (amixed_step P g rn el) [0;1;2] (repeat zero 9, repeat zero 3) in
    let t := acirc_t P res el R in
    let Kj := aneg A #2 *. R *. (bJre blk +. t) *. ga g /. #3 in
    let be := v3add A (v3add A (v3add A be 0 Kj) 1 Kj) 2 Kj in
    let be := fold_left (amagnet_step P rn zn el) [0;1;2] be in
    let '(mu1, mu2) := ael_mu AP extRo extRi extZo el R zn in
    (combine_me A Me Mx My Mxy mu1 mu2, be, (mu1, mu2)).

  (* L.Put(L.Get(n[j],n[k])-Me[j][k],n[j],n[k]) for k>=j;  L.b[n[j]]-=be[j];  (lines 629-634) *)
  Definition ascatter (n : nat * nat * nat) (Me be : list F) (M : list (list (nat * F))) (b : list F)
    : list (list (nat * F)) * list F :=
    fold_left (fun acc j =>
      let '(M, b) := acc in
      let nj := tri_get n j in
      let M := fold_left (fun M k => if Nat.leb j k then msub A M (m3get A Me j k) nj (tri_get n k) else M) [0;1;2] M in
      (M, vset b nj (vget A b nj -. vget A be j))) [0;1;2] (M, b).

  Definition amelem_step (AP : aprob) (extRo extRi extZo : F) (res : list (nat * F * F))
    (s : list (list (nat * F)) * list F) (ela : melem (F:=F) * alogs) : list (list (nat * F)) * list F :=
    let '(Me, be, _) := amelem_matrices AP extRo extRi extZo res ela in
    ascatter (mp (fst ela)) Me be (fst s) (snd s).

  (* point currents:  L.b[i]+=(0.01*J.re*2.*r)  (lines 638-643) *)
  Definition apoint_currents (P : mprob (F:=F)) (b : list F) : list F :=
    fold_left (fun b in_ =>
      match mbm (snd in_) with
      | Some m => vset b (fst in_) (vget A b (fst in_) +. e2 A *. pJre (nth m (mpoints P) (dmpoint A)) *. #2 *. mx (snd in_))
      | None => b end) (combine (seq 0 (length (mnodes P))) (mnodes P)) b.

  (* fixed boundary conditions at points, nodes on the axis first (lines 646-653) *)
  Definition afixed_points (P : mprob (F:=F)) (L : lin (F:=F)) : lin :=
    fold_left (fun L in_ =>
      if altb A (aabs A (mx (snd in_))) (atol P) then setvalue A L (fst in_) zero
      else
        match mbm (snd in_) with
        | Some m =>
            let pp := nth m (mpoints P) (dmpoint A) in
            if aeqb A (pJre pp) zero && aeqb A (pJim pp) zero then setvalue A L (fst in_) (pAre pp /. c4pi A) else L
        | None => L end) (combine (seq 0 (length (mnodes P))) (mnodes P)) L.

  (* if(x!=0) L.SetValue(p,a/c)  with x the node's radius divided by units[LengthUnits] (lines 667-688) *)
  Definition aseg_set (P : mprob (F:=F)) (lp : mline (F:=F)) (L : lin (F:=F)) (p : nat) : lin :=
    let nd := nth p (mnodes P) (dmnode A) in
    if aneb A (mx nd /. aunit P) zero then setvalue A L p (seg_value A P lp nd /. c4pi A) else L.

  (* fixed boundary conditions along segments (lines 656-720, Coords == 0) *)
  Definition afixed_segments (P : mprob (F:=F)) (L : lin (F:=F)) : lin :=
    fold_left (fun L el =>
      fold_left (fun L j =>
        match tri_get (me el) j with
        | Some s =>
            let lp := nth s (mlines P) (dmline A) in
            if Nat.eqb (mlfmt lp) 0 then
              aseg_set P lp (aseg_set P lp L (tri_get (mp el) j)) (tri_get (mp el) (nxt j))
            else L
        | None => L end) [0;1;2] L) (melems P) L.

  (* the system after the element loop and the point currents, before any SetValue *)
  Definition asmMAxi_raw (AP : aprob) (bw : nat) (prec : F) (res : list (nat * F * F)) : lin (F:=F) :=
    let P := ap AP in
    let nn := length (mnodes P) in
    let u := aunit P in
    let extRo := aRo_raw AP *. u in
    let extRi := aRi_raw AP *. u in
    let extZo := aZo_raw AP *. u in
    let L0 := lcreate A nn bw prec (adec A 15 (-1)) in
    let '(M, b) := fold_left (amelem_step AP extRo extRi extZo res) (combine (melems P) (alg AP)) (lM L0, lb L0) in
    lwithMb L0 M (apoint_currents P b).

  (* the system handed to L.PCGSolve, and the circuit results *)
  Definition asmMAxi (AP : aprob) (bw : nat) (prec : F) : lin (F:=F) * list (nat * F * F) :=
    let P := ap AP in
    let res := acirc_results P in
    let L := asmMAxi_raw AP bw prec res in
    let L := afixed_points P L in
    let L := afixed_segments P L in
    let L := mapply_pbcs A P L in
    (L, res).

  (* L.b[i]=L.V[i]*c;  L.b[i]*=(meshnode[i].x*0.01*2*PI);  (lines 781-785): what WriteStatic2D prints *)
  Definition written_flux (P : mprob (F:=F)) (V : list F) : list F :=
    map (fun vn => fst vn *. c4pi A *. (mx (snd vn) *. e2 A *. #2 *. api A)) (combine V (mnodes P)).

  (* what the correspondence compares besides the system *)
  Definition aside_outputs (AP : aprob) (res : list (nat * F * F)) : list F :=
    let P := ap AP in
    let u := aunit P in
    concat (map (fun r => let '(case, J, dV) := r in [#(Z.of_nat case); J; dV]) res)
    ++ concat (map (fun l => let '(f, v) := written_label A res l in [#(Z.of_nat f); v]) (mlabels P))
    ++ map (fun l => if is_wound A P l then one else zero) (mlabels P)
    ++ concat (map (fun el => let '(m1, m2) := ael_mu AP (aRo_raw AP *. u) (aRi_raw AP *. u) (aZo_raw AP *. u) el
                                                       (gr (mel_geom A P el)) (el_zn P el) in [m1; m2]) (melems P)).
End AsmMAxi.
