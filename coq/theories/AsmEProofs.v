(* AsmEProofs.v — theorems about the model of ESolver::AnalyzeProblem (real reading). *)
From Coq Require Import ZArith List Bool Arith Lia Reals Lra.
From XF Require Import Arith Sparse SparseProofs AsmOps AsmOpsProofs AsmE.
Import ListNotations.
Local Open Scope R_scope.

Section Scatter.
  Local Notation vgetR := (vget RA).
  Local Notation mgetR := (mget RA).
  Implicit Type M : matrixT R.
  Implicit Type V b Me be : vecT R.

  Lemma msub_as_mop M v p q : msub RA M v p q = apply_mop RA M (p, q, - v).
  Proof. reflexivity. Qed.
  Lemma madd_as_mop M v p q : madd RA M v p q = apply_mop RA M (p, q, v).
  Proof. reflexivity. Qed.

  (* the row each local node is assembled into *)
  Definition ne_of (P : eprob (F:=R)) (nn : nat) (n : nat * nat * nat) (j : nat) : nat :=
    let nj := tri_get n j in
    match ncond (nth nj (nodes P) (dnode RA)) with
    | Some c => if Nat.eqb (ctype (nth c (circs P) (dcirc RA))) 0 then (c + nn)%nat else nj
    | None => nj end.

  Definition tie_ops (P : eprob (F:=R)) nn n Me (j : nat) : list (nat * nat * R) :=
    if Nat.eqb (ne_of P nn n j) (tri_get n j) then []
    else [(tri_get n j, tri_get n j, - m3get RA Me j j); (tri_get n j, ne_of P nn n j, m3get RA Me j j)].

  Definition scatter_mops (P : eprob (F:=R)) nn n Me : list (nat * nat * R) :=
    let ne := ne_of P nn n in
    [(ne 0%nat, ne 0%nat, - m3get RA Me 0 0); (ne 0%nat, ne 1%nat, - m3get RA Me 0 1); (ne 0%nat, ne 2%nat, - m3get RA Me 0 2)]
      ++ tie_ops P nn n Me 0 ++
    [(ne 1%nat, ne 1%nat, - m3get RA Me 1 1); (ne 1%nat, ne 2%nat, - m3get RA Me 1 2)]
      ++ tie_ops P nn n Me 1 ++
    [(ne 2%nat, ne 2%nat, - m3get RA Me 2 2)]
      ++ tie_ops P nn n Me 2.

  Definition scatter_bops (P : eprob (F:=R)) nn n be : list (nat * R) :=
    let ne := ne_of P nn n in
    [(ne 0%nat, - vgetR be 0); (ne 1%nat, - vgetR be 1); (ne 2%nat, - vgetR be 2)].

  Lemma apply_mops_app M o1 o2 : apply_mops RA M (o1 ++ o2) = apply_mops RA (apply_mops RA M o1) o2.
  Proof. unfold apply_mops. apply fold_left_app. Qed.
  Lemma apply_bops_app b o1 o2 : apply_bops RA b (o1 ++ o2) = apply_bops RA (apply_bops RA b o1) o2.
  Proof. unfold apply_bops. apply fold_left_app. Qed.

  Lemma scatter_as_ops P nn n Me be M b :
    scatter RA P nn n Me be M b =
    (apply_mops RA M (scatter_mops P nn n Me), apply_bops RA b (scatter_bops P nn n be)).
  Proof.
    unfold scatter. cbn [fold_left Nat.leb].
    fold (ne_of P nn n 0%nat) (ne_of P nn n 1%nat) (ne_of P nn n 2%nat).
    unfold scatter_mops, scatter_bops, tie_ops.
    rewrite !msub_as_mop.
    destruct (Nat.eqb (ne_of P nn n 0%nat) (tri_get n 0));
      destruct (Nat.eqb (ne_of P nn n 1%nat) (tri_get n 1));
      destruct (Nat.eqb (ne_of P nn n 2%nat) (tri_get n 2));
      cbn [app apply_mops apply_bops fold_left apply_bop]; ra_simpl;
      f_equal; repeat (f_equal; try lra).
  Qed.

  (* upper-triangle symmetrisation: what the loop "for k>=j: Put(..-Me[j][k], ne[j], ne[k])" uses *)
  Definition usym Me (a b : nat) : R := if Nat.leb a b then m3get RA Me a b else m3get RA Me b a.

  (* the local residual of row a of an element:  sum_b Me[a][b] V[n_b] - be[a] *)
  Definition local_resid Me be (n : nat * nat * nat) V (a : nat) : R :=
    usym Me a 0 * vgetR V (tri_get n 0) + usym Me a 1 * vgetR V (tri_get n 1)
    + usym Me a 2 * vgetR V (tri_get n 2) - vgetR be a.

  Definition no_floating (P : eprob (F:=R)) nn (n : nat * nat * nat) : Prop :=
    ne_of P nn n 0%nat = tri_get n 0 /\ ne_of P nn n 1%nat = tri_get n 1 /\ ne_of P nn n 2%nat = tri_get n 2.
  Definition distinct3 (n : nat * nat * nat) : Prop :=
    tri_get n 0 <> tri_get n 1 /\ tri_get n 1 <> tri_get n 2 /\ tri_get n 0 <> tri_get n 2.

  (* contribution of one element's scatter to row i of (M V - b): minus the local residuals of
     the local rows that are assembled into global row i *)
  Lemma elem_row_identity P nn n Me be V i :
    no_floating P nn n -> distinct3 n ->
    lsum (fun o => mop_row V o i) (scatter_mops P nn n Me) - lsum (fun o => bop_entry o i) (scatter_bops P nn n be)
    = - ((if Nat.eqb (tri_get n 0) i then local_resid Me be n V 0 else 0)
         + (if Nat.eqb (tri_get n 1) i then local_resid Me be n V 1 else 0)
         + (if Nat.eqb (tri_get n 2) i then local_resid Me be n V 2 else 0)).
  Proof.
    intros (E0 & E1 & E2) (D01 & D12 & D02).
    unfold scatter_mops, scatter_bops, tie_ops. rewrite E0, E1, E2, !Nat.eqb_refl.
    cbn [app lsum mop_row bop_entry]. unfold local_resid, usym. cbn [Nat.leb].
    destruct n as [[n0 n1] n2]. cbn [tri_get] in *.
    destruct (Nat.eqb_spec n0 i); destruct (Nat.eqb_spec n1 i); destruct (Nat.eqb_spec n2 i);
      destruct (Nat.eqb_spec n0 n1); destruct (Nat.eqb_spec n1 n2); destruct (Nat.eqb_spec n0 n2);
      destruct (Nat.eqb_spec n0 n0); destruct (Nat.eqb_spec n1 n1); destruct (Nat.eqb_spec n2 n2);
      cbn [andb negb]; subst; try congruence; try lra.
  Qed.
End Scatter.

Section Presc.
  Local Notation vgetR := (vget RA).
  Implicit Type V U Me be : vecT R.

  Lemma fold_pair_fst {S1 S2 X} (f : S1 -> X -> S1) (g : S1 -> S2 -> X -> S2) (l : list X) : forall a c,
    fst (fold_left (fun acc x => (f (fst acc) x, g (fst acc) (snd acc) x)) l (a, c)) = fold_left f l a.
  Proof. induction l as [|x l IH]; intros a c; simpl; [reflexivity|]. apply IH. Qed.

  Definition presc_mb V (Q : list Z) (n : nat * nat * nat) Me be : vecT R * vecT R :=
    fold_left (presc_outer_mb RA V Q n) [0%nat; 1%nat; 2%nat] (Me, be).

  Lemma presc_terms_mb P V Q n Me be cK cB :
    let r := presc_terms RA P V Q n Me be cK cB in
    (fst (fst (fst r)), snd (fst (fst r))) = presc_mb V Q n Me be.
  Proof.
    unfold presc_terms, presc_mb. cbv zeta. cbn [fst snd].
    rewrite <- (fold_pair_fst (presc_outer_mb RA V Q n) (presc_outer_c RA P V Q n) [0%nat; 1%nat; 2%nat] (Me, be) (cK, cB)).
    destruct (fold_left _ _ _) as [[a b] c]. reflexivity.
  Qed.

  Definition flagged (Q : list Z) (i : nat) : bool := negb (Z.eqb (nth i Q (-2)%Z) (-2)%Z).

  (* Element-level elimination of prescribed values: for every vector U that takes the
     prescribed values at the flagged local nodes, the rows of free local nodes keep their
     residual and the rows of flagged nodes become  Me[a][a] * (U_a - prescribed_a). *)
  Lemma presc_resid V Q n0 n1 n2 m00 m01 m02 m11 m12 m22 b0 b1 b2 U :
    let n := (n0, n1, n2) in
    let Me := [m00; m01; m02; m01; m11; m12; m02; m12; m22] in
    let be := [b0; b1; b2] in
    (flagged Q n0 = true -> vgetR U n0 = vgetR V n0) ->
    (flagged Q n1 = true -> vgetR U n1 = vgetR V n1) ->
    (flagged Q n2 = true -> vgetR U n2 = vgetR V n2) ->
    let r := presc_mb V Q n Me be in
    local_resid (fst r) (snd r) n U 0 =
      (if flagged Q n0 then m00 * (vgetR U n0 - vgetR V n0) else local_resid Me be n U 0) /\
    local_resid (fst r) (snd r) n U 1 =
      (if flagged Q n1 then m11 * (vgetR U n1 - vgetR V n1) else local_resid Me be n U 1) /\
    local_resid (fst r) (snd r) n U 2 =
      (if flagged Q n2 then m22 * (vgetR U n2 - vgetR V n2) else local_resid Me be n U 2).
  Proof.
    intros n Me be H0 H1 H2 r. unfold r, presc_mb, n, Me, be, flagged in *.
    cbn [fold_left]. unfold presc_outer_mb. cbn [tri_get].
    destruct (Z.eqb (nth n0 Q (-2)%Z) (-2)%Z); destruct (Z.eqb (nth n1 Q (-2)%Z) (-2)%Z);
      destruct (Z.eqb (nth n2 Q (-2)%Z) (-2)%Z); cbn [negb] in *;
      try (specialize (H0 eq_refl)); try (specialize (H1 eq_refl)); try (specialize (H2 eq_refl));
      repeat match goal with H : false = true -> _ |- _ => clear H end;
      cbn; unfold local_resid, usym; cbn; ra_simpl; cbn;
      repeat split; try rewrite H0; try rewrite H1; try rewrite H2; lra.
  Qed.

  (* rows of flagged local nodes, for ANY vector U: only the diagonal survives *)
  Lemma presc_resid_flagged V Q n0 n1 n2 m00 m01 m02 m11 m12 m22 b0 b1 b2 U :
    let n := (n0, n1, n2) in
    let Me := [m00; m01; m02; m01; m11; m12; m02; m12; m22] in
    let be := [b0; b1; b2] in
    let r := presc_mb V Q n Me be in
    (flagged Q n0 = true -> local_resid (fst r) (snd r) n U 0 = m00 * (vgetR U n0 - vgetR V n0)) /\
    (flagged Q n1 = true -> local_resid (fst r) (snd r) n U 1 = m11 * (vgetR U n1 - vgetR V n1)) /\
    (flagged Q n2 = true -> local_resid (fst r) (snd r) n U 2 = m22 * (vgetR U n2 - vgetR V n2)).
  Proof.
    intros n Me be r. unfold r, presc_mb, n, Me, be, flagged in *.
    cbn [fold_left]. unfold presc_outer_mb. cbn [tri_get].
    destruct (Z.eqb (nth n0 Q (-2)%Z) (-2)%Z); destruct (Z.eqb (nth n1 Q (-2)%Z) (-2)%Z);
      destruct (Z.eqb (nth n2 Q (-2)%Z) (-2)%Z); cbn [negb] in *;
      cbn; unfold local_resid, usym; cbn; ra_simpl; cbn;
      repeat split; intros; try discriminate; lra.
  Qed.

  (* shape of the result: still a symmetric 3x3 list and a 3-vector *)
  Definition sym9 (Me : vecT R) : Prop :=
    exists m00 m01 m02 m11 m12 m22, Me = [m00; m01; m02; m01; m11; m12; m02; m12; m22].
  Definition len3 (be : vecT R) : Prop := exists b0 b1 b2, be = [b0; b1; b2].
End Presc.

Section Shapes.
  Implicit Type Me be : vecT R.

  Lemma stiff_add_sym9 Me K s0 s1 s2 : sym9 Me -> sym9 (stiff_add RA Me K [s0; s1; s2]).
  Proof.
    intros (m00 & m01 & m02 & m11 & m12 & m22 & ->). unfold stiff_add. cbn.
    do 6 eexists. reflexivity.
  Qed.

  Lemma edge_step_shape P xs g el Depth Me be j : (j < 3)%nat -> sym9 Me -> len3 be ->
    let r := edge_step RA P xs g el (Depth, Me, be) j in sym9 (snd (fst r)) /\ len3 (snd r).
  Proof.
    intros Hj (m00 & m01 & m02 & m11 & m12 & m22 & ->) (b0 & b1 & b2 & ->).
    unfold edge_step. destruct (tri_get (ee el) j) as [e|]; [|cbn; split; [do 6 eexists|do 3 eexists]; reflexivity].
    destruct j as [|[|[|j]]]; [| | |lia];
      destruct (Nat.eqb (lfmt (nth e (lines P) (dline RA))) 1);
      destruct (Nat.eqb (lfmt (nth e (lines P) (dline RA))) 2);
      cbn; (split; [do 6 eexists|do 3 eexists]; reflexivity).
  Qed.

  Lemma edge_terms_shape P xs g el D Me be : sym9 Me -> len3 be ->
    let r := edge_terms RA P xs g el D Me be in sym9 (snd (fst r)) /\ len3 (snd r).
  Proof.
    intros S0 B0. unfold edge_terms. cbn [fold_left].
    destruct (edge_step_shape P xs g el D Me be 0%nat ltac:(lia) S0 B0) as [S1 B1].
    destruct (edge_step RA P xs g el (D, Me, be) 0%nat) as [[D1 Me1] be1]. cbn [fst snd] in S1, B1.
    destruct (edge_step_shape P xs g el D1 Me1 be1 1%nat ltac:(lia) S1 B1) as [S2 B2].
    destruct (edge_step RA P xs g el (D1, Me1, be1) 1%nat) as [[D2 Me2] be2]. cbn [fst snd] in S2, B2.
    destruct (edge_step_shape P xs g el D2 Me2 be2 2%nat ltac:(lia) S2 B2) as [S3 B3].
    destruct (edge_step RA P xs g el (D2, Me2, be2) 2%nat) as [[D3 Me3] be3]. cbn [fst snd] in S3, B3.
    split; assumption.
  Qed.

  Lemma elem_matrices_shape P extRo extRi extZo D0 k0 el :
    let r := elem_matrices RA P extRo extRi extZo D0 k0 el in
    sym9 (snd (fst r)) /\ len3 (snd r).
  Proof.
    unfold elem_matrices. cbv zeta.
    match goal with |- context [let '(a, b) := ?X in _] => destruct X as [Dp kl] end.
    match goal with |- context [edge_terms RA P ?xs ?g el ?D ?Me ?be] =>
      assert (S0 : sym9 Me) by (unfold geom; cbn [gp gq]; apply stiff_add_sym9, stiff_add_sym9; cbn; do 6 eexists; reflexivity);
      assert (B0 : len3 be) by (cbn; do 3 eexists; reflexivity);
      destruct (edge_terms_shape P xs g el D Me be S0 B0) as [S1 B1];
      destruct (edge_terms RA P xs g el D Me be) as [[D1 Me1] be1]
    end.
    cbn [fst snd] in *. split; assumption.
  Qed.
End Shapes.

Section Loop.
  Local Notation vgetR := (vget RA).
  Variables (P : eprob (F:=R)) (nn : nat) (extRo extRi extZo : R) (V : vecT R) (Q : list Z).

  Definition elem_ok (len : nat) (el : eelem) : Prop :=
    no_floating P nn (ep el) /\ distinct3 (ep el) /\
    (tri_get (ep el) 0 < len)%nat /\ (tri_get (ep el) 1 < len)%nat /\ (tri_get (ep el) 2 < len)%nat.

  (* sum over the element list of the local residuals (after the prescribed-value processing)
     of the local rows assembled into global row i; (D,k) is the running Depth/kludge state *)
  Fixpoint loop_resid (els : list eelem) (D k : R) (U : vecT R) (i : nat) : R :=
    match els with
    | [] => 0
    | el :: t =>
        let r := elem_matrices RA P extRo extRi extZo D k el in
        let mb := presc_mb V Q (ep el) (snd (fst r)) (snd r) in
        ((if Nat.eqb (tri_get (ep el) 0) i then local_resid (fst mb) (snd mb) (ep el) U 0 else 0)
         + (if Nat.eqb (tri_get (ep el) 1) i then local_resid (fst mb) (snd mb) (ep el) U 1 else 0)
         + (if Nat.eqb (tri_get (ep el) 2) i then local_resid (fst mb) (snd mb) (ep el) U 2 else 0))
        + loop_resid t (fst (fst (fst r))) (snd (fst (fst r))) U i
    end.

  Lemma elem_step_rows s el U :
    mat_wf (sM s) -> length (sb s) = length (sM s) -> elem_ok (length (sM s)) el ->
    let s' := elem_step RA P nn extRo extRi extZo V Q s el in
    let r := elem_matrices RA P extRo extRi extZo (sDepth s) (sKludge s) el in
    let mb := presc_mb V Q (ep el) (snd (fst r)) (snd r) in
    mat_wf (sM s') /\ length (sM s') = length (sM s) /\ length (sb s') = length (sb s) /\
    sDepth s' = fst (fst (fst r)) /\ sKludge s' = snd (fst (fst r)) /\
    forall i, (i < length (sM s))%nat ->
      Ax (sM s') U i - vgetR (sb s') i =
      (Ax (sM s) U i - vgetR (sb s) i)
      - ((if Nat.eqb (tri_get (ep el) 0) i then local_resid (fst mb) (snd mb) (ep el) U 0 else 0)
         + (if Nat.eqb (tri_get (ep el) 1) i then local_resid (fst mb) (snd mb) (ep el) U 1 else 0)
         + (if Nat.eqb (tri_get (ep el) 2) i then local_resid (fst mb) (snd mb) (ep el) U 2 else 0)).
  Proof.
    intros Hwf Hb (Hnf & Hd & H0 & H1 & H2) s' r mb.
    unfold s', elem_step. fold r.
    destruct r as [[[D' k'] Me] be] eqn:Er. cbn [fst snd] in mb.
    pose proof (presc_terms_mb P V Q (ep el) Me be (sCondK s) (sCondB s)) as Hmb. cbv zeta in Hmb.
    destruct (presc_terms RA P V Q (ep el) Me be (sCondK s) (sCondB s)) as [[[Me' be'] cK] cB].
    cbn [fst snd] in Hmb. fold mb in Hmb.
    rewrite scatter_as_ops. cbn [sM sb sDepth sKludge fst snd].
    assert (Hm : mops_in_range (length (sM s)) (scatter_mops P nn (ep el) Me')).
    { destruct Hnf as (E0 & E1 & E2). unfold scatter_mops, tie_ops. rewrite E0, E1, E2, !Nat.eqb_refl.
      cbn [app]. repeat constructor; cbn [fst snd]; auto. }
    assert (Hbo : bops_in_range (length (sb s)) (scatter_bops P nn (ep el) be')).
    { destruct Hnf as (E0 & E1 & E2). unfold scatter_bops. rewrite E0, E1, E2, Hb.
      repeat constructor; cbn [fst snd]; auto. }
    destruct (assembled_rows (sM s) (sb s) _ _ U Hwf Hm Hbo) as (W & L1 & L2 & HR).
    split; [exact W|]. split; [exact L1|]. split; [exact L2|]. split; [reflexivity|]. split; [reflexivity|].
    intros i Hi. rewrite (HR i Hi).
    pose proof (elem_row_identity P nn (ep el) Me' be' U i Hnf Hd) as G.
    assert (EM : Me' = fst mb) by (rewrite <- Hmb; reflexivity).
    assert (EB : be' = snd mb) by (rewrite <- Hmb; reflexivity).
    rewrite <- EM, <- EB. lra.
  Qed.

  Theorem loop_rows U : forall els s,
    mat_wf (sM s) -> length (sb s) = length (sM s) -> Forall (elem_ok (length (sM s))) els ->
    let s' := fold_left (elem_step RA P nn extRo extRi extZo V Q) els s in
    mat_wf (sM s') /\ length (sM s') = length (sM s) /\ length (sb s') = length (sb s) /\
    forall i, (i < length (sM s))%nat ->
      Ax (sM s') U i - vgetR (sb s') i =
      (Ax (sM s) U i - vgetR (sb s) i) - loop_resid els (sDepth s) (sKludge s) U i.
  Proof.
    induction els as [|el els IH]; intros s Hwf Hb Hok.
    - simpl. split; [auto|]. split; [auto|]. split; [auto|]. intros; lra.
    - apply Forall_cons_iff in Hok. destruct Hok as [Hel Hok].
      destruct (elem_step_rows s el U Hwf Hb Hel) as (W1 & L1 & L2 & ED & EK & HR).
      cbn [fold_left].
      set (s1 := elem_step RA P nn extRo extRi extZo V Q s el) in *.
      destruct (IH s1 W1) as (W & L & Lb & HR2); [lia|rewrite L1; exact Hok|].
      split; [exact W|]. split; [lia|]. split; [lia|].
      intros i Hi. rewrite HR2 by lia. rewrite HR by auto. cbn [loop_resid].
      rewrite ED, EK. lra.
  Qed.
End Loop.

Section Galerkin.
  Local Notation vgetR := (vget RA).
  Variables (P : eprob (F:=R)) (extRo extRi extZo : R).

  (* the Depth / kludge an element is assembled with (copied from elem_matrices) *)
  Definition elem_dk (D0 k0 : R) (el : eelem) : R * R :=
    let n := ep el in
    let nd := fun j => nth (tri_get n j) (nodes P) (dnode RA) in
    let g := geom RA (nx (nd 0%nat)) (ny (nd 0%nat)) (nx (nd 1%nat)) (ny (nd 1%nat)) (nx (nd 2%nat)) (ny (nd 2%nat)) in
    if axi P then
      (2 * PI * gr g,
       if nth (elbl el) (label_ext P) false then
         let z := (ny (nd 0%nat) + ny (nd 1%nat) + ny (nd 2%nat)) / 3 - extZo in
         (gr g * gr g + z * z) / (extRi * extRo)
       else 1)
    else (D0, k0).

  Definition el_geom (el : eelem) : egeom :=
    let n := ep el in
    let nd := fun j => nth (tri_get n j) (nodes P) (dnode RA) in
    geom RA (nx (nd 0%nat)) (ny (nd 0%nat)) (nx (nd 1%nat)) (ny (nd 1%nat)) (nx (nd 2%nat)) (ny (nd 2%nat)).

  (* P1 Galerkin stiffness entry of div(eps grad V) on one element:
     depth * area * (ex dphi_j/dx dphi_k/dx + ey dphi_j/dy dphi_k/dy), dphi_j = (p_j, q_j)/(2a) *)
  Definition galerkin_K (depth ex ey : R) (g : egeom) (j k : nat) : R :=
    depth * ga g * (ex * (vgetR (gp g) j / (2 * ga g)) * (vgetR (gp g) k / (2 * ga g))
                    + ey * (vgetR (gq g) j / (2 * ga g)) * (vgetR (gq g) k / (2 * ga g))).

  Lemma len9_explicit (Me : vecT R) : length Me = 9%nat ->
    exists m0 m1 m2 m3 m4 m5 m6 m7 m8, Me = [m0; m1; m2; m3; m4; m5; m6; m7; m8].
  Proof.
    intros H. repeat (destruct Me as [|? Me]; try discriminate H). do 9 eexists. reflexivity.
  Qed.

  Lemma stiff_add_get (Me : vecT R) K s0 s1 s2 j k : length Me = 9%nat -> (j < 3)%nat -> (k < 3)%nat ->
    length (stiff_add RA Me K [s0; s1; s2]) = 9%nat /\
    m3get RA (stiff_add RA Me K [s0; s1; s2]) j k
      = m3get RA Me j k + K * vgetR [s0; s1; s2] j * vgetR [s0; s1; s2] k.
  Proof.
    intros HL Hj Hk. destruct (len9_explicit Me HL) as (m0 & m1 & m2 & m3 & m4 & m5 & m6 & m7 & m8 & ->).
    split; [reflexivity|].
    destruct j as [|[|[|j]]]; try lia; destruct k as [|[|[|k]]]; try lia; cbn; ra_simpl; lra.
  Qed.

  Lemma edge_terms_none xs g el D Me be :
    ee el = (None, None, None) -> edge_terms RA P xs g el D Me be = (D, Me, be).
  Proof. intros He. unfold edge_terms, edge_step. rewrite He. reflexivity. Qed.

  Lemma elem_matrices_noedge D0 k0 el :
    ee el = (None, None, None) ->
    let r := elem_matrices RA P extRo extRi extZo D0 k0 el in
    let dk := elem_dk D0 k0 el in
    let blk := nth (eblk el) (blocks P) (dblock RA) in
    let g := el_geom el in
    fst (fst (fst r)) = fst dk /\ snd (fst (fst r)) = snd dk /\
    (forall j k, (j < 3)%nat -> (k < 3)%nat ->
       m3get RA (snd (fst r)) j k =
         - fst dk * bex blk / (4 * ga g) / snd dk * vgetR (gp g) j * vgetR (gp g) k
         + - fst dk * bey blk / (4 * ga g) / snd dk * vgetR (gq g) j * vgetR (gq g) k) /\
    (forall j, (j < 3)%nat -> vgetR (snd r) j = - fst dk * cconst RA P * bqv blk * ga g / 3).
  Proof.
    intros He r dk blk g. unfold r, elem_matrices. cbv zeta.
    fold (el_geom el). fold g. fold blk.
    match goal with |- context [let '(a, b) := ?X in _] => change X with dk end.
    destruct dk as [Dp kl]. cbn [fst snd].
    rewrite edge_terms_none by exact He. cbn [fst snd].
    assert (Hgp : gp g = [vgetR (gp g) 0; vgetR (gp g) 1; vgetR (gp g) 2]) by reflexivity.
    assert (Hgq : gq g = [vgetR (gq g) 0; vgetR (gq g) 1; vgetR (gq g) 2]) by reflexivity.
    split; [reflexivity|]. split; [reflexivity|]. split.
    - intros j k Hj Hk. rewrite Hgp, Hgq.
      match goal with |- context [stiff_add RA (stiff_add RA ?Z ?K1 ?s1) ?K2 [?a; ?b; ?c]] =>
        destruct (stiff_add_get Z K1 (vgetR (gp g) 0) (vgetR (gp g) 1) (vgetR (gp g) 2) j k eq_refl Hj Hk) as [L1 G1];
        destruct (stiff_add_get (stiff_add RA Z K1 s1) K2 a b c j k L1 Hj Hk) as [_ G2]
      end.
      rewrite G2, G1. rewrite <- Hgp, <- Hgq.
      replace (m3get RA (repeat (azero RA) 9) j k) with 0
        by (destruct j as [|[|[|j]]]; try lia; destruct k as [|[|[|k]]]; try lia; reflexivity).
      ra_simpl. lra.
    - intros j Hj. destruct j as [|[|[|j]]]; try lia; cbn; ra_simpl; lra.
  Qed.

  (* the element matrix is minus the Galerkin stiffness (divided by the external-region kludge) *)
  Theorem stiffness_is_galerkin D0 k0 el j k :
    ee el = (None, None, None) -> (j < 3)%nat -> (k < 3)%nat ->
    ga (el_geom el) <> 0 -> snd (elem_dk D0 k0 el) <> 0 ->
    let r := elem_matrices RA P extRo extRi extZo D0 k0 el in
    let blk := nth (eblk el) (blocks P) (dblock RA) in
    m3get RA (snd (fst r)) j k =
      - galerkin_K (fst (elem_dk D0 k0 el)) (bex blk) (bey blk) (el_geom el) j k / snd (elem_dk D0 k0 el).
  Proof.
    intros He Hj Hk Ha Hkl r blk.
    destruct (elem_matrices_noedge D0 k0 el He) as (_ & _ & HM & _). unfold r. rewrite (HM j k Hj Hk).
    unfold galerkin_K. subst blk. field. split; assumption.
  Qed.

  (* shape functions: phi_j(x,y) = (alpha_j + p_j x + q_j y)/(2a) are 1 at node j, 0 at the others,
     so (p_j, q_j)/(2a) above is indeed grad phi_j *)
  Definition shape (x0 y0 x1 y1 x2 y2 : R) (j : nat) (x y : R) : R :=
    let g := geom RA x0 y0 x1 y1 x2 y2 in
    let alpha := match j with
                 | 0%nat => x1 * y2 - x2 * y1 | 1%nat => x2 * y0 - x0 * y2 | _ => x0 * y1 - x1 * y0 end in
    (alpha + vgetR (gp g) j * x + vgetR (gq g) j * y) / (2 * ga g).

  Theorem shape_kronecker x0 y0 x1 y1 x2 y2 :
    ga (geom RA x0 y0 x1 y1 x2 y2) <> 0 ->
    shape x0 y0 x1 y1 x2 y2 0 x0 y0 = 1 /\ shape x0 y0 x1 y1 x2 y2 0 x1 y1 = 0 /\ shape x0 y0 x1 y1 x2 y2 0 x2 y2 = 0 /\
    shape x0 y0 x1 y1 x2 y2 1 x0 y0 = 0 /\ shape x0 y0 x1 y1 x2 y2 1 x1 y1 = 1 /\ shape x0 y0 x1 y1 x2 y2 1 x2 y2 = 0 /\
    shape x0 y0 x1 y1 x2 y2 2 x0 y0 = 0 /\ shape x0 y0 x1 y1 x2 y2 2 x1 y1 = 0 /\ shape x0 y0 x1 y1 x2 y2 2 x2 y2 = 1.
  Proof.
    unfold shape, geom. cbn. ra_simpl. intros Ha.
    repeat split; field; lra.
  Qed.

  (* Gauss / charge balance at element level: every column of the stiffness part sums to 0 *)
  Theorem stiffness_column_sums_vanish D0 k0 el k :
    ee el = (None, None, None) -> (k < 3)%nat ->
    let r := elem_matrices RA P extRo extRi extZo D0 k0 el in
    m3get RA (snd (fst r)) 0 k + m3get RA (snd (fst r)) 1 k + m3get RA (snd (fst r)) 2 k = 0.
  Proof.
    intros He Hk r. destruct (elem_matrices_noedge D0 k0 el He) as (_ & _ & HM & _). unfold r.
    rewrite !HM by lia. unfold el_geom, geom. cbn. ra_simpl.
    destruct k as [|[|[|k]]]; try lia; cbn; ring.
  Qed.

  (* C06: an affine potential V = c0 + alpha x + beta y gives the closed-form element row *)
  Theorem stiffness_row_on_affine D0 k0 el c0 alpha beta j :
    ee el = (None, None, None) -> (j < 3)%nat ->
    ga (el_geom el) <> 0 -> snd (elem_dk D0 k0 el) <> 0 ->
    let r := elem_matrices RA P extRo extRi extZo D0 k0 el in
    let blk := nth (eblk el) (blocks P) (dblock RA) in
    let nd := fun t => nth (tri_get (ep el) t) (nodes P) (dnode RA) in
    let Vn := fun t => c0 + alpha * nx (nd t) + beta * ny (nd t) in
    let g := el_geom el in
    m3get RA (snd (fst r)) j 0 * Vn 0%nat + m3get RA (snd (fst r)) j 1 * Vn 1%nat + m3get RA (snd (fst r)) j 2 * Vn 2%nat
    = - fst (elem_dk D0 k0 el) / snd (elem_dk D0 k0 el) / 2
        * (bex blk * alpha * vgetR (gp g) j + bey blk * beta * vgetR (gq g) j).
  Proof.
    intros He Hj Ha Hkl r blk nd Vn g.
    destruct (elem_matrices_noedge D0 k0 el He) as (_ & _ & HM & _). unfold r.
    rewrite !HM by lia. subst blk Vn nd g. unfold el_geom, geom in *.
    set (x0 := nx (nth (tri_get (ep el) 0) (nodes P) (dnode RA))) in *.
    set (y0 := ny (nth (tri_get (ep el) 0) (nodes P) (dnode RA))) in *.
    set (x1 := nx (nth (tri_get (ep el) 1) (nodes P) (dnode RA))) in *.
    set (y1 := ny (nth (tri_get (ep el) 1) (nodes P) (dnode RA))) in *.
    set (x2 := nx (nth (tri_get (ep el) 2) (nodes P) (dnode RA))) in *.
    set (y2 := ny (nth (tri_get (ep el) 2) (nodes P) (dnode RA))) in *.
    set (Dp := fst (elem_dk D0 k0 el)). set (kl := snd (elem_dk D0 k0 el)).
    set (ex := bex (nth (eblk el) (blocks P) (dblock RA))). set (ey := bey (nth (eblk el) (blocks P) (dblock RA))).
    cbn [gp gq ga] in *. unfold vget in *. ra_simpl.
    cbn [nth] in Ha.
    destruct j as [|[|[|j]]]; try lia; cbn [nth]; field; try (intro Hz; apply Ha; lra); repeat split; try exact Hkl; try (intro Hz; apply Ha; lra).
  Qed.
End Galerkin.
