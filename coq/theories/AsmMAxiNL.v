(* AsmMAxiNL.v — executable model of the NONLINEAR (B-H curve) branch of FSolver::StaticAxisymmetric
   (cfemm/fsolver/staticaxi.cpp:146-778): the loop  do { assemble; solve; exit test / relaxation }
   while(LinearFlag==false),  statement by statement and in the same floating-point operation order.
   Built on AsmMAxi.v (everything of the element loop that does not depend on the iterate: shape data,
   a_hat, R_hat, Mx/My/Mxy with the on-axis diagonal entries, mixed boundaries, current density,
   magnets, the scatter L.Put(L.Get-..), point currents, SetValue on the axis, prescribed points /
   segments, periodic ties), AsmMNL.v, Sparse.v (CBigLinProb incl. Wipe) and BH.v (GetBHProps).
   SHARED with the planar loop because the C++ text is literally the same (whitespace aside):
     AsmMNL.nl_combine     staticaxi.cpp:622-627 = static2d.cpp:800-805 (v12 = 0 without previous solution)
     AsmMNL.nl_mu_of       GetBHProps(B,mu,dv); mu=1./(muo*mu);
     AsmMNL.nl_control     staticaxi.cpp:733-775 = static2d.cpp:953-1013 (exit test, relaxation, Iter++)
     AsmMNL.nl_any, nl_ctl0, nlctl, nlstate, lwithV, nl_after_solve, ctl_out
   DIFFERENT from Static2D and written out here (anl_update, staticaxi.cpp:505-609):
     * the flux density is "derived directly from energy":  v = (Mx+My) V,  dv = V.v * (10000 c^2/vol),
       B = sqrt(fabs(dv))  with vol = 2 R a_hat  (planar: B = c sqrt(B1^2+B2^2)/(0.02 a) from p, q);
       for laminations on edge  v = (Mx + My/t^2) V  (LamType 1),  v = (Mx/t^2 + My) V  (LamType 2);
     * the tangent factor is  K = -200 c^3 dv/vol  (resp. -100 c^3 dv/vol), vol instead of the area;
     * the conformally mapped exterior region divides mu1, mu2 by "kludge" ONLY in the pass Iter == 0
       (line 613): an element of a block with a table in the exterior region loses the factor in pass 1.
   The permeabilities stored by the later passes for laminations on edge are  mu1 = mu*t  (LamType 1) /
   mu2 = mu*t  (LamType 2)  as in Static2D (findings/XNL-1.md).
   NOT modelled: previous-solution runs (bIncremental <> 0, lines 463-502; hence v12 = 0 and LinearFlag
   = false as soon as one element's block has a table; El->Jprev), polar boundary coordinates.
   libm values are inputs as in AsmMAxi.v.  No proofs in this file. *)
From Coq Require Import ZArith List Bool Arith.
From XF Require Import Arith Sparse AsmE AsmM BH AsmMNL AsmMAxi.
Import ListNotations.

Section AsmMAxiNL.
  Context {F : Type} (A : Arith F).
  Local Notation "x +. y" := (aadd A x y) (at level 50, left associativity).
  Local Notation "x -. y" := (asub A x y) (at level 50, left associativity).
  Local Notation "x *. y" := (amul A x y) (at level 40, left associativity).
  Local Notation "x /. y" := (adiv A x y) (at level 40, left associativity).
  Local Notation zero := (azero A).
  Local Notation one := (aone A).
  Local Notation "'#' z" := (aofZ A z) (at level 9).
  Local Notation linF := (lin (F:=F)).
  Local Notation matF := (mat (F:=F)).
  Local Notation aprobF := (aprob (F:=F)).
  Local Notation elemF := (melem (F:=F)).
  Local Notation alogsF := (alogs (F:=F)).

  (* vol=2.*R*a_hat;  (staticaxi.cpp:215-216) *)
  Definition ael_vol (AP : aprobF) (el : elemF) : F :=
    let P := ap AP in
    let g := mel_geom A P el in
    #2 *. gr g *. a_hat_of A (el_rn A P el) (gp g) (gr g).

  (* ---- the part of the element loop body that does not depend on the iterate nor on the
          permeabilities (staticaxi.cpp:169-427): (Mx, My, Mxy, Me, be); the statements are those of
          AsmMAxi.amelem_matrices up to (not including) the permeability and the combine ---- *)
  Definition ael_parts (AP : aprobF) (res : list (nat * F * F)) (ela : elemF * alogsF)
    : list F * list F * list F * list F * list F :=
    let P := ap AP in
    let '(el, lg) := ela in
    let g := mel_geom A P el in
    let rn := el_rn A P el in
    let zn := el_zn A P el in
    let R := gr g in
    let blk := nth (mblk el) (mblocks P) (dmblock A) in
    let '(Mx, My, Mxy) := ael_shape A P el lg in
    let '(Me, be) := fold_left (amixed_step A P g rn el) [0;1;2] (repeat zero 9, repeat zero 3) in
    let t := acirc_t A P res el R in
    let Kj := aneg A #2 *. R *. (bJre blk +. t) *. ga g /. #3 in
    let be := v3add A (v3add A (v3add A be 0 Kj) 1 Kj) 2 Kj in
    let be := fold_left (amagnet_step A P rn zn el) [0;1;2] be in
    (Mx, My, Mxy, Me, be).

  (* v[j] = sum_w f(j,w)*L.V[n[w]]  (v[j]=0 first) *)
  Definition mv3 (f : nat -> nat -> F) (V3 : list F) : list F :=
    map (fun j => sum3 A (fun w => f j w *. vget A V3 w)) [0;1;2].

  (* for(j=0,dv=0;j<3;j++) dv+=L.V[n[j]]*v[j];  dv*=(10000.*c*c/vol);  B=sqrt(fabs(dv)); *)
  Definition anl_Bmag (vol : F) (V3 v : list F) : F :=
    let c := c4pi A in
    let dv := sum3 A (fun j => vget A V3 j *. vget A v j) in
    asqrt A (aabs A (dv *. (#10000 *. c *. c /. vol))).

  (* Iter > 0 (staticaxi.cpp:505-609): new (mu1, mu2) and the 3x3 matrix Mn of one element;
     V3 = L.V at the element's nodes, mu = the element's current (mu1, mu2), vol = 2 R a_hat *)
  Definition anl_update (m : matF) (blk : mblock (F:=F)) (vol : F) (Mx My : list F) (V3 : list F) (mu : F * F)
    : (F * F) * list F :=
    let c := c4pi A in
    let nl := Nat.ltb 0 (bhpoints m) in
    let t := bLamFill blk in
    let r := (mu, repeat zero 9) in
    (* if ((LamType==0) && (mu1==mu2) && (BHpoints>0)) *)
    let r :=
      if Nat.eqb (bLamType blk) 0 && aeqb A (fst (fst r)) (snd (fst r)) && nl then
        let v := mv3 (fun j w => m3get A Mx j w +. m3get A My j w) V3 in
        let '(mu', dv) := nl_mu_of A m (anl_Bmag vol V3 v) in
        let K := aneg A #200 *. c *. c *. c *. dv /. vol in
        ((mu', mu'), map (fun jw => K *. vget A v (fst jw) *. vget A v (snd jw)) idx9)
      else r in
    (* if ((LamType==1) && (BHpoints>0)) *)
    let r :=
      if Nat.eqb (bLamType blk) 1 && nl then
        let v0 := mv3 (fun j w => m3get A Mx j w +. m3get A My j w /. (t *. t)) V3 in
        let '(mu', dv) := nl_mu_of A m (anl_Bmag vol V3 v0) in
        let v := mv3 (fun j w => m3get A My j w /. t +. m3get A Mx j w) V3 in
        let u := mv3 (fun j w => m3get A My j w /. t +. t *. m3get A Mx j w) V3 in
        let K := aneg A #100 *. c *. c *. c *. dv /. vol in
        ((mu' *. t, mu' /. (t +. mu' *. (one -. t))),
         map (fun jw => K *. (vget A v (fst jw) *. vget A u (snd jw) +. vget A v (snd jw) *. vget A u (fst jw))) idx9)
      else r in
    (* if ((LamType==2) && (BHpoints>0)) *)
    let r :=
      if Nat.eqb (bLamType blk) 2 && nl then
        let v0 := mv3 (fun j w => m3get A Mx j w /. (t *. t) +. m3get A My j w) V3 in
        let '(mu', dv) := nl_mu_of A m (anl_Bmag vol V3 v0) in
        let v := mv3 (fun j w => m3get A Mx j w /. t +. m3get A My j w) V3 in
        let u := mv3 (fun j w => m3get A Mx j w /. t +. t *. m3get A My j w) V3 in
        let K := aneg A #100 *. c *. c *. c *. dv /. vol in
        ((mu' /. (t +. mu' *. (one -. t)), mu' *. t),
         map (fun jw => K *. (vget A v (fst jw) *. vget A u (snd jw) +. vget A v (snd jw) *. vget A u (fst jw))) idx9)
      else r in
    r.

  (* (mu1, mu2) and Mn of one element in pass [iter]: Iter==0 -> the block's (laminated) linear
     permeability — for a block with a table from the initial slope mu_x = mu_y GetSlopes stored —
     divided by kludge in the exterior region (staticaxi.cpp:430-454, 613-619), Mn = 0;
     Iter>0 -> the update, WITHOUT the exterior-region factor *)
  Definition ael_mu_Mn (AP : aprobF) (extRo extRi extZo : F) (mats : list matF) (iter : nat) (V : list F)
             (ela : elemF * alogsF) (parts : list F * list F * list F * list F * list F) (mu_old : F * F)
    : (F * F) * list F :=
    let P := ap AP in
    let el := fst ela in
    let '(Mx, My, Mxy, Me, be) := parts in
    let blk := nth (mblk el) (mblocks P) (dmblock A) in
    if Nat.eqb iter 0 then (ael_mu A AP extRo extRi extZo el (gr (mel_geom A P el)) (el_zn A P el), repeat zero 9)
    else anl_update (nth (mblk el) mats (dmat A)) blk (ael_vol AP el) Mx My (el_V3 A V el) mu_old.

  (* element matrices (Me, be) of pass [iter] and the element's new (mu1, mu2) *)
  Definition anl_elem_matrices (AP : aprobF) (extRo extRi extZo : F) (mats : list matF) (res : list (nat * F * F))
             (iter : nat) (V : list F) (ela : elemF * alogsF) (mu_old : F * F) : list F * list F * (F * F) :=
    let parts := ael_parts AP res ela in
    let '(mu, Mn) := ael_mu_Mn AP extRo extRi extZo mats iter V ela parts mu_old in
    let '(Mx, My, Mxy, Me, be) := parts in
    let '(Me, be) := nl_combine A Me be Mx My Mxy Mn (fst mu) (snd mu) (el_V3 A V (fst ela)) in
    (Me, be, mu).

  Definition anl_elem_step (AP : aprobF) (extRo extRi extZo : F) (mats : list matF) (res : list (nat * F * F))
             (iter : nat) (V : list F)
             (s : list (list (nat * F)) * list F * list (F * F)) (em : (elemF * alogsF) * (F * F))
    : list (list (nat * F)) * list F * list (F * F) :=
    let '(M, b, rmus) := s in
    let '(Me, be, mu) := anl_elem_matrices AP extRo extRi extZo mats res iter V (fst em) (snd em) in
    let '(M, b) := ascatter A (mp (fst (fst em))) Me be M b in
    (M, b, mu :: rmus).

  (* what follows the element loop (staticaxi.cpp:637-727): the same statements as in AsmMAxi.asmMAxi *)
  Definition anl_finish (P : mprob (F:=F)) (L0 : linF) (M : list (list (nat * F))) (b : list F) : linF :=
    let L := lwithMb L0 M (apoint_currents A P b) in
    let L := afixed_points A P L in
    let L := afixed_segments A P L in
    mapply_pbcs A P L.

  (* one pass up to the solve: L0 is L after Create (Iter = 0) or after Wipe (Iter > 0), its V is the
     previous (relaxed) iterate; mus the per-element (mu1, mu2) of the previous pass *)
  Definition anl_pass (AP : aprobF) (mats : list matF) (res : list (nat * F * F)) (iter : nat) (L0 : linF)
             (mus : list (F * F)) : linF * list (F * F) :=
    let P := ap AP in
    let u := aunit A P in
    let extRo := aRo_raw AP *. u in
    let extRi := aRi_raw AP *. u in
    let extZo := aZo_raw AP *. u in
    let '(M, b, rmus) :=
      fold_left (anl_elem_step AP extRo extRi extZo mats res iter (Sparse.lV L0))
                (combine (combine (melems P) (alg AP)) mus) (lM L0, lb L0, []) in
    (anl_finish P L0 M b, rev rmus).

  Definition anl_state0 (AP : aprobF) (mats : list matF) (bw : nat) (prec : F) : nlstate (F:=F) :=
    nl_state0 A (ap AP) mats bw prec.

  (* the system of the next pass:  if(Iter>0) L.Wipe();  ... element loop ... boundary conditions *)
  Definition anl_assemble (AP : aprobF) (mats : list matF) (res : list (nat * F * F)) (st : nlstate (F:=F))
    : linF * list (F * F) :=
    let '(L, mus, c) := st in
    let L0 := if Nat.eqb (cIter c) 0 then L else wipe A L in
    anl_pass AP mats res (cIter c) L0 mus.

  (* do { ... } while(LinearFlag==false) with an abstract PCGSolve(Iter) (None = "return false").
     Result: None = the solver failed; Some (true, st) = the loop exited; Some (false, st) = out of fuel *)
  Fixpoint anl_iterate (solve : nat -> linF -> option (list F)) (AP : aprobF) (mats : list matF)
           (res : list (nat * F * F)) (fuel : nat) (st : nlstate (F:=F)) : option (bool * nlstate (F:=F)) :=
    match fuel with
    | O => Some (false, st)
    | S fuel' =>
        let '(L1, mus1) := anl_assemble AP mats res st in
        match solve (cIter (snd st)) L1 with
        | None => None
        | Some V =>
            let st' := nl_after_solve A st L1 mus1 V in
            if cLinear (snd st') then Some (true, st') else anl_iterate solve AP mats res fuel' st'
        end
    end.

  Definition anl_staticaxi (solve : nat -> linF -> option (list F)) (AP : aprobF) (mats : list matF)
             (bw : nat) (prec : F) (fuel : nat) : option (bool * nlstate (F:=F)) :=
    anl_iterate solve AP mats (acirc_results A (ap AP)) fuel (anl_state0 AP mats bw prec).

  (* ---- what the correspondence compares: the passes of a run whose solved vectors are given ---- *)
  (* per pass: (assembled system, element permeabilities, control variables after the pass, L.V after the pass) *)
  Fixpoint anl_trace (AP : aprobF) (mats : list matF) (res : list (nat * F * F)) (Vs : list (list F))
           (st : nlstate (F:=F)) : list (list F * list F * list F * list F) :=
    match Vs with
    | [] => []
    | V :: Vs' =>
        let '(L1, mus1) := anl_assemble AP mats res st in
        let st' := nl_after_solve A st L1 mus1 V in
        (dump_rows A (lM L1) ++ lb L1, concat (map (fun m => [fst m; snd m]) mus1), ctl_out A (snd st'),
         Sparse.lV (fst (fst st')))
        :: anl_trace AP mats res Vs' st'
    end.

  (* the trace, the circuit results, and the flux 2 pi r A WriteStatic2D prints for the last iterate *)
  Definition anl_run (AP : aprobF) (mats : list matF) (bw : nat) (prec : F) (Vs : list (list F)) (Vfinal : list F)
    : list (list F * list F * list F * list F) * list F * list F :=
    let res := acirc_results A (ap AP) in
    (anl_trace AP mats res Vs (anl_state0 AP mats bw prec),
     concat (map (fun r => let '(case, J, dV) := r in [#(Z.of_nat case); J; dV]) res),
     written_flux A (ap AP) Vfinal).
End AsmMAxiNL.
