(* PropRefs.v — executable model of how a femmcli document refers to its properties (C15).

   Every drawing entity (node, segment, arc segment, block label) stores, for each of its two
   property references, BOTH a numeric index into a property list and the property's name
   (CNode.h: BoundaryMarker/BoundaryMarkerName, InConductor/InConductorName; CSegment.h the
   same; CBlockLabel.h: BlockType/BlockTypeName, InCircuit/InCircuitName).  The file is written
   by index (FemmProblem.cpp:writeProblemDescription, "idx+1", 0 = none), the mesher resolves
   node/segment/arc references by name (fmesher/writepoly.cpp:initPointsWithMarkers /
   initSegmentsWithMarkers, last match) and block labels by index (isHole()), the solver reads
   the file.  The model follows the C++ statement by statement, including the stale indices
   left behind by the luaDelete* handlers (defect D5).  No proofs in this file.

   [fx = false] is the code as it stands; [fx = true] is the repaired code
   (findings/C15-D5-fix.diff): after every change of a property list the four name->index maps
   are rebuilt and every entity index is re-resolved from the stored name, and
   updateLabelsFromIndex restores block-label names on load.  The correspondence
   (tools/props/c15.py) decides which of the two the working tree is.

   Entities carry a ghost identifier [eid] that stands for their coordinates: the Lua commands
   select entities by coordinates, so identity is independent of the position in the list. *)
From Coq Require Import List String Bool Arith.
Import ListNotations.
Local Open Scope string_scope.
Local Open Scope list_scope.

Inductive kind := KBlock | KBdry | KPoint | KCirc.       (* blockproplist, lineproplist, nodeproplist, circproplist *)
Inductive ety := TNode | TSeg | TArc | TLabel.           (* nodelist, linelist, arclist, labellist *)
Inductive phys := Mag | Elec | Heat.                     (* newdocument(0) / (1) / (2) *)

Definition kind_eqb (a b : kind) : bool :=
  match a, b with
  | KBlock, KBlock | KBdry, KBdry | KPoint, KPoint | KCirc, KCirc => true
  | _, _ => false
  end.
Definition ety_eqb (a b : ety) : bool :=
  match a, b with
  | TNode, TNode | TSeg, TSeg | TArc, TArc | TLabel, TLabel => true
  | _, _ => false
  end.
Definition is_mag (ph : phys) : bool := match ph with Mag => true | _ => false end.

(* the kind of the FIRST reference of an entity; the SECOND one is always the circuit/conductor *)
Definition k1 (t : ety) : kind :=
  match t with TNode => KPoint | TSeg => KBdry | TArc => KBdry | TLabel => KBlock end.
Definition slot_kind (t : ety) (second : bool) : kind := if second then KCirc else k1 t.

(* which references exist for a document type: magnetics has circuits on labels only,
   electrostatics / heat flow have conductors on nodes, segments and arcs only
   (the corresponding set*prop commands take no such argument and the file has no such column) *)
Definition has_slot (ph : phys) (t : ety) (second : bool) : bool :=
  if second then match t with TLabel => is_mag ph | _ => negb (is_mag ph) end else true.

Definition upd {A} (f : kind -> A) (k : kind) (v : A) : kind -> A :=
  fun k' => if kind_eqb k k' then v else f k'.
Definition updt {A} (f : ety -> A) (t : ety) (v : A) : ety -> A :=
  fun t' => if ety_eqb t t' then v else f t'.

(* the special names of the C++ *)
Definition sNone : string := "<None>".
Definition sNoMesh : string := "<No Mesh>".
Definition sInf : string := "<Inf>".
Definition sEmpty : string := "".
Definition special (n : string) : bool :=
  String.eqb n sNone || String.eqb n sNoMesh || String.eqb n sInf || String.eqb n sEmpty.

(* ---- std::map<std::string,int> as rebuilt by FemmProblem::update*Map ------------------ *)
Definition smap := list (string * nat).
Fixpoint map_find (m : smap) (n : string) : option nat :=
  match m with
  | [] => None
  | (k, v) :: m' => if String.eqb k n then Some v else map_find m' n
  end.
(* m[name] = i : overwrite or insert *)
Fixpoint map_set (m : smap) (n : string) (i : nat) : smap :=
  match m with
  | [] => [(n, i)]
  | (k, v) :: m' => if String.eqb k n then (k, i) :: m' else (k, v) :: map_set m' n i
  end.
(* for (prop : list) map[prop->Name] = idx++;   — a later duplicate overwrites an earlier one *)
Fixpoint build_from (l : list string) (i : nat) (m : smap) : smap :=
  match l with
  | [] => m
  | n :: l' => build_from l' (S i) (map_set m n i)
  end.
Definition build_map (l : list string) : smap := build_from l 0 [].

(* ---- list helpers --------------------------------------------------------------------- *)
Definition mem (n : string) (l : list string) : bool := existsb (String.eqb n) l.
(* erase(remove_if(name == n)) *)
Definition erase_named (l : list string) (n : string) : list string :=
  filter (fun p => negb (String.eqb p n)) l.
(* for (prop : list) if (name == prop->Name) { m = prop; break; }  ... m->Name = n' *)
Fixpoint rename_first (l : list string) (n n' : string) : list string :=
  match l with
  | [] => []
  | p :: l' => if String.eqb n p then n' :: l' else p :: rename_first l' n n'
  end.
Fixpoint set_nth (l : list string) (i : nat) (v : string) : list string :=
  match l, i with
  | [], _ => []
  | _ :: l', O => v :: l'
  | p :: l', S i' => p :: set_nth l' i' v
  end.

(* index of the last element equal to n (the "t = j+1 for every match" loops of the mesher) *)
Fixpoint last_index_from (l : list string) (n : string) (i : nat) (acc : option nat) : option nat :=
  match l with
  | [] => acc
  | p :: l' => last_index_from l' n (S i) (if String.eqb p n then Some i else acc)
  end.
Definition last_index (l : list string) (n : string) : option nat := last_index_from l n 0 None.

(* ---- entities ------------------------------------------------------------------------- *)
Record ref := mkref { ridx : option nat;      (* None = -1 *)
                      rname : string }.
Record ent := mkent { eid : nat; esel : bool; er1 : ref; er2 : ref;
                      en0 : nat; en1 : nat }.   (* end nodes (ids) of segments and arcs *)

Definition dref : ref := mkref None sNone.                 (* CNode / CSegment constructors *)
Definition dref_label : ref := mkref None sNoMesh.         (* CBlockLabel constructor: BlockTypeName("<No Mesh>") *)
Definition default_r1 (t : ety) : ref := match t with TLabel => dref_label | _ => dref end.

Definition set_sel (b : bool) (e : ent) : ent := mkent (eid e) b (er1 e) (er2 e) (en0 e) (en1 e).
Definition set_refs (r1 r2 : ref) (e : ent) : ent := mkent (eid e) (esel e) r1 r2 (en0 e) (en1 e).
Definition has_id (id : nat) (e : ent) : bool := Nat.eqb (eid e) id.
Definition find_ent (l : list ent) (id : nat) : option ent := find (has_id id) l.

Record doc := mkdoc { props : kind -> list string;
                      maps : kind -> smap;
                      ents : ety -> list ent;
                      nextid : nat }.

Definition init : doc := mkdoc (fun _ => []) (fun _ => []) (fun _ => []) 0.

(* ---- the history alphabet ------------------------------------------------------------- *)
Inductive op :=
| Add (k : kind) (n : string)                 (* xi_addmaterial / addboundprop / addpointprop / addconductorprop|addcircprop *)
| Del (k : kind) (n : string)                 (* xi_deletematerial / deleteboundprop / deletepointprop / deleteconductor|deletecircuit *)
| Rename (k : kind) (n n' : string)           (* xi_modify*prop(n, 0, n') *)
| AddEnt (t : ety) (a b : nat)                (* xi_addnode / addsegment / addarc / addblocklabel; a b = end node ids *)
| Select (t : ety) (id : nat)                 (* xi_selectnode / selectsegment / selectarcsegment / selectlabel (toggles) *)
| ClearSel                                    (* xi_clearselected *)
| SetNode (p c : option string)               (* xi_setnodeprop(p, 0, c); None = nil; magnetics has no c *)
| SetSeg (b c : option string)                (* xi_setsegmentprop(b, 0, 1, 0, 0, c) *)
| SetArc (b c : option string)                (* xi_setarcsegmentprop(1, b, 0, 0, c) *)
| SetLabel (m c : option string)              (* xi_setblockprop(m, 1, 0, [c, 0,] 0) ; only magnetics has c *)
| Copy (t : ety)                              (* xi_copytranslate(dx, dy, 1, mode of t) *)
| Move (t : ety)                              (* xi_movetranslate(dx, dy, mode of t) *)
| Save                                        (* xi_saveas(path) *)
| Reopen.                                     (* xi_saveas(path); open(path) *)

Definition history := list op.

(* ---- the saved file (FemmProblem::writeProblemDescription) ---------------------------- *)
Record fent := mkfent { fid : nat; fw1 : nat; fw2 : nat; fn0 : nat; fn1 : nat }.
Record file := mkfile { fprops : kind -> list string;
                        fnodes : list fent; fsegs : list fent; farcs : list fent;
                        fholes : list fent;      (* [NumHoles]: coordinates only *)
                        flabels : list fent }.   (* [NumBlockLabels] *)

Definition wr (r : ref) : nat := match ridx r with None => 0 | Some i => S i end.     (* idx+1 *)
Definition rd (w : nat) : option nat := match w with O => None | S i => Some i end.   (* idx-- *)
(* CBlockLabel::isHole(): BlockType == -1 *)
Definition is_hole (e : ent) : bool := match ridx (er1 e) with None => true | Some _ => false end.

(* ---- meanings ------------------------------------------------------------------------- *)
Inductive meaning := MNone | MName (n : string) | MInvalid.
Definition resolve (l : list string) (i : option nat) : meaning :=
  match i with
  | None => MNone
  | Some j => match nth_error l j with Some n => MName n | None => MInvalid end
  end.
Definition of_assoc (a : option string) : meaning := match a with None => MNone | Some n => MName n end.

Definition find_fent (l : list fent) (id : nat) : option fent := find (fun e => Nat.eqb (fid e) id) l.
Definition fent_meaning (f : file) (t : ety) (second : bool) (e : fent) : meaning :=
  resolve (fprops f (slot_kind t second)) (rd (if second then fw2 e else fw1 e)).
(* what an independent reader of the file finds for entity (t, id), reference [second] *)
Definition file_meaning (f : file) (t : ety) (id : nat) (second : bool) : meaning :=
  match t with
  | TNode => match find_fent (fnodes f) id with Some e => fent_meaning f t second e | None => MNone end
  | TSeg => match find_fent (fsegs f) id with Some e => fent_meaning f t second e | None => MNone end
  | TArc => match find_fent (farcs f) id with Some e => fent_meaning f t second e | None => MNone end
  | TLabel => match find_fent (flabels f) id with Some e => fent_meaning f t second e | None => MNone end
  end.

Section Model.
  Variable fx : bool.      (* false: the code as it is;  true: with findings/C15-D5-fix.diff applied *)
  Variable ph : phys.

  (* ---- the repair: FemmProblem::updateIndicesFromLabels (rebuild maps, idx = map[name] or -1) *)
  Definition reres (m : smap) (r : ref) : ref := mkref (map_find m (rname r)) (rname r).
  Definition reres_ent (m1 m2 : smap) (e : ent) : ent :=
    mkent (eid e) (esel e) (reres m1 (er1 e)) (reres m2 (er2 e)) (en0 e) (en1 e).
  Definition refresh (d : doc) : doc :=
    let ms := fun k => build_map (props d k) in
    mkdoc (props d) ms (fun t => map (reres_ent (ms (k1 t)) (ms KCirc)) (ents d t)) (nextid d).
  Definition post (d : doc) : doc := if fx then refresh d else d.

  Definition with_props (d : doc) (k : kind) (l : list string) (rebuild : bool) : doc :=
    mkdoc (upd (props d) k l) (if rebuild then upd (maps d) k (build_map l) else maps d) (ents d) (nextid d).
  Definition with_ents (d : doc) (t : ety) (l : list ent) : doc :=
    mkdoc (props d) (maps d) (updt (ents d) t l) (nextid d).
  Definition unselect_all (d : doc) : doc :=
    mkdoc (props d) (maps d) (fun t => map (set_sel false) (ents d t)) (nextid d).

  (* luaAdd*Property: push_back; update*Map() *)
  Definition do_add (d : doc) (k : kind) (n : string) : doc :=
    post (with_props d k (props d k ++ [n]) true).

  (* LuaCommonCommands.cpp:luaDelete*: erase(remove_if(name == n)); update*Map(); entities untouched *)
  Definition do_del (d : doc) (k : kind) (n : string) : doc :=
    post (with_props d k (erase_named (props d k) n) true).

  (* luaModify*Property(name, 0, newname) of the three Lua*Commands.cpp files:
     boundary and material: first match by linear search, update*Map();
     point property: first match, the map is NOT rebuilt;
     circuit / conductor: looked up through circuitMap (possibly stale), the map is NOT rebuilt *)
  Definition do_rename (d : doc) (k : kind) (n n' : string) : doc :=
    match k with
    | KBlock | KBdry =>
        if mem n (props d k) then post (with_props d k (rename_first (props d k) n n') true) else d
    | KPoint =>
        if mem n (props d k) then post (with_props d k (rename_first (props d k) n n') false) else d
    | KCirc =>
        match props d k with
        | [] => d                                                   (* if (circproplist.empty()) return 0; *)
        | _ => match map_find (maps d k) n with
               | None => d
               | Some i => post (with_props d k (set_nth (props d k) i n') false)
               end
        end
    end.

  (* lua_isnil ? (-1, default) : (map.count(name) ? map[name] : -1, name) *)
  Definition arg_ref (m : smap) (a : option string) (dflt : string) : ref :=
    match a with None => mkref None dflt | Some n => mkref (map_find m n) n end.

  Definition set_selected (d : doc) (t : ety) (f : ent -> ent) : doc :=
    with_ents d t (map (fun e => if esel e then f e else e) (ents d t)).

  (* luaSetNodeProperty (common: both references; magnetics: the point property only) *)
  Definition do_setnode (d : doc) (p c : option string) : doc :=
    let r1 := arg_ref (maps d KPoint) p sNone in
    let r2 := arg_ref (maps d KCirc) c sNone in
    set_selected d TNode (fun e => set_refs r1 (if is_mag ph then er2 e else r2) e).
  (* luaSetSegmentProperty *)
  Definition do_setseg (d : doc) (b c : option string) : doc :=
    let r1 := arg_ref (maps d KBdry) b sNone in
    let r2 := arg_ref (maps d KCirc) c sNone in
    set_selected d TSeg (fun e => set_refs r1 (if is_mag ph then er2 e else r2) e).
  (* luaSetArcsegmentProperty: "std::string boundprop;" — the default name is empty *)
  Definition do_setarc (d : doc) (b c : option string) : doc :=
    let r1 := arg_ref (maps d KBdry) b sEmpty in
    let r2 := arg_ref (maps d KCirc) c sNone in
    set_selected d TArc (fun e => set_refs r1 (if is_mag ph then er2 e else r2) e).
  (* luaSetBlocklabelProperty (magnetics: block type and circuit; common: block type only) *)
  Definition do_setlabel (d : doc) (m c : option string) : doc :=
    let r1 := arg_ref (maps d KBlock) m sNone in
    let r2 := arg_ref (maps d KCirc) c sNone in
    set_selected d TLabel (fun e => set_refs r1 (if is_mag ph then r2 else er2 e) e).

  (* luaAddNode / luaAddLine / luaAddArc / luaAddBlocklabel; addSegment and addArcSegment end
     with unselectAll() *)
  Definition do_addent (d : doc) (t : ety) (a b : nat) : doc :=
    let e := mkent (nextid d) false (default_r1 t) dref
                   (match t with TSeg | TArc => a | _ => 0 end) (match t with TSeg | TArc => b | _ => 0 end) in
    let d' := mkdoc (props d) (maps d) (updt (ents d) t (ents d t ++ [e])) (S (nextid d)) in
    match t with TSeg | TArc => unselect_all d' | _ => d' end.

  (* luaSelect*: closest entity ->ToggleSelect() *)
  Definition do_select (d : doc) (t : ety) (id : nat) : doc :=
    with_ents d t (map (fun e => if has_id id e then set_sel (negb (esel e)) e else e) (ents d t)).

  (* FemmProblem::translateCopy: selected entities are clone()d (both fields of both
     references), the clone is unselected and pushed back; lines and arcs also clone their
     two end nodes.  enforcePSLG() re-adds everything in order and ends with unselectAll(). *)
  Definition clone (id a b : nat) (e : ent) : ent := mkent id false (er1 e) (er2 e) a b.
  Fixpoint copy_simple (l : list ent) (nid : nat) : list ent * nat :=
    match l with
    | [] => ([], nid)
    | e :: l' => if esel e then let '(cs, n') := copy_simple l' (S nid) in (clone nid 0 0 e :: cs, n')
                 else copy_simple l' nid
    end.
  Definition clone_node (nodes : list ent) (id nid : nat) : list ent :=
    match find_ent nodes id with Some nd => [clone nid 0 0 nd] | None => [] end.
  Fixpoint copy_lines (nodes l : list ent) (nid : nat) : list ent * list ent * nat :=
    match l with
    | [] => ([], [], nid)
    | e :: l' =>
        if esel e then
          let '(ns, cs, n') := copy_lines nodes l' (nid + 3) in
          (clone_node nodes (en0 e) nid ++ clone_node nodes (en1 e) (S nid) ++ ns,
           clone (S (S nid)) nid (S nid) e :: cs, n')
        else copy_lines nodes l' nid
    end.
  Definition do_copy (d : doc) (t : ety) : doc :=
    let d' :=
      match t with
      | TNode | TLabel =>
          let '(cs, n') := copy_simple (ents d t) (nextid d) in
          mkdoc (props d) (maps d) (updt (ents d) t (ents d t ++ cs)) n'
      | TSeg | TArc =>
          let '(ns, cs, n') := copy_lines (ents d TNode) (ents d t) (nextid d) in
          mkdoc (props d) (maps d) (updt (updt (ents d) TNode (ents d TNode ++ ns)) t (ents d t ++ cs)) n'
      end in
    unselect_all d'.

  (* FemmProblem::writeProblemDescription *)
  Definition col2 (t : ety) : bool := has_slot ph t true.
  Definition wr_ent (t : ety) (e : ent) : fent :=
    mkfent (eid e) (wr (er1 e)) (if col2 t then wr (er2 e) else 0) (en0 e) (en1 e).
  Definition save (d : doc) : file :=
    mkfile (props d)
           (map (wr_ent TNode) (ents d TNode)) (map (wr_ent TSeg) (ents d TSeg)) (map (wr_ent TArc) (ents d TArc))
           (map (wr_ent TLabel) (filter is_hole (ents d TLabel)))
           (map (wr_ent TLabel) (filter (fun e => negb (is_hole e)) (ents d TLabel))).

  (* CBlockLabel::hasBlockType(): name-based *)
  Definition has_block_type (n : string) : bool := negb (String.eqb n sNoMesh) && negb (String.eqb n sInf).

  (* FemmReader.cpp:parse + FemmProblem::updateLabelsFromIndex.  Indices come from the file;
     a name is filled in from the index when has*() holds (an out-of-range index is undefined
     behaviour in the C++: the model leaves the default name).  For block labels the test is
     hasBlockType(), which looks at the NAME — still the constructor's "<No Mesh>" at that
     point — so BlockTypeName is never restored (repaired: test the index). *)
  Definition name_of (l : list string) (i : option nat) (dflt : string) : string :=
    match i with
    | None => dflt
    | Some j => match nth_error l j with Some n => n | None => dflt end
    end.
  Definition ld_ent (f : file) (t : ety) (e : fent) : ent :=
    let i1 := rd (fw1 e) in
    let i2 := if col2 t then rd (fw2 e) else None in
    let n1 := match t with
              | TLabel => if fx then name_of (fprops f KBlock) i1 sNoMesh else sNoMesh
              | _ => name_of (fprops f (k1 t)) i1 sNone
              end in
    mkent (fid e) false (mkref i1 n1) (mkref i2 (name_of (fprops f KCirc) i2 sNone)) (fn0 e) (fn1 e).
  Definition ld_hole (e : fent) : ent := mkent (fid e) false dref_label dref 0 0.
  Definition load (f : file) (nid : nat) : doc :=
    mkdoc (fprops f) (fun k => build_map (fprops f k))
          (fun t => match t with
                    | TNode => map (ld_ent f TNode) (fnodes f)
                    | TSeg => map (ld_ent f TSeg) (fsegs f)
                    | TArc => map (ld_ent f TArc) (farcs f)
                    | TLabel => map ld_hole (fholes f) ++ map (ld_ent f TLabel) (flabels f)
                    end)
          nid.

  Definition step (o : op) (d : doc) : doc :=
    match o with
    | Add k n => do_add d k n
    | Del k n => do_del d k n
    | Rename k n n' => do_rename d k n n'
    | AddEnt t a b => do_addent d t a b
    | Select t id => do_select d t id
    | ClearSel => unselect_all d
    | SetNode p c => do_setnode d p c
    | SetSeg b c => do_setseg d b c
    | SetArc b c => do_setarc d b c
    | SetLabel m c => do_setlabel d m c
    | Copy t => do_copy d t
    | Move t => unselect_all d          (* translateMove ... enforcePSLG(): unselectAll() *)
    | Save => d
    | Reopen => load (save d) (nextid d)
    end.

  Fixpoint run_from (d : doc) (h : history) : doc :=
    match h with [] => d | o :: h' => run_from (step o d) h' end.
  Definition run (h : history) : doc := run_from init h.

  (* ---- observations ------------------------------------------------------------------- *)
  Definition saved_meaning (d : doc) (t : ety) (id : nat) (second : bool) : meaning :=
    file_meaning (save d) t id second.

  (* luaAnalyze (all three) before meshing: at least one label; every label whose NAME says it
     has a block type must name an existing material; then FemmProblem::consistencyCheckOK *)
  Definition ref_consistent (l : list string) (r : ref) : bool :=
    match ridx r with
    | None => false
    | Some i => match nth_error l i with Some n => String.eqb (rname r) n | None => false end
    end.
  Definition idx_consistent (l : list string) (r : ref) : bool :=
    match ridx r with None => true | Some _ => ref_consistent l r end.
  Definition consistency (d : doc) : bool :=
    forallb (fun e => (if has_block_type (rname (er1 e)) then ref_consistent (props d KBlock) (er1 e) else true)
                      && idx_consistent (props d KCirc) (er2 e)) (ents d TLabel)
    && forallb (fun e => idx_consistent (props d KPoint) (er1 e) && idx_consistent (props d KCirc) (er2 e)) (ents d TNode)
    && forallb (fun e => idx_consistent (props d KBdry) (er1 e) && idx_consistent (props d KCirc) (er2 e)) (ents d TSeg)
    && forallb (fun e => idx_consistent (props d KBdry) (er1 e) && idx_consistent (props d KCirc) (er2 e)) (ents d TArc).
  Definition gate (d : doc) : bool :=
    match ents d TLabel with [] => false | _ => true end
    && forallb (fun e => negb (has_block_type (rname (er1 e)) && negb (mem (rname (er1 e)) (props d KBlock)))) (ents d TLabel)
    && consistency d.

  (* what the analysis uses: block labels by index (the mesher tests isHole(), the solver reads
     the file that luaAnalyze has just written); nodes, segments and arcs by NAME, last match
     (writepoly.cpp) *)
  Definition analysis_meaning (d : doc) (t : ety) (id : nat) (second : bool) : meaning :=
    match find_ent (ents d t) id with
    | None => MNone
    | Some e =>
        let r := if second then er2 e else er1 e in
        let l := props d (slot_kind t second) in
        match t with
        | TLabel => if is_hole e then MNone else resolve l (ridx r)
        | _ => if has_slot ph t second then resolve l (last_index l (rname r)) else MNone
        end
    end.

  (* printable forms for the correspondence *)
  Definition m_out (m : meaning) : nat * string :=
    match m with MNone => (0, "") | MName n => (1, n) | MInvalid => (2, "") end.
  Definition fent_out (e : fent) : nat * nat * nat := (fid e, fw1 e, fw2 e).
  Definition save_out (d : doc) :=
    let f := save d in
    ([fprops f KPoint; fprops f KBdry; fprops f KBlock; fprops f KCirc],
     map fent_out (fnodes f), map fent_out (fsegs f), map fent_out (farcs f),
     map fid (fholes f), map fent_out (flabels f)).
  Fixpoint trace_from (d : doc) (h : history) :=
    match h with
    | [] => []
    | o :: h' => let d' := step o d in
                 (match o with Save => [save_out d'] | _ => [] end) ++ trace_from d' h'
    end.
  Definition trace (h : history) := trace_from init h.
  Definition probe_out (d : doc) (qs : list (ety * nat * bool)) :=
    (gate d, map (fun q => let '(t, id, s) := q in m_out (analysis_meaning d t id s)) qs).
End Model.

(* ======================================================================================= *)
(* Specification: the name-level document.  Entities hold NAMES only; an entity is associated
   with the property that carries the name last assigned to it, or with none if no property
   carries that name (it was deleted or renamed away, or never existed).  This is the
   semantics of the FEMM 4.2 editor the commands are ported from.                             *)
Record aent := mkaent { aid : nat; asel : bool; an1 : string; an2 : string; aa : nat; ab : nat }.
Record adoc := mkadoc { aprops : kind -> list string; aents : ety -> list aent; anext : nat }.
Definition ainit : adoc := mkadoc (fun _ => []) (fun _ => []) 0.

Definition aset_sel (b : bool) (e : aent) : aent := mkaent (aid e) b (an1 e) (an2 e) (aa e) (ab e).
Definition aunselect (a : adoc) : adoc := mkadoc (aprops a) (fun t => map (aset_sel false) (aents a t)) (anext a).
Definition arg_name (a : option string) (dflt : string) : string := match a with None => dflt | Some n => n end.
Definition default_n1 (t : ety) : string := match t with TLabel => sNoMesh | _ => sNone end.

(* renaming: the first property called n (boundary, material, point) resp. the last one
   (circuit/conductor) gets the new name; entities keep the name they were given *)
Definition rename_last (l : list string) (n n' : string) : list string :=
  match last_index l n with Some i => set_nth l i n' | None => l end.
Definition arename (k : kind) (l : list string) (n n' : string) : list string :=
  match k with KCirc => rename_last l n n' | _ => rename_first l n n' end.

Fixpoint acopy_simple (l : list aent) (nid : nat) : list aent * nat :=
  match l with
  | [] => ([], nid)
  | e :: l' => if asel e then let '(cs, n') := acopy_simple l' (S nid) in
                              (mkaent nid false (an1 e) (an2 e) 0 0 :: cs, n')
               else acopy_simple l' nid
  end.
Definition aclone_node (nodes : list aent) (id nid : nat) : list aent :=
  match find (fun e => Nat.eqb (aid e) id) nodes with
  | Some nd => [mkaent nid false (an1 nd) (an2 nd) 0 0] | None => [] end.
Fixpoint acopy_lines (nodes l : list aent) (nid : nat) : list aent * list aent * nat :=
  match l with
  | [] => ([], [], nid)
  | e :: l' =>
      if asel e then
        let '(ns, cs, n') := acopy_lines nodes l' (nid + 3) in
        (aclone_node nodes (aa e) nid ++ aclone_node nodes (ab e) (S nid) ++ ns,
         mkaent (S (S nid)) false (an1 e) (an2 e) nid (S nid) :: cs, n')
      else acopy_lines nodes l' nid
  end.

(* saving and re-opening keeps every association; a name that no property carries is not
   representable in the file and comes back as the default; a block label without a material
   is a hole (no mesh) and holes are listed first, without a circuit *)
Definition akeep (l : list string) (n dflt : string) : string := if mem n l then n else dflt.
Definition areopen_ent (ph : phys) (a : adoc) (t : ety) (e : aent) : aent :=
  mkaent (aid e) false (akeep (aprops a (k1 t)) (an1 e) (default_n1 t))
         (if has_slot ph t true then akeep (aprops a KCirc) (an2 e) sNone else sNone) (aa e) (ab e).
Definition ahole (a : adoc) (e : aent) : bool := negb (mem (an1 e) (aprops a KBlock)).
Definition areopen (ph : phys) (a : adoc) : adoc :=
  mkadoc (aprops a)
         (fun t => match t with
                   | TLabel => map (fun e => mkaent (aid e) false sNoMesh sNone 0 0) (filter (ahole a) (aents a TLabel))
                               ++ map (areopen_ent ph a TLabel) (filter (fun e => negb (ahole a e)) (aents a TLabel))
                   | _ => map (areopen_ent ph a t) (aents a t)
                   end)
         (anext a).

Definition aset_selected (a : adoc) (t : ety) (f : aent -> aent) : adoc :=
  mkadoc (aprops a) (updt (aents a) t (map (fun e => if asel e then f e else e) (aents a t))) (anext a).

Definition astep (ph : phys) (o : op) (a : adoc) : adoc :=
  match o with
  | Add k n => mkadoc (upd (aprops a) k (aprops a k ++ [n])) (aents a) (anext a)
  | Del k n => mkadoc (upd (aprops a) k (erase_named (aprops a k) n)) (aents a) (anext a)
  | Rename k n n' => mkadoc (upd (aprops a) k (arename k (aprops a k) n n')) (aents a) (anext a)
  | AddEnt t x y =>
      let e := mkaent (anext a) false (default_n1 t) sNone
                      (match t with TSeg | TArc => x | _ => 0 end) (match t with TSeg | TArc => y | _ => 0 end) in
      let a' := mkadoc (aprops a) (updt (aents a) t (aents a t ++ [e])) (S (anext a)) in
      match t with TSeg | TArc => aunselect a' | _ => a' end
  | Select t id =>
      mkadoc (aprops a) (updt (aents a) t (map (fun e => if Nat.eqb (aid e) id then aset_sel (negb (asel e)) e else e) (aents a t))) (anext a)
  | ClearSel => aunselect a
  | SetNode p c => aset_selected a TNode (fun e => mkaent (aid e) (asel e) (arg_name p sNone) (if is_mag ph then an2 e else arg_name c sNone) (aa e) (ab e))
  | SetSeg b c => aset_selected a TSeg (fun e => mkaent (aid e) (asel e) (arg_name b sNone) (if is_mag ph then an2 e else arg_name c sNone) (aa e) (ab e))
  | SetArc b c => aset_selected a TArc (fun e => mkaent (aid e) (asel e) (arg_name b sEmpty) (if is_mag ph then an2 e else arg_name c sNone) (aa e) (ab e))
  | SetLabel m c => aset_selected a TLabel (fun e => mkaent (aid e) (asel e) (arg_name m sNone) (if is_mag ph then arg_name c sNone else an2 e) (aa e) (ab e))
  | Copy t =>
      aunselect
        match t with
        | TNode | TLabel => let '(cs, n') := acopy_simple (aents a t) (anext a) in
                            mkadoc (aprops a) (updt (aents a) t (aents a t ++ cs)) n'
        | TSeg | TArc => let '(ns, cs, n') := acopy_lines (aents a TNode) (aents a t) (anext a) in
                         mkadoc (aprops a) (updt (updt (aents a) TNode (aents a TNode ++ ns)) t (aents a t ++ cs)) n'
        end
  | Move t => aunselect a
  | Save => a
  | Reopen => areopen ph a
  end.

Fixpoint arun_from (ph : phys) (a : adoc) (h : history) : adoc :=
  match h with [] => a | o :: h' => arun_from ph (astep ph o a) h' end.
Definition arun (ph : phys) (h : history) : adoc := arun_from ph ainit h.

(* the name last assigned to reference [second] of entity (t, id) by the history *)
Definition afind (a : adoc) (t : ety) (id : nat) : option aent := find (fun e => Nat.eqb (aid e) id) (aents a t).
Definition name_meaning (l : list string) (n : string) : option string := if mem n l then Some n else None.
Definition aassoc (a : adoc) (t : ety) (id : nat) (second : bool) : option string :=
  match afind a t id with
  | None => None
  | Some e =>
      if second then
        match t with
        | TLabel => if ahole a e then None else name_meaning (aprops a KCirc) (an2 e)    (* a hole carries no circuit *)
        | _ => name_meaning (aprops a KCirc) (an2 e)
        end
      else name_meaning (aprops a (k1 t)) (an1 e)
  end.
Definition assoc (ph : phys) (h : history) (t : ety) (id : nat) (second : bool) : option string :=
  aassoc (arun ph h) t id second.
Definition last_assigned (ph : phys) (h : history) (t : ety) (id : nat) (second : bool) : option string :=
  match afind (arun ph h) t id with None => None | Some e => Some (if second then an2 e else an1 e) end.

(* ---- classes of histories used as hypotheses ------------------------------------------ *)
(* property names given by the script are not one of the reserved strings *)
Definition op_ordinary (o : op) : bool :=
  match o with
  | Add _ n => negb (special n)
  | Rename _ _ n' => negb (special n')
  | _ => true
  end.
Definition ordinary (h : history) : bool := forallb op_ordinary h.
(* no property is deleted or renamed and the document is not re-opened *)
Definition op_calm (o : op) : bool :=
  match o with Del _ _ | Rename _ _ _ | Reopen => false | _ => true end.
Definition calm (h : history) : bool := forallb op_calm h.
(* every set*prop names a property that exists at that moment (or nil) *)
Definition arg_defined (l : list string) (a : option string) : bool :=
  match a with None => true | Some n => mem n l end.
Definition op_defined (ph : phys) (a : adoc) (o : op) : bool :=
  match o with
  | SetNode p c => arg_defined (aprops a KPoint) p && (is_mag ph || arg_defined (aprops a KCirc) c)
  | SetSeg b c | SetArc b c => arg_defined (aprops a KBdry) b && (is_mag ph || arg_defined (aprops a KCirc) c)
  | SetLabel m c => arg_defined (aprops a KBlock) m && (negb (is_mag ph) || arg_defined (aprops a KCirc) c)
  | _ => true
  end.
Fixpoint defined_from (ph : phys) (a : adoc) (h : history) : bool :=
  match h with [] => true | o :: h' => op_defined ph a o && defined_from ph (astep ph o a) h' end.
Definition sets_defined (ph : phys) (h : history) : bool := defined_from ph ainit h.
