(* Locate.v — executable model of point location and interpolation in the post-processors.

   Mirrors, statement by statement,
     cfemm/libfemm/PostProcessor.cpp : PostProcessor::InTriangle (static int k, hi/lo walk),
                                       PostProcessor::InTriangleTest (node-index-ordered edge test),
                                       PostProcessor::Ctr, PostProcessor::getPointD (Smooth == false),
                                       PostProcessor::AECF (planar / no external region: returns 1.)
     cfemm/epproc/epproc.cpp         : parseSolution (blk), OpenDocument (ctr, rsqr, label check),
                                       getElementD, getPointValues
     cfemm/hpproc/hpproc.cpp         : HPProc::InTriangleTest (its own, NOT index-ordered),
                                       getElementD and getPointValues for constant-conductivity
                                       materials (T interpolant: same text as V; F, G, K)
     cfemm/fpproc/fpproc.cpp         : FPProc::InTriangle / InTriangleTest / Ctr / rsqr,
                                       GetElementB and GetPointValues for planar static problems
                                       (A.re interpolant and B; mu/H/energy are not modelled)

   Differences between the three copies (all modelled):
     * InTriangle: PostProcessor.cpp and fpproc.cpp are the same text up to the container
       (meshelems[i]->x vs meshelem[i].x); each has its OWN function-local `static int k`
       (fpproc's is declared without initialiser, i.e. zero-initialised), and the one of
       PostProcessor::InTriangle is shared by every ElectrostaticsPostProcessor and HPProc
       object of the process.  One model function [in_triangle], parametrised by the test.
     * InTriangleTest: PostProcessor.cpp == fpproc.cpp = [test_ord] (range check on i, edge
       test evaluated from the lower to the higher node index); hpproc.cpp = [test_hp] (only
       i<0 is rejected, every edge evaluated from p[j] to p[k], always `z<0`).
     * Ctr / rsqr: same text in all three ([ctr_of], [rsqr_of]).
   The search state `static int k` is the [Z] threaded through [in_triangle].
   No proofs in this file. *)
From Coq Require Import ZArith List Bool Arith.
From XF Require Import Arith.
Import ListNotations.

(* a mesh node of the solution file: x y potential *)
Record node (F : Type) := mkNode { nx : F; ny : F; nv : F }.
(* an element as it is in the solution file: p[0] p[1] p[2] lbl *)
Record relem := mkRelem { r0 : nat; r1 : nat; r2 : nat; rlbl : nat }.
(* an element after OpenDocument: + blk, ctr, rsqr, D *)
Record elem (F : Type) := mkElem { p0 : nat; p1 : nat; p2 : nat; lbl : nat; blk : nat;
                                   cx : F; cy : F; rsqr : F; eDx : F; eDy : F }.
(* block label: x y BlockType ; material: ex ey *)
Record label (F : Type) := mkLabel { lx : F; ly : F; lblk : nat }.
Record mat (F : Type) := mkMat { mex : F; mey : F }.
Record mesh (F : Type) := mkMesh { nodes : list (node F); elems : list (elem F);
                                   labels : list (label F); mats : list (mat F);
                                   lconv : F;      (* LengthConv[problem->LengthUnits] *)
                                   eps0 : F }.     (* the macro eo (8.85418781762e-12 as g++ reads it) *)
Arguments mkNode {F}. Arguments nx {F}. Arguments ny {F}. Arguments nv {F}.
Arguments mkElem {F}. Arguments p0 {F}. Arguments p1 {F}. Arguments p2 {F}. Arguments lbl {F}.
Arguments blk {F}. Arguments cx {F}. Arguments cy {F}. Arguments rsqr {F}. Arguments eDx {F}. Arguments eDy {F}.
Arguments mkLabel {F}. Arguments lx {F}. Arguments ly {F}. Arguments lblk {F}.
Arguments mkMat {F}. Arguments mex {F}. Arguments mey {F}.
Arguments mkMesh {F}. Arguments nodes {F}. Arguments elems {F}. Arguments labels {F}. Arguments mats {F}.
Arguments lconv {F}. Arguments eps0 {F}.

(* ------------------------------------------------------------------------------------ *)
(* the order in which InTriangle looks at element indices (discrete; one reading)        *)
(* ------------------------------------------------------------------------------------ *)
(*  hi = k; lo = k;
    for(j=0; j<sz; j+=2) { hi++; if (hi >= sz) hi = 0;  lo--; if (lo < 0) lo = sz - 1;  ...hi... ...lo... } *)
Definition hi_next (sz hi : Z) : Z := let hi := (hi + 1)%Z in if (hi >=? sz)%Z then 0%Z else hi.
Definition lo_next (sz lo : Z) : Z := let lo := (lo - 1)%Z in if (lo <? 0)%Z then (sz - 1)%Z else lo.

Fixpoint walk (fuel : nat) (sz j hi lo : Z) : list Z :=
  match fuel with
  | O => []
  | S f =>
      if (j <? sz)%Z then
        let hi := hi_next sz hi in
        let lo := lo_next sz lo in
        hi :: lo :: walk f sz (j + 2)%Z hi lo
      else []
  end.

(* `if ((k < 0) || (k >= sz)) k = 0;` *)
Definition clamp (sz k : Z) : Z := if ((k <? 0)%Z || (k >=? sz)%Z)%bool then 0%Z else k.

(* the loop runs ceil(sz/2) <= sz times; one more unit of fuel sees the exit test *)
Definition loop_fuel (sz : Z) : nat := S (Z.to_nat sz).

(* every index examined by a query that fails, in order: the seed first, then hi,lo pairs *)
Definition visited (sz k : Z) : list Z := k :: walk (loop_fuel sz) sz 0%Z k k.

Section Locate.
  Context {F : Type} (A : Arith F).
  Local Notation "x +. y" := (aadd A x y) (at level 50, left associativity).
  Local Notation "x -. y" := (asub A x y) (at level 50, left associativity).
  Local Notation "x *. y" := (amul A x y) (at level 40, left associativity).
  Local Notation "x /. y" := (adiv A x y) (at level 40, left associativity).
  Local Notation zero := (azero A).
  Local Notation one := (aone A).

  Definition dnode : node F := mkNode zero zero zero.
  Definition delem : elem F := mkElem 0 0 0 0 0 zero zero zero zero zero.
  Definition dmat : mat F := mkMat zero zero.
  Definition dlabel : label F := mkLabel zero zero 0.

  Definition getn (N : list (node F)) (i : nat) : node F := nth i N dnode.
  Definition gete (E : list (elem F)) (i : Z) : elem F := nth (Z.to_nat i) E delem.
  Definition nelems (E : list (elem F)) : Z := Z.of_nat (length E).

  (* ---------------------------------------------------------------------------------- *)
  (* InTriangleTest                                                                     *)
  (* ---------------------------------------------------------------------------------- *)
  (* one pass of the j-loop of PostProcessor::InTriangleTest / FPProc::InTriangleTest for the
     edge p[j] -> p[k]; true = "did not return false" *)
  Definition edge_ord (N : list (node F)) (x y : F) (pj pk : nat) : bool :=
    let nj := getn N pj in
    let nk := getn N pk in
    if Nat.ltb pj pk then
      (* Case 1: p[k]>p[j] *)
      let z := ((nx nk -. nx nj) *. (y -. ny nj)) -. ((ny nk -. ny nj) *. (x -. nx nj)) in
      negb (altb A z zero)                               (* if(z<0) return false; *)
    else
      (* Case 2 *)
      let z := ((nx nj -. nx nk) *. (y -. ny nk)) -. ((ny nj -. ny nk) *. (x -. nx nk)) in
      negb (altb A zero z).                              (* if (z > 0) return false; *)

  (* one pass of the j-loop of HPProc::InTriangleTest *)
  Definition edge_hp (N : list (node F)) (x y : F) (pj pk : nat) : bool :=
    let nj := getn N pj in
    let nk := getn N pk in
    let z := ((nx nk -. nx nj) *. (y -. ny nj)) -. ((ny nk -. ny nj) *. (x -. nx nj)) in
    negb (altb A z zero).                                (* if(z<0) InFlag=false; *)

  (* j = 0,1,2 ; k = j+1 (mod 3); the loop stops at the first failing edge *)
  Definition tri_edges (edge : list (node F) -> F -> F -> nat -> nat -> bool)
             (N : list (node F)) (e : elem F) (x y : F) : bool :=
    edge N x y (p0 e) (p1 e) && edge N x y (p1 e) (p2 e) && edge N x y (p2 e) (p0 e).

  (* PostProcessor::InTriangleTest, FPProc::InTriangleTest *)
  Definition test_ord (M : mesh F) (x y : F) (i : Z) : bool :=
    if ((i <? 0)%Z || (i >=? nelems (elems M))%Z)%bool then false
    else tri_edges edge_ord (nodes M) (gete (elems M) i) x y.

  (* HPProc::InTriangleTest.  NOTE: the C++ has no upper range check: i >= size is undefined
     behaviour there (reachable only with an empty mesh, on which OpenDocument has already
     dereferenced meshnodes[0]); the model reads the default element in that case. *)
  Definition test_hp (M : mesh F) (x y : F) (i : Z) : bool :=
    if (i <? 0)%Z then false
    else tri_edges edge_hp (nodes M) (gete (elems M) i) x y.

  (* ---------------------------------------------------------------------------------- *)
  (* InTriangle                                                                         *)
  (* ---------------------------------------------------------------------------------- *)
  (* z = (ctr.re - x)*(ctr.re - x) + (ctr.im - y)*(ctr.im - y);  if (z <= rsqr) *)
  Definition circle_ok (M : mesh F) (x y : F) (i : Z) : bool :=
    let e := gete (elems M) i in
    let z := ((cx e -. x) *. (cx e -. x)) +. ((cy e -. y) *. (cy e -. y)) in
    aleb A z (rsqr e).

  (* the for-loop; returns the index found or -1 *)
  Fixpoint spiral (test : Z -> bool) (M : mesh F) (x y : F) (fuel : nat) (sz j hi lo : Z) : Z :=
    match fuel with
    | O => (-1)%Z                       (* never reached with fuel = loop_fuel sz (LocateProofs.spiral_fuel) *)
    | S f =>
        if (j <? sz)%Z then
          let hi := hi_next sz hi in
          let lo := lo_next sz lo in
          if circle_ok M x y hi && test hi then hi
          else if circle_ok M x y lo && test lo then lo
          else spiral test M x y f sz (j + 2)%Z hi lo
        else (-1)%Z
    end.

  (* InTriangle(x,y) with the static k made explicit: returns (result, new k) *)
  Definition in_triangle (test : mesh F -> F -> F -> Z -> bool) (M : mesh F) (k : Z) (x y : F) : Z * Z :=
    let sz := nelems (elems M) in
    let k := clamp sz k in
    if test M x y k then (k, k)
    else
      let r := spiral (test M x y) M x y (loop_fuel sz) sz 0%Z k k in
      if (r <? 0)%Z then ((-1)%Z, k) else (r, r).

  (* ---------------------------------------------------------------------------------- *)
  (* load time: blk, ctr, rsqr, D                                                       *)
  (* ---------------------------------------------------------------------------------- *)
  (* Ctr(i): c = 0; for j: p = (x_j/3., y_j/3.); c += p *)
  Definition three : F := aofZ A 3.
  Definition ctr_of (n0 n1 n2 : node F) : F * F :=
    (((zero +. nx n0 /. three) +. nx n1 /. three) +. nx n2 /. three,
     ((zero +. ny n0 /. three) +. ny n1 /. three) +. ny n2 /. three).

  (* rsqr=0; for j: b = sqr(x_j-ctr.re)+sqr(y_j-ctr.im); if(b>rsqr) rsqr=b; *)
  Definition sqr (u : F) : F := u *. u.
  Definition rsqr_step (c : F * F) (r : F) (n : node F) : F :=
    let b := sqr (nx n -. fst c) +. sqr (ny n -. snd c) in
    if altb A r b then b else r.
  Definition rsqr_of (c : F * F) (n0 n1 n2 : node F) : F :=
    rsqr_step c (rsqr_step c (rsqr_step c zero n0) n1) n2.

  (* the a,b,c coefficients and da of getPointValues / getElementD / getPointD *)
  Definition coef_a (n0 n1 n2 : node F) : F * F * F :=
    ((nx n1 *. ny n2) -. (nx n2 *. ny n1),
     (nx n2 *. ny n0) -. (nx n0 *. ny n2),
     (nx n0 *. ny n1) -. (nx n1 *. ny n0)).
  Definition coef_b (n0 n1 n2 : node F) : F * F * F :=
    (ny n1 -. ny n2, ny n2 -. ny n0, ny n0 -. ny n1).
  Definition coef_c (n0 n1 n2 : node F) : F * F * F :=
    (nx n2 -. nx n1, nx n0 -. nx n2, nx n1 -. nx n0).
  (* da=(b[0]*c[1]-b[1]*c[0]) *)
  Definition coef_da (n0 n1 n2 : node F) : F :=
    let '(b0, b1, _) := coef_b n0 n1 n2 in
    let '(c0, c1, _) := coef_c n0 n1 n2 in
    (b0 *. c1) -. (b1 *. c0).

  (* PostProcessor::AECF: `if (problem->problemType == PLANAR) return 1.;` and
     `if (!IsExternal) return 1;` — the model covers these two exits only *)
  Definition aecf : F := one.

  (* `I*c` with `#define I CComplex(0,1)`: CComplex::operator*(double) *)
  Definition I_times (c : F) : F * F := (zero *. c, one *. c).

  (* ElectrostaticsPostProcessor::getElementD:
       CComplex E(0);
       for i: E-=node->V*(b[i]+I*c[i])/(da*LengthConv[problem->LengthUnits]);
       elem->D = eo*(E.re*mat->ex + I*E.im*mat->ey)/AECF(elem);                          *)
  Definition gradE_step (den : F) (E : F * F) (V b c : F) : F * F :=
    let ic := I_times c in                              (* I*c[i] *)
    let s := (b +. fst ic, snd ic) in                   (* operator+(double, CComplex) *)
    let t := (V *. fst s, V *. snd s) in                (* operator*(double, CComplex) *)
    let q := (fst t /. den, snd t /. den) in            (* CComplex::operator/(double) *)
    (fst E -. fst q, snd E -. snd q).                   (* operator-= *)

  Definition element_E (lc : F) (n0 n1 n2 : node F) : F * F :=
    let '(b0, b1, b2) := coef_b n0 n1 n2 in
    let '(c0, c1, c2) := coef_c n0 n1 n2 in
    let den := coef_da n0 n1 n2 *. lc in
    gradE_step den (gradE_step den (gradE_step den (zero, zero) (nv n0) b0 c0) (nv n1) b1 c1) (nv n2) b2 c2.

  Definition element_D (lc eo : F) (m : mat F) (n0 n1 n2 : node F) : F * F :=
    let E := element_E lc n0 n1 n2 in
    let iE := I_times (snd E) in                        (* I*E.im *)
    let iEy := (fst iE *. mey m, snd iE *. mey m) in    (* (I*E.im)*mat->ey *)
    let s := ((fst E *. mex m) +. fst iEy, snd iEy) in  (* E.re*mat->ex + ... *)
    let d := (eo *. fst s, eo *. snd s) in              (* eo*(...) *)
    (fst d /. aecf, snd d /. aecf).                     (* /AECF(elem) *)

  (* HPProc::getElementD (materials with a constant conductivity, npts==0):
       CComplex E(0); CComplex kn(0);
       for i: E-=node->T*(b[i]+I*c[i])/(da*LengthConv[problem->LengthUnits]);   (same text as epproc)
              kn+=bprop->GetK(node->T)/3.;            GetK: `if (npts==0) return (Kx+I*Ky);`
       elem->D=(E.re*kn.re + I*E.im*kn.im)/AECF(elem);                                        *)
  Definition heat_K (m : mat F) : F * F :=
    let iky := I_times (mey m) in (mex m +. fst iky, snd iky).       (* Kx+I*Ky *)
  Definition kn_step (m : mat F) (kn : F * F) : F * F :=
    let k := heat_K m in
    let k3 := (fst k /. three, snd k /. three) in                    (* GetK(T)/3. *)
    (fst kn +. fst k3, snd kn +. snd k3).                            (* kn+= *)
  Definition element_F (lc : F) (m : mat F) (n0 n1 n2 : node F) : F * F :=
    let E := element_E lc n0 n1 n2 in
    let kn := kn_step m (kn_step m (kn_step m (zero, zero))) in
    let iE := I_times (snd E) in                        (* I*E.im *)
    let iEk := (fst iE *. snd kn, snd iE *. snd kn) in  (* (I*E.im)*kn.im *)
    let s := ((fst E *. fst kn) +. fst iEk, snd iEk) in (* E.re*kn.re + ... *)
    (fst s /. aecf, snd s /. aecf).

  (* FPProc::GetElementB, planar problems, real parts (static problems: A.im = 0):
       elm.B1=0; elm.B2=0;
       for i: elm.B1 += meshnode[n[i]].A * c[i] / (da * LengthConv[LengthUnits]);
              elm.B2 -= meshnode[n[i]].A * b[i] / (da * LengthConv[LengthUnits]);              *)
  Definition element_B (lc : F) (m : mat F) (n0 n1 n2 : node F) : F * F :=
    let '(b0, b1, b2) := coef_b n0 n1 n2 in
    let '(c0, c1, c2) := coef_c n0 n1 n2 in
    let den := coef_da n0 n1 n2 *. lc in
    (((zero +. (nv n0 *. c0) /. den) +. (nv n1 *. c1) /. den) +. (nv n2 *. c2) /. den,
     ((zero -. (nv n0 *. b0) /. den) -. (nv n1 *. b1) /. den) -. (nv n2 *. b2) /. den).

  (* parseSolution: elm.blk = labellist[elm.lbl]->BlockType;  OpenDocument: ctr, rsqr, element field
     ([fld] = getElementD of the post-processor at hand) *)
  Definition load_elem_gen (fld : mat F -> node F -> node F -> node F -> F * F)
             (N : list (node F)) (L : list (label F)) (Ms : list (mat F)) (r : relem) : elem F :=
    let b := lblk (nth (rlbl r) L dlabel) in
    let n0 := getn N (r0 r) in
    let n1 := getn N (r1 r) in
    let n2 := getn N (r2 r) in
    let c := ctr_of n0 n1 n2 in
    let D := fld (nth b Ms dmat) n0 n1 n2 in
    mkElem (r0 r) (r1 r) (r2 r) (rlbl r) b (fst c) (snd c) (rsqr_of c n0 n1 n2) (fst D) (snd D).

  Definition load_gen (fld : mat F -> node F -> node F -> node F -> F * F)
             (N : list (node F)) (R : list relem) (L : list (label F)) (Ms : list (mat F)) (lc eo : F) : mesh F :=
    mkMesh N (map (load_elem_gen fld N L Ms) R) L Ms lc eo.

  (* electrostatics / heat flow / magnetics *)
  Definition load_elem N L Ms (lc eo : F) (r : relem) : elem F := load_elem_gen (element_D lc eo) N L Ms r.
  Definition load N R L Ms (lc eo : F) : mesh F := load_gen (element_D lc eo) N R L Ms lc eo.
  Definition load_h N R L Ms (lc eo : F) : mesh F := load_gen (element_F lc) N R L Ms lc eo.
  Definition load_m N R L Ms (lc eo : F) : mesh F := load_gen (element_B lc) N R L Ms lc eo.

  (* the label loop at the end of OpenDocument: one InTriangle per block label, in order *)
  Fixpoint label_queries (test : mesh F -> F -> F -> Z -> bool) (M : mesh F) (k : Z) (L : list (label F)) : Z :=
    match L with
    | [] => k
    | l :: L' => label_queries test M (snd (in_triangle test M k (lx l) (ly l))) L'
    end.

  (* ---------------------------------------------------------------------------------- *)
  (* getPointValues                                                                     *)
  (* ---------------------------------------------------------------------------------- *)
  (* u.V=0; for i: u.V+=V_i*(a[i]+b[i]*x+c[i]*y)/(da);   (same text for T in hpproc and for
     A.re of planar problems in fpproc) *)
  Definition interp (n0 n1 n2 : node F) (x y : F) : F :=
    let '(a0, a1, a2) := coef_a n0 n1 n2 in
    let '(b0, b1, b2) := coef_b n0 n1 n2 in
    let '(c0, c1, c2) := coef_c n0 n1 n2 in
    let da := coef_da n0 n1 n2 in
    ((zero +. (nv n0 *. ((a0 +. b0 *. x) +. c0 *. y)) /. da)
          +. (nv n1 *. ((a1 +. b1 *. x) +. c1 *. y)) /. da)
          +. (nv n2 *. ((a2 +. b2 *. x) +. c2 *. y)) /. da.

  Definition elem_nodes (M : mesh F) (e : elem F) : node F * node F * node F :=
    (getn (nodes M) (p0 e), getn (nodes M) (p1 e), getn (nodes M) (p2 e)).

  (* ElectrostaticsPostProcessor::getPointValues(x,y,k,u) with Smooth == false.
     Result: (V, D.re, D.im, E.re, E.im, e.re, e.im, nrg) *)
  Definition point_values (M : mesh F) (k : Z) (x y : F) : F * F * F * F * F * F * F * F :=
    let e := gete (elems M) k in
    let '(n0, n1, n2) := elem_nodes M e in
    let D := (eDx e, eDy e) in                          (* getPointD: if(!Smooth){ D=elm.D; return; } *)
    let m := nth (blk e) (mats M) dmat in
    let iey := I_times (mey m) in
    let eps := (mex m +. fst iey, snd iey) in           (* u.e=prop->ex + I*prop->ey; *)
    let eps := (fst eps /. aecf, snd eps /. aecf) in    (* u.e/=AECF(elem,x+I*y); *)
    let V := interp n0 n1 n2 x y in
    let Ex := fst D /. (fst eps *. eps0 M) in           (* u.E.re = u.D.re/(u.e.re*eo); *)
    let Ey := snd D /. (snd eps *. eps0 M) in
    (* u.nrg=Re(u.D*conj(u.E))/2.;  conj = (re,-im); operator* re part = re*z.re - im*z.im *)
    let nrg := ((fst D *. Ex) -. (snd D *. aneg A Ey)) /. aofZ A 2 in
    (V, fst D, snd D, Ex, Ey, fst eps, snd eps, nrg).

  (* HPProc::getPointValues(x,y,k,u), Smooth == false, constant-conductivity material:
       getPointD(x,y,u.F,*elem);  u.T = interpolant;  u.K=mat->GetK(u.T); u.K/=AECF(elem,x+I*y);
       u.G.re = u.F.re/(u.K.re); u.G.im = u.F.im/(u.K.im);
     Result: (T, F.re, F.im, G.re, G.im, K.re, K.im, 0) *)
  Definition point_values_h (M : mesh F) (k : Z) (x y : F) : F * F * F * F * F * F * F * F :=
    let e := gete (elems M) k in
    let '(n0, n1, n2) := elem_nodes M e in
    let Fl := (eDx e, eDy e) in
    let T := interp n0 n1 n2 x y in
    let K := heat_K (nth (blk e) (mats M) dmat) in
    let K := (fst K /. aecf, snd K /. aecf) in
    (T, fst Fl, snd Fl, fst Fl /. fst K, snd Fl /. snd K, fst K, snd K, zero).

  (* FPProc::GetPointValues(x,y,k,u), planar static problem, Smooth == false: A.re and B only
     (mu, H, energy go through CMMaterialProp and are not modelled).
     Result: (A.re, B1.re, B2.re, 0, 0, 0, 0, 0) *)
  Definition point_values_m (M : mesh F) (k : Z) (x y : F) : F * F * F * F * F * F * F * F :=
    let e := gete (elems M) k in
    let '(n0, n1, n2) := elem_nodes M e in
    (interp n0 n1 n2 x y, eDx e, eDy e, zero, zero, zero, zero, zero).

  (* getPointValues(x,y,u): `int k = InTriangle(x,y); if (k<0) return false;` *)
  Definition query_gen (pv : mesh F -> Z -> F -> F -> F * F * F * F * F * F * F * F)
             (test : mesh F -> F -> F -> Z -> bool) (M : mesh F) (k : Z) (x y : F)
    : Z * (Z * option (F * F * F * F * F * F * F * F)) :=
    let '(r, k') := in_triangle test M k x y in
    (k', (r, if (r <? 0)%Z then None else Some (pv M r x y))).
  Definition query := query_gen point_values.

  (* a sequence of queries, threading the static k *)
  Fixpoint queries_gen (pv : mesh F -> Z -> F -> F -> F * F * F * F * F * F * F * F)
           (test : mesh F -> F -> F -> Z -> bool) (M : mesh F) (k : Z) (Q : list (F * F))
    : list (Z * option (F * F * F * F * F * F * F * F)) :=
    match Q with
    | [] => []
    | (x, y) :: Q' => let '(k', r) := query_gen pv test M k x y in r :: queries_gen pv test M k' Q'
    end.
  Definition queries := queries_gen point_values.
  Definition queries_h := queries_gen point_values_h.
  Definition queries_m := queries_gen point_values_m.

  (* printable form for the correspondence (no option): zeros when not found *)
  Definition flat_result (r : Z * option (F * F * F * F * F * F * F * F)) : Z * (F * F * F * F * F * F * F * F) :=
    match snd r with
    | Some v => (fst r, v)
    | None => (fst r, (zero, zero, zero, zero, zero, zero, zero, zero))
    end.

  (* what the correspondence harness prints about a loaded mesh *)
  Definition dump_elem (e : elem F) : nat * nat * nat * nat * nat * F * F * F * F * F :=
    (p0 e, p1 e, p2 e, lbl e, blk e, cx e, cy e, rsqr e, eDx e, eDy e).
End Locate.
