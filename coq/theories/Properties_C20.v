(* Properties_C20.v — theorem statements for property C20 (a missing input is reported as failure,
   never a crash or a bogus result).  Proofs live in FaultsProofs.v; the model in Faults.v; the
   table of load steps in gen/FaultTable.v is regenerated from /repo on every run; the list of
   rows known to break the property on the current /repo is FaultExceptions.v (committed).

   property_at table t e  (Faults.v)  :=
     (some input that tool t needs under environment e is not Present ->
          the run ends with `Exit c`, process status c mod 256 <> 0, nothing written)
  /\ (no needed input is missing ->
          the run ends with `Exit c`, status 0, and the result written iff t produces one).
   `Abnormal` (use of data whose load failure was ignored) satisfies neither clause.

   Domain: 12 tools/commands x all environments  role -> {Present, Absent, Unreadable}  over 12
   roles, x {problem names a previous solution} x {problem has hole markers} x {problem has
   periodic boundary conditions}; it is finite up to what the interpreter can observe
   (C20_finite_domain: 2^12 * 8 = 2^15 representatives, each run for each of the 12 tools). *)
From Coq Require Import ZArith List String.
From XF Require Import Faults FaultExceptions FaultsProofs.
From XF.gen Require Import FaultTable.
Import ListNotations.

(* The property holds for every tool and every environment, except for runs decided by a row of
   the committed exception list. *)
Theorem C20_fault_table_ok : forall (t : tool) (e : env),
  ~ In (t, decider table t e) exceptions -> property_at table t e.
Proof. exact fault_table_ok. Qed.
Print Assumptions C20_fault_table_ok.

(* Every listed exception is real: some environment makes that row decide a run that breaks the
   property (so a repaired row cannot stay on the list). *)
Theorem C20_exceptions_refuted : forall x : exc, In x exceptions ->
  exists e, decider table (fst x) e = snd x /\ ~ property_at table (fst x) e.
Proof. exact exceptions_refuted. Qed.
Print Assumptions C20_exceptions_refuted.

(* Full strength: with an empty exception list the property holds for all tools and environments. *)
Theorem C20_full_when_no_exceptions : exceptions = [] ->
  forall (t : tool) (e : env), property_at table t e.
Proof. exact full_when_no_exceptions. Qed.
Print Assumptions C20_full_when_no_exceptions.

(* ... and as long as the list is not empty the faithful table refutes the property as stated. *)
Theorem C20_refuted_when_exceptions : exceptions <> [] ->
  exists (t : tool) (e : env), ~ property_at table t e.
Proof. exact refuted_when_exceptions. Qed.
Print Assumptions C20_refuted_when_exceptions.

(* The bound of the finite domain the two computed checks enumerate. *)
Theorem C20_finite_domain :
  (forall t, In t all_tools) /\ (forall r, In r all_roles) /\
  List.length all_tools = 12 /\ List.length all_roles = 12 /\ Z.of_nat (List.length all_envs) = 32768%Z /\
  (forall e, exists e', In e' all_envs /\ same_presence e e').
Proof. exact finite_domain. Qed.
Print Assumptions C20_finite_domain.

(* non-vacuity: with every input present every tool of the table completes with status 0 *)
Example C20_all_present_completes : forall t p h q,
  run table t (env_with [] p h q) = Exit 0 (produces_output t).
Proof. exact all_present_completes. Qed.
