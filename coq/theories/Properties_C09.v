From XF Require Import Arith Sparse.
Theorem placeholder : True. Proof. exact I. Qed.
Print Assumptions placeholder.
