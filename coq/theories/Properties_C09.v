(* Properties_C09.v — theorem statements for property C09 (linear solvers), each closed by
   [exact] of a lemma proved in SparseProofs.v / CSparseProofs.v.  Nothing else lives here. *)
From Coq Require Import ZArith List Bool Arith Lia Reals Lra.
From XF Require Import Arith Sparse SparseProofs CSparse CSparseProofs.
Import ListNotations.
Local Open Scope R_scope.

(* -- matrix entry set/get/add is exact and symmetric regardless of insertion order ------ *)
(* generic in the arithmetic: holds for the binary64 reading as well as for the reals *)
Theorem C09_get_after_put : forall (F : Type) (A : Arith F) (M : matrixT F) (v : F) (p q : nat),
  mat_ok M -> (p < length M)%nat -> (q < length M)%nat ->
  mget A (mput M v p q) p q = v /\ mget A (mput M v p q) q p = v.
Proof. intros. split; [|rewrite mget_sym]; apply mget_mput_same; auto. Qed.
Print Assumptions C09_get_after_put.

Theorem C09_put_touches_nothing_else : forall (F : Type) (A : Arith F) (M : matrixT F) (v : F) (p q p' q' : nat),
  mat_ok M -> (p < length M)%nat -> (q < length M)%nat ->
  ~ ((p' = p /\ q' = q) \/ (p' = q /\ q' = p)) ->
  mget A (mput M v p q) p' q' = mget A M p' q'.
Proof. exact (fun F A => mget_mput_other A). Qed.
Print Assumptions C09_put_touches_nothing_else.

Theorem C09_get_symmetric : forall (F : Type) (A : Arith F) (M : matrixT F) (p q : nat),
  mget A M p q = mget A M q p.
Proof. exact (fun F A => mget_sym A). Qed.
Print Assumptions C09_get_symmetric.

(* refinement: any history of Put from Create is the abstract symmetric map with last-writer-wins *)
Theorem C09_puts_refine_abstract_map : forall (F : Type) (A : Arith F) (n : nat) (h : list (F * nat * nat)),
  in_range n h -> forall p q,
  mget A (puts (mcreate A n) h) p q =
  match last_write h p q with Some w => w | None => mget A (mcreate A n) p q end.
Proof.
  intros F A n h Hr p q.
  pose proof (abs_puts A h (mcreate A n) (mcreate_ok A n)) as G. unfold abs in G.
  rewrite G by (rewrite mcreate_length; auto). apply aputs_last_write.
Qed.
Print Assumptions C09_puts_refine_abstract_map.

Theorem C09_insertion_order_independent : forall (F : Type) (A : Arith F) (n : nat) (h1 h2 : list (F * nat * nat)),
  in_range n h1 -> in_range n h2 ->
  (forall p q, last_write h1 p q = last_write h2 p q) ->
  forall p q, mget A (puts (mcreate A n) h1) p q = mget A (puts (mcreate A n) h2) p q.
Proof. exact (fun F A => puts_order_independent A). Qed.
Print Assumptions C09_insertion_order_independent.

(* -- MultA is the product with the abstract symmetric matrix (real reading) -------------- *)
Theorem C09_multA_is_matrix_vector_product : forall (M : matrixT R) (X : vecT R),
  mat_wf M ->
  length (multA RA M X) = length M /\
  forall k, (k < length M)%nat ->
    vget RA (multA RA M X) k = rsum (fun j => mget RA M k j * vget RA X j) (length M).
Proof. exact multA_spec. Qed.
Print Assumptions C09_multA_is_matrix_vector_product.

(* -- PCG: on a reported convergence the exit test was passed by the TRUE residual b - A V - *)
Theorem C09_pcg_exit_on_true_residual : forall (L : lin (F:=R)) (flag : bool) (fuel : nat) (V : vecT R) (it : nat),
  mat_wf (lM L) -> length (lb L) = length (lM L) -> length (lV L) = length (lM L) ->
  ln L = length (lM L) ->
  pcg RA fuel L flag = (V, it, 1%nat) ->
  let res_o := dot RA (multPC RA (lM L) (llam L) (lb L)) (lb L) in
  (res_o = 0 /\ V = lV L) \/
  (res_o <> 0 /\ exists Rv,
     (length Rv = length (lM L) /\
      forall k, (k < length (lM L))%nat ->
        vget RA Rv k = vget RA (lb L) k - rsum (fun j => mget RA (lM L) k j * vget RA V j) (length (lM L))) /\
     ~ (lprec L < sqrt (dot RA (multPC RA (lM L) (llam L) Rv) Rv / res_o))).
Proof. exact pcg_converged. Qed.
Print Assumptions C09_pcg_exit_on_true_residual.

(* -- SetValue: exactly the solutions of the constrained system --------------------------- *)
Theorem C09_setvalue_constrained_system : forall (L : lin (F:=R)) (i : nat) (x : R) (V : vecT R),
  mat_wf (lM L) -> ln L = length (lM L) -> length (lb L) = length (lM L) ->
  (i < length (lM L))%nat -> sv_covered L i -> mget RA (lM L) i i <> 0 ->
  let L' := setvalue RA L i x in
  (forall k, (k < length (lM L))%nat -> Ax (lM L') V k = vget RA (lb L') k) <->
  (vget RA V i = x /\
   forall k, (k < length (lM L))%nat -> k <> i -> Ax (lM L) V k = vget RA (lb L) k).
Proof. exact setvalue_equiv. Qed.
Print Assumptions C09_setvalue_constrained_system.

(* -- Periodicity / AntiPeriodicity: exactly the solutions of the tied (reduced) system ---- *)
Theorem C09_tie_constrained_system : forall (anti : bool) (L : lin (F:=R)) (i j : nat) (V : vecT R),
  mat_wf (lM L) -> ln L = length (lM L) -> length (lb L) = length (lM L) ->
  (i < j)%nat -> (j < length (lM L))%nat ->
  let s : R := if anti then -1 else 1 in
  (mget RA (lM L) i i + mget RA (lM L) j j) / 2 - s * mget RA (lM L) i j <> 0 ->
  let L' := if anti then antiperiodicity RA L i j else periodicity RA L i j in
  length (lM L') = length (lM L) /\ mat_wf (lM L') /\
  ((forall k, (k < length (lM L))%nat -> Ax (lM L') V k = vget RA (lb L') k) <->
   (vget RA V j = s * vget RA V i /\
    (forall k, (k < length (lM L))%nat -> k <> i -> k <> j -> Ax (lM L) V k = vget RA (lb L) k) /\
    Ax (lM L) V i + s * Ax (lM L) V j = vget RA (lb L) i + s * vget RA (lb L) j)).
Proof. exact tie_system_equiv. Qed.
Print Assumptions C09_tie_constrained_system.

Theorem C09_tie_argument_order_irrelevant : forall (anti : bool) (L : lin (F:=R)) (i j : nat),
  tie anti L i j = tie anti L j i.
Proof. exact tie_comm. Qed.
Print Assumptions C09_tie_argument_order_irrelevant.

(* -- non-vacuity: the hypotheses are met by every matrix the op scripts can build -------- *)
Example C09_hypotheses_satisfiable : forall (n : nat) (h : list (R * nat * nat)),
  in_range n h -> mat_wf (puts (mcreate RA n) h) /\ length (puts (mcreate RA n) h) = n.
Proof.
  intros n h Hr. destruct (mat_wf_puts h (mcreate RA n) (mat_wf_mcreate n)) as [H1 H2].
  - rewrite mcreate_length. exact Hr.
  - split; [exact H1|]. rewrite H2. apply mcreate_length.
Qed.

(* -- complex-symmetric solver: a reported success was decided on the RECOMPUTED residual ----
   PBCGSolve's own stopping test uses a recursively updated residual, which drifts in binary64
   (found by this check: true relative residual 2.6 for a reported 1e-8 on a low-frequency
   problem with solid conductors).  PBCGSolveMod ends with a restart loop; for EVERY arithmetic,
   binary64 included, status 1 means: zero right-hand side, or the true residual of the returned
   vector passed "!(trueEr>Precision)", or the last restart failed to halve the true residual. *)
Theorem C09_complex_exit_on_recomputed_residual :
  forall (F : Type) (A : Arith F) (fuel : nat) (L : clin (F:=F)) (flag : bool) (V : list (F * F)) (it : nat),
  pbcgsolvemod A fuel L flag = (V, it, 1%nat) ->
  forallb (fun z => ceqb A z (azero (CA A))) (cb L) = true \/
  altb A (cprec L) (true_er A L V) = false \/
  exists l, altb A (true_er A L V) (amul A (adec A 5 (-1)) l) = false.
Proof. intros F A. exact (pbcgsolvemod_exit A). Qed.
Print Assumptions C09_complex_exit_on_recomputed_residual.

Theorem C09_complex_restart_stops_when_tolerance_met :
  forall (F : Type) (A : Arith F) (fuel : nat) (L : clin (F:=F)) (V : list (F * F)) (it r : nat),
  altb A (cprec L) (true_er A L V) = false ->
  restart_loop A (S r) fuel L V it None = (V, it, 1%nat).
Proof. intros F A fuel L V it r H. apply restart_loop_first_pass. exact H. Qed.
Print Assumptions C09_complex_restart_stops_when_tolerance_met.
