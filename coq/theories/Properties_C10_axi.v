(* Properties_C10_axi.v — theorem statements about the AXISYMMETRIC magnetics solvers that belong to C10 (scaling with the declared length unit).
   (the other parts are in Properties_C05_axi.v, Properties_C06_axi.v, Properties_C10_axi.v, Properties_C11_axi.v);
   they belong to (C05, C11, C06, C10).  Models: AsmMAxi.v (FSolver::StaticAxisymmetric; the solution is
   written by WriteStatic2D), AsmMHAxi.v (FSolver::HarmonicAxisymmetric; WriteHarmonic2D).
   Proofs: AsmMAxiProofs.v, AsmMAxiLinearProofs.v, AsmMHAxiProofs.v.  Real-number reading; complex numbers
   are pairs of reals.  Units: lengths in cm, V = A/c with c = 4 pi 1e-5, J in MA/m^2; the code's equations are
   2/(2 pi) times the SI weak form.  Names of the element data follow the code: rn[] = e_r, p[] = e_p, q[] = e_q,
   g[] = e_g (mid-side radii), R = e_R, a = e_a, a_hat = e_ah, R_hat = e_Rh, vol = e_vol = 2 R a_hat. *)
From Coq Require Import ZArith List Bool Arith Lia Reals Lra.
From XF Require Import Arith Sparse CSparse SparseProofs AsmOps AsmOpsProofs AsmE AsmEProofs AsmM AsmMProofs AsmMH AsmMHProofs
  ClosedFormProofs AsmMAxi AsmMAxiProofs AsmMAxiLinearProofs AsmMHAxi AsmMHAxiProofs.
Import ListNotations.
Local Open Scope R_scope.

(* ====================================================================================================== *)
(* C10 — change of the declared length unit                                                               *)
(* ====================================================================================================== *)

(* (a) the same drawing declared in a unit s times larger: the solver's centimetre coordinates, units[LengthUnits]
   and with it every tolerance units[LengthUnits]*1.e-06 (so the on-axis / vertical-side decisions do not change)
   carry the factor s.  The element stiffness scales with s, the source-current load with s^3, the magnet load
   with s^2; hence potentials fixed by boundary values are unchanged and source-driven potentials scale with s^2
   (currents) or s (magnets).  R_hat is a length (hypothesis; (b) derives it for the generic branch). *)
Theorem C10_axi_element_scaling_law :
  forall (AP AP' : aprob (F:=R)) (extRo extRi extZo extRo' extRi' extZo' : R) (res res' : list (nat * R * R))
         (s : R) (el : melem (F:=R)) (lg lg' : alogs (F:=R)),
  0 < s ->
  (forall t, (t < 3)%nat -> e_r AP' el t = s * e_r AP el t) ->
  (forall t, (t < 3)%nat -> e_z AP' el t = s * e_z AP el t) ->
  aunit RA (ap AP') = s * aunit RA (ap AP) ->
  e_R AP el <> 0 -> e_ah AP el <> 0 -> e_Rh AP el lg <> 0 ->
  e_Rh AP' el lg' = s * e_Rh AP el lg ->
  no_mixed_edge (ap AP) el -> no_mixed_edge (ap AP') el ->
  nth (mblk el) (mblocks (ap AP')) (dmblock RA) = nth (mblk el) (mblocks (ap AP)) (dmblock RA) ->
  e_mu AP' extRo' extRi' extZo' el = e_mu AP extRo extRi extZo el ->
  acirc_t RA (ap AP') res' el (e_R AP' el) = acirc_t RA (ap AP) res el (e_R AP el) ->
  forall j k, (j < 3)%nat -> (k < 3)%nat ->
    let r := amelem_matrices RA AP extRo extRi extZo res (el, lg) in
    let r' := amelem_matrices RA AP' extRo' extRi' extZo' res' (el, lg') in
    let blk := nth (mblk el) (mblocks (ap AP)) (dmblock RA) in
    m3get RA (fst (fst r')) j k = s * m3get RA (fst (fst r)) j k /\
    vget RA (snd (fst r')) j
      = s * s * s * (-2 * e_R AP el * (bJre blk + acirc_t RA (ap AP) res el (e_R AP el)) * e_a AP el / 3)
        + s * s * (aKmag AP el j + aKmag AP el (prv j)).
Proof. intros. apply axi_element_scaling; assumption. Qed.
Print Assumptions C10_axi_element_scaling_law.

(* (b) R_hat of the default branch (no node on the axis; generic formula and the three vertical-side formulas):
   the logarithms of the radii shift by lam = ln s, those of the ratios do not change; R_hat scales with s *)
Theorem C10_axi_r_hat_scaling :
  forall (s lam tol : R) (r0 r1 r2 l0 l1 l2 m0 m1 m2 : R),
  0 < s ->
  let rn := [r0; r1; r2] in let rn' := [s * r0; s * r1; s * r2] in
  let q := [r2 - r1; r0 - r2; r1 - r0] in let q' := [s * (r2 - r1); s * (r0 - r2); s * (r1 - r0)] in
  let Rc := (r0 + r1 + r2) / 3 in
  let lg := mkALogs (l0, l1, l2) (m0, m1, m2) in
  let lg' := mkALogs (l0 + lam, l1 + lam, l2 + lam) (m0, m1, m2) in
  - (r0 - r2) + r0 * m0 <> 0 -> - (r1 - r0) + r1 * m1 <> 0 -> - (r2 - r1) + r2 * m2 <> 0 ->
  (r2 - r1) * r0 * l0 + (r0 - r2) * r1 * l1 + (r1 - r0) * r2 * l2 <> 0 ->
  r_hat_default RA (s * tol) rn' q' (s * Rc) lg' = s * r_hat_default RA tol rn q Rc lg.
Proof. exact r_hat_default_scaling. Qed.
Print Assumptions C10_axi_r_hat_scaling.

(* (c) the geometric matrices Mx, My, Mxy (incl. the on-axis diagonal entries) scale with s *)
Theorem C10_axi_shape_scaling :
  forall (AP AP' : aprob (F:=R)) (s : R) (el : melem (F:=R)) (lg lg' : alogs (F:=R)),
  0 < s ->
  (forall t, (t < 3)%nat -> e_r AP' el t = s * e_r AP el t) ->
  (forall t, (t < 3)%nat -> e_z AP' el t = s * e_z AP el t) ->
  aunit RA (ap AP') = s * aunit RA (ap AP) ->
  e_R AP el <> 0 -> e_ah AP el <> 0 -> e_Rh AP el lg <> 0 -> e_Rh AP' el lg' = s * e_Rh AP el lg ->
  ael_shape RA (ap AP') el lg' =
    (map (Rmult s) (fst (fst (ael_shape RA (ap AP) el lg))), map (Rmult s) (snd (fst (ael_shape RA (ap AP) el lg))),
     map (Rmult s) (snd (ael_shape RA (ap AP) el lg))).
Proof. exact shape_scaling. Qed.
Print Assumptions C10_axi_shape_scaling.

