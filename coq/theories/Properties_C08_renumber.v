(* Properties_C08_renumber.v — C08 (no memory error or undefined behaviour) for the node / element
   renumbering between LoadMesh and assembly: index safety and termination.

   THE GUARD.  [renumber_guard N edges] is   2 <= N  /\  every index of the edge list is below N.
   Every mesh written by fmesher satisfies it: a mesh has at least one triangle (3 nodes) and the
   .edge file is written by Triangle (switch -e) with indices of the .node file.  Nodes without any
   edge are allowed (the periodic path of fmesher runs Triangle without -j and keeps points drawn
   outside every meshed region in the .node file; Cuthill's restart branch numbers them), and so
   are meshes with fewer lines than nodes.  (Until /repo commit e99587c the start-node search could
   loop forever when NumNodes > n_lines + 1; the guard then also needed N <= S (length edges).)
   [mesh_guard N M]: meshnode has N entries and every node index held by an element, a pbc pair or
   an air-gap quad node is below N (LoadMesh reads them from the same Triangle output).
   Model: Renumber.v (FEASolver::Cuthill, SortElements, the three SortNodes overrides); proofs:
   RenumberProofs.v; correspondence with the real solver classes: tools/props/xcm.py through
   harness/h_cuthill.cpp.  Statements only. *)
From Coq Require Import List Arith Bool ZArith Lia Permutation Sorted.
From XF Require Import Renumber RenumberProofs.
Import ListNotations.

(* Every element access of the model is checked: a result [Ok _] of rd / wr means the index was
   below the length of the vector, exactly the precondition of the C++ operator[]. *)
Theorem C08_renumber_checked_access_is_in_range :
  forall (A : Type) (l l' : list A) (i : nat) (x : A),
    (rd l i = Ok x -> i < length l) /\ (wr l i x = Ok l' -> i < length l).
Proof. exact renumber_checked_access_is_in_range_thm. Qed.
Print Assumptions C08_renumber_checked_access_is_in_range.

(* Index safety and termination of the whole of Cuthill(): under the guard the model returns [Ok]:
   no access ocon[n][nxtnum[n]], numcon[ocon[n0][j]], newnum[ocon[n0][i]], nxtnum[newnum[n0]+1],
   nxtnum[n], newnum[pbclist[i].x], newnum[meshele[i].p[j]], newnum[newnum[i]], meshnode[j],
   Score[j+gap], meshele[j+gap], ... is out of range, and no loop needs more than the fuel the
   model hands it: N turns of the numbering do-while, N+1 swaps per while of SortNodes, NumEls+1
   combs of SortElements (the start-node search is bounded by its structure). *)
Theorem C08_renumber_no_out_of_range_access_and_termination :
  forall (Nd P T W : Type) (N : nat) (edges : list (nat * nat)) (M : mesh Nd P T W),
    renumber_guard N edges -> mesh_guard N M -> exists r, cuthill N edges M = Ok r.
Proof. exact renumber_no_out_of_range_access_and_termination_thm. Qed.
Print Assumptions C08_renumber_no_out_of_range_access_and_termination.

(* The start-node search ("if(j==2) break;", /repo commit e99587c) ends for EVERY node count and
   EVERY content of numcon: it is a loop over i = 1..NumNodes-1 that can only stop early, so it can
   never run out of fuel (it has none); and for every node count >= 1 and every edge list with
   indices in range it returns a start node below NumNodes.  (This replaces the former
   C08_renumber_start_search_hang_refuted, which was about "if(j==2) i=n_lines;".) *)
Theorem C08_renumber_start_search_terminates :
  (forall (N : nat) (numcon : list nat) (e : rerr), start_search N numcon = Err e -> e = OutOfRange) /\
  (forall (N : nat) (edges : list (nat * nat)),
     1 <= N -> edges_ok N edges ->
     exists numcon j n0, count_pass N edges = Ok numcon /\ start_search N numcon = Ok (j, n0) /\ n0 < N).
Proof. exact renumber_start_search_terminates_thm. Qed.
Print Assumptions C08_renumber_start_search_terminates.

(* the 7-node forest with 5 lines on which the old search never ended (outside the old guard, inside
   the new one): the search stops at node 1 with (j, n0) = (2, 0) and the numbering goes through;
   tools/props/xcm.py runs the same input, and a periodic mesh with 104 stray points written by the
   real fmesher, through the real solvers on every run *)
Theorem C08_renumber_former_hang_forest_terminates :
  renumber_guard 7 forest_edges /\ ~ 7 <= S (length forest_edges) /\
  count_pass 7 forest_edges = Ok forest_numcon /\ start_search 7 forest_numcon = Ok (2, 0) /\
  numbering 7 forest_edges =
  Ok (forest_numcon, [[2; 1]; [3; 0]; [0]; [1]; [6]; [6]; [4; 5]], [0; 2; 1; 3; 4; 6; 5]).
Proof. exact renumber_former_hang_forest_terminates_thm. Qed.
Print Assumptions C08_renumber_former_hang_forest_terminates.

(* The numbering do-while (fuel N in [numbering]) ends within NumNodes turns, whether the mesh is
   connected or not, and newnum is then a permutation of 0..NumNodes-1. *)
Theorem C08_renumber_numbering_ends_within_NumNodes_turns_with_a_permutation :
  forall (N : nat) (edges : list (nat * nat)),
    renumber_guard N edges ->
    exists numcon ocon nn, numbering N edges = Ok (numcon, ocon, nn) /\ Permutation nn (seq 0 N).
Proof. exact renumber_numbering_ends_within_NumNodes_turns_with_a_permutation_thm. Qed.
Print Assumptions C08_renumber_numbering_ends_within_NumNodes_turns_with_a_permutation.

(* SortNodes' in-place loop on ANY permutation: no out-of-range access, every while ends within the
   fuel, newnum ends as the identity and meshnode is the scatter of the specification. *)
Theorem C08_renumber_sortnodes_terminates_for_every_permutation :
  forall (Nd : Type) (N : nat) (nn : list nat) (nodes : list Nd),
    Permutation nn (seq 0 N) -> length nodes = N ->
    sort_nodes N nn nodes = Ok (seq 0 N, sort_nodes_spec nn nodes).
Proof. exact renumber_sortnodes_terminates_for_every_permutation_thm. Qed.
Print Assumptions C08_renumber_sortnodes_terminates_for_every_permutation.

(* SortElements returns for every element list *)
Theorem C08_renumber_sortelements_terminates :
  forall (P : Type) (ele : list (elem P)), exists ele', sort_elements ele = Ok ele'.
Proof. exact renumber_sortelements_terminates_thm. Qed.
Print Assumptions C08_renumber_sortelements_terminates.

(* Outside the guard: "2 <= N" cannot be weakened to "1 <= N".  NumNodes = 1 (one node with a loop
   edge, all indices in range): the do-while reads nxtnum[newnum[n0]+1] = nxtnum[1] of a one-entry
   vector (hand-made files only: fmesher never writes a one-node mesh; the build with libstdc++
   assertions aborts there, replayed by tools/props/xcm.py when that build is available). *)
Theorem C08_renumber_single_node_out_of_range_refuted :
  exists (N : nat) (edges : list (nat * nat)),
    1 <= N /\ edges_ok N edges /\ numbering N edges = Err OutOfRange.
Proof. exact renumber_single_node_out_of_range_refuted_thm. Qed.
Print Assumptions C08_renumber_single_node_out_of_range_refuted.

(* the hypotheses are satisfiable *)
Example C08_renumber_guards_satisfiable : renumber_guard 4 ex_edges /\ mesh_guard 4 ex_mesh.
Proof. exact ex_guards. Qed.

Example C08_renumber_run_on_two_triangles :
  cuthill 4 ex_edges ex_mesh =
  Ok (mkResult [1; 0; 2; 3] 3
        (mkMesh [101; 100; 102; 103] [((1, 0, 2), 7); ((1, 2, 3), 8)] [(0, 3, true)] [[((1, 0, 2, 3), tt)]])).
Proof. exact ex_run. Qed.
